/-
  Csvq.Props.C12Shapes — property C12, the step from the Go closures to the parallel shapes as a proof obligation.

  extract/shapefacts regenerates on every run, from lib/query, every fan-out to goroutines and the class of every
  write a worker makes to a variable it shares (Gen/ShapeFacts.lean).  Model/Shapes.lean says what each class means as
  a function of the scheduler's trace.  Here:
    * every meaning except `ordered` is proved independent of the schedule, and — for the data-parallel ones — of how
      the indices were cut into worker ranges (by reduction to the shape theorems of Props/C12.lean);
    * appending to a shared list under a mutex is proved to DEPEND on the schedule;
    * `gen_worker_shapes_ok` evaluates, in the kernel, that no regenerated fact is read as order-dependent, with the
      reviewed exception table below for the guarded writes that exist today, and `gen_reviewed_exceptions_exact`
      pins that table against the regenerated facts: a NEW guarded append / assignment / map insert / atomic / pool
      (and one that disappeared) is a broken obligation;
    * the uses of the per-worker pieces after the join, `MergeRecordSetList`, the loops of the two drivers, the reads at
      foreign indices and every `range` over a map in lib/query are regenerated and checked alike.
  Property theorems only.
-/
import Csvq.Model.Shapes
import Csvq.Lemmas.Shapes
import Csvq.Gen.ShapeFacts
import Csvq.Props.C12
namespace Csvq.C12
open Csvq Csvq.Shapes

/-! ## every kind of write but the ordered one is independent of the schedule -/

/-- slot-wise writes: the store after ANY interleaving depends only on which indices were handed out -/
theorem slot_indep_of_cut {β : Type} (f : Nat → β) (c1 c2 : List (List Nat)) (t1 t2 : List (Nat × Nat))
    (h : c1.flatten = c2.flatten) (h1 : Interleave c1 t1) (h2 : Interleave c2 t2) :
    slotStore f t1 = slotStore f t2 := by
  funext j
  rw [slotStore_eq, slotStore_eq]
  have := (order_perm_of_cuts h h1 h2).mem_iff (a := j)
  by_cases hj : j ∈ order t1
  · rw [if_pos hj, if_pos (this.mp hj)]
  · rw [if_neg hj, if_neg (fun h' => hj (this.mpr h'))]

/-- with the real ranges: `n` workers over `RecordRange`, under any schedule, fill exactly the slots `0 … len-1`, slot
    `j` with `f j` — the sequential map of `run_over_ranges_is_map`, whatever `n` and the scheduler are -/
theorem run_fills_slots {β : Type} (f : Nat → β) (len n : Nat) (hn : 0 < n) (tr : List (Nat × Nat))
    (h : Interleave ((List.range n).map (Csvq.ForkJoin.rrIndices len n)) tr) (j : Nat) :
    slotStore f tr j = if j < len then some (f j) else none := by
  rw [slotStore_eq]
  have hp := (interleave_perm h).mem_iff (a := j)
  rw [← List.flatMap_def, record_ranges_tile len n hn, List.mem_range] at hp
  by_cases hj : j < len
  · rw [if_pos (hp.mpr hj), if_pos hj]
  · rw [if_neg (fun h' => hj (hp.mp h')), if_neg hj]

/-- per-worker pieces read in worker order are the workers' lists mapped — no trace of the schedule is left -/
theorem pieces_are_chunks {γ : Type} (g : List Nat → γ) (cs : List (List Nat)) (tr : List (Nat × Nat))
    (h : Interleave cs tr) : pieces g cs.length tr = cs.map g := by
  rw [← map_range_getD g cs]
  simp only [pieces]
  apply List.map_congr_left
  intro k _
  rw [interleave_own h k]

/-- hence pieces combined by anything that is a function of the concatenation (a list homomorphism) are independent
    of the cut and of the schedule -/
theorem pieces_indep_of_cut {γ δ : Type} (g : List Nat → γ) (combine : List γ → δ) (spec : List Nat → δ)
    (hom : ∀ cs : List (List Nat), combine (cs.map g) = spec cs.flatten)
    (c1 c2 : List (List Nat)) (t1 t2 : List (Nat × Nat))
    (h : c1.flatten = c2.flatten) (h1 : Interleave c1 t1) (h2 : Interleave c2 t2) :
    combine (pieces g c1.length t1) = combine (pieces g c2.length t2) := by
  rw [pieces_are_chunks g c1 t1 h1, pieces_are_chunks g c2 t2 h2, hom, hom, h]

/-- the filter shape (`filter_chunks_indep`) is such a homomorphism … -/
theorem filter_pieces_indep (p : Nat → Bool) (c1 c2 : List (List Nat)) (t1 t2 : List (Nat × Nat))
    (h : c1.flatten = c2.flatten) (h1 : Interleave c1 t1) (h2 : Interleave c2 t2) :
    (pieces (List.filter p) c1.length t1).flatten = (pieces (List.filter p) c2.length t2).flatten :=
  pieces_indep_of_cut (List.filter p) List.flatten (List.filter p) (filter_chunks_indep p) c1 c2 t1 t2 h h1 h2

/-- … the join shape (`join_chunks_indep`: InnerJoin / OuterJoin's `recordsList`, concatenated by MergeRecordSetList) … -/
theorem join_pieces_indep {β γ : Type} (j : Nat → List β → List γ) (right : List β)
    (c1 c2 : List (List Nat)) (t1 t2 : List (Nat × Nat))
    (h : c1.flatten = c2.flatten) (h1 : Interleave c1 t1) (h2 : Interleave c2 t2) :
    (pieces (fun c => c.flatMap fun l => j l right) c1.length t1).flatten
      = (pieces (fun c => c.flatMap fun l => j l right) c2.length t2).flatten :=
  pieces_indep_of_cut _ List.flatten (fun l => l.flatMap fun l => j l right) (join_chunks_indep j right) c1 c2 t1 t2 h h1 h2

/-- … and the GROUP BY shape (`group_indep_of_cut`: View.group's `groupsList` / `groupKeysList`) -/
theorem group_pieces_indep {κ : Type} [DecidableEq κ] (key : Nat → κ)
    (c1 c2 : List (List Nat)) (t1 t2 : List (Nat × Nat))
    (h : c1.flatten = c2.flatten) (h1 : Interleave c1 t1) (h2 : Interleave c2 t2) :
    groupImpl (pieces (List.map fun i => (key i, i)) c1.length t1)
      = groupImpl (pieces (List.map fun i => (key i, i)) c2.length t2) := by
  refine pieces_indep_of_cut (List.map fun i => (key i, i)) groupImpl (fun l => groupImpl [l.map fun i => (key i, i)]) ?_
    c1 c2 t1 t2 h h1 h2
  intro cs
  apply group_indep_of_cut
  simp [List.map_flatten]

/-- an accumulator whose updates commute (a counter, a set of flags, a write under `index == c`) -/
theorem accum_indep_of_cut {σ : Type} (op : Nat → σ → σ) (init : σ) (comm : ∀ i j s, op i (op j s) = op j (op i s))
    (c1 c2 : List (List Nat)) (t1 t2 : List (Nat × Nat))
    (h : c1.flatten = c2.flatten) (h1 : Interleave c1 t1) (h2 : Interleave c2 t2) :
    accum op init t1 = accum op init t2 := by
  rw [accum_eq_foldl_order, accum_eq_foldl_order]
  exact (order_perm_of_cuts h h1 h2).foldl_eq' (fun x _ y _ z => comm y x z) init

/-- `replacedCount++` under the mutex -/
theorem counter_commutes (w : Nat → Nat) (i j s : Nat) : (s + w j) + w i = (s + w i) + w j := by omega

/-- `replacedRecord[j] = true` under the mutex: a set -/
theorem flag_set_commutes (h : Nat → Option Nat) (i j : Nat) (s : Nat → Bool) :
    flagSet h i (flagSet h j s) = flagSet h j (flagSet h i s) := by
  funext x
  simp only [flagSet, Bool.or_assoc]
  rw [Bool.or_comm (h j == some x)]

/-- `if rIdx == 0 { hfields = … }`: whichever worker gets index `c` writes the same value -/
theorem single_writer_commutes {σ : Type} (c : Nat) (v : σ) (i j : Nat) (s : σ) :
    writeAt c v i (writeAt c v j s) = writeAt c v j (writeAt c v i s) := by
  simp only [writeAt]
  by_cases hi : i = c <;> by_cases hj : j = c <;> simp [hi, hj]

/-- a list appended to under a mutex and then only used through something that does not see the order (sorted by a
    total key, used as a set) -/
theorem sorted_append_indep_of_cut {β δ : Type} (f : Nat → β) (post : List β → δ)
    (hpost : ∀ l1 l2 : List β, l1.Perm l2 → post l1 = post l2)
    (c1 c2 : List (List Nat)) (t1 t2 : List (Nat × Nat))
    (h : c1.flatten = c2.flatten) (h1 : Interleave c1 t1) (h2 : Interleave c2 t2) :
    post (appended f t1) = post (appended f t2) := by
  apply hpost
  have : ∀ t : List (Nat × Nat), appended f t = (order t).map f := by
    intro t; simp [appended, order, List.map_map]
  rw [this, this]
  exact (order_perm_of_cuts h h1 h2).map f

/-- `SetError`: WHETHER a fan-out failed does not depend on the schedule … -/
theorem error_flag_indep_of_cut {ε : Type} (err : Nat → Option ε)
    (c1 c2 : List (List Nat)) (t1 t2 : List (Nat × Nat))
    (h : c1.flatten = c2.flatten) (h1 : Interleave c1 t1) (h2 : Interleave c2 t2) :
    (errorOf err t1).isSome = (errorOf err t2).isSome := by
  simp only [errorOf, accum_eq_foldl_order, firstErr_foldl_isSome, Option.isSome_none, Bool.false_or]
  exact any_perm _ (order_perm_of_cuts h h1 h2)

/-- … WHICH error is reported does (two rows that both fail, two workers): the reason why the entries `error only` of
    the review table are about results, not about messages -/
theorem first_error_value_depends_on_schedule :
    ∃ (cs : List (List Nat)) (t1 t2 : List (Nat × Nat)) (err : Nat → Option Nat),
      Interleave cs t1 ∧ Interleave cs t2 ∧ errorOf err t1 ≠ errorOf err t2 := by
  refine ⟨[[0], [1]], [(0, 0), (1, 1)], [(1, 1), (0, 0)], some, ?_, ?_, by decide⟩
  · exact .step (k := 0) rfl (.step (k := 1) rfl (.done (by decide)))
  · exact .step (k := 1) rfl (.step (k := 0) rfl (.done (by decide)))

/-- a goroutine with a role of its own (the producer and the consumer of readRecordSet) computes from its own events
    only; a channel with a single sender delivers that sender's events in its order -/
theorem role_indep_of_schedule {γ : Type} (g : List Nat → γ) (k : Nat) (cs : List (List Nat)) (t1 t2 : List (Nat × Nat))
    (h1 : Interleave cs t1) (h2 : Interleave cs t2) : g (ownEvents t1 k) = g (ownEvents t2 k) := by
  rw [interleave_own h1, interleave_own h2]

/-- THE shape the facts must not contain: a result list appended to under a mutex is the schedule (C12-m16, C12-m4) -/
theorem guarded_append_depends_on_schedule :
    ∃ (cs : List (List Nat)) (t1 t2 : List (Nat × Nat)),
      Interleave cs t1 ∧ Interleave cs t2 ∧ appended id t1 ≠ appended id t2 := by
  refine ⟨[[0], [1]], [(0, 0), (1, 1)], [(1, 1), (0, 0)], ?_, ?_, by decide⟩
  · exact .step (k := 0) rfl (.step (k := 1) rfl (.done (by decide)))
  · exact .step (k := 1) rfl (.step (k := 0) rfl (.done (by decide)))

/-! ## the theorem about classified fan-outs -/

/-- every behaviour of a kind other than `ordered` has the same value under any two schedules of the same cut -/
theorem realises_indep_of_schedule {s : Sem} {b : Behaviour} (hs : s ≠ .ordered) (hr : Realises s b) :
    IndependentOfSchedule b := by
  intro cs t1 t2 h1 h2
  cases hr with
  | slot f => exact slot_indep_of_cut f cs cs t1 t2 rfl h1 h2
  | pieces g combine spec hom => exact pieces_indep_of_cut g combine spec hom cs cs t1 t2 rfl h1 h2
  | accum op init comm => exact accum_indep_of_cut op init comm cs cs t1 t2 rfl h1 h2
  | sortedAppend f post hpost => exact sorted_append_indep_of_cut f post hpost cs cs t1 t2 rfl h1 h2
  | errorFlag err => exact error_flag_indep_of_cut err cs cs t1 t2 rfl h1 h2
  | role g k => exact role_indep_of_schedule g k cs t1 t2 h1 h2
  | ordered f => exact absurd rfl hs

/-- … and, for the data-parallel kinds, under any two cuts of the same rows (any two worker counts) -/
theorem realises_indep_of_cut {s : Sem} {b : Behaviour} (hs : s ≠ .ordered) (hrole : s ≠ .role) (hr : Realises s b) :
    IndependentOfCut b := by
  intro c1 c2 t1 t2 h h1 h2
  cases hr with
  | slot f => exact slot_indep_of_cut f c1 c2 t1 t2 h h1 h2
  | pieces g combine spec hom => exact pieces_indep_of_cut g combine spec hom c1 c2 t1 t2 h h1 h2
  | accum op init comm => exact accum_indep_of_cut op init comm c1 c2 t1 t2 h h1 h2
  | sortedAppend f post hpost => exact sorted_append_indep_of_cut f post hpost c1 c2 t1 t2 h h1 h2
  | errorFlag err => exact error_flag_indep_of_cut err c1 c2 t1 t2 h h1 h2
  | role g k => exact absurd rfl hrole
  | ordered f => exact absurd rfl hs

/-- A FAN-OUT ALL OF WHOSE FACTS ARE OF THE INDEPENDENT KINDS COMPUTES THE SAME FOR EVERY SCHEDULE: if the fact list
    passes `shapesOk` and every shared variable behaves as its fact's class says (`Realises (semOf …)`), then every
    shared variable has the same value after the join whatever the scheduler did — and, when no fact is a role of a
    producer / consumer pair, whatever the worker count and the cut were -/
theorem fanout_schedule_independent (rv : List Review) (facts : List Fact) (bs : List Behaviour)
    (hok : shapesOk rv facts = true) (hreal : ∀ p ∈ facts.zip bs, Realises (semOf rv p.1) p.2) :
    (∀ p ∈ facts.zip bs, IndependentOfSchedule p.2) ∧
    ((∀ f ∈ facts, semOf rv f ≠ .role) → ∀ p ∈ facts.zip bs, IndependentOfCut p.2) := by
  have hne : ∀ f ∈ facts, semOf rv f ≠ .ordered := by
    intro f hf
    have := List.all_eq_true.mp hok f hf
    simpa using this
  refine ⟨fun p hp => ?_, fun hnr p hp => ?_⟩
  · exact realises_indep_of_schedule (hne p.1 (List.of_mem_zip hp).1) (hreal p hp)
  · exact realises_indep_of_cut (hne p.1 (List.of_mem_zip hp).1) (hnr p.1 (List.of_mem_zip hp).1) (hreal p hp)

/-! ## the regenerated facts -/

/-- THE REVIEWED EXCEPTIONS: the guarded / atomic / pooled / indirectly indexed writes that exist in lib/query today,
    each with what it is read as and why the order of the workers cannot reach a result.  Same order as the generator
    sorts the facts (function, fan-out kind, variable). -/
def reviewed : List Review := [
  -- SetError under grTaskMutex, first error wins: error only — a fan-out that sets it returns the error and no result
  -- (WHICH error is reported may differ, first_error_value_depends_on_schedule; C12 is about results)
  ("Analyze", "gm.err", "guardedAssign", .errorFlag),
  -- view.RecordSet[idx] = append(…) with idx from partitions[partitionMapKeys[i]]: the partitions are the classes of a
  -- partition of the record indices (built sequentially just above from partitionKeys), so different i touch different idx
  ("Analyze", "view.RecordSet", "slotVia", .slot),
  -- records[index*len(joinView)+i] with i < len(joinView): the blocks of different indices do not overlap
  ("CrossJoin", "records", "slotAffine", .slot),
  ("EvaluateSequentially", "gm.err", "guardedAssign", .errorFlag),   -- error only
  ("GoroutineTaskManager.Run", "m.err", "guardedAssign", .errorFlag), -- error only
  ("InnerJoin", "gm.err", "guardedAssign", .errorFlag),              -- error only
  -- sync.Pool of scratch records: Record.Merge overwrites every cell of a record it takes from the pool, and the records
  -- put back were cleared cell by cell — which worker gets which buffer cannot be seen in a result
  ("InnerJoin", "recordPool", "pool", .accum),
  ("OuterJoin", "gm.err", "guardedAssign", .errorFlag),              -- error only
  ("OuterJoin", "recordPool", "pool", .accum),                       -- as InnerJoin; the unmatched branch fills every cell too
  ("View.group", "gm.err", "guardedAssign", .errorFlag),             -- error only
  -- replacedRecord[j] = true under replaceMtx: the value is the constant true, the map is used as a set afterwards
  -- (flag_set_commutes; the rows are appended by going over `records` by index, replace_indep_of_cut)
  ("View.replace", "replacedRecord", "guardedMapInsert", .accum),
  -- atomic readBytes: read by the consumer only to choose the CAPACITY of the record set it appends to
  ("loadViewFromJsonLinesFile", "readBytes", "atomic", .accum),
  ("readRecordSet", "readBytes", "atomic", .accum)
]

/-- EVERY WRITE A WORKER OF lib/query MAKES TO A SHARED VARIABLE IS OF A SCHEDULE-INDEPENDENT KIND — kernel-evaluated
    over the facts regenerated from the source on this run -/
theorem gen_worker_shapes_ok : shapesOk reviewed Gen.Shape.workerFacts = true := by decide

/-- the review table is exactly the list of facts that need a review: a NEW guarded append / assignment / map insert,
    atomic, pool or indirectly indexed slot write — or one that is gone — breaks this -/
theorem gen_reviewed_exceptions_exact :
    ((Gen.Shape.workerFacts.filter needsReview).map fun (f : Fact) => (f.fn, f.var, f.kind))
      = reviewed.map fun r => (r.1, r.2.1, r.2.2.1) := by decide

-- non-vacuity of the two obligations above: the facts are there, 13 of them need the table, without it the check fails
example : Gen.Shape.workerFacts.length > 50 ∧ (Gen.Shape.workerFacts.filter needsReview).length = reviewed.length := by decide
example : shapesOk [] Gen.Shape.workerFacts = false := by decide

/-- no reviewed entry is read as order-dependent, and none is attached to a class that needs no review -/
theorem reviewed_entries_are_exceptions :
    reviewed.all (fun r => r.2.2.2 != .ordered && needsReview (r.1, "", r.2.1, r.2.2.1, "", "")) = true := by decide

/-- the fan-outs are of the five known kinds (a goroutine started in any other way makes the extractor fail) -/
theorem gen_fanout_kinds_known :
    Gen.Shape.fanOuts.all (fun f => ["run", "evalseq", "workers", "roles", "driver:GoroutineTaskManager.run",
      "driver:evaluateSequentialRoutine"].contains f.2) = true := by decide

/-- what "own index" means: the two drivers give worker `thIdx` the indices of `RecordRange(thIdx)` in ascending
    order and call the callback with exactly that index (EvaluateSequentially: position in the worker's slice plus the
    slice's start) — the lists `rrIndices` of `record_ranges_tile` / `run_fills_slots` -/
theorem gen_driver_loops :
    Gen.Shape.driverLoops = [
      ("GoroutineTaskManager.run", ["range: start, end := m.RecordRange(thIdx)", "loop: for i := start; i < end; i++", "call: fn(i)"]),
      ("evaluateSequentialRoutine", ["range: start, end := gm.RecordRange(thIdx)", "slice: view.RecordSet[start:end]",
        "loop: for ; seqScope.NextRecord(); ", "call: fn(seqScope, start + seqScope.Records[0].recordIndex)"])] := by decide

/-- the closures started with `go f(i)` go through `RecordRange(i)` in the same way -/
theorem gen_workers_loop_over_own_range :
    (Gen.Shape.workerFacts.filter fun (f : Fact) => f.fan == "workers" && f.var == "(loop over RecordRange)").all
      (fun (f : Fact) => f.kind == "ownLoop") = true
    ∧ (Gen.Shape.fanOuts.filter fun f => f.2 == "workers").length
      = (Gen.Shape.workerFacts.filter fun (f : Fact) => f.kind == "ownLoop").length := by decide

/-- a worker never reads a variable the workers write slot-wise at an index that is not its own — the slot of a
    neighbouring record may belong to another worker's range and may or may not have been filled yet (C12-m18: the
    parallel shift reads `index+offset`; C12-m21: the partition key of record `index-1`) -/
theorem gen_no_cross_reads : Gen.Shape.crossReads = [] := by decide

/-- the uses a function may make of per-worker pieces after the join -/
def combineUseOk (fn var use : String) : Bool :=
  ["rangeIndex", "rangeOfPiece", "builtin:len", "builtin:cap", "index:var", "index:0",
   "call:MergeRecordSetList(builtin:len,index:0,index:1,rangeIndex)"].contains use
  -- the map of one worker's groups is iterated only to add up the group sizes (groupKeyCnt[k] += len): a sum
  || (fn == "View.group" && var == "groupsList" && use == "rangeMapOfPiece")

/-- every per-worker piece is combined after the join, in worker-index order (ranged over by index or handed to
    MergeRecordSetList), and used in no other way than the listed ones -/
theorem gen_pieces_combined_in_worker_order :
    (Gen.Shape.workerFacts.filter fun (f : Fact) => f.kind == "perWorker").all (fun (f : Fact) =>
      match Gen.Shape.combineFacts.find? (fun c => c.1 == f.fn && c.2.1 == f.var) with
      | some c => c.2.2.all (combineUseOk f.fn f.var) &&
          (c.2.2.contains "rangeIndex" || c.2.2.contains "call:MergeRecordSetList(builtin:len,index:0,index:1,rangeIndex)")
      | none => false) = true := by decide

/-- MergeRecordSetList is the reviewed text … -/
theorem gen_merge_record_set_list :
    Gen.Shape.mergeRecordSetList = ["var records RecordSet", "if len(list) == 2 && len(list[1]) == 0", "records = list[0]",
      "else", "recordLen := 0", "for _, v := range list", "recordLen += len(v)", "end", "records = make(RecordSet, recordLen)",
      "idx := 0", "for _, rset := range list", "for _, r := range rset", "records[idx] = r", "idx++", "end", "end", "end",
      "return records"] := by decide

/-- … and that text is the concatenation in list order, the fast path included (C12-m1 widened the fast path) -/
theorem merge_model_is_flatten {α : Type} (l : List (List α)) : mergeModel l = l.flatten := by
  unfold mergeModel
  split
  · rename_i h
    match l, h with
    | [a, b], ⟨_, hb⟩ =>
      have : b = [] := List.length_eq_zero_iff.mp (by simpa using hb)
      subst this
      simp
  · rfl

/-- EVERY `range` over a map in lib/query, reviewed: none lets Go's random iteration order reach a result or a file.
    (C12-m3 / C12-m9 added one.)  Same order as the generator's. -/
def reviewedMapRanges : List (String × String) := [
  ("AliasMap.Clear", "m"),                                  -- deletes every key
  ("Analyze", "list"),                                      -- index → value of one partition: each index is written in its own slot
  ("Delete", "viewsToDelete"),                              -- per view: marks the record's own id in that view's set
  ("Delete", "viewsToDelete"),                              -- per view: rebuilds that view's records by index
  ("FieldIndexCache.Copy", "c.m"),                          -- copies a map into a map
  ("InlineTableMap.Clear", "it"),                           -- deletes every key
  ("Transaction.ClearUrlCache", "tx.UrlCache"),             -- deletes every key
  ("Transaction.Commit", "createdFiles"),                   -- one file per entry, each written from its own view (only the ORDER of the notices follows the map)
  ("Transaction.Commit", "updatedFiles"),                   -- as above
  ("Transaction.Rollback", "createdFiles"),                 -- notices only
  ("Transaction.Rollback", "updatedFiles"),                 -- notices only
  ("UncommittedViews.Clean", "m.Created"),                  -- deletes every key
  ("UncommittedViews.Clean", "m.Updated"),                  -- deletes every key
  ("UncommittedViews.CountUpdatedTables", "m.Updated"),     -- counts
  ("UncommittedViews.CountUpdatedViews", "m.Updated"),      -- counts
  ("UncommittedViews.UncommittedFiles", "m.Created"),       -- filters a map into a map
  ("UncommittedViews.UncommittedFiles", "m.Updated"),       -- filters a map into a map
  ("UncommittedViews.UncommittedTempViews", "m.Updated"),   -- filters a map into a map
  ("Update", "viewsToUpdate"),                              -- per view: restores its header, replaces / registers that view
  ("View.group", "groupsList[i]")                           -- adds up group sizes (see combineUseOk)
]

theorem gen_map_ranges_are_the_reviewed_ones : Gen.Shape.mapRanges = reviewedMapRanges := by decide

/-! ## non-vacuity -/

example : Interleave [[0, 1], [2]] [(1, 2), (0, 0), (0, 1)] :=
  .step (k := 1) rfl (.step (k := 0) rfl (.step (k := 0) rfl (.done (by decide))))
example : (List.range 4).map (slotStore (· * 10) [(1, 2), (0, 0), (0, 1)]) = [some 0, some 10, some 20, none] := by decide
example : pieces (List.filter (· != 1)) 2 [(1, 2), (0, 0), (0, 1)] = [[0], [2]] := by decide
example : accum (fun i s => s + i) 0 [(1, 2), (0, 0), (0, 1)] = accum (fun i s => s + i) 0 [(0, 0), (0, 1), (1, 2)] := by decide
example : errorOf (fun i => if i = 1 then some i else none) [(1, 2), (0, 0), (0, 1)] = some 1 := by decide
example : ownEvents [(1, 2), (0, 0), (0, 1)] 0 = [0, 1] := by decide
example : mergeModel [[1, 2], ([] : List Nat)] = [1, 2] ∧ mergeModel [[1], [], [3]] = [1, 3] := by decide
-- the table is used, and the check can fail
example : shapesOk reviewed [("loadView", "evalseq", "resultSet", "guardedAppend", "append", "")] = false := by decide
example : shapesOk reviewed [("View.GenerateComparisonKeys", "run", "registeredKeys", "syncMap", "LoadOrStore", "")] = false := by decide
example : Realises (semOf reviewed ("View.filter", "evalseq", "results", "slot", "assign", "")) ⟨_, fun _ tr => slotStore (· + 1) tr⟩ :=
  .slot _

end Csvq.C12
