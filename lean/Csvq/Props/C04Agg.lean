/-
  C04 (aggregates) — COUNT, MAX, MIN, SUM, AVG, VAR / VARP, STDEV / STDEVP, MEDIAN, LISTAGG and the DISTINCT option,
  as functions of the cells of ONE bucket (which cells those are is Props/C04.lean).
  Property theorems only, for all lists; the model is Model/Aggregate.lean (shape of lib/query/aggregate_function.go),
  helper lemmas are in Lemmas/Aggregate.lean.  Every theorem is followed by a concrete instance (non-vacuity).
-/
import Csvq.Lemmas.Aggregate
namespace Csvq.C04
open Csvq Csvq.Agg

/-! concrete cells for the examples -/

/-- an INTEGER cell -/
def agI (i : Int) : Profile := profileOf (.int i)
/-- a FLOAT cell -/
def agF (f : FVal) : Profile := profileOf (.flt f)
/-- NULL -/
def agN : Profile := profileOf .null
/-- a text that is no number, datetime or boolean (`u` = its upper-cased trimmed form) -/
def agS (s u : Bytes) : Profile := profileOf (.str u) |> fun p => { p with raw := .str s }
/-- a text that reads as the integer `i` -/
def agIS (s : Bytes) (i : Int) : Profile :=
  { raw := .str s, int? := some i, flt? := some (FVal.ofInt i), dt? := none, bool? := none, strU? := some s, tern := .U }
/-- a DATETIME cell -/
def agD (ns : Int) : Profile := profileOf (.dt ns)
/-- the float n (an integer) -/
def agf (n : Int) : FVal := .fin (n * (FVal.unit : Int))
/-- integer / float texts of the examples: decimal text, floats print as "f" -/
def agKT : KeyText := { itext := decText, ftext := fun _ => [102] }

/-! ## COUNT -/

/-- COUNT(expr) is the number of non-NULL cells -/
theorem count_spec (l : List Profile) : count l = ((l.filter fun p => !p.isNull).length : Int) := by
  unfold count; rw [countLoop_spec]; omega

theorem count_append (a b : List Profile) : count (a ++ b) = count a + count b := by
  simp only [count_spec, List.filter_append, List.length_append]; omega

/-- COUNT does not depend on the order of the records -/
theorem count_perm (l1 l2 : List Profile) (h : l1.Perm l2) : count l1 = count l2 := by
  simp only [count_spec]; rw [(h.filter _).length_eq]

theorem count_le_length (l : List Profile) : 0 ≤ count l ∧ count l ≤ (l.length : Int) := by
  rw [count_spec]
  have := List.length_filter_le (fun p : Profile => !p.isNull) l
  omega

/-- NULL cells can be dropped beforehand -/
theorem count_ignores_nulls (l : List Profile) : count (l.filter fun p => !p.isNull) = count l := by
  simp only [count_spec, List.filter_filter, Bool.and_self]

example : count [agI 3, agN, agS [97] [65], agN, agF .nan] = 3 := by decide +kernel
example : count [] = 0 := by decide
example : [agN, agI 1].Perm [agI 1, agN] ∧ count [agN, agI 1] = count [agI 1, agN] := ⟨List.Perm.swap _ _ _, by decide +kernel⟩

/-! ## MAX / MIN -/

/-- MAX is NULL exactly when every cell is NULL -/
theorem max_null_iff (l : List Profile) : maxAgg l = none ↔ ∀ p ∈ l, p.isNull = true := extLoop_none_iff opGt l
theorem min_null_iff (l : List Profile) : minAgg l = none ↔ ∀ p ∈ l, p.isNull = true := extLoop_none_iff opLt l

/-- otherwise it is one of the non-NULL cells (the cell itself: type and spelling kept) -/
theorem max_is_member (l : List Profile) (r : Profile) (h : maxAgg l = some r) : r ∈ l ∧ r.isNull = false := by
  rcases extLoop_mem opGt l none r h with e | e
  · cases e
  · exact e
theorem min_is_member (l : List Profile) (r : Profile) (h : minAgg l = some r) : r ∈ l ∧ r.isNull = false := by
  rcases extLoop_mem opLt l none r h with e | e
  · cases e
  · exact e

/- The natural statement — `maxAgg l = some r → ∀ x ∈ l, opGt x r ≠ .T` ("no cell is greater than MAX") for ALL lists —
   is FALSE for the code as it is: `>` is not transitive across the rungs of the comparison ladder (numeric texts are
   compared as numbers with each other but as texts with a text that is no number).  Witness: MAX over ('10', '5', '2x')
   is '2x' ('2x' > '10' as texts), and '5' > '2x' as texts, while '5' never displaced '10' (5 < 10 as numbers). -/
theorem max_spec_counterexample :
    maxAgg [agIS [49, 48] 10, agIS [53] 5, agS [50, 120] [50, 88]] = some (agS [50, 120] [50, 88]) ∧
    opGt (agIS [53] 5) (agS [50, 120] [50, 88]) = .T := by decide

/-- the same for MIN: MIN over ('5', '10', '1x') is '1x' ('1x' < '5' as texts) although '10' < '1x' as texts -/
theorem min_spec_counterexample :
    minAgg [agIS [53] 5, agIS [49, 48] 10, agS [49, 120] [49, 88]] = some (agS [49, 120] [49, 88]) ∧
    opLt (agIS [49, 48] 10) (agS [49, 120] [49, 88]) = .T := by decide

/-- the same three cells: MAX = MIN = '2x' although the cells are pairwise different (also by `=`) -/
theorem max_eq_min_counterexample :
    maxAgg [agIS [49, 48] 10, agIS [53] 5, agS [50, 120] [50, 88]] = minAgg [agIS [49, 48] 10, agIS [53] 5, agS [50, 120] [50, 88]] ∧
    opEq (agIS [49, 48] 10) (agIS [53] 5) = .F ∧ opEq (agIS [53] 5) (agS [50, 120] [50, 88]) = .F ∧
    opEq (agIS [49, 48] 10) (agS [50, 120] [50, 88]) = .F := by decide

/-- … and it holds whenever `>` is transitive on the cells of the list: then no cell is greater than MAX -/
theorem max_spec_partial (l : List Profile) (htr : TransOn opGt l) (r : Profile) (h : maxAgg l = some r) :
    r ∈ l ∧ r.isNull = false ∧ ∀ x ∈ l, opGt x r ≠ .T := by
  obtain ⟨hm, hn⟩ := max_is_member l r h
  refine ⟨hm, hn, ?_⟩
  intro x hx
  cases hxn : x.isNull
  · exact extLoop_best opGt opGt_irrefl l htr l [] (fun y hy => by simpa using hy) none (by simp) r h x (Or.inr hx) hxn
  · rw [Ne, opGt_T_iff, cmp_of_null x r (Or.inl hxn)]; simp

theorem min_spec_partial (l : List Profile) (htr : TransOn opLt l) (r : Profile) (h : minAgg l = some r) :
    r ∈ l ∧ r.isNull = false ∧ ∀ x ∈ l, opLt x r ≠ .T := by
  obtain ⟨hm, hn⟩ := min_is_member l r h
  refine ⟨hm, hn, ?_⟩
  intro x hx
  cases hxn : x.isNull
  · exact extLoop_best opLt opLt_irrefl l htr l [] (fun y hy => by simpa using hy) none (by simp) r h x (Or.inr hx) hxn
  · rw [Ne, opLt_T_iff, cmp_of_null x r (Or.inl hxn)]; simp

/-- in particular for every column of ONE kind beside NULLs — all read as integers, all as floats (NaN allowed),
    all datetimes, or all texts that are neither number, datetime nor boolean -/
theorem max_spec_uniform (l : List Profile) (hu : Uniform l) (r : Profile) (h : maxAgg l = some r) :
    r ∈ l ∧ r.isNull = false ∧ ∀ x ∈ l, opGt x r ≠ .T :=
  max_spec_partial l (transOn_opGt_uniform l hu) r h

theorem min_spec_uniform (l : List Profile) (hu : Uniform l) (r : Profile) (h : minAgg l = some r) :
    r ∈ l ∧ r.isNull = false ∧ ∀ x ∈ l, opLt x r ≠ .T :=
  min_spec_partial l (transOn_opLt_uniform l hu) r h

/-- ties keep the FIRST cell: a result that no later cell beats stays (equal cells never displace it),
    so `MAX` over `1, 1.0` is the integer and over `1.0, 1` the float -/
theorem max_first_of_equals (pre post : List Profile) (r : Profile) (h : maxAgg pre = some r)
    (hpost : ∀ x ∈ post, x.isNull = true ∨ opGt x r ≠ .T) : maxAgg (pre ++ post) = some r := by
  unfold maxAgg at *; rw [extLoop_append, h]; exact extLoop_keeps opGt post r hpost

theorem min_first_of_equals (pre post : List Profile) (r : Profile) (h : minAgg pre = some r)
    (hpost : ∀ x ∈ post, x.isNull = true ∨ opLt x r ≠ .T) : minAgg (pre ++ post) = some r := by
  unfold minAgg at *; rw [extLoop_append, h]; exact extLoop_keeps opLt post r hpost

/-- MAX / MIN depend on the order of the records when the column mixes kinds that do not compare:
    the first non-NULL cell is kept until a cell compares greater -/
theorem max_order_counterexample :
    maxAgg [agI 2, agS [97] [65]] = some (agI 2) ∧ maxAgg [agS [97] [65], agI 2] = some (agS [97] [65]) := by decide +kernel

example : maxAgg [agN, agI 3, agI 7, agN, agI 5] = some (agI 7) ∧ minAgg [agN, agI 3, agI 7, agN, agI 5] = some (agI 3) := by decide +kernel
example : maxAgg [agN, agN] = none := by decide +kernel
example : Uniform [agN, agI 3, agI 7] := Or.inl (by simp [IsIntCell, agN, agI, profileOf, Profile.isNull])
example : Uniform [agS [98] [66], agN, agS [97] [65]] :=
  Or.inr (Or.inr (Or.inr (by simp [IsTextCell, agN, agS, profileOf, Profile.isNull])))
example : maxAgg [agI 1, agF (agf 1)] = some (agI 1) ∧ maxAgg [agF (agf 1), agI 1] = some (agF (agf 1)) := by decide +kernel
example : maxAgg [agD 5, agD 9, agD 7] = some (agD 9) := by decide +kernel

/-! ## SUM -/

/-- SUM is NULL exactly when no cell reads as a number -/
theorem sum_null_iff (l : List Profile) : sum l = .null ↔ floatList l = [] := by
  unfold sum
  cases h : floatList l <;> simp

/-- the cells that count: `value.ToFloat` succeeds (integers, floats, numeric texts), in record order -/
theorem sum_cells (l : List Profile) : floatList l = l.filterMap (·.flt?) := floatList_eq_filterMap l

/-- otherwise it is the float64 sum from +0, left to right in record order -/
theorem sum_eq_fold (l : List Profile) (h : floatList l ≠ []) :
    sum l = .flt ((floatList l).foldl FVal.add (.fin 0)) := by
  unfold sum fsum
  cases h' : floatList l with
  | nil => exact absurd h' h
  | cons a as => simp

/-- an INTEGER cell or NULL -/
def intCell : Option Int → Profile
  | none => profileOf .null
  | some i => profileOf (.int i)

theorem floatList_intCells (os : List (Option Int)) (hb : ∀ i, some i ∈ os → i.natAbs < FVal.pow2 53) :
    floatList (os.map intCell) = (os.filterMap id).map intF := by
  induction os with
  | nil => rfl
  | cons o os ih =>
    have ih' := ih (fun i hi => hb i (List.mem_cons_of_mem _ hi))
    cases o with
    | none => simpa [floatList, intCell, profileOf] using ih'
    | some i =>
      have : FVal.ofInt i = intF i := ofInt_eq_intF i (hb i List.mem_cons_self)
      simp [floatList, intCell, profileOf, this, ih']

/-- integer cells whose partial sums (in record order) all stay below 2^53 in magnitude: SUM is the exact integer sum -/
theorem sum_exact_int (os : List (Option Int)) (hne : os.filterMap id ≠ [])
    (hb : ∀ i, some i ∈ os → i.natAbs < FVal.pow2 53) (hp : PartialSumsExact 0 (os.filterMap id)) :
    sum (os.map intCell) = .flt (intF (isum (os.filterMap id))) := by
  have hfl := floatList_intCells os hb
  unfold sum
  rw [hfl]
  cases h : os.filterMap id with
  | nil => exact absurd h hne
  | cons a as =>
    rw [← h]
    have : ¬ ((List.map intF (List.filterMap id os)).length < 1) := by rw [h]; simp
    simp only [this, if_false]
    rw [fsum_int_exact _ hp]

/-- … hence SUM over integer cells with Σ|i| < 2^53 does not depend on the order of the records -/
theorem sum_perm_int (os1 os2 : List (Option Int)) (h : os1.Perm os2) (hb : absSum (os1.filterMap id) < FVal.pow2 53) :
    sum (os1.map intCell) = sum (os2.map intCell) := by
  have hp : (os1.filterMap id).Perm (os2.filterMap id) := h.filterMap id
  have hb2 : absSum (os2.filterMap id) < FVal.pow2 53 := by rw [← absSum_perm _ _ hp]; exact hb
  have small : ∀ (os : List (Option Int)), absSum (os.filterMap id) < FVal.pow2 53 →
      ∀ i, some i ∈ os → i.natAbs < FVal.pow2 53 := by
    intro os hbs i hi
    have hm : i ∈ os.filterMap id := List.mem_filterMap.mpr ⟨some i, hi, rfl⟩
    have := natAbs_le_absSum _ _ hm
    omega
  by_cases hne : os1.filterMap id = []
  · have hne2 : os2.filterMap id = [] := by
      have := hp.length_eq; rw [hne] at this; exact List.length_eq_zero_iff.mp this.symm
    unfold sum
    rw [floatList_intCells os1 (small os1 hb), floatList_intCells os2 (small os2 hb2), hne, hne2]
  · have hne2 : os2.filterMap id ≠ [] := by
      intro e; apply hne
      have := hp.length_eq; rw [e] at this; exact List.length_eq_zero_iff.mp this
    rw [sum_exact_int os1 hne (small os1 hb) (partialSumsExact_of_absSum _ 0 (by simpa using hb)),
      sum_exact_int os2 hne2 (small os2 hb2) (partialSumsExact_of_absSum _ 0 (by simpa using hb2)),
      isum_perm _ _ hp]

/-- in general float SUM DOES depend on the order of the records: 1e16, 1, -1e16 sum to 0, but 1e16, -1e16, 1 to 1
    (nobody may claim `sum_perm` for floats) -/
theorem sum_order_counterexample :
    sum [agF (agf 10000000000000000), agF (agf 1), agF (agf (-10000000000000000))] = .flt (agf 0) ∧
    sum [agF (agf 10000000000000000), agF (agf (-10000000000000000)), agF (agf 1)] = .flt (agf 1) := by decide +kernel

/-- SUM is never -0 (the accumulator starts from +0): SUM over a single -0.0 is 0 — which is also why the
    `sum == 0` shortcut of `average` / `variance` changes nothing (0 / n is +0 anyway) -/
theorem sum_never_negzero (l : List Profile) : sum l ≠ .flt .negz := by
  unfold sum
  simp only
  split
  · simp
  · intro h; injection h with h; exact fsum_ne_negz _ h

example : sum [agN, agS [97] [65]] = .null := by decide +kernel
example : sum [agF .negz] = .flt (.fin 0) := by decide +kernel
example : sum (([some 3, none, some (-5), some 10] : List (Option Int)).map intCell) = .flt (intF 8) := by decide +kernel
example : PartialSumsExact 0 [3, -5, 10] ∧ absSum [3, -5, 10] < FVal.pow2 53 := by
  refine ⟨⟨?_, ?_, ?_, trivial⟩, ?_⟩ <;> decide +kernel

/-! ## AVG -/

theorem avg_null_iff (l : List Profile) : avg l = .null ↔ floatList l = [] := by
  unfold avg
  cases h : floatList l <;> simp

/-- AVG = SUM / (number of numeric cells) — except that a sum equal to zero (±0) gives +0 without dividing -/
theorem avg_spec (l : List Profile) (h : floatList l ≠ []) :
    avg l = .flt (if isZeroF (fsum (floatList l)) then .fin 0
                  else FVal.div (fsum (floatList l)) (FVal.ofInt (floatList l).length)) := by
  unfold avg average
  cases h' : floatList l with
  | nil => exact absurd h' h
  | cons a as =>
    have hz : isZeroF (FVal.ofInt ((as.length : Int) + 1)) = false := by
      have := isZeroF_ofInt_pos (as.length + 1) (by omega)
      simpa using this
    simp [hz]

/-- AVG and SUM are NULL together -/
theorem avg_null_iff_sum_null (l : List Profile) : avg l = .null ↔ sum l = .null := by
  rw [avg_null_iff, sum_null_iff]

example : avg [agI 1, agN, agI 2] = .flt (.fin (3 * 2 ^ 1073)) := by decide +kernel
example : avg [agF .negz] = .flt (.fin 0) := by decide +kernel      -- the sign of a zero is lost (the sum starts from +0)
example : avg [agN] = .null := by decide +kernel

/-! ## VAR / VARP / STDEV / STDEVP -/

theorem var_null_iff (l : List Profile) : var l = .null ↔ (floatList l).length < 2 := by
  by_cases h : (floatList l).length < 2 <;> simp [var, h]
theorem varp_null_iff (l : List Profile) : varp l = .null ↔ floatList l = [] := by
  unfold varp; cases h : floatList l <;> simp
theorem stdev_null_iff (l : List Profile) : stdev l = .null ↔ (floatList l).length < 2 := by
  by_cases h : (floatList l).length < 2 <;> simp [stdev, h]
theorem stdevp_null_iff (l : List Profile) : stdevp l = .null ↔ floatList l = [] := by
  unfold stdevp; cases h : floatList l <;> simp

/-- STDEV is the (correctly rounded) square root of VAR, STDEVP of VARP -/
theorem stdev_eq_sqrt_var (l : List Profile) :
    stdev l = (match var l with | .flt v => .flt (FVal.sqrt v) | r => r) := by
  by_cases h : (floatList l).length < 2 <;> simp [stdev, var, standardDeviation, h]
theorem stdevp_eq_sqrt_varp (l : List Profile) :
    stdevp l = (match varp l with | .flt v => .flt (FVal.sqrt v) | r => r) := by
  by_cases h : (floatList l).length < 1 <;> simp [stdevp, varp, standardDeviation, h]

/-- the variance is never negative: it is +0, positive, +Inf — or NaN (lists shorter than 2^53 cells) -/
theorem var_nonneg (l : List Profile) (isP : Bool) (hlen : l.length < FVal.pow2 53) :
    NonNeg (variance (floatList l) isP) := by
  apply variance_nonNeg
  rw [floatList_eq_filterMap]
  exact Nat.lt_of_le_of_lt (List.length_filterMap_le _ _) hlen

theorem stdev_nonneg (l : List Profile) (isP : Bool) (hlen : l.length < FVal.pow2 53) :
    NonNeg (standardDeviation (floatList l) isP) := sqrt_nonNeg _ (var_nonneg l isP hlen)

/-- the integer square root the model's math.Sqrt rests on is ⌊√n⌋ -/
theorem isqrt_floor (n : Nat) : FVal.isqrt n * FVal.isqrt n ≤ n ∧ n < (FVal.isqrt n + 1) * (FVal.isqrt n + 1) :=
  isqrt_spec n

/-- math.Sqrt is exact on exact squares: √(x²) = x for every integer 0 ≤ x < 2^53 whose square … is a float at all
    (x² is taken exactly; for x < 2^26.5 it is itself an integer float) -/
theorem sqrt_exact_square (x : Nat) (h : x < FVal.pow2 53) : FVal.sqrt (intF ((x : Int) * x)) = intF x :=
  sqrt_sq_exact x h

/- math.Pow(x, 2) is NOT always the correctly rounded product x·x: pow.go squares the mantissa in float64 and then
   scales with Ldexp, which rounds a second time when the result is subnormal.  Full statement
   `∀ x, FVal.powTwo x = FVal.mul x x` — false: -/
theorem powTwo_double_rounding :
    FVal.powTwo (.fin (6324381626801466 * 2 ^ 510)) = .fin 2220324089109658 ∧
    FVal.mul (.fin (6324381626801466 * 2 ^ 510)) (.fin (6324381626801466 * 2 ^ 510)) = .fin 2220324089109657 := by
  decide +kernel

/-- … it is exact (and equal to the product) on integers whose square is below 2^53 -/
theorem powTwo_exact_int (x : Int) (h : (x * x).natAbs < FVal.pow2 53) :
    FVal.powTwo (intF x) = intF (x * x) ∧ (x ≠ 0 → FVal.mul (intF x) (intF x) = intF (x * x)) :=
  ⟨powTwo_int_exact x h, fun h0 => FVal.mul_int_exact x x (Int.mul_ne_zero h0 h0) h⟩

theorem powTwo_nonneg (x : FVal) : NonNeg (FVal.powTwo x) := powTwo_nonNeg x

example : var [agI 1] = .null ∧ varp [agI 1] = .flt (.fin 0) := by decide +kernel
example : FVal.powTwo (intF (-3)) = intF 9 ∧ FVal.powTwo .ninf = .pinf ∧ FVal.powTwo .negz = .fin 0 := by decide +kernel
example : NonNeg (variance (floatList [agI 1, agI 3]) false) := Or.inr (by decide +kernel)
example : var [agI 2, agI 4, agI 4, agI 4, agI 5, agI 5, agI 7, agI 9] = .flt (.fin (2573485501354569 * 2 ^ 1025)) := by decide +kernel
example : stdevp [agI 2, agI 4, agI 4, agI 4, agI 5, agI 5, agI 7, agI 9] = .flt (agf 2) := by decide +kernel
example : FVal.sqrt (agf 9) = agf 3 ∧ FVal.sqrt (agf (-1)) = .nan ∧ FVal.sqrt .negz = .negz ∧ FVal.sqrt .pinf = .pinf := by
  decide +kernel
example : FVal.sqrt (agf 2) = .fin (6369051672525773 * 2 ^ 1022) := by decide +kernel

/-! ## MEDIAN -/

/-- the cells that count: numbers, else datetimes (as seconds since the epoch) -/
theorem median_cells (l : List Profile) : medianList l = l.filterMap medianVal := medianList_eq_filterMap l

/-- MEDIAN is NULL exactly when no cell reads as a number or a datetime -/
theorem median_null_iff (l : List Profile) : median l = .null ↔ medianList l = [] := by
  simp only [median]
  cases h : medianList l with
  | nil => simp
  | cons a as =>
    have hs : 0 < (sortBy medLess (a :: as)).length := by rw [(sortBy_perm medLess (a :: as)).length_eq]; simp
    have := medianOfSorted_isSome _ hs
    cases hm : medianOfSorted (sortBy medLess (a :: as)) with
    | none => rw [hm] at this; cases this
    | some f => simp

/-- an odd number of values: the middle one of the sorted list -/
theorem median_odd (l : List Profile) (k : Nat) (h : (medianList l).length = 2 * k + 1) :
    ∃ m, (sortBy medLess (medianList l))[k]? = some m ∧ median l = .flt m := by
  have hlen : (sortBy medLess (medianList l)).length = 2 * k + 1 := by rw [(sortBy_perm medLess _).length_eq, h]
  have hk : k < (sortBy medLess (medianList l)).length := by omega
  refine ⟨(sortBy medLess (medianList l))[k], List.getElem?_eq_getElem hk, ?_⟩
  unfold median medianOfSorted
  have h1 : ¬ ((medianList l).length < 1) := by omega
  have h2 : (2 * k + 1) % 2 = 1 := by omega
  have h3 : (2 * k + 1 + 1) / 2 - 1 = k := by omega
  simp only [h1, if_false, hlen, h2, if_true, h3, List.getElem?_eq_getElem hk]

/-- an even number: the float64 mean of the two middle ones -/
theorem median_even (l : List Profile) (k : Nat) (h : (medianList l).length = 2 * k + 2) :
    ∃ a b, (sortBy medLess (medianList l))[k]? = some a ∧ (sortBy medLess (medianList l))[k + 1]? = some b ∧
      median l = .flt (FVal.div (FVal.add a b) (FVal.ofInt 2)) := by
  have hlen : (sortBy medLess (medianList l)).length = 2 * k + 2 := by rw [(sortBy_perm medLess _).length_eq, h]
  have hk : k < (sortBy medLess (medianList l)).length := by omega
  have hk1 : k + 1 < (sortBy medLess (medianList l)).length := by omega
  refine ⟨_, _, List.getElem?_eq_getElem hk, List.getElem?_eq_getElem hk1, ?_⟩
  unfold median medianOfSorted
  have h1 : ¬ ((medianList l).length < 1) := by omega
  have h2 : ¬ ((2 * k + 2) % 2 = 1) := by omega
  have h3 : (2 * k + 2) / 2 - 1 = k := by omega
  simp only [h1, if_false, hlen, h2, h3, List.getElem?_eq_getElem hk, List.getElem?_eq_getElem hk1]

/-- for an odd number of values the median is one of them (so it lies between the smallest and the largest) -/
theorem median_odd_member (l : List Profile) (k : Nat) (h : (medianList l).length = 2 * k + 1) :
    ∃ m ∈ medianList l, median l = .flt m := by
  obtain ⟨m, hm, e⟩ := median_odd l k h
  exact ⟨m, (sortBy_perm medLess _).subset (List.mem_of_getElem? hm), e⟩

/- Full statement "MEDIAN lies between the smallest and the largest value" — false for an even number of values:
   the mean of the two middle ones is computed as (a + b) / 2 in float64, and a + b overflows. -/
theorem median_between_counterexample :
    median [agF (.fin ((2 ^ 53 - 1) * 2 ^ 2045)), agF (.fin ((2 ^ 53 - 1) * 2 ^ 2045))] = .flt .pinf ∧
    avg [agF (.fin ((2 ^ 53 - 1) * 2 ^ 2045)), agF (.fin ((2 ^ 53 - 1) * 2 ^ 2045))] = .flt .pinf := by decide +kernel

/-- MEDIAN does not depend on the order of the records -/
theorem median_perm (l1 l2 : List Profile) (h : l1.Perm l2) : median l1 = median l2 := by
  have hp : (medianList l1).Perm (medianList l2) := by
    rw [medianList_eq_filterMap, medianList_eq_filterMap]; exact h.filterMap _
  simp only [median]
  rw [sortBy_medLess_perm _ _ hp, hp.length_eq]

/-- the list the model sorts into is one sort.Float64s may return: a permutation sorted by its `Less` -/
theorem median_sort_is_legal (vs : List FVal) :
    (sortBy medLess vs).Perm vs ∧ SortedBy f64Less (sortBy medLess vs) :=
  ⟨sortBy_perm medLess vs, sortedBy_f64Less_of_medLess _ (sortBy_medLess_sorted vs)⟩

/-- and EVERY permutation sorted by `Less` (whatever the unstable pdqsort does with -0 and +0, which `Less` cannot
    tell apart) gives the same median up to the sign of a zero -/
theorem median_any_sort (vs s : List FVal) (hp : s.Perm vs) (hs : SortedBy f64Less s) :
    (medianOfSorted s).map zeroCanon = (medianOfSorted (sortBy medLess vs)).map zeroCanon :=
  medianOfSorted_canon _ _ (any_sort_canon vs s hp hs)

/-- the sign of a zero median DOES depend on the record order in the code when -0 and +0 are both present
    (insertion sort keeps their order): both orders are sorted, the medians are -0 and +0 -/
theorem median_zero_sign_counterexample :
    SortedBy f64Less [FVal.negz, .fin 0, .fin 0] ∧ SortedBy f64Less [FVal.fin 0, .negz, .fin 0] ∧
    medianOfSorted [FVal.fin 0, .negz, .fin 0] = some .negz ∧ medianOfSorted [FVal.negz, .fin 0, .fin 0] = some (.fin 0) := by
  simp [SortedBy, f64Less, FVal.flt, FVal.num?, FVal.isNaN, medianOfSorted]

example : median [agI 5, agN, agI 1, agS [97] [65], agI 3] = .flt (agf 3) := by decide +kernel
example : median [agI 5, agI 1, agI 4, agI 3] = .flt (.fin (7 * 2 ^ 1073)) := by decide +kernel
example : median [agD 3000000000, agD 1000000000, agD 2000000000] = .flt (agf 2) := by decide +kernel
example : median [agF .nan, agI 1, agI 2] = .flt (agf 1) := by decide +kernel     -- NaN sorts first
example : median [agN, agS [97] [65]] = .null := by decide +kernel

/-! ## LISTAGG -/

/-- LISTAGG joins, in record order, the texts of the cells value.ToString accepts: texts, integers, floats -/
theorem listagg_spec (kt : KeyText) (sep : Bytes) (l : List Profile) :
    listAgg kt sep l = (if l.filterMap (cellText kt) = [] then .null else .str (join sep (l.filterMap (cellText kt)))) := by
  unfold listAgg
  rw [textList_eq_filterMap]
  cases h : l.filterMap (cellText kt) <;> simp

theorem listagg_null_iff (kt : KeyText) (sep : Bytes) (l : List Profile) :
    listAgg kt sep l = .null ↔ ∀ p ∈ l, cellText kt p = none := by
  rw [listagg_spec]
  constructor
  · intro h
    split at h
    · rename_i he
      intro p hp
      cases hc : cellText kt p with
      | none => rfl
      | some t =>
        have : t ∈ l.filterMap (cellText kt) := List.mem_filterMap.mpr ⟨p, hp, hc⟩
        rw [he] at this; cases this
    · cases h
  · intro h
    have : l.filterMap (cellText kt) = [] := by
      apply List.eq_nil_iff_forall_not_mem.mpr
      intro t ht
      obtain ⟨p, hp, hc⟩ := List.mem_filterMap.mp ht
      rw [h p hp] at hc; cases hc
    simp [this]

theorem listagg_append (kt : KeyText) (sep : Bytes) (a b : List Profile) (x y : Bytes)
    (ha : listAgg kt sep a = .str x) (hb : listAgg kt sep b = .str y) :
    listAgg kt sep (a ++ b) = .str (x ++ sep ++ y) := by
  rw [listagg_spec] at ha hb ⊢
  rw [List.filterMap_append]
  split at ha
  · cases ha
  · split at hb
    · cases hb
    · rename_i hna hnb
      injection ha with ha; injection hb with hb
      have hne : List.filterMap (cellText kt) a ++ List.filterMap (cellText kt) b ≠ [] := by simp [hna]
      rw [if_neg hne, join_append sep _ _ hna hnb, ha, hb]

/-- a group one of whose halves has no text: the other half's result -/
theorem listagg_append_null (kt : KeyText) (sep : Bytes) (a b : List Profile) (hb : listAgg kt sep b = .null) :
    listAgg kt sep (a ++ b) = listAgg kt sep a ∧ listAgg kt sep (b ++ a) = listAgg kt sep a := by
  have hnil : b.filterMap (cellText kt) = [] := by
    rw [listagg_spec] at hb
    split at hb
    · assumption
    · cases hb
  simp only [listagg_spec, List.filterMap_append, hnil, List.append_nil, List.nil_append, and_self]

/- The manual says LISTAGG concatenates "the non-null values".  Full statement
   `listAgg kt sep l = .null ↔ ∀ p ∈ l, p.isNull` — false: value.ToString has no text for booleans, ternaries and
   DATETIMES, so such cells are dropped like NULLs. -/
theorem listagg_nonnull_counterexample :
    (agD 1328260695000000000).isNull = false ∧ listAgg agKT [44] [agD 1328260695000000000] = .null ∧
    listAgg agKT [44] [agI 1, agD 1328260695000000000, agI 2] = .str [49, 44, 50] := by decide

example : listAgg agKT [44, 32] [agI 12, agN, agS [97, 98] [65, 66], agF .nan, agI (-3)] =
    .str [49, 50, 44, 32, 97, 98, 44, 32, 102, 44, 32, 45, 51] := by decide
example : listAgg agKT [] [agN, agN] = .null := by decide
example : listAgg agKT [44] ([agI 1, agN] ++ [agN, agI 2]) = .str ([49] ++ [44] ++ [50]) := by decide

/-! ## the DISTINCT option -/

/-- DISTINCT hands the function the FIRST cell of every comparison key, in record order: a sublist of the cells with
    pairwise different keys, one for every key that occurs -/
theorem distinct_cells_spec (l : List Profile) :
    (distinguish l).Sublist l ∧ (distinguish l).map norm = firstOcc (l.map norm) ∧ ((distinguish l).map norm).Nodup ∧
    ∀ p ∈ l, norm p ∈ (distinguish l).map norm := by
  have hk : (distinguish l).map norm = firstOcc (l.map norm) := by
    have hfst : ∀ r ∈ keepFirst (l.map fun p => (norm p, p)), norm r.2 = r.1 := by
      intro r hr
      have := (keepFirst_sublist (l.map fun p => (norm p, p))).subset hr
      obtain ⟨p, _, rfl⟩ := List.mem_map.mp this
      rfl
    have h1 := keepFirst_keys (l.map fun p => (norm p, p))
    have hL : (l.map fun p => (norm p, p)).map Prod.fst = l.map norm := by rw [List.map_map]; rfl
    calc (distinguish l).map norm
        = (keepFirst (l.map fun p => (norm p, p))).map (fun r => norm r.2) := by
          unfold distinguish; rw [List.map_map]; rfl
      _ = (keepFirst (l.map fun p => (norm p, p))).map Prod.fst := List.map_congr_left hfst
      _ = firstOcc ((l.map fun p => (norm p, p)).map Prod.fst) := h1
      _ = firstOcc (l.map norm) := by rw [hL]
  refine ⟨?_, hk, ?_, ?_⟩
  · unfold distinguish
    have := (keepFirst_sublist (l.map fun p => (norm p, p))).map Prod.snd
    simpa [List.map_map, Function.comp_def] using this
  · rw [hk]; exact firstOcc_nodup _
  · intro p hp
    rw [hk, mem_firstOcc]; exact List.mem_map_of_mem hp

/-- COUNT(DISTINCT expr) never exceeds COUNT(expr) -/
theorem count_distinct_le (l : List Profile) : count (distinguish l) ≤ count l := by
  rw [count_spec, count_spec]
  have := ((distinct_cells_spec l).1.filter fun p => !p.isNull).length_le
  omega

example : (distinguish [agI 1, agIS [49] 1, agN, agF (agf 1), agI 2, agI 1, agN]).map (·.raw) = [.int 1, .null, .flt (agf 1), .int 2] := by
  decide +kernel
example : count (distinguish [agI 1, agIS [49] 1, agN, agI 2, agI 1, agN]) = 2 := by decide +kernel

end Csvq.C04
