/-
  Csvq.Props.C06Arith — property C06, arithmetic: the functions of lib/query/arithmetic.go TRANSLATED into Lean on
  every run (Gen/ArithFacts.lean, extract/arithfacts) equal the model's `calcInt` / `calcFloat` for all operands, and
  `Calculate`'s conversion ladder is the reviewed one — so the theorems of Props/C06.lean about `calculate`
  (calc_null_iff, calc_int_iff, imod_sign_mag, fmod_agrees_int, …) are theorems about the code as it is now.
  Property theorems only.
-/
import Csvq.Gen.ArithFacts
namespace Csvq.C06

/-- the operator character csvq's parser hands to `Calculate` -/
def AOp.char : AOp → Char
  | .add => '+' | .sub => '-' | .mul => '*' | .div => '/' | .mod => '%'

/-- THE TIE: the translated `calculateInteger` is the model's `calcInt`, for every operator and all operands -/
theorem gen_calc_integer_eq_model (op : AOp) (x y : Int) : Gen.calcInteger (AOp.char op) x y = calcInt op x y := by
  cases op <;> simp [Gen.calcInteger, calcInt, AOp.char]

/-- THE TIE: the translated `calculateFloat` is the model's `calcFloat`, for every FloatOps instance -/
theorem gen_calc_float_eq_model (fo : FloatOps) (op : AOp) (x y : FVal) :
    Gen.calcFloat fo (AOp.char op) x y = calcFloat fo op x y := by
  cases op <;> simp [Gen.calcFloat, calcFloat, AOp.char]

/-- integer division by zero — and nothing else — is the error, for `/` and `%` -/
theorem gen_integer_error_iff (op : AOp) (x y : Int) :
    Gen.calcInteger (AOp.char op) x y = none ↔ (op = .div ∨ op = .mod) ∧ y = 0 := by
  cases op <;> simp [Gen.calcInteger, AOp.char] <;> split <;> simp_all

/-- `Calculate`: both operands through ToIntegerStrictly → calculateInteger(val1, val2), else both through ToFloat →
    calculateFloat(val1, val2), else NULL; the operands keep their order -/
theorem gen_calculate_stmts_eq_ref :
    Gen.calculateStmts =
    ["if i1 := value.ToIntegerStrictly(p1); !value.IsNull(i1) {",
     "if i2 := value.ToIntegerStrictly(p2); !value.IsNull(i2) {",
     "val1 := i1.(*value.Integer).Raw()",
     "val2 := i2.(*value.Integer).Raw()",
     "value.Discard(i1)",
     "value.Discard(i2)",
     "return calculateInteger(val1, val2, operator)",
     "}",
     "value.Discard(i1)",
     "}",
     "if f1 := value.ToFloat(p1); !value.IsNull(f1) {",
     "if f2 := value.ToFloat(p2); !value.IsNull(f2) {",
     "val1 := f1.(*value.Float).Raw()",
     "val2 := f2.(*value.Float).Raw()",
     "value.Discard(f1)",
     "value.Discard(f2)",
     "return calculateFloat(val1, val2, operator), nil",
     "}",
     "value.Discard(f1)",
     "}",
     "return value.NewNull(), nil"] := rfl

/-- non-vacuity: the wrap-around of int64 is in the translated function (MinInt64 / -1, MaxInt64 + 1) -/
example : Gen.calcInteger '/' (-9223372036854775808) (-1) = some (-9223372036854775808) ∧
    Gen.calcInteger '+' 9223372036854775807 1 = some (-9223372036854775808) ∧
    Gen.calcInteger '%' 5 0 = none ∧ Gen.calcInteger '%' (-7) 3 = some (-1) := by decide

end Csvq.C06
