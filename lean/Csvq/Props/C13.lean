/-
  C13 — parallel query evaluation and loading are free of data races.

  What is proved here (all machine-checked, for all inputs):
    * `discipline_sound`  — the access discipline excludes data races in every interleaving of every
      fork–join execution (any number of workers, any access lists);
    * `recordRange_tiles`, `recordRange_disjoint`, `recordRange_source_tie` — the partition function
      `GoroutineTaskManager.RecordRange`, as *generated from the source* (`Gen.recordRange`), splits
      `[0,len)` into consecutive disjoint ranges for every `len` and every `n > 0`;
    * `stride_disjoint`, `partitions_disjoint` — the two other index spaces the worker closures use;
    * `facts_ok_except_known`, `facts_consistent`, `facts_wellformed`, `manager_fields_locked` — the access facts of
      lib/query regenerated on this run (`Gen.parFacts`) contain no `unguarded` access outside the known
      finding F79 (cursor status readers) and form a
      consistent per-location policy; `copies_share_nothing`: the Copy methods that isolate per-worker
      scopes share no map / slice / pointer with the original;
    * `pooled_objects_released_at_most_once`, `scopes_released_exactly_once` — no path of lib/query gives an object
      back to a `sync.Pool` twice (release facts, all pooled objects); `shared_headers_not_written`,
      `header_write_sites_reviewed` — a view that takes another view's header does not write it;
    * `callee_facts_ok`, `no_unguarded_package_state`, `reachable_set_pinned` — the functions CALLED from the worker
      bodies (call graph of lib/query, lib/value, lib/option resolved with go/types): their accesses through shared
      objects, the process-wide caches, and the ways out of the analysed code.

  What is trusted (named in the evidence): the extractor's step "syntactic class ⇒ actual access
  pattern of the running program" (cross-checked dynamically with the Go race detector by
  harness/cmd/c13) and the Go memory model.  Level: proof of the discipline + partition; partial.
-/
import Csvq.Model.ForkJoin
import Csvq.Lemmas.ForkJoin
import Csvq.Gen.ParFacts
import Csvq.Gen.RecordRange

namespace Csvq.C13
open Csvq.ForkJoin

/-! ## 1. The discipline is sound -/

/-- **discipline_sound.**  If every access of every worker, and every access of the parent between
    fork and join, is classified own-index (with pairwise disjoint index ranges), sole-goroutine,
    guarded by the location's lock, an operation of a synchronisation object, or a read of a
    location nobody writes, then NO interleaving of the fork–join execution contains a data race:
    for all `n`, all access lists, all interleavings. -/
theorem discipline_sound (d : Discipline) (x : Exec) (hdisj : RangesDisjoint x.n d.lo d.hi)
    (hw : ∀ i, i < x.n → ∀ a ∈ x.worker i, Conforms d (.worker i) a)
    (hp : ∀ a ∈ x.parent, Conforms d .parent a) :
    ∀ tr, Interleaving x tr → ¬ HasRace tr := by
  intro tr hint ⟨i, j, hi, hj, _, hrace⟩
  have m₁ : tr[i] ∈ tr := List.getElem_mem hi
  have m₂ : tr[j] ∈ tr := List.getElem_mem hj
  exact conforming_no_race d x.n hdisj tr[i] tr[j] (worker_lt x tr hint _ m₁) (worker_lt x tr hint _ m₂)
    (event_conforms d x hw hp tr hint _ m₁) (event_conforms d x hw hp tr hint _ m₂) hrace

/-! Non-vacuity: the definition of a race is met by two unsynchronised writers, and a conforming
    execution with the same shape exists. -/

def wr (v : Nat) (k : Option Nat) (locks : List LockId) : Access := ⟨⟨v, k⟩, .w, locks, false⟩

example : HasRace [⟨.worker 0, wr 7 none []⟩, ⟨.worker 1, wr 7 none []⟩] :=
  ⟨0, 1, by decide, by decide, by decide, by decide⟩

example : ¬ Race ⟨.worker 0, wr 7 none [3]⟩ ⟨.worker 1, wr 7 none [3]⟩ := by decide
example : ¬ Race ⟨.worker 0, wr 7 (some 0) []⟩ ⟨.worker 1, wr 7 (some 1) []⟩ := by decide

/-! ## 2. The real partition function -/

/-- **recordRange_tiles.**  For every length and every number of workers `n > 0` the ranges of
    workers `0 … n-1`, concatenated in worker order, are exactly `0, 1, …, len-1`: they are pairwise
    disjoint, cover `[0,len)` and are in order. -/
theorem recordRange_tiles (len n : Nat) (hn : 0 < n) :
    (List.range n).flatMap (rrIndices len n) = List.range len := by
  obtain ⟨m, rfl⟩ : ∃ m, n = m + 1 := ⟨n - 1, by omega⟩
  rw [List.range_succ, List.flatMap_append]
  rw [flatMap_congr_range m (rrIndices len (m + 1)) (fun i => List.range' (i * (len / (m + 1))) (len / (m + 1)))
        (fun i hi => rrIndices_inner len (m + 1) i (by omega))]
  rw [flatMap_inner]
  simp only [List.flatMap_cons, List.flatMap_nil, List.append_nil]
  have hl := rrIndices_last len (m + 1) (by omega)
  simp only [Nat.add_sub_cancel] at hl
  rw [hl]
  have hd : (m + 1) * (len / (m + 1)) ≤ len := Nat.mul_div_le len (m + 1)
  have hle : m * (len / (m + 1)) ≤ len := by
    have : m * (len / (m + 1)) ≤ (m + 1) * (len / (m + 1)) := Nat.mul_le_mul_right _ (by omega)
    omega
  have := @List.range'_append 0 (m * (len / (m + 1))) (len - m * (len / (m + 1))) 1
  simp only [Nat.one_mul, Nat.zero_add] at this
  rw [this, List.range_eq_range']
  congr 1
  omega

/-- **recordRange_disjoint.**  Different workers get disjoint ranges (all `len`, all `n`). -/
theorem recordRange_disjoint (len n : Nat) : RangesDisjoint n (rrLo len n) (rrHi len n) := by
  -- it suffices to treat i < j
  have key : ∀ i j k, i < j → j < n → rrLo len n i ≤ k → k < rrHi len n i →
      ¬ (rrLo len n j ≤ k ∧ k < rrHi len n j) := by
    intro i j k hij hj hlo hhi ⟨hlo', hhi'⟩
    have hne : i ≠ n - 1 := by omega
    simp only [rrLo, rrHi, recordRange] at hlo hhi hlo' hhi'
    have hm : (i + 1) * (len / n) ≤ j * (len / n) := Nat.mul_le_mul_right _ (by omega)
    by_cases h₁ : len ≤ i * (len / n)
    · simp [h₁] at hhi
    · by_cases h₂ : len ≤ j * (len / n)
      · simp [h₂] at hhi'
      · simp only [h₁, h₂, if_false, hne] at hlo hhi hlo' hhi'
        omega
  intro i j k hi hj hne hlo hhi hj'
  rcases Nat.lt_or_gt_of_ne hne with h | h
  · exact key i j k h hj hlo hhi hj'
  · exact key j i k h hi hj'.1 hj'.2 ⟨hlo, hhi⟩

/-- **recordRange_source_tie.**  The definition generated from goroutine_manager.go on this run
    (`Gen.recordRange`, Go `int` arithmetic, `/` = truncated division) computes the modelled
    function for all non-negative lengths, all `n > 0` and all worker indices.  An edit of
    `RecordRange` that changes its arithmetic breaks this obligation. -/
theorem recordRange_source_tie (len n i : Nat) (hn : 0 < n) :
    Gen.recordRange (len : Int) (n : Int) (i : Int)
      = (((recordRange len n i).1 : Int), ((recordRange len n i).2 : Int)) := by
  have hdiv : Int.tdiv (len : Int) (n : Int) = ((len / n : Nat) : Int) := by
    rw [Int.tdiv_eq_ediv_of_nonneg (Int.natCast_nonneg len)]
    exact (Int.natCast_ediv len n).symm
  have hmul : (i : Int) * ((len / n : Nat) : Int) = ((i * (len / n) : Nat) : Int) := by
    rw [Int.natCast_mul]
  have hmul' : ((i : Int) + 1) * ((len / n : Nat) : Int) = (((i + 1) * (len / n) : Nat) : Int) := by
    rw [Int.natCast_mul, Int.natCast_add, Int.natCast_one]
  have hidx : ((i : Int) = (n : Int) - 1) ↔ (i = n - 1) := by omega
  simp only [Gen.recordRange, recordRange, hdiv, hmul, hmul']
  by_cases h : len ≤ i * (len / n)
  · have h' : (len : Int) ≤ ((i * (len / n) : Nat) : Int) := Int.ofNat_le.mpr h
    rw [if_pos h', if_pos h]
    rfl
  · have h' : ¬ (len : Int) ≤ ((i * (len / n) : Nat) : Int) := fun hh => h (Int.ofNat_le.mp hh)
    rw [if_neg h', if_neg h]
    by_cases hl : i = n - 1
    · rw [if_pos hl, if_pos (hidx.mpr hl)]
    · rw [if_neg hl, if_neg (fun hh => hl (hidx.mp hh))]

/-- `discipline_sound` instantiated with the real partition: workers that touch own-index
    locations only inside their `RecordRange` cannot race on them. -/
theorem discipline_sound_recordRange (len : Nat) (policy : Nat → Policy) (x : Exec)
    (hw : ∀ i, i < x.n → ∀ a ∈ x.worker i, Conforms ⟨policy, rrLo len x.n, rrHi len x.n⟩ (.worker i) a)
    (hp : ∀ a ∈ x.parent, Conforms ⟨policy, rrLo len x.n, rrHi len x.n⟩ .parent a) :
    ∀ tr, Interleaving x tr → ¬ HasRace tr :=
  discipline_sound ⟨policy, rrLo len x.n, rrHi len x.n⟩ x (recordRange_disjoint len x.n) hw hp

/-- index space "stride" (CrossJoin writes `records[index*L + i]`, `0 ≤ i < L`): different `index`,
    different cells. -/
theorem stride_disjoint (L i₁ i₂ a b : Nat) (hne : i₁ ≠ i₂) (ha : a < L) (hb : b < L) :
    i₁ * L + a ≠ i₂ * L + b := by
  intro h
  have key : ∀ p q a b : Nat, p < q → a < L → b < L → p * L + a ≠ q * L + b := by
    intro p q a b hpq ha hb h
    have : (p + 1) * L ≤ q * L := Nat.mul_le_mul_right _ hpq
    rw [Nat.add_mul, Nat.one_mul] at this
    omega
  rcases Nat.lt_or_gt_of_ne hne with hlt | hlt
  · exact key i₁ i₂ a b hlt ha hb h
  · exact key i₂ i₁ b a hlt hb ha h.symm

/-! Index space "partition" (analytic functions): the row numbers stored in different buckets of
    `partitions` are disjoint, and `partitionMapKeys` lists every bucket once. -/

/-- **partitions_disjoint.** -/
theorem partitions_disjoint {K : Type} [DecidableEq K] (keys : List K) (k₁ k₂ : K) (hne : k₁ ≠ k₂) (r : Nat)
    (h₁ : r ∈ (buildPartitions keys).1 k₁) : r ∉ (buildPartitions keys).1 k₂ := by
  intro h₂
  have inv := (buildFrom_inv keys keys (fun _ => [], []) 0 (by intro k r hr; cases hr) List.nodup_nil
    (by intro r _; simp)).1
  have a := inv k₁ r h₁
  have b := inv k₂ r h₂
  rw [a] at b
  exact hne (Option.some.inj b)

theorem partitionMapKeys_nodup {K : Type} [DecidableEq K] (keys : List K) : (buildPartitions keys).2.Nodup :=
  (buildFrom_inv keys keys (fun _ => [], []) 0 (by intro k r hr; cases hr) List.nodup_nil (by intro r _; simp)).2

/-! ## 3. The generated facts of lib/query -/

/-- sites (stable signatures) whose accesses are `unguarded` -/
def unguardedSites (fs : List ParFact) : List String :=
  ((fs.filter (fun f => decide (f.cls = .unguarded))).map ParFact.site).eraseDups

/-- KNOWN FINDING F79 (recorded in /verif/known_findings.jsonl, not repaired).  The status readers of a cursor
    (`IsOpen`, `IsInRange`, `Count`, `Pointer`, and the first line of `Fetch`) read `c.view` / `c.fetched` /
    `c.index` without `c.mtx`, while `Fetch`, `Open`, `Close` write them under it.  They meet when a
    user-defined function FETCHes a cursor of an outer scope and is called from a WHERE clause / select list
    evaluated by several workers next to `CURSOR c IS IN RANGE` etc.  Taking the mutex in the readers is not
    possible without editing the pinned tests, which build `Cursor` literals without a mutex. -/
def knownUnguarded : List String := [
  "race:cursor.go:Cursor.Fetch:c.view",
  "race:cursor.go:Cursor.IsOpen:c.view",
  "race:cursor.go:Cursor.IsInRange:c.view",
  "race:cursor.go:Cursor.IsInRange:c.fetched",
  "race:cursor.go:Cursor.IsInRange:c.index",
  "race:cursor.go:Cursor.IsInRange:c.view.RecordSet",
  "race:cursor.go:Cursor.Count:c.view",
  "race:cursor.go:Cursor.Count:c.view.RecordSet",
  "race:cursor.go:Cursor.Pointer:c.index"]

/-! ### The callees of the worker bodies (interprocedural facts, `Gen.calleeRegion`)

    Locations are named by type and field.  An access through an object that several goroutines can reach is
    `guarded` (a lock every conflicting pair shares, or an operation of a synchronisation object) or `unguarded`.
    The unguarded ones are accepted only at the locations below, and only the pinned accesses (`pinnedUnguarded`:
    location, function, read / write, locks held): a new callee that writes shared state without a lock, or a pinned
    writer that loses its lock, breaks `callee_facts_ok`. -/

/-- KNOWN FINDING F105 (recorded, not repaired): the flags of the transaction (`SET @@…`, `ADD … TO @@…`, `REMOVE`,
    `RELOAD CONFIG`, `SET @@WAIT_TIMEOUT` → `Transaction.UpdateWaitTimeout`, the colour palette) are written under
    `Transaction.flagMutex` / `operationMutex` by a statement inside a user-defined function that parallel workers
    evaluate, and read without any lock by the evaluation of every other record. -/
def f105Locations : List String := [
  "Transaction.RetryDelay", "Transaction.WaitTimeout", "color.Palette.effects", "color.Palette.useEffects",
  "option.ExportOptions.CountDiacriticalSign", "option.ExportOptions.CountFormatCode",
  "option.ExportOptions.Delimiter", "option.ExportOptions.EastAsianEncoding", "option.ExportOptions.EncloseAll",
  "option.ExportOptions.Encoding", "option.ExportOptions.Format", "option.ExportOptions.JsonEscape",
  "option.ExportOptions.LineBreak", "option.ExportOptions.PrettyPrint", "option.ExportOptions.ScientificNotation",
  "option.ExportOptions.SingleLine", "option.ExportOptions.StripEndingLineBreak",
  "option.ExportOptions.WithoutHeader", "option.Flags.AnsiQuotes", "option.Flags.CPU", "option.Flags.DatetimeFormat",
  "option.Flags.LimitRecursion", "option.Flags.Quiet", "option.Flags.Repository", "option.Flags.Stats",
  "option.Flags.StrictEqual", "option.Flags.defaultTimeLocation", "option.ImportOptions.Format"]

/-- KNOWN FINDING F79: the cursor status readers (see `knownUnguarded`), here as seen from the callees -/
def f79Locations : List String := [
  "Cursor.fetched", "Cursor.index", "Cursor.view"]

/-- Reviewed, not races (the analysis joins all callers of a function):
    * `rand.Rand.src` / `s64` — `option.random` is built over `option.lockedSource` (a mutex inside); `Float64`,
      `Int63n`, `Uint64` of `rand.Rand` touch nothing but the source;
    * `HeaderField.Aliases` in `View.evalColumn` — the only caller that reaches it with a view that shares its header
      (`evalListFunction` → `View.OrderBy` on the view of `NewViewFromGroupedRecord`) passes the empty alias and the
      write is under `0 < len(alias)`; `JsonObject`'s view has a copied header (`shared_headers_not_written`);
    * `Transaction.AffectedRows` — written under `proc.storeResults`, which the processors of user-defined functions
      (`NewProcessorWithScope`, `NewChildProcessor`) never have;
    * `BaseError.compositeErrs` — composite errors are appended to error values made in the same call chain. -/
def reviewedLocations : List String := [
  "rand.Rand.s64", "rand.Rand.src", "HeaderField.Aliases", "Transaction.AffectedRows", "BaseError.compositeErrs"]

/-- OPEN (reported to the main session, not yet decided): state of the session / transaction / table files changed by
    a statement that a user-defined function executes while parallel workers evaluate it — `SOURCE` and the loaders
    (`file.Container.m`, a plain map: confirmed by the race detector, `Container.Add` / `Remove`), `ALTER TABLE … SET`
    and friends (`FileInfo.*`), `COMMIT` / tables from URLs / STDIN (`Transaction.UrlCache`, `stdinIsLocked`). -/
def openLocations : List String := [
  "FileInfo.Delimiter", "FileInfo.DelimiterPositions", "FileInfo.EncloseAll", "FileInfo.Encoding", "FileInfo.Format",
  "FileInfo.JsonEscape", "FileInfo.LineBreak", "FileInfo.NoHeader", "FileInfo.Path", "FileInfo.PrettyPrint",
  "FileInfo.SingleLine", "FileInfo.positionsDetected", "FileInfo.restorePointHeader", "FileInfo.restorePointRecordSet", "Transaction.UrlCache",
  "Transaction.stdinIsLocked", "file.Container.m"]

/-- WHAT is known at these locations (pinned): every unguarded WRITE, and every unguarded read that holds some lock, as
    (location, element?, function, is a write, locks held).  A known finding is a set of such accesses — e.g. F110 at
    `Transaction.UrlCache`: `loadHttpObject` reads and writes the map UNDER `viewLoadingMutex`, `ClearUrlCache` under
    `operationMutex` (the finding is that the two locks differ).  A writer that loses its lock, a new writer, a reader
    that gives up the lock it held are other accesses: they break `callee_facts_ok` and are reported with their site.
    Reads that hold no lock at all are accepted at the known locations (every further unlocked reader of the flags is
    the same finding F105). -/
def pinnedUnguarded : List (String × Bool × String × Bool × String) := [
  ("BaseError.compositeErrs", false, "BaseError.appendCompositeError", true, ""),
  ("FileInfo.Delimiter", false, "FileInfo.SetDelimiter", true, ""),
  ("FileInfo.Delimiter", false, "FileInfo.SetFormat", true, ""),
  ("FileInfo.DelimiterPositions", false, "FileInfo.SetDelimiterPositions", true, ""),
  ("FileInfo.EncloseAll", false, "FileInfo.SetEncloseAll", true, ""),
  ("FileInfo.Encoding", false, "FileInfo.SetEncoding", true, ""),
  ("FileInfo.Encoding", false, "FileInfo.SetFormat", true, ""),
  ("FileInfo.Format", false, "FileInfo.SetDelimiter", true, ""),
  ("FileInfo.Format", false, "FileInfo.SetDelimiterPositions", true, ""),
  ("FileInfo.Format", false, "FileInfo.SetFormat", true, ""),
  ("FileInfo.JsonEscape", false, "FileInfo.SetFormat", true, ""),
  ("FileInfo.JsonEscape", false, "FileInfo.SetJsonEscape", true, ""),
  ("FileInfo.LineBreak", false, "FileInfo.SetLineBreak", true, ""),
  ("FileInfo.NoHeader", false, "FileInfo.SetNoHeader", true, ""),
  ("FileInfo.Path", false, "loadView", true, ""),
  ("FileInfo.PrettyPrint", false, "FileInfo.SetPrettyPrint", true, ""),
  ("FileInfo.SingleLine", false, "FileInfo.SetDelimiterPositions", true, ""),
  ("FileInfo.positionsDetected", false, "FileInfo.SetDelimiterPositions", true, ""),
  ("FileInfo.restorePointHeader", false, "View.CreateRestorePoint", true, ""),
  ("FileInfo.restorePointRecordSet", false, "View.CreateRestorePoint", true, ""),
  ("HeaderField.Aliases", false, "View.evalColumn", true, ""),
  ("Transaction.AffectedRows", false, "Processor.ExecuteStatement", true, ""),
  ("Transaction.RetryDelay", false, "Reload", false, "Transaction.operationMutex"),
  ("Transaction.RetryDelay", false, "cacheViewFromFile", false, "Transaction.viewLoadingMutex"),
  ("Transaction.RetryDelay", false, "loadInlineObjectFromFile", false, "Transaction.viewLoadingMutex"),
  ("Transaction.UrlCache", true, "Transaction.ClearUrlCache", false, "Transaction.operationMutex"),
  ("Transaction.UrlCache", true, "Transaction.ClearUrlCache", true, "Transaction.operationMutex"),
  ("Transaction.UrlCache", true, "loadHttpObject", false, "Transaction.viewLoadingMutex"),
  ("Transaction.UrlCache", true, "loadHttpObject", true, "Transaction.viewLoadingMutex"),
  ("Transaction.WaitTimeout", false, "Reload", false, "Transaction.operationMutex"),
  ("Transaction.WaitTimeout", false, "Transaction.LockStdinContext", false, "Transaction.viewLoadingMutex"),
  ("Transaction.WaitTimeout", false, "Transaction.RLockStdinContext", false, "Transaction.viewLoadingMutex"),
  ("Transaction.WaitTimeout", false, "cacheViewFromFile", false, "Transaction.viewLoadingMutex"),
  ("Transaction.WaitTimeout", false, "loadInlineObjectFromFile", false, "Transaction.viewLoadingMutex"),
  ("Transaction.stdinIsLocked", false, "Transaction.LockStdinContext", true, "Transaction.viewLoadingMutex"),
  ("Transaction.stdinIsLocked", false, "Transaction.UnlockStdin", false, "Transaction.operationMutex"),
  ("Transaction.stdinIsLocked", false, "Transaction.UnlockStdin", true, "Transaction.operationMutex"),
  ("Transaction.stdinIsLocked", false, "loadObjectFromStdin", false, "Transaction.viewLoadingMutex"),
  ("color.Palette.useEffects", false, "encodeJson", true, ""),
  ("file.Container.m", false, "CreateTable", true, ""),
  ("file.Container.m", false, "LoadContentsFromFile", true, ""),
  ("file.Container.m", false, "Transaction.Commit", false, "Transaction.operationMutex"),
  ("file.Container.m", false, "Transaction.Commit", true, "Transaction.operationMutex"),
  ("file.Container.m", false, "Transaction.ReleaseResources", false, "Transaction.operationMutex"),
  ("file.Container.m", false, "Transaction.ReleaseResources", true, "Transaction.operationMutex"),
  ("file.Container.m", false, "ViewMap.Dispose", true, ""),
  ("file.Container.m", false, "cacheViewFromFile", false, "Transaction.viewLoadingMutex"),
  ("file.Container.m", false, "cacheViewFromFile", true, "Transaction.viewLoadingMutex"),
  ("file.Container.m", false, "loadInlineObjectFromFile", false, "Transaction.viewLoadingMutex"),
  ("file.Container.m", false, "loadInlineObjectFromFile", true, "Transaction.viewLoadingMutex"),
  ("option.ExportOptions.LineBreak", false, "Processor.ExecuteStatement", false, "Session.mtx"),
  ("option.ExportOptions.StripEndingLineBreak", false, "Processor.ExecuteStatement", false, "Session.mtx"),
  ("option.ExportOptions.StripEndingLineBreak", false, "Transaction.Commit", false, "Transaction.operationMutex"),
  ("option.Flags.CPU", false, "option.Flags.SetCPU", true, ""),
  ("option.Flags.DatetimeFormat", false, "Reload", false, "Transaction.operationMutex"),
  ("option.Flags.DatetimeFormat", false, "Reload", true, "Transaction.operationMutex"),
  ("option.Flags.DatetimeFormat", false, "RemoveFlagElement", false, "Transaction.operationMutex"),
  ("option.Flags.DatetimeFormat", false, "RemoveFlagElement", true, "Transaction.operationMutex"),
  ("option.Flags.DatetimeFormat", false, "Transaction.GetFlag", false, "Transaction.flagMutex (read)"),
  ("option.Flags.DatetimeFormat", false, "option.Flags.SetDatetimeFormat", false, "Transaction.flagMutex"),
  ("option.Flags.DatetimeFormat", false, "option.Flags.SetDatetimeFormat", true, "Transaction.flagMutex"),
  ("option.Flags.Quiet", false, "Processor.ExecuteStatement", false, "Transaction.operationMutex"),
  ("option.Flags.Quiet", false, "Transaction.Commit", false, "Transaction.operationMutex"),
  ("option.Flags.Quiet", false, "Transaction.Rollback", false, "Transaction.operationMutex"),
  ("option.Flags.Quiet", false, "Transaction.quietForTemporaryViews", false, "Transaction.operationMutex"),
  ("option.Flags.Repository", false, "cacheViewFromFile", false, "Transaction.viewLoadingMutex"),
  ("option.Flags.Repository", false, "loadInlineObjectFromFile", false, "Transaction.viewLoadingMutex"),
  ("option.Flags.Stats", false, "Processor.ExecuteStatement", false, "Transaction.operationMutex"),
  ("option.ImportOptions.Format", false, "cacheViewFromFile", false, "Transaction.viewLoadingMutex"),
  ("option.ImportOptions.Format", false, "loadInlineObjectFromFile", false, "Transaction.viewLoadingMutex"),
  ("rand.Rand.s64", false, "Rand", true, ""),
  ("rand.Rand.src", false, "Rand", true, "")]

def knownLocation (v : String) : Bool :=
  f105Locations.contains v || f79Locations.contains v || reviewedLocations.contains v || openLocations.contains v

def unguardedKey (f : ParFact) : String × Bool × String × Bool × String := (f.var, f.elem, f.fn, f.rw == .w, f.how)

/-- location-level acceptance (the exact accesses are pinned by `callee_facts_ok`) -/
def calleeAccepted (f : ParFact) : Bool := knownLocation f.var

/- The full statement, false on the current tree because of F79 only:

     theorem facts_ok : Gen.parFacts.all (fun f => decide (f.cls ≠ .unguarded)) = true                       -/

set_option maxRecDepth 1000000 in
/-- **facts_ok_except_known.**  No access to a shared variable in any fork–join region of lib/query (worker
    closures of `Run` / `EvaluateSequentially`, bodies started with `go`, the parent between fork and join, the
    methods of the manager types and of `Cursor`, objects taken from the context) is `unguarded` — every one is
    own-index, sole-goroutine, guarded by the location's lock, an operation of a synchronisation object, or a
    read of something nobody writes — EXCEPT the cursor status readers of F79.  Any other unguarded access
    makes this obligation fail and is reported by vt/p_c13.py as `race:<file>:<function>:<variable>`.
    (Pre-finding F7 was repaired in /repo, commit bec97d6.) -/
theorem facts_ok_except_known :
    Gen.parFacts.all (fun f => decide (f.cls ≠ .unguarded) || knownUnguarded.contains f.site ||
      (f.region == Gen.calleeRegion && calleeAccepted f)) = true := by
  decide +kernel

set_option maxRecDepth 1000000 in
/-- the known finding is still there (when it is repaired this breaks, and `knownUnguarded` is to be emptied) -/
theorem known_finding_F79_present :
    Gen.parFacts.any (fun f => decide (f.cls = .unguarded) && f.site == "race:cursor.go:Cursor.IsInRange:c.index") = true := by
  decide

/-- classes are assigned per location and consistently inside a region: a location with a
    `readOnly` access has no write in the region; `guarded` accesses of one location name one lock;
    `ownIndex` accesses of one location use one index space. -/
def compatible (f g : ParFact) : Bool :=
  !(f.region == g.region && f.elem == g.elem && f.var == g.var) ||
  ((f.cls != .readOnly || g.rw == .r || g.syncOp) &&
   (!(f.cls == .guarded && g.cls == .guarded) || f.how == g.how || f.syncOp || g.syncOp) &&
   (!(f.cls == .ownIndex && g.cls == .ownIndex) || f.how == g.how))

def factsConsistent (byRegion : List (List ParFact)) : Bool :=
  byRegion.all (fun fs => fs.all (fun f => fs.all (fun g => compatible f g)))

set_option maxRecDepth 1000000 in
/-- **facts_consistent.**  The generated classification is a per-location policy (what `Discipline`
    needs), checked here on the generated list itself rather than trusted from the extractor's code. -/
theorem facts_consistent : factsConsistent Gen.parFactsByRegion.dropLast = true := by decide +kernel

set_option maxRecDepth 1000000 in
/-- the same for the region of the callees (the last one), in linear form: every location has one lock
    (`Gen.calleeLocks`, one entry per location), and every guarded plain access of the location names it -/
theorem callee_locks_consistent :
    (Gen.parFactsByRegion.getLast?.getD []).all (fun f => f.region == Gen.calleeRegion &&
      (f.cls != .guarded || f.syncOp || Gen.calleeLocks.contains (f.var, f.elem, f.how))) = true ∧
    (Gen.calleeLocks.map (fun l => (l.1, l.2.1))).Nodup := by decide +kernel

set_option maxRecDepth 1000000 in
/-- no write is classified `readOnly`, and every fact names one of the generated regions -/
theorem facts_wellformed :
    Gen.parFacts.all (fun f => (f.rw == .r || f.cls != .readOnly) &&
      Gen.parRegions.any (fun r => r.1 == f.region)) = true := by decide

/-- fields of the manager types read or written without a mutex by a method that worker goroutines
    call, although some such method writes the field (re-derived here from the raw method facts) -/
def unlockedConflicts (ms : List MethodFact) : List (String × String × String) :=
  ((ms.filter (fun f => f.concurrent && f.mutex == "" &&
      ms.any (fun g => g.concurrent && g.typ == f.typ && g.field == f.field && g.rw == .w))).map
    (fun f => (f.typ, f.method, f.field))).eraseDups

/-- **manager_fields_locked.**  No method of `GoroutineTaskManager` / `GoroutineManager` that worker
    goroutines call touches, without the mutex, a field that some such method writes (since commit
    bec97d6 `HasError` and `Err` take `grTaskMutex`). -/
theorem manager_fields_locked : unlockedConflicts Gen.managerMethodFacts = [] := by decide

/-- Fields a copy is ALLOWED to share with its original: `View.FileInfo` describes the file behind a table
    (path, format, …); it is not evaluation state and no worker writes it (trusted, named in the evidence). -/
def allowedSharedCopies : List String := ["copyshare:view.go:View.Copy:FileInfo"]

/-- **copies_share_nothing.**  Every Copy-style method of a struct type of lib/query (`FieldIndexCache.Copy`,
    which gives each parallel worker's scope its own field-index cache; `View.Copy`) makes every
    reference-typed field of its result anew on every path, except the allowed ones.  A copy that keeps the
    original's map or slice hands two goroutines one unsynchronised structure; such a field is reported as
    `copyshare:<file>:<method>:<field>`. -/
theorem copies_share_nothing :
    Gen.copyFacts.all (fun c => c.fresh || allowedSharedCopies.contains c.site) = true ∧
    Gen.copyFacts.any (fun c => c.fn == "FieldIndexCache.Copy" && c.field == "m") = true := by decide

/-! ## 4. Recycled objects and shared headers

    Two ways in which an object that is private by intention ends up in two goroutines without any closure
    capturing it: a pooled object that is released twice (the pool hands it out twice), and a per-record view
    that takes its header from the outer view without copying it. -/

/-- **pooled_objects_released_at_most_once.**  For every object that lib/query gives back to a `sync.Pool` — node
    scopes (`CloseCurrentNode`), block scopes (`CloseCurrentBlock`, `Processor.Close`), merged records of the joins,
    comparison-key buffers; the releasers are found from the source (`Gen.poolReleasers`) — no path through the
    releasing function releases it more than once, deferred calls included.  `defer x.Close()` next to an explicit
    `x.Close()` on an error path gives `maxRel = 2`; vt/p_c13.py reports it as `doublerelease:<file>:<function>:<object>`
    and the race workloads (failing-statement histories + pool probe) give the failing history. -/
theorem pooled_objects_released_at_most_once :
    Gen.releaseFacts.all (fun f => decide (f.maxRel ≤ 1)) = true := by decide

/-- Scopes that are not released on some path (left to the garbage collector — no sharing, only a lost object),
    reviewed: `InlineTableMap.Set` returns the nested-recursion error before the release; `Calc` (lib/action) never
    releases the node of its one expression. -/
def allowedLeaks : List String := [
  "releaseleak:inline_tables.go:InlineTableMap.Set:scope",
  "releaseleak:calc.go:Calc:scope.CreateNode()"]

def scopeReleasers : List String :=
  ["ReferenceScope.CloseCurrentNode", "ReferenceScope.CloseCurrentBlock", "Processor.Close", "PutNodeScope", "PutBlockScope",
   "PutComparisonkeysBuf", "never released (left to the garbage collector)"]

/-- **scopes_released_exactly_once.**  Scopes and key buffers are released on EVERY path exactly once, except the
    reviewed leaks (merged records are kept when the join condition holds: only `maxRel` applies to them). -/
theorem scopes_released_exactly_once :
    Gen.releaseFacts.all (fun f => !scopeReleasers.contains f.via || (f.minRel == 1 && f.maxRel == 1) ||
      (f.maxRel ≤ 1 && allowedLeaks.contains f.leakSite)) = true := by decide

/-- the release analysis sees the sites it is about (non-vacuity, on the generated list itself) -/
theorem release_facts_nonvacuous :
    Gen.poolReleasers.contains "ReferenceScope.CloseCurrentNode" = true ∧
    Gen.poolReleasers.contains "Processor.Close" = true ∧
    Gen.releaseFacts.any (fun f => f.via == "ReferenceScope.CloseCurrentNode" && decide (2 ≤ f.sites)) = true ∧
    Gen.releaseFacts.any (fun f => f.via == "ReferenceScope.CloseCurrentNode" && f.defers == 1) = true ∧
    Gen.releaseFacts.any (fun f => f.via == "sync.Pool.Put" && f.key == "mergedRecord") = true ∧
    Gen.releaseFacts.any (fun f => f.defers == 1 && f.via == "ReferenceScope.CloseCurrentBlock") = true := by decide

/-- headers that may be shared AND written (none) -/
def allowedSharedHeaderWrites : List String := []

/-- **shared_headers_not_written.**  Wherever a `View` is given the header of another view instead of a copy (the
    one-record views of `evaluateSequentialRoutine` and of the joins' record scopes, `NewViewFromGroupedRecord`), the
    function does not go on to call anything on that view that writes header fields (`View.Select` / `evalColumn`
    append to `Header[i].Aliases`, `Header.Update`, …: found from the source, transitively).  `JsonObject`, which
    does select into its per-record view, takes a copy.  Reported as `headershare:<file>:<function>:<target>`. -/
theorem shared_headers_not_written :
    Gen.headerShareFacts.all (fun f => f.fresh || !f.writtenAfter || allowedSharedHeaderWrites.contains f.site) = true ∧
    Gen.headerShareFacts.any (fun f => f.fn == "JsonObject" && f.fresh) = true ∧
    Gen.headerShareFacts.any (fun f => f.fn == "evaluateSequentialRoutine" && !f.fresh && !f.writtenAfter) = true := by decide

/-- The statements of lib/query that write a field of an element of a header they did not make themselves, reviewed:
    all of them run on the goroutine that owns the statement's view (FROM / GROUP BY / select clause of the
    parent, DDL), or on a per-record copy (`JsonObject`, LATERAL). -/
def reviewedHeaderWrites : List String := [
  "headerwrite:Header.Update:h:View", "headerwrite:Header.Update:h:Column", "headerwrite:Header.Update:h:Aliases",
  "headerwrite:joinViews:view.Header:View", "headerwrite:joinViews:view.Header:Number", "headerwrite:joinViews:view.Header:IsJoinColumn",
  "headerwrite:RenameColumn:view.Header:Column",
  "headerwrite:View.group:view.Header:IsGroupKey",
  "headerwrite:View.evalColumn:view.Header:Aliases"]

/-- **header_write_sites_reviewed.**  No other statement writes into a header it was handed. -/
theorem header_write_sites_reviewed :
    Gen.headerWriteFacts.all (fun f => f.localHeader || reviewedHeaderWrites.contains f.site) = true ∧
    Gen.headerWriteFacts.any (fun f => f.site == "headerwrite:View.evalColumn:view.Header:Aliases") = true := by decide

/-! ## 5. The callees of the worker bodies -/

def calleeFacts : List ParFact := Gen.parFacts.filter (fun f => f.region == Gen.calleeRegion)

set_option maxRecDepth 1000000 in
/-- **callee_facts_ok.**  Every access through a shared object in every function of lib/query, lib/value, lib/option
    that a worker body reaches (call graph resolved with go/types: static calls, methods, interface methods by the
    implementing types, function values by signature) is guarded — a lock held by both sides of every conflicting
    pair, in the function itself, at every call site of it, or handed on by a function that returns holding it; or
    an operation of a synchronisation object — except at the known / reviewed / open locations above, and there exactly
    the pinned accesses (every unguarded write and every unguarded read under some lock, with the locks held). -/
theorem callee_facts_ok :
    calleeFacts.all (fun f => decide (f.cls ≠ .unguarded) || knownLocation f.var) = true ∧
    ((calleeFacts.filter (fun f => f.cls == .unguarded && (f.rw == .w || f.how != ""))).map unguardedKey == pinnedUnguarded) = true := by
  decide +kernel

set_option maxRecDepth 1000000 in
/-- what the repaired findings look like now (non-vacuity of the region and confirmation of the repairs): the
    field-index caches (F63) and the header aliases of `Header.Copy` (F106) are not written through a shared object
    any more — no fact at all at `FieldIndexCache.*`, none at `HeaderField.Aliases` outside `View.evalColumn`; the
    scope pools, the value pools, `SyncMap`, the date-format and time-zone caches are synchronisation objects; the file
    path cache of the scope is written under `Transaction.viewLoadingMutex`; F105's writer is seen holding `flagMutex`. -/
theorem callee_facts_nonvacuous :
    calleeFacts.any (fun f => f.var == "FieldIndexCache.m" || f.var == "FieldIndexCache.exprs") = false ∧
    calleeFacts.all (fun f => f.var != "HeaderField.Aliases" || f.rw == .r || f.fn == "View.evalColumn") = true ∧
    calleeFacts.any (fun f => f.var == "ReferenceScope.cachedFilePath" && f.rw == .w && f.cls == .guarded && f.how == "Transaction.viewLoadingMutex") = true ∧
    calleeFacts.any (fun f => f.fn == "option.Flags.SetStrictEqual" && f.rw == .w && f.how == "Transaction.flagMutex") = true ∧
    calleeFacts.any (fun f => f.var == "option.Flags.StrictEqual" && f.rw == .r && f.cls == .unguarded) = true ∧
    calleeFacts.any (fun f => f.var == "nodeScopePool*" && f.syncOp) = true ∧
    calleeFacts.any (fun f => f.var == "value.DatetimeFormatMap.m*" && f.syncOp) = true ∧
    calleeFacts.any (fun f => f.fn == "Cursor.Fetch" && f.rw == .w && f.how == "Cursor.mtx") = true := by decide +kernel

/-- **no_unguarded_package_state.**  Every package-level variable of lib/query, lib/value, lib/option that some
    function changes after initialisation — the process-wide caches and pools a worker can reach: `RegExps`,
    `value.DatetimeFormats`, `option.Timezones`, `option.random`, the scope / value / key-buffer pools, the goroutine
    manager — is of a concurrency-safe type (sync.Map, sync.Pool, a struct with its own lock), set under a sync.Once,
    or written under a lock.  A plain map or slice added as a cache breaks this. -/
theorem no_unguarded_package_state :
    Gen.packageLevelState.all (fun s => !s.written || s.guard != "") = true ∧
    Gen.packageLevelState.any (fun s => s.name == "RegExps" && s.guard == "query.SyncMap") = true ∧
    Gen.packageLevelState.any (fun s => s.name == "random" && s.written && s.guard == "sync.Once(getRand)") = true ∧
    Gen.packageLevelState.any (fun s => s.name == "DatetimeFormats" && s.guard != "") = true ∧
    Gen.packageLevelState.any (fun s => s.name == "nodeScopePool" && s.guard == "sync.Pool") = true := by decide

/-- calls that leave lib/query, lib/value, lib/option for something else than the standard library, and calls that
    cannot be resolved (reviewed: syntax-tree accessors of lib/parser — immutable nodes, property C14; the text / json /
    file helpers work on arguments of their own; `doc.Writer`, the encoders and readers are made per call;
    `file.Container` is the OPEN finding above; interface methods of context / io / error; four function values of the
    standard library handed to generic helpers) -/
def reviewedOpaque : List String := [
  "constant.Get", "doc.NewWriter", "file.Exists", "file.GetTimeoutContext", "file.NewContainer", "file.NewReader",
  "file.RandomString", "file.VerifPoint", "function value cryptof of type func() hash.Hash",
  "function value mathf of type func(float64) float64",
  "function value mathf of type func(float64, float64) float64", "function value stringsf of type func(string) int",
  "go-text.ByteSize", "go-text.DetectInSpecifiedEncoding", "go-text.Encode", "go-text.ParseEncoding",
  "go-text.ParseLineBreak", "go-text.RuneByteSize", "go-text.RuneWidth", "go-text.Width",
  "go-text/color.GeneratePalette", "go-text/csv.NewField", "go-text/csv.NewReader", "go-text/csv.NewWriter",
  "go-text/fixedlen.NewDelimiter", "go-text/fixedlen.NewField", "go-text/fixedlen.NewMeasure",
  "go-text/fixedlen.NewReader", "go-text/fixedlen.NewWriter", "go-text/json.NewEncoder", "go-text/jsonl.NewReader",
  "go-text/ltsv.NewReader", "go-text/ltsv.NewWriter", "go-text/table.NewEncoder", "go-text/table.NewField",
  "golang.org/x/crypto/ssh/terminal.GetSize", "golang.org/x/text/cases.Title", "interface RecordReader.Read",
  "interface VirtualTerminal.GetSize", "interface VirtualTerminal.ReloadConfig", "interface VirtualTerminal.Write",
  "interface context.Context.Done", "interface context.Context.Err", "interface context.Context.Value",
  "interface error.Error", "interface hash.Hash.Sum", "interface hash.Hash.Write", "interface io.WriteCloser.Write",
  "interface io.Writer.Write", "interface os.FileInfo.IsDir", "interface parser.Expression.Char",
  "interface parser.Expression.HasParseInfo", "interface parser.Expression.Line",
  "interface parser.Expression.SourceFile", "interface parser.QueryExpression.GetBaseExpr",
  "interface parser.QueryExpression.String", "interface reflect.Type.Name", "json.ConvertRecordValueToJsonStructure",
  "json.ConvertTableValueToJsonStructure", "json.ConvertToValue", "json.Extract", "json.LoadArray", "json.LoadTable",
  "json.LoadValue", "json.ParsePathes", "json.ParseValueToStructure", "methods of doc.Writer",
  "methods of excmd.ArgsSplitter", "methods of excmd.ArgumentScanner", "methods of file.Container",
  "methods of file.Handler", "methods of file.Reader", "methods of go-text.Encoding", "methods of go-text.LineBreak",
  "methods of go-text/color.Palette", "methods of go-text/csv.Reader", "methods of go-text/csv.Writer",
  "methods of go-text/fixedlen.Delimiter", "methods of go-text/fixedlen.DelimiterPositions",
  "methods of go-text/fixedlen.Measure", "methods of go-text/fixedlen.Reader", "methods of go-text/fixedlen.Writer",
  "methods of go-text/json.Array", "methods of go-text/json.Encoder", "methods of go-text/json.Object",
  "methods of go-text/jsonl.Reader", "methods of go-text/ltsv.Header", "methods of go-text/ltsv.Writer",
  "methods of go-text/table.Encoder", "methods of golang.org/x/text/cases.Caser", "methods of json.QueryMap",
  "methods of syntax.Description", "methods of syntax.Grammar", "methods of syntax.Name", "methods of syntax.Store",
  "methods of ternary.Value", "methods of the syntax-tree nodes of lib/parser", "mitchellh/go-homedir.Dir",
  "parser.NewBaseExpr", "parser.NewIntegerValue", "parser.NewNullValue", "parser.NewStringValue", "parser.Parse",
  "parser.TokenLiteral", "syntax.NewStore", "ternary.All", "ternary.And", "ternary.Any", "ternary.ConvertFromBool",
  "ternary.Equal", "ternary.Not", "ternary.Or"]

def reviewedStdlib : List String := [
  "bufio", "bytes", "context", "crypto/hmac", "encoding/base64", "encoding/hex", "encoding/json", "errors", "fmt",
  "io", "math", "math/rand", "net/http", "net/url", "os", "os/exec", "path/filepath", "reflect", "regexp", "runtime",
  "sort", "strconv", "strings", "sync", "sync/atomic", "time", "unicode", "unicode/utf8"]

/-- every function that writes through a shared object at all, guarded or not (pinned) -/
def pinnedSharedWriters : List String := [
  "AddColumns", "BaseError.appendCompositeError", "CreateTable", "Cursor.Close", "Cursor.Fetch", "Cursor.Open",
  "FileInfo.SetDelimiter", "FileInfo.SetDelimiterPositions", "FileInfo.SetEncloseAll", "FileInfo.SetEncoding",
  "FileInfo.SetFormat", "FileInfo.SetJsonEscape", "FileInfo.SetLineBreak", "FileInfo.SetNoHeader",
  "FileInfo.SetPrettyPrint", "GetBlockScope", "GetComparisonKeysBuf", "GetGoroutineManager", "GetNodeScope",
  "GoroutineManager.AssignRoutineNumber", "GoroutineManager.Release", "GoroutineTaskManager.Done",
  "GoroutineTaskManager.SetError", "LoadContentsFromFile", "Processor.ExecuteStatement", "PutBlockScope",
  "PutComparisonkeysBuf", "PutNodeScope", "Rand", "Record.Merge", "ReferenceScope.StoreFilePath", "Reload",
  "RemoveFlagElement", "StdinLocker.RUnlock", "StdinLocker.Unlock", "SyncMap.Keys", "SyncMap.Len", "SyncMap.Range",
  "SyncMap.delete", "SyncMap.exists", "SyncMap.load", "SyncMap.store", "Transaction.ClearUrlCache",
  "Transaction.Commit", "Transaction.LockStdinContext", "Transaction.ReleaseResources", "Transaction.UnlockStdin",
  "Transaction.UpdateWaitTimeout", "Transaction.UseColor", "UncommittedViews.Clean",
  "UncommittedViews.SetForCreatedView", "UncommittedViews.SetForUpdatedView", "UncommittedViews.Unset",
  "View.CreateRestorePoint", "View.evalColumn", "ViewMap.Dispose", "cacheViewFromFile", "encodeJson",
  "loadHttpObject", "loadInlineObjectFromFile", "loadView", "option.Environment.Merge",
  "option.Flags.SetAllowUnevenFields", "option.Flags.SetAnsiQuotes", "option.Flags.SetCPU", "option.Flags.SetColor",
  "option.Flags.SetCountDiacriticalSign", "option.Flags.SetCountFormatCode", "option.Flags.SetDatetimeFormat",
  "option.Flags.SetDelimiter", "option.Flags.SetDelimiterPositions", "option.Flags.SetEastAsianEncoding",
  "option.Flags.SetEncloseAll", "option.Flags.SetEncoding", "option.Flags.SetFormat", "option.Flags.SetImportFormat",
  "option.Flags.SetJsonEscape", "option.Flags.SetJsonQuery", "option.Flags.SetLimitRecursion",
  "option.Flags.SetLineBreak", "option.Flags.SetLocation", "option.Flags.SetNoHeader", "option.Flags.SetPrettyPrint",
  "option.Flags.SetQuiet", "option.Flags.SetRepository", "option.Flags.SetScientificNotation",
  "option.Flags.SetStats", "option.Flags.SetStrictEqual", "option.Flags.SetStripEndingLineBreak",
  "option.Flags.SetWaitTimeout", "option.Flags.SetWithoutHeader", "option.Flags.SetWithoutNull",
  "option.Flags.SetWriteDelimiter", "option.Flags.SetWriteDelimiterPositions", "option.Flags.SetWriteEncoding",
  "option.GetRand", "option.TimezoneMap.load", "option.TimezoneMap.store", "selectSetForRecursion",
  "value.DatetimeFormatMap.load", "value.DatetimeFormatMap.store", "value.Discard", "value.getDatetime",
  "value.getFloat", "value.getInteger", "value.getString"]

/-- writers of shared state that worker bodies reach WITHOUT going through `Evaluate` (key buffers, pooled values and
    records, the date-format cache) -/
def pinnedWritersOutsideCore : List String := [
  "GetComparisonKeysBuf", "PutComparisonkeysBuf", "Record.Merge", "value.DatetimeFormatMap.load", "value.DatetimeFormatMap.store",
  "value.Discard", "value.getDatetime", "value.getFloat", "value.getInteger", "value.getString"]

set_option maxRecDepth 1000000 in
/-- **reachable_set_pinned.**  The set of functions the worker bodies reach (`Gen.reachableCore` through `Evaluate`,
    `Gen.closureReach` per body) leaves the analysed packages exactly through the reviewed calls; the functions among
    them that write shared state are exactly the pinned ones — a new callee that writes through a shared object, with
    or without a lock, or a new way out of the analysed code, breaks this obligation and is reviewed. -/
theorem reachable_set_pinned :
    (Gen.opaqueCalls == reviewedOpaque) = true ∧
    (Gen.stdlibPackages == reviewedStdlib) = true ∧
    (Gen.sharedStateWriters == pinnedSharedWriters) = true ∧
    (Gen.writersOutsideCore == pinnedWritersOutsideCore) = true ∧
    Gen.closureReach.any (fun c => c.body == "View.filter (worker closure)" && c.reachesCore) = true ∧
    Gen.closureReach.any (fun c => c.body == "evaluateSequentialRoutine" && c.reachesCore) = true ∧
    Gen.coreWitnesses.all (fun w => Gen.reachableCore[w.1]? == some w.2) = true ∧
    (Gen.coreWitnesses.map (·.2) == ["FetchCursor", "JsonObject", "Processor.ExecuteStatement", "Select", "SetFlag",
      "UserDefinedFunction.Execute", "evalFunction", "option.Flags.SetDatetimeFormat", "selectQuery", "value.Compare"]) = true ∧
    decide (900 ≤ Gen.reachableCore.length) = true := by decide +kernel

/-- **outside_goroutines_assign_nothing_captured.**  The goroutines started outside lib/query (the signal handler of the
    command line front end, the actions, the terminal) hand their results over through channels: no `go func() {…}()`
    literal there assigns a variable of the function around it (such a variable would be written by the goroutine and
    read by its parent with nothing ordering the two; F93, repaired in 702d22f, was of this shape).  Reported as
    `gowrite:<file>:<function>:<variable>`. -/
theorem outside_goroutines_assign_nothing_captured : Gen.outsideGoWrites = [] := by decide

/-- Why the discipline is needed (a statement about the MODEL, independent of the tree): a write
    under a lock and a read of the same location without it, from two workers, is a data race. -/
theorem unlocked_read_counterexample (l : Loc) (m : LockId) :
    HasRace [⟨.worker 0, ⟨l, .w, [m], false⟩⟩, ⟨.worker 1, ⟨l, .r, [], false⟩⟩] := by
  refine ⟨0, 1, by simp, by simp, by decide, ?_⟩
  refine ⟨by simp, rfl, Or.inl rfl, ?_, ?_⟩
  · intro _ _ h; cases h
  · intro h; cases h.1

end Csvq.C13
