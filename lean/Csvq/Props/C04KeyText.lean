/-
  C04 — the key texts without assumption.  `KeyTextOK` (Lemmas/Keys.lean) asks that the integer and float texts
  inside a comparison key are injective and contain neither the separator ':' nor the escape byte '\\'.
  For the integer text (`decText` = strconv.FormatInt) Props/C04.lean proves it; for the float text it was an
  assumption about strconv.FormatFloat.  With strconv.FormatFloat inside the model (Model/FormatFloat.lean,
  `FF.fmtF` = value.Float64ToStr(f, false), compared text for text with the real function by the streams C06
  `c06.ffmt` and C04 `c04.key`) the assumption is a theorem, and `serKeys_inj` / `same_bucket_iff` hold for the
  key texts csvq really writes.  Property theorems only.
-/
import Csvq.Props.C04
import Csvq.Props.C06Fmt
namespace Csvq.C04
open Csvq

/-- the key texts csvq writes: value.Int64ToStr and value.Float64ToStr(·, false) -/
def goKeyText : KeyText := { itext := decText, ftext := FF.fmtF }

/-- **`KeyTextOK` for the real key texts — no hypothesis left** -/
theorem keytext_ok : KeyTextOK { itext := decText, ftext := FF.fmtF } :=
  keytext_ok_of_float FF.fmtF C06.fmt_injective C06.fmt_clean

/-- joined comparison keys are uniquely decodable, for the texts csvq writes -/
theorem serKeys_inj_go (a b : List NKey) (hl : a.length = b.length)
    (h : serKeys goKeyText a = serKeys goKeyText b) : a = b :=
  serKeys_inj goKeyText keytext_ok a b hl h

/-- two rows fall into the same bucket iff, column by column, their normalised values are equal -/
theorem same_bucket_iff_go (r s : List Profile) (hl : r.length = s.length) :
    serKeys goKeyText (r.map norm) = serKeys goKeyText (s.map norm) ↔ r.map norm = s.map norm :=
  same_bucket_iff goKeyText keytext_ok r s hl

/-- the same under --strict-equal -/
theorem same_bucket_strict_iff_go (r s : List NKey) (hl : r.length = s.length) :
    serKeys goKeyText r = serKeys goKeyText s ↔ r = s :=
  same_bucket_strict_iff goKeyText keytext_ok r s hl

/-- a float key and an integer key never coincide, whatever their texts (1.0 is keyed as the integer 1 by
    `norm`, not by a coincidence of texts) -/
theorem float_key_ne_int_key (f : FVal) (i : Int) : serKey goKeyText (.flt f) ≠ serKey goKeyText (.int i) := by
  intro h
  have := serKey_injective goKeyText keytext_ok _ _ h
  cases this

/-! ## non-vacuity -/

-- the keys of 0.1 and of 1e21: `[F]0.1`, `[F]1000000000000000000000`
example : serKey goKeyText (.flt (.fin (3602879701896397 * 2 ^ 1019))) = [91, 70, 93, 48, 46, 49] := by decide +kernel
example : serKey goKeyText (.flt (.fin (476837158203125 * 2 ^ 1095))) = 91 :: 70 :: 93 :: FF.decNat 1000000000000000000000 := by
  decide +kernel
example : serKeys goKeyText [.flt .nan, .int 3, .str [58]] = [91, 70, 93, 78, 97, 78, 58, 91, 73, 93, 51, 58, 91, 83, 93, 92, 58] := by
  decide +kernel

end Csvq.C04
