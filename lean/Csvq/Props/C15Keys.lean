/-
  Property C15, part 2 — WHAT COUNTS AS THE SAME NAME.

  Props/C15.lean proves shadowing, locality, persistence of outer assignments, call frames … for abstract names:
  two occurrences are one object iff they carry the same number.  Here a name is the raw text of the program and
  each kind of object has a key function (Model/ScopeKeys.lean); `canon key T` gives every raw name of the table `T`
  its abstract name.  Property theorems only (helpers: Lemmas/ScopeKeys.lean):

    same_name_iff_same_key            two listed names are one object  ⇔  same kind and same key          (all tables)
    keyed_theorems_are_instances      a keyed run IS a run of Model/Scope on the resolved program: every theorem of
                                      Props/C15.lean applies (refinement shown as the instance)
    case_twins_are_distinct_variables variables with different texts never see each other's declaration,
                                      assignment, disposal; redeclaration is an error per KEY; a block that declares
                                      a twin does not capture the assignment meant for the outer variable
    lower_key_*_counterexample        what keying variables by strings.ToLower (seed C15-m26) breaks
    case_twins_are_one_cursor / _function / _view / _statement      identifiers that differ in letter case are ONE object
    exact_key_splits_*_counterexample what keying identifiers by the exact text would break
    dotless_i_* / kelvin_*            Unicode twins decided by Go's tables: `ı` upper-cases to `I` (one cursor with
                                      `i`), the Kelvin sign is already upper case (a different cursor than `k` / `K`)
    gen_name_keys_consistent / gen_name_keys_eq_ref / gen_variable_loadDirect_unused / gen_view_keys_reviewed /
    gen_syncMap_primitives_reviewed   the key functions REGENERATED from lib/query (extract/scopefacts -keys)
-/
import Csvq.Lemmas.ScopeKeys
import Csvq.Lemmas.UnicodeTables
import Csvq.Props.C15
namespace Csvq.C15
open Csvq Csvq.Scope

/-! ## names and keys -/

/-- **two raw names of a program are the same object iff they are of the same kind and their keys agree** — for
    every table of names without a repeated number and every assignment of key functions to kinds -/
theorem same_name_iff_same_key (key : Kind → KeyFn) (T : Names) (hwf : T.WF) (a b : NameEnt) (ha : a ∈ T) (hb : b ∈ T) :
    canon key T a.num = canon key T b.num ↔ a.kind = b.kind ∧ (key a.kind).apply a.raw = (key b.kind).apply b.raw :=
  canon_eq_iff key hwf ha hb

/-- resolving is idempotent and leaves unlisted numbers (loop counters) alone -/
theorem canon_stable (key : Kind → KeyFn) (T : Names) (hwf : T.WF) (x : Nat) :
    canon key T (canon key T x) = canon key T x ∧ (T.lookup x = none → canon key T x = x) :=
  ⟨canon_idem key hwf x, canon_unlisted key T x⟩

/-- a keyed run is a run of the abstract-name model on the resolved program: the Go-shaped interpreter and the
    reference semantics agree on it (and so does every other theorem of Props/C15.lean, stated for all programs) -/
theorem keyed_theorems_are_instances (key : Kind → KeyFn) (fuel : Nat) (p : KProg) :
    execKeyed key fuel p = execSpec fuel (p.resolve key) ∧
    (runKeyed key fuel p).st.blocks.length = 1 ∧
    (runKeyed key fuel p).commits = (blockS fuel (p.resolve key) St.init).1.commits := by
  refine ⟨exec_refines fuel _, ?_, ?_⟩
  · exact block_stack_balanced_list fuel _ none St.init
  · exact commit_iff_normal_end fuel (p.resolve key) none St.init

/-! ## variables: the exact text is the key -/

/-- **variables whose texts differ are different variables** (reference key: exact).  For listed variables `a`, `b`
    with `a.raw ≠ b.raw` — `@Total` and `@total`, `@N` and `@n` — and EVERY block stack: declaring, assigning or
    disposing the one leaves what the other holds as it was -/
theorem case_twins_are_distinct_variables (T : Names) (hwf : T.WF) (a b : NameEnt) (ha : a ∈ T) (hb : b ∈ T)
    (hka : a.kind = .var) (hkb : b.kind = .var) (hne : a.raw ≠ b.raw) (v : SVal) (bs bs' : List Block) :
    let A := canon refKey T a.num
    let B := canon refKey T b.num
    A ≠ B ∧
    (declareVar A v bs = some bs' → getVar B bs' = getVar B bs) ∧
    (setVar A v bs = some bs' → getVar B bs' = getVar B bs) ∧
    (disposeVar A bs = some bs' → getVar B bs' = getVar B bs) := by
  intro A B
  have hAB : A ≠ B := by
    intro h
    have := (canon_eq_iff refKey hwf ha hb).mp h
    rw [hka, hkb] at this
    exact hne this.2
  exact ⟨hAB, getVar_declareVar_other (Ne.symm hAB), getVar_setVar_other (Ne.symm hAB), getVar_disposeVar_other (Ne.symm hAB)⟩

/-- the redeclaration error is per KEY: after `VAR a` in a block, `VAR b` in the same block fails exactly when the
    two names have the same key (or `b` was there before) — under any key function -/
theorem redeclared_iff_same_key (key : Kind → KeyFn) (T : Names) (hwf : T.WF) (a b : NameEnt) (ha : a ∈ T) (hb : b ∈ T)
    (hka : a.kind = .var) (hkb : b.kind = .var) (v w : SVal) (bs bs1 : List Block)
    (h : declareVar (canon key T a.num) v bs = some bs1) :
    declareVar (canon key T b.num) w bs1 = none ↔
      ((key .var).apply a.raw = (key .var).apply b.raw ∨ declareVar (canon key T b.num) w bs = none) := by
  rw [declareVar_twice h]
  have := canon_eq_iff key hwf hb ha
  rw [hka, hkb] at this
  constructor
  · rintro (h1 | h1)
    · exact .inl (this.mp h1).2.symm
    · exact .inr h1
  · rintro (h1 | h1)
    · exact .inl (this.mpr ⟨rfl, h1.symm⟩)
    · exact .inr h1

/-- **a block-local twin does not capture the assignment meant for the outer variable** (reference key).  With
    `@b` visible outside and `a.raw ≠ b.raw`:  IF TRUE THEN VAR @a := v1; @b := v; END IF  ends normally, `@b` holds
    `v` afterwards, no other variable changed, `@a` is not visible afterwards unless it was before -/
theorem twin_shadow_keeps_outer_assignment (T : Names) (hwf : T.WF) (a b : NameEnt) (ha : a ∈ T) (hb : b ∈ T)
    (hka : a.kind = .var) (hkb : b.kind = .var) (hne : a.raw ≠ b.raw) (v1 v w : SVal) (k : Nat) (rv : Option SVal) (st : St)
    (hvis : getVar (canon refKey T b.num) st.blocks = some w) :
    let A := canon refKey T a.num
    let B := canon refKey T b.num
    let r := executeI (k + 7) [Stmt.ifs [(.lit (.tern .T), [.decl A (.lit v1), .assign B (.lit v)])] []] rv st
    r.outcome = .normal ∧ getVar B r.st.blocks = some v ∧ (∀ y, y ≠ B → getVar y r.st.blocks = getVar y st.blocks) ∧
      r.st.out = st.out := by
  intro A B r
  have hAB : B ≠ A := by
    intro h
    have := (canon_eq_iff refKey hwf hb ha).mp h
    rw [hka, hkb] at this
    exact hne this.2.symm
  obtain ⟨bs', hbs⟩ := setVar_of_getVar v hvis
  have hr := execute_refines (k + 7) [Stmt.ifs [(.lit (.tern .T), [.decl A (.lit v1), .assign B (.lit v)])] []] rv st
  rw [twin_block_run hAB v1 v k st hbs] at hr
  refine ⟨hr.2, ?_, ?_, ?_⟩
  · show getVar B r.st.blocks = some v
    rw [hr.1]; exact getVar_setVar_same hbs
  · intro y hy
    show getVar y r.st.blocks = _
    rw [hr.1]; exact getVar_setVar_other hy hbs
  · show r.st.out = _
    rw [hr.1]

/-! ### the table and the program of the seeded change's demonstration -/

def bTotal : Bytes := [64, 116, 111, 116, 97, 108]   -- @total
def bTotalU : Bytes := [64, 84, 111, 116, 97, 108]   -- @Total
def bN : Bytes := [64, 110]                          -- @n
def bNU : Bytes := [64, 78]                          -- @N

/-- VAR @total := 1; IF TRUE THEN VAR @Total := 50; @total := @total + 1; PRINT @Total; END IF; PRINT @total;
    VAR @n := 0; DECLARE f FUNCTION (@N) AS BEGIN @n := @n + 1; RETURN @N + @N; END; PRINT f(7); PRINT @n; -/
def twinDemo : KProg where
  Tv := [⟨0, .var, bTotal⟩, ⟨1, .var, bTotalU⟩, ⟨2, .var, bN⟩, ⟨3, .var, bNU⟩]
  Tf := [⟨0, .fn, [102]⟩]
  prog := [.decl 0 (.lit (.int 1)),
           .ifs [(.lit (.tern .T), [.decl 1 (.lit (.int 50)), .assign 0 (.bin .add (.var 0) (.lit (.int 1))), .print (.var 1)])] [],
           .print (.var 0),
           .decl 2 (.lit (.int 0)),
           .declFn 0 [⟨3, none⟩] [.assign 2 (.bin .add (.var 2) (.lit (.int 1))), .ret (.bin .add (.var 3) (.var 3))],
           .print (.call 0 [.lit (.int 7)]),
           .print (.var 2)]

/-- under the reference key the demonstration prints 50, 2, 14, 1 -/
theorem twin_demo_reference :
    (execKeyed refKey 100 twinDemo).out = [.int 50, .int 2, .int 14, .int 1] ∧ (execKeyed refKey 100 twinDemo).flow = .normal := by
  decide

/-- **counterexample for the other key function** (the shape of seed C15-m26: variables keyed by strings.ToLower):
    the block-local `@Total` swallows the assignment meant for `@total` (51 and 1 instead of 50 and 2) and the
    parameter `@N` hides the caller's `@n` (16 and 0 instead of 14 and 1) -/
theorem lower_key_swallows_assignment_counterexample :
    (execKeyed lowerVarKey 100 twinDemo).out = [.int 51, .int 1, .int 16, .int 0] ∧
    canon lowerVarKey twinDemo.Tv 0 = canon lowerVarKey twinDemo.Tv 1 ∧
    canon refKey twinDemo.Tv 0 ≠ canon refKey twinDemo.Tv 1 := by
  decide

/-- … and two such names in one block are a redeclaration error under the lower key, two variables under the
    reference key -/
theorem lower_key_redeclares_counterexample :
    let p : KProg := ⟨twinDemo.Tv, [], [.decl 0 (.lit (.int 1)), .decl 1 (.lit (.int 2)), .print (.bin .add (.var 0) (.var 1))]⟩
    (execKeyed lowerVarKey 50 p).flow = .err .redeclaredVar ∧
    (execKeyed refKey 50 p).flow = .normal ∧ (execKeyed refKey 50 p).out = [.int 3] := by
  decide

/-! ## cursors, functions, temporary tables, prepared statements: the upper-cased text is the key -/

/-- **identifiers that differ only in letter case are ONE object** (reference key: strings.ToUpper), for every kind
    but variables: the two names resolve to the same abstract name, so whatever one of them declares, opens, fetches,
    disposes is the other's — every statement over the one IS the statement over the other -/
theorem case_twins_are_one_object (T : Names) (hwf : T.WF) (a b : NameEnt) (ha : a ∈ T) (hb : b ∈ T)
    (hk : a.kind = b.kind) (hv : a.kind ≠ .var) (hup : Uni.strToUpper a.raw = Uni.strToUpper b.raw) :
    canon refKey T a.num = canon refKey T b.num := by
  apply (canon_eq_iff refKey hwf ha hb).mpr
  refine ⟨hk, ?_⟩
  rw [← hk]
  cases hka : a.kind <;> simp_all [refKey, KeyFn.apply]

theorem case_twins_are_one_cursor (T : Names) (hwf : T.WF) (a b : NameEnt) (ha : a ∈ T) (hb : b ∈ T)
    (hka : a.kind = .cursor) (hkb : b.kind = .cursor) (hup : Uni.strToUpper a.raw = Uni.strToUpper b.raw)
    (op : CurOp) (x : Nat) (bs : List Block) :
    cursorDo op (canon refKey T a.num) x bs = cursorDo op (canon refKey T b.num) x bs := by
  rw [case_twins_are_one_object T hwf a b ha hb (hka.trans hkb.symm) (by simp [hka]) hup]

theorem case_twins_are_one_function (T : Names) (hwf : T.WF) (a b : NameEnt) (ha : a ∈ T) (hb : b ∈ T)
    (hka : a.kind = .fn) (hkb : b.kind = .fn) (hup : Uni.strToUpper a.raw = Uni.strToUpper b.raw) (bs : List Block) (d : FDecl) :
    getFn (canon refKey T a.num) bs = getFn (canon refKey T b.num) bs ∧
    declareFn (canon refKey T a.num) d bs = declareFn (canon refKey T b.num) d bs ∧
    disposeFn (canon refKey T a.num) bs = disposeFn (canon refKey T b.num) bs := by
  rw [case_twins_are_one_object T hwf a b ha hb (hka.trans hkb.symm) (by simp [hka]) hup]
  exact ⟨rfl, rfl, rfl⟩

/-- a temporary table: DECLARE VIEW under one spelling refuses the other (`table_cannot_be_shadowed` per key), and
    reading / changing / disposing it under either spelling reaches the same table -/
theorem case_twins_are_one_view (T : Names) (hwf : T.WF) (a b : NameEnt) (ha : a ∈ T) (hb : b ∈ T)
    (hka : a.kind = .view) (hkb : b.kind = .view) (hup : Uni.strToUpper a.raw = Uni.strToUpper b.raw) (bs : List Block) (v : SVal) :
    getVar (canon refKey T a.num) bs = getVar (canon refKey T b.num) bs ∧
    setVar (canon refKey T a.num) v bs = setVar (canon refKey T b.num) v bs ∧
    disposeVar (canon refKey T a.num) bs = disposeVar (canon refKey T b.num) bs := by
  rw [case_twins_are_one_object T hwf a b ha hb (hka.trans hkb.symm) (by simp [hka]) hup]
  exact ⟨rfl, rfl, rfl⟩

/-- prepared statements (the transaction's map): PREPARE under one spelling, EXECUTE / DISPOSE under the other -/
theorem case_twins_are_one_statement (T : Names) (hwf : T.WF) (a b : NameEnt) (ha : a ∈ T) (hb : b ∈ T)
    (hka : a.kind = .stmt) (hkb : b.kind = .stmt) (hup : Uni.strToUpper a.raw = Uni.strToUpper b.raw) :
    canon refKey T a.num = canon refKey T b.num :=
  case_twins_are_one_object T hwf a b ha hb (hka.trans hkb.symm) (by simp [hka]) hup

/-- different kinds never collide, whatever their texts: a cursor `x`, a table `x` and a function `x` are three objects -/
theorem kinds_are_separate (key : Kind → KeyFn) (T : Names) (hwf : T.WF) (a b : NameEnt) (ha : a ∈ T) (hb : b ∈ T)
    (hk : a.kind ≠ b.kind) : canon key T a.num ≠ canon key T b.num := by
  intro h
  exact hk ((canon_eq_iff key hwf ha hb).mp h).1

/-! ### cursor twins: letter case, dotless i, Kelvin sign -/

def bCi : Bytes := [99, 105]              -- ci
def bCI : Bytes := [67, 73]               -- CI
def bCdotless : Bytes := [99, 196, 177]   -- cı   (U+0131 LATIN SMALL LETTER DOTLESS I)
def bCk : Bytes := [99, 107]              -- ck
def bCkelvin : Bytes := [99, 226, 132, 170]  -- cK   (U+212A KELVIN SIGN)
def bCj : Bytes := [99, 106]              -- cj   (a near twin)

/-- numbers 200… are cursors (closed over three rows: state −31), 0 is the variable fetched into -/
def cursorTwins : Names :=
  [⟨0, .var, [64, 118]⟩, ⟨200, .cursor, bCi⟩, ⟨201, .cursor, bCI⟩, ⟨202, .cursor, bCdotless⟩, ⟨203, .cursor, bCk⟩,
   ⟨204, .cursor, bCkelvin⟩, ⟨205, .cursor, bCj⟩]

/-- `ci`, `CI` and `cı` are one cursor (unicode.ToUpper(ı) = I); `ck` and `c` + KELVIN SIGN are two (the Kelvin sign is
    its own upper case; it would be one with `ck` under ToLower); `cj` is another one -/
theorem dotless_i_and_kelvin_twins :
    canon refKey cursorTwins 201 = 200 ∧ canon refKey cursorTwins 202 = 200 ∧
    canon refKey cursorTwins 203 = 203 ∧ canon refKey cursorTwins 204 = 204 ∧ canon refKey cursorTwins 205 = 205 ∧
    canon (fun _ => .lower) cursorTwins 202 = 202 ∧ canon (fun _ => .lower) cursorTwins 204 = 203 := by
  decide

/-- DECLARE ci CURSOR …; OPEN CI; FETCH cı INTO @v; PRINT @v -/
def cursorDemo : KProg where
  Tv := cursorTwins
  Tf := []
  prog := [.decl 0 (.lit .null), .decl 200 (.lit (.int (-31))), .cursor .open 201 0, .cursor .fetch 202 0, .print (.var 0)]

theorem cursor_twins_demo_reference :
    (execKeyed refKey 50 cursorDemo).flow = .normal ∧ (execKeyed refKey 50 cursorDemo).out = [.int 30] := by decide

/-- **counterexample for the other key function**: were cursors keyed by the exact text, OPEN CI after DECLARE ci
    would fail with "cursor is undeclared" -/
theorem exact_key_splits_cursor_counterexample :
    (execKeyed exactKey 50 cursorDemo).flow = .err .undeclaredVar ∧
    canon exactKey cursorTwins 201 ≠ canon exactKey cursorTwins 200 := by decide

/-- DECLARE f FUNCTION () …; PRINT F(): one function under the reference key, "function is undeclared" under the exact one -/
theorem exact_key_splits_function_counterexample :
    let p : KProg := ⟨[], [⟨0, .fn, [102]⟩, ⟨1, .fn, [70]⟩], [.declFn 0 [] [.ret (.lit (.int 4))], .print (.call 1 [])]⟩
    (execKeyed refKey 50 p).out = [.int 4] ∧ (execKeyed exactKey 50 p).flow = .err .undeclaredFn := by decide

/-- DECLARE t VIEW; DECLARE T VIEW: refused under the reference key, two tables under the exact one -/
theorem exact_key_splits_view_counterexample :
    let p : KProg := ⟨[⟨100, .view, [116]⟩, ⟨101, .view, [84]⟩], [], [.declT 100, .declT 101]⟩
    (execKeyed refKey 50 p).flow = .err .redeclaredTable ∧ (execKeyed exactKey 50 p).flow = .normal := by decide

/-! ## the regenerated key functions -/

/-- **within one map every method applies the SAME key function** to the name before it reaches SyncMap.store /
    load / delete / exists (regenerated per method; the one reviewed exception is VariableMap.LoadDirect), and the
    methods that go through other methods of their map hand the name on as it came (or upper-cased, where upper is
    the map's key — idempotent: `prekeyed_delegation_harmless`) -/
theorem gen_name_keys_consistent :
    (∀ k : Kind, (genKey k).isSome = true) ∧
    (∀ t ∈ ["VariableMap", "CursorMap", "UserDefinedFunctionMap", "PreparedStatementMap"],
        delegationsOK Gen.ScopeKeys.mapKeys t = true) := by
  refine ⟨fun k => by cases k <;> decide, by decide⟩

/-- **the regenerated keys are the reference**: variables by the exact text; cursors, functions and prepared
    statements by strings.ToUpper; the temporary-table map takes the key as it comes and the scope's walks hand it
    strings.ToUpper of the name -/
theorem gen_name_keys_eq_ref :
    genKey .var = some (refKey .var) ∧ genKey .cursor = some (refKey .cursor) ∧ genKey .fn = some (refKey .fn) ∧
    genKey .stmt = some (refKey .stmt) ∧ genKey .view = some .exact ∧ genViewCallerKey = some (refKey .view) := by
  decide

/-- the temporary-table map is keyed by its callers — the reviewed list: names from the program are upper-cased
    (by the walk, or by ViewMap.DisposeTemporaryTable), views are stored and found under FileInfo.IdentifiedPath(),
    which is strings.ToUpper of the path (`IN` archive path for archived tables); keys read back from the map are used
    as they are; STDIN goes by its own name -/
theorem gen_view_keys_reviewed :
    viewKeyedBy =
      [("ViewMap.Clean", "ViewMap.Dispose", "stored"),
       ("ViewMap.CleanWithErrors", "ViewMap.Delete", "stored"),
       ("ViewMap.CleanWithErrors", "ViewMap.Load", "stored"),
       ("ViewMap.DisposeTemporaryTable", "ViewMap.Delete", "alt(call:String(raw)|upper(raw))"),
       ("ViewMap.DisposeTemporaryTable", "ViewMap.Load", "alt(call:String(raw)|upper(raw))"),
       ("ViewMap.Set", "ViewMap.Store", "call:IdentifiedPath(raw)"),
       ("ReferenceScope.DisposeTemporaryTable", "ViewMap.DisposeTemporaryTable", "node:raw"),
       ("ReferenceScope.GetTemporaryTable", "ViewMap.Get", "upper(raw)"),
       ("ReferenceScope.GetTemporaryTableWithInternalId", "ViewMap.GetWithInternalId", "upper(raw)"),
       ("ReferenceScope.ReplaceTemporaryTable", "ViewMap.Exists", "call:IdentifiedPath(raw)"),
       ("ReferenceScope.ReplaceTemporaryTable", "ViewMap.Set", "node:raw"),
       ("ReferenceScope.RestoreTemporaryTable", "ViewMap.Delete", "call:IdentifiedPath(raw)"),
       ("ReferenceScope.SetTemporaryTable", "ViewMap.Set", "node:raw"),
       ("ReferenceScope.TemporaryTableExists", "ViewMap.Exists", "upper(raw)"),
       ("loadObjectFromStdin", "ViewMap.Get", "call:String(raw)"),
       ("loadObjectFromStdin", "ViewMap.GetWithInternalId", "call:String(raw)"),
       ("loadObjectFromStdin", "ViewMap.Load", "call:String(raw)"),
       ("loadObjectFromStdin", "ViewMap.Set", "node:?view")] ∧
    Gen.ScopeKeys.identifiedPath =
      ["{", "s", ":=", "strings.ToUpper(f.Path)", "if", "0", "<", "len(f.ArchivePath)", "{", "s", "=", "s", "+", "\"", "IN", "\"", "+",
       "strings.ToUpper(f.ArchivePath)", "}", "return", "s", "}"] := by
  decide

/-- the primitives of SyncMap use the key as it comes -/
theorem gen_syncMap_primitives_reviewed :
    Gen.ScopeKeys.syncMapBodies =
      [("delete", "{ m.m.Delete(key) }"), ("exists", "{ _, ok := m.m.Load(name) return ok }"),
       ("load", "{ return m.m.Load(key) }"), ("store", "{ m.m.Store(key, value) }")] := by decide

/-- **the reviewed exception has no consequence**: VariableMap.LoadDirect (the one method that upper-cases a variable
    name) is the only disagreement inside a map — with it the variable map has no single key —, and no non-test code of
    lib/query calls a LoadDirect of any of the maps; the walks the model is proved equal to (gen_*_eq_model) never
    mention it -/
theorem gen_variable_loadDirect_unused :
    Gen.ScopeKeys.loadDirectCallers = [] ∧
    (Gen.ScopeKeys.mapKeys.filter (fun r => r.1 == "VariableMap" && r.2.1 == "LoadDirect")) =
      [("VariableMap", "LoadDirect", "SyncMap.load", "upper(raw)")] ∧
    keyExceptions = [("VariableMap", "LoadDirect")] := by decide

/-- a method that upper-cases the name before handing it to a method that upper-cases it again changes nothing
    (UserDefinedFunctionMap.CheckDuplicate → Exists): strings.ToUpper is idempotent on every byte string -/
theorem prekeyed_delegation_harmless (s : Bytes) : (KeyFn.upper).apply ((KeyFn.upper).apply s) = (KeyFn.upper).apply s :=
  Uni.strToUpper_idem s

/-! ## non-vacuity -/

example : twinDemo.Tv.WF ∧ cursorTwins.WF := by decide
-- same_name_iff_same_key / case_twins_are_distinct_variables: @total and @Total are listed, of kind var, different texts
example : (⟨0, .var, bTotal⟩ : NameEnt) ∈ twinDemo.Tv ∧ (⟨1, .var, bTotalU⟩ : NameEnt) ∈ twinDemo.Tv ∧ bTotal ≠ bTotalU := by decide
example : (declareVar (canon refKey twinDemo.Tv 1) (.int 50) [Block.empty, ⟨[(0, .int 1)], []⟩]).map (·.map Block.vars) = some [[(1, .int 50)], [(0, .int 1)]] := by decide
-- redeclared_iff_same_key: both sides occur
example : declareVar (canon lowerVarKey twinDemo.Tv 1) (.int 2) [⟨[(canon lowerVarKey twinDemo.Tv 0, .int 1)], []⟩] = none := by decide
example : (declareVar (canon refKey twinDemo.Tv 1) (.int 2) [⟨[(canon refKey twinDemo.Tv 0, .int 1)], []⟩]).isSome = true := by decide
-- twin_shadow_keeps_outer_assignment: the hypothesis holds in a session that declared @total
example : getVar (canon refKey twinDemo.Tv 0) [⟨[(0, .int 1)], []⟩] = some (.int 1) := by decide
example : (executeI 7 [Stmt.ifs [(.lit (.tern .T), [.decl 1 (.lit (.int 50)), .assign 0 (.lit (.int 2))])] []] none ⟨[⟨[(0, .int 1)], []⟩], []⟩).st.blocks.map Block.vars
    = [[(0, .int 2)]] := by decide
-- case_twins_are_one_*: the hypotheses hold for ci / CI / cı and the kinds occur
example : Uni.strToUpper bCi = Uni.strToUpper bCI ∧ Uni.strToUpper bCdotless = bCI ∧ Uni.strToUpper bCkelvin ≠ Uni.strToUpper bCk ∧
    Uni.strToLower bCkelvin = bCk := by decide
example : (⟨201, .cursor, bCI⟩ : NameEnt) ∈ cursorTwins ∧ (⟨202, .cursor, bCdotless⟩ : NameEnt) ∈ cursorTwins := by decide
-- kinds_are_separate
example : canon refKey [⟨100, .view, [120]⟩, ⟨200, .cursor, [120]⟩] 200 = 200 := by decide
-- keyed_theorems_are_instances: a keyed run that commits
example : (runKeyed refKey 100 twinDemo).commits = true := by decide
-- the regenerated facts are there
example : Gen.ScopeKeys.mapKeys.length = 65 ∧ Gen.ScopeKeys.viewCallers.length = 12 := by decide
example : keyOfFacts [("M", "A", "SyncMap.store", "raw"), ("M", "B", "SyncMap.load", "lower(raw)")] "M" = none := by decide
example : keyOfFacts [("M", "A", "SyncMap.store", "lower(raw)"), ("M", "B", "SyncMap.load", "lower(raw)")] "M" = some .lower := by decide

end Csvq.C15
