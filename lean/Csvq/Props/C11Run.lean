/-
  C11 — the functions of a run that acquire a file and register the deferred release themselves (action.Run: the
  --out file; query.LoadContentsFromFile: the --source / SOURCE file), and every fan-out of lib/query, regenerated
  WITH their control flow by extract/cliproto -run (Gen/RunFrame.lean; Model/CliFrame.lean).  Property theorems only.
-/
import Csvq.Model.CliFrame
import Csvq.Gen.RunFrame
import Csvq.Props.C11
namespace Csvq.C11
open Csvq.CliFrame

/-- **Between the acquisition of the out file and the registration of its deferred removal / close there is no
    `return`**: on EVERY path through the regenerated action.Run (and LoadContentsFromFile) an acquisition —
    file.Create of the --out file, the handler of the source file — either failed (the `if err != nil` branch is
    entered at once) or is followed by the registration of a deferred function that gives the file back on every
    path through ITS body; action.Run's deferred function removes the file when nothing was written to it.  (That a
    registered deferred function runs at every later return is Go's rule: `deferred_runs`.) -/
theorem gen_out_file_release_registered_before_any_return :
    Csvq.Gen.resourceFrames.all releaseRegistered = true ∧
    Csvq.Gen.resourceFrames.all acquiresSomewhere = true ∧
    Csvq.Gen.resourceFrames.map (·.1) = ["action.Run", "query.LoadContentsFromFile"] ∧
    (Csvq.Gen.resourceFrames.head?.map fun f => f.2.2.any removesWhenEmpty) = some true := by decide

/-- … for every way the conditions of the function turn out (`exec_mem_runs`: one execution is one of the runs) -/
theorem release_registered_whatever_the_conditions (f : String × Node × List Node)
    (h : releaseRegistered f = true) (cs : List Bool) :
    acquiredReleased (releasingDefers f.2.2) (exec f.2.1 cs).1.1 = true :=
  (List.all_eq_true.mp h) _ (exec_mem_runs f.2.1 cs)

/-- what `acquiredReleased` says: wherever an acquiring call stands in the execution, the next call is the entry
    of its error branch, or a releasing registration follows -/
theorem acquired_released_spec (rel : List String) (pre post : List String) (a : String)
    (ha : acquiring.contains a = true) (h : acquiredReleased rel (pre ++ a :: post) = true) :
    post.head? = some "failed" ∨ ∃ d ∈ post, rel.contains d = true := by
  induction pre with
  | nil =>
    simp only [List.nil_append, acquiredReleased, ha, if_true, Bool.and_eq_true, Bool.or_eq_true, beq_iff_eq,
      List.any_eq_true] at h
    rcases h.1 with e | ⟨d, hd, hr⟩
    · exact Or.inl e
    · exact Or.inr ⟨d, hd, hr⟩
  | cons c pre ih =>
    simp only [List.cons_append, acquiredReleased, Bool.and_eq_true] at h
    exact ih h.2

/-- **Every fan-out is joined on every path**: in each function of lib/query that starts goroutines — among them
    EvaluateSequentially and GoroutineTaskManager.Run, under which a record-evaluating goroutine may be inside the
    first load of a sub-query's table (read lock created, handler not yet registered) — every path from the first
    `go` on reaches a Wait() in THIS goroutine after the last goroutine was started, before any `return`: the function
    never returns (to the deferred rollback / forced release) while a worker still runs -/
theorem gen_fanout_always_joined :
    Csvq.Gen.fanouts.all (fun f => fanoutJoined f.2) = true ∧
    (Csvq.Gen.fanouts.map (·.1)).contains "EvaluateSequentially" = true ∧
    (Csvq.Gen.fanouts.map (·.1)).contains "GoroutineTaskManager.Run" = true ∧
    Csvq.Gen.fanouts.length = 8 := by decide

theorem joined_whatever_the_conditions (n : Node) (h : fanoutJoined n = true) (cs : List Bool) :
    joined (exec n cs).1.1 = true :=
  (List.all_eq_true.mp h) _ (exec_mem_runs n cs)

/-- what `joined` says: after any started goroutine a `wait` follows -/
theorem joined_spec (pre post : List String) (h : joined (pre ++ "go" :: post) = true) : "wait" ∈ post := by
  induction pre with
  | nil => simp only [List.nil_append, joined, if_true, Bool.and_eq_true, List.contains_eq_mem, decide_eq_true_eq] at h; exact h.1
  | cons c pre ih => simp only [List.cons_append, joined, Bool.and_eq_true] at h; exact ih h.2

/-- not vacuous: an out file opened BEFORE the parse with the release registered after it is refused (the syntax
    error returns in between); so is a release that does not close on every path; a fan-out that reports a
    cancelled context without waiting for its workers is refused -/
example :
    releaseRegistered ("run", .seq (.call "file.Create") (.seq (.ite "err != nil" (.seq (.call "failed") .ret) .skip)
      (.seq (.call "parser.Parse") (.seq (.ite "err != nil" (.seq (.call "failed") .ret) .skip) (.call "defer#0")))),
      [.call "fp.Close"]) = false ∧
    releaseRegistered ("run", .seq (.call "file.Create") (.seq (.ite "err != nil" (.seq (.call "failed") .ret) .skip)
      (.seq (.call "defer#0") (.seq (.call "parser.Parse") (.ite "err != nil" (.seq (.call "failed") .ret) .skip)))),
      [.call "fp.Close"]) = true ∧
    releaseRegistered ("run", .seq (.call "file.Create") (.call "defer#0"), [.ite "empty" (.call "os.Remove") (.call "fp.Close")]) = false ∧
    fanoutJoined (.seq (.call "go") (.ite "select case <-ctx.Done()" .ret (.call "wait"))) = false ∧
    fanoutJoined (.seq (.ite "loop" (.call "go") .skip) (.call "wait")) = true := by decide

end Csvq.C11
