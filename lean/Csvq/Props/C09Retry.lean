/-
  C09 — "A process that cannot get access within --wait-timeout fails with a lock-timeout error and changes
  nothing": the waiting side.  Property theorems only.

  The programs (`Csvq.Gen.Retry.*`) are REGENERATED from lib/file/control_file.go / handler.go by
  `extract/fsproto -retry`: the three TryCreate…File functions, the retry loop CreateControlFileContext with its
  statements in source order, the recording method Handler.CreateControlFileContext, NewHandlerForRead /
  NewHandlerForUpdate.  The theorems quantify over EVERY environment (`Env`: what other processes have lying in
  the directory at every instant, failing creates, lengths of sleeps), EVERY instant `T` at which the context
  ends (wait timeout or cancellation: before the call, inside an attempt, between an attempt and the test behind
  it, during a sleep), every starting instant and every number of rounds.
-/
import Csvq.Lemmas.Retry
import Csvq.Gen.RetryLoop
namespace Csvq.C09
open Csvq.Retry Csvq.Gen.Retry

/-- an attempt of the regenerated TryCreate…File functions ends, whatever the environment does in between its
    steps, either with the requested control file as the only one of its own, or with an error and nothing -/
theorem gen_attempt_all_or_nothing (ft : CF) :
    (tryPaths (tryOf ft) .none []).all (fun p => match p.1 with
      | .ok g => g == ft && p.2 == .only ft
      | _ => p.2 == .none) = true := by
  cases ft <;> decide

/-- every round of the regenerated loop that goes on to the next one has left nothing behind -/
theorem gen_rounds_leave_nothing (ft : CF) : contsClean (tryOf ft) retryLoop = true := by
  cases ft <;> decide

def goodOutcome (ft : CF) (o : Ret × Mine × Option TRes) : Bool :=
  match o.1 with
  | .nilErr => o.2.1 == .none
  | .fileNil => o.2.1 == .only ft && o.2.2 == some (.ok ft)

/-- every way the regenerated loop can return: an error with nothing of its own left, or the file -/
theorem gen_retry_outcomes_good (ft : CF) : (retryOutcomes (tryOf ft) retryLoop).all (goodOutcome ft) = true := by
  cases ft <;> decide

/-- **A process that gives up waiting has changed nothing.**  If CreateControlFileContext returns an error — the
    wait timeout, a cancellation, at whatever instant `T` it arrives, in whatever environment — no control file
    created by this call exists. -/
theorem retry_timeout_changes_nothing (ft : CF) (env : Env) (T fuel t0 : Nat) (s : LSt)
    (h : run env T (tryOf ft) retryLoop fuel t0 = some (.nilErr, s)) : s.mine = .none := by
  have hm := run_outcome_mem env T (tryOf ft) retryLoop (gen_rounds_leave_nothing ft) fuel t0 .nilErr s h
  have := List.all_eq_true.mp (gen_retry_outcomes_good ft) _ hm
  simpa [goodOutcome] using this

/-- if it returns a control file, that file exists, it is the one the last attempt created, and nothing else of
    this call exists (the transient `.lock` of a reader is gone) -/
theorem retry_success_owns_file (ft : CF) (env : Env) (T fuel t0 : Nat) (s : LSt)
    (h : run env T (tryOf ft) retryLoop fuel t0 = some (.fileNil, s)) :
    s.mine = .only ft ∧ s.last = some (.ok ft) := by
  have hm := run_outcome_mem env T (tryOf ft) retryLoop (gen_rounds_leave_nothing ft) fuel t0 .fileNil s h
  have := List.all_eq_true.mp (gen_retry_outcomes_good ft) _ hm
  simpa [goodOutcome] using this

/-- with a context that ends (at any instant `T`) the loop returns, for every retry delay — also 0: then the
    context and the timer can be ready together and Go's select may take the timer, so the claim needs (and only
    needs) that from some instant `N` on such a tie is not decided for the timer; after at most T + N + 1 rounds -/
theorem retry_returns (ft : CF) (env : Env) (T N t0 : Nat) (hf : Fair env N) :
    ∃ fuel, (run env T (tryOf ft) retryLoop fuel t0).isSome = true :=
  run_returns env T N hf (tryOf ft) retryLoop (by decide) t0

/-- with a positive retry delay nothing has to be assumed -/
theorem retry_returns_positive_delay (ft : CF) (env : Env) (T t0 : Nat) (hd : ∀ t, 0 < (env t).delay) :
    ∃ fuel, (run env T (tryOf ft) retryLoop fuel t0).isSome = true :=
  retry_returns ft env T 0 t0 (fun t _ => Or.inr (hd t))

/-- delay 0, the table held by somebody else for ever, a select that always takes the timer when both are ready -/
def spinEnv : Env := fun _ => ⟨true, false, false, false, 0, true⟩

theorem spin_round (t : Nat) (l : Option TRes) :
    runStmts spinEnv 1 (tryOf .lock) retryLoop.body ⟨t, .none, l⟩ = .cont ⟨t + 4, .none, some .soft⟩ := by
  simp [retryLoop, tryOf, tryCreateLockFile, runStmts, runTry, evalCond, isOk, isHard, selectReturns, spinEnv, closeAll,
    Mine.none]

theorem spin_loop : ∀ (n t : Nat) (l : Option TRes),
    runLoop spinEnv 1 (tryOf .lock) retryLoop.body n ⟨t, .none, l⟩ = none
  | 0, _, _ => rfl
  | n + 1, t, l => by
    simp only [runLoop, spin_round]
    exact spin_loop n (t + 4) (some .soft)

/-- and the assumption is needed: with delay 0 and a select that always takes the timer, a writer that finds the
    table held never returns although its context is over from instant 1 on -/
theorem delay_zero_unfair_select_spins (fuel : Nat) : run spinEnv 1 (tryOf .lock) retryLoop fuel 0 = none := by
  have hpre : runStmts spinEnv 1 (tryOf .lock) retryLoop.pre ⟨0, .none, none⟩ = .cont ⟨1, .none, none⟩ := by
    simp [retryLoop, runStmts, evalCond]
  simp only [run, hpre]
  exact spin_loop fuel 1 none

/-! non-vacuity: a free table with the context ending INSIDE the successful attempt (instant 2 of 0..3) is
    success; a table held by somebody else for ever is an error; and a loop that looks at the context between the
    attempt and the test of its result — the order matters — does leave a lock file behind at that very instant -/

def freeEnv : Env := fun _ => ⟨false, false, false, false, 0, false⟩
def busyEnv : Env := fun _ => ⟨true, false, false, false, 0, false⟩

example : (run freeEnv 2 (tryOf .lock) retryLoop 3 0).map (fun p => (p.1, p.2.mine, p.2.t)) =
    some (.fileNil, .only .lock, 6) := by decide
example : (run busyEnv 7 (tryOf .lock) retryLoop 9 0).map (fun p => (p.1, p.2.mine)) = some (.nilErr, .none) := by decide
example : (run freeEnv 3 (tryOf .rlock) retryLoop 3 0).map (fun p => (p.1, p.2.mine)) = some (.fileNil, .only .rlock) := by decide
example : (run freeEnv 2 (tryOf .lock)
    { pre := [.ifRet .ctxDone .nilErr], body := [.attempt, .ifRet .ctxDone .nilErr, .ifRet .attemptOk .fileNil, .selectCtxOrTimer .nilErr] }
    3 0).map (fun p => (p.1, p.2.mine)) = some (.nilErr, .only .lock) := by decide

/-! ## the handler: what exists is recorded, what is recorded is released -/

/-- the outcomes of the regenerated loop as the recording method sees them -/
def outsOf (ft : CF) : List (Ret × Mine) := (retryOutcomes (tryOf ft) retryLoop).map (fun o => (o.1, o.2.1))

theorem run_mem_outsOf (ft : CF) (env : Env) (T fuel t0 : Nat) (r : Ret) (s : LSt)
    (h : run env T (tryOf ft) retryLoop fuel t0 = some (r, s)) : (r, s.mine) ∈ outsOf ft := by
  have hm := run_outcome_mem env T (tryOf ft) retryLoop (gen_rounds_leave_nothing ft) fuel t0 r s h
  exact List.mem_map.mpr ⟨_, hm, rfl⟩

def handlerGood (ft : CF) (h0 : HSt) (res : Bool × HSt) : Bool :=
  res.2.exist == res.2.held &&
    (if res.1 then res.2 == h0 else res.2.held == h0.held.set ft true && !h0.held.get ft)

def allMine : List Mine :=
  [⟨false, false, false⟩, ⟨false, false, true⟩, ⟨false, true, false⟩, ⟨false, true, true⟩,
   ⟨true, false, false⟩, ⟨true, false, true⟩, ⟨true, true, false⟩, ⟨true, true, true⟩]

theorem mem_allMine (m : Mine) : m ∈ allMine := by
  obtain ⟨a, b, c⟩ := m
  cases a <;> cases b <;> cases c <;> simp [allMine]

theorem gen_handler_create_good (ft : CF) :
    allMine.all (fun m => (outsOf ft).all (fun o =>
      handlerGood ft ⟨m, m⟩ (runHandler ft o handlerCreate ⟨m, m⟩ false false))) = true := by
  cases ft <;> decide

/-- **Handler.CreateControlFileContext keeps "every control file of mine that exists is recorded in the handler"**
    (so that close / closeWithErrors / commit remove it): for every state of the handler in which that holds,
    every environment and every instant at which the context ends — an error leaves the handler and the directory
    as they were, success adds exactly the requested file to both. -/
theorem handler_records_what_it_creates (ft : CF) (m : Mine) (env : Env) (T fuel t0 : Nat) (r : Ret) (s : LSt)
    (h : run env T (tryOf ft) retryLoop fuel t0 = some (r, s)) :
    let res := runHandler ft (r, s.mine) handlerCreate ⟨m, m⟩ false false
    res.2.exist = res.2.held ∧
      (res.1 = true → res.2 = ⟨m, m⟩) ∧ (res.1 = false → res.2.held = m.set ft true ∧ m.get ft = false) := by
  have h1 := List.all_eq_true.mp (gen_handler_create_good ft) m (mem_allMine m)
  have h2 := List.all_eq_true.mp h1 _ (run_mem_outsOf ft env T fuel t0 r s h)
  simp only [handlerGood, Bool.and_eq_true, beq_iff_eq] at h2
  refine ⟨h2.1, ?_, ?_⟩
  · intro e; simpa [e] using h2.2
  · intro e; simpa [e] using h2.2

example : runHandler .lock (.fileNil, .only .lock) handlerCreate ⟨.none, .none⟩ false false =
    (false, ⟨.only .lock, .only .lock⟩) := by decide
example : runHandler .temp (.nilErr, .none) handlerCreate ⟨.only .lock, .only .lock⟩ false false =
    (true, ⟨.only .lock, .only .lock⟩) := by decide
-- the guard: a handler that already holds a `.lock` does not call the loop again
example : runHandler .lock (.fileNil, .only .lock) handlerCreate ⟨.only .lock, .only .lock⟩ false false =
    (true, ⟨.only .lock, .only .lock⟩) := by decide

def newGood (want : Mine) (p : Bool × HSt) : Bool :=
  if p.1 then p.2.exist == .none && p.2.held == .none else p.2.exist == want && p.2.held == want

theorem gen_new_handler_for_update_good :
    (newPaths outsOf handlerCreate newHandlerForUpdate ⟨.none, .none⟩).all (newGood ⟨true, false, true⟩) = true := by decide

theorem gen_new_handler_for_read_good :
    (newPaths outsOf handlerCreate newHandlerForRead ⟨.none, .none⟩).all (newGood ⟨false, true, false⟩) = true := by decide

/-- `call f` is a way the regenerated retry loop can end for file type `f`, in some environment, with the context
    ending at some instant -/
def Possible (call : CF → Ret × Mine) : Prop :=
  ∀ f, ∃ (env : Env) (T fuel t0 : Nat) (s : LSt),
    run env T (tryOf f) retryLoop fuel t0 = some ((call f).1, s) ∧ s.mine = (call f).2

theorem possible_mem (call : CF → Ret × Mine) (hp : Possible call) (f : CF) : call f ∈ outsOf f := by
  obtain ⟨env, T, fuel, t0, s, h, hm⟩ := hp f
  have := run_mem_outsOf f env T fuel t0 _ s h
  rw [hm] at this
  exact this

/-- **NewHandlerForUpdate that fails — lock timeout, cancellation, a table that cannot be opened — leaves no control
    file and a handler that holds nothing; if it succeeds the `.lock` and the `.temp` file exist and are recorded.**
    Whatever the environments and the instants at which the context ends during its two waits. -/
theorem new_handler_for_update_all_or_nothing (call : CF → Ret × Mine) (hp : Possible call) (missing openFails : Bool) :
    let res := runNew call missing openFails handlerCreate newHandlerForUpdate ⟨.none, .none⟩
    (res.1 = true → res.2.exist = .none ∧ res.2.held = .none) ∧
      (res.1 = false → res.2.exist = ⟨true, false, true⟩ ∧ res.2.held = ⟨true, false, true⟩) := by
  have hm := runNew_mem outsOf call (possible_mem call hp) missing openFails handlerCreate newHandlerForUpdate ⟨.none, .none⟩
  have := List.all_eq_true.mp gen_new_handler_for_update_good _ hm
  simp only [newGood] at this
  constructor
  · intro e; simpa [e] using this
  · intro e; simpa [e] using this

/-- the same for NewHandlerForRead: an error leaves nothing, success leaves exactly the recorded `.rlock` -/
theorem new_handler_for_read_all_or_nothing (call : CF → Ret × Mine) (hp : Possible call) (missing openFails : Bool) :
    let res := runNew call missing openFails handlerCreate newHandlerForRead ⟨.none, .none⟩
    (res.1 = true → res.2.exist = .none ∧ res.2.held = .none) ∧
      (res.1 = false → res.2.exist = ⟨false, true, false⟩ ∧ res.2.held = ⟨false, true, false⟩) := by
  have hm := runNew_mem outsOf call (possible_mem call hp) missing openFails handlerCreate newHandlerForRead ⟨.none, .none⟩
  have := List.all_eq_true.mp gen_new_handler_for_read_good _ hm
  simp only [newGood] at this
  constructor
  · intro e; simpa [e] using this
  · intro e; simpa [e] using this

/-! non-vacuity of `Possible` and of both ends of the constructor -/

def callFree : CF → Ret × Mine := fun f => (.fileNil, .only f)
def callTimeout : CF → Ret × Mine := fun _ => (.nilErr, .none)

theorem callFree_possible : Possible callFree := by
  intro f
  cases f
  · exact ⟨freeEnv, 100, 3, 0, ⟨6, .only .lock, some (.ok .lock)⟩, by decide, rfl⟩
  · exact ⟨freeEnv, 100, 3, 0, ⟨6, .only .rlock, some (.ok .rlock)⟩, by decide, rfl⟩
  · exact ⟨freeEnv, 100, 3, 0, ⟨4, .only .temp, some (.ok .temp)⟩, by decide, rfl⟩

example : (runNew callFree false false handlerCreate newHandlerForUpdate ⟨.none, .none⟩).1 = false := by decide
example : (runNew callTimeout false false handlerCreate newHandlerForUpdate ⟨.none, .none⟩).1 = true := by decide

end Csvq.C09
