/-
  C19 ("never hangs", "never dies with a Go panic") — two more classes of regenerated obligations, read off the same structured
  walk as the size sites (extract/errfacts: sizefacts.go, loopfacts.go, writes.go; IR and evaluator: Csvq/Model/SizeFacts.lean).

  LOOPS (Csvq/Gen/LoopFacts.lean).  Every `for` statement of lib/query, lib/value and lib/json that is not a range (the goyacc
  output of lib/json aside): its exit conditions give candidate measures (`i < n` ⇒ n − i, `a <= b` ⇒ b − a + 1, `i != n` ⇒ both
  differences; a `for {}` takes the conditions of the `if c { break / return }` statements of its body).  A measure is read at the
  head of the loop and again at every back edge (end of the body, every `continue`, each followed by the post statement); one
  obligation per (measure, back edge): for ALL integer valuations that satisfy the facts of that path of ONE iteration,

      measure' < measure   ∧   0 ≤ measure.

  `loop_sites_terminate`: every loop that is not reviewed has a measure all of whose back-edge obligations are proved (omega, one
  kernel-checked proof each), or has no back edge at all — so its head is passed finitely often.  Integers are mathematical: a
  loop that ends after 2^63 rounds, or only because a counter wraps, is outside this statement (C19-m11, F52: driven by the window
  frame grid of the harness).  Loops without an integer measure (iterators, scanners, readers, the user's own WHILE) and the ones
  whose measure needs a fact the walk does not keep are pinned in `exemptLoopSites`, each with its reason.

  CONVERSIONS (Csvq/Gen/IntConvFacts.lean).  int(f) of a float is platform-defined for NaN, ±Inf and values beyond the target's
  range (amd64: the minimum integer), a narrowing / sign-changing integer conversion wraps.  Every such conversion whose result
  reaches — through the facts — a size obligation or a loop obligation of the same function gets the obligation
  `float_to_size_guarded`, in two parts: for ALL valuations that satisfy the facts at the conversion, the operand is a number
  (nan = 0), and its floor lies inside the target's range.  A float is carried as nan(f) ∈ {0, 1} and fl(f) = ⌊f⌋; a comparison that evaluated to TRUE
  says both operands are numbers, one that evaluated to FALSE says so only if no operand is NaN (the shape of F11:
  `if percentage < 0 { … }` does not stop a NaN), math.IsNaN decides nan(f); float64(n) is a finite number, Ceil / Floor / Trunc /
  Round / Abs / Min / Max keep NaN-ness and move the floor by at most one, a product is a number unless it is 0 · Inf, a quotient
  unless it is 0 / 0 or Inf / Inf (operands next to a finite non-zero constant are free), the RANGE of a product / quotient has no
  rule (non-linear): those range parts are the reviewed entries, their NaN parts are proved.
-/
import Csvq.Gen.LoopFacts
import Csvq.Gen.IntConvFacts
import Csvq.Lemmas.SizeFacts

namespace Csvq.C19
open Csvq.SizeFacts

/-! ## loops -/

def exemptLoopSites : List LoopRef := [
  ⟨"lib/query/analytic_function.go", "setNthValue", "for ; frame.Low <= i && i <= frame.High; i += step", 1, "D the direction is chosen before the loop (i, step = frame.High, -1 when counting from the last row): the measure is frame.High - i for step = 1 and i - frame.Low for step = -1, a case split on a variable the join keeps only per variable; both bounds are fields of the frame and not assigned in the body"⟩,
  ⟨"lib/query/encode.go", "encodeText", "for", 1, "C pos is incremented once more inside the `\\\\r\\\\n` case before the fallthrough (a switch with fallthrough forgets what its clauses assign): pos only grows, by one or two per iteration, towards len(runes)"⟩,
  ⟨"lib/query/error.go", "NewFatalError", "for depth := 0; ; depth++", 1, "I walks the call stack with runtime.Caller(depth) until it reports !ok: the stack is finite"⟩,
  ⟨"lib/query/eval.go", "evaluateSequentialRoutine", "for seqScope.NextRecord()", 1, "I iterator: NextRecord advances recordIndex by one and answers false behind the last record of the view (ReferenceScope.NextRecord: `idx+1 < len`), the body does not reset it"⟩,
  ⟨"lib/query/eval.go", "EvaluateEmbeddedString", "for scanner.Scan()", 1, "I scanner over a string: every Scan consumes at least one rune or ends (excmd.ArgumentScanner)"⟩,
  ⟨"lib/query/function.go", "Rand", "for", 1, "R rejection sampling: each round ends with probability > 1/2 (n < delta with delta > 2^63): terminates with probability 1, not for every sequence of random numbers"⟩,
  ⟨"lib/query/load_view.go", "readRecordSet/func", "for", 2, "I reads records until the reader reports io.EOF / an error or the context is cancelled: the input is a finite file (a FIFO that never ends is the caller's choice; F61's repair is the guard in the fixed-length reader of go-text)"⟩,
  ⟨"lib/query/load_view.go", "loadViewFromJsonLinesFile/func", "for", 2, "I the same reader loop for JSON Lines: ends at io.EOF, on an error or on cancellation"⟩,
  ⟨"lib/query/processor.go", "Processor.While", "for", 1, "U WHILE of the user's program: runs as long as the user's condition is TRUE — non-termination is the program's, not csvq's (the harness does not generate WHILE TRUE)"⟩,
  ⟨"lib/query/processor.go", "Processor.WhileInCursor", "for", 1, "I FETCH NEXT until the cursor is exhausted: the cursor's index grows by one per fetch over a finite view (C16: fetch_next_advances)"⟩,
  ⟨"lib/query/processor.go", "Processor.ExecExternalCommand", "for splitter.Scan()", 1, "I scanner over the command text: every Scan consumes input or ends"⟩,
  ⟨"lib/query/session.go", "StdinLocker.lockContext", "for", 1, "I retry loop of a lock with a deadline: leaves on success, on ctx.Done() (the wait timeout) — C09's model of the retry loop (Csvq/Gen/RetryLoop.lean) is its proof"⟩,
  ⟨"lib/query/string_formatter.go", "StringFormatter.Format", "for", 1, "I scanner: every iteration calls f.next() at least once, which advances formatPos towards len(format) and answers EOF there; formatPos is a field changed by the callee (not by an assignment in this function)"⟩,
  ⟨"lib/query/string_formatter.go", "StringFormatter.scanDecimal", "for f.isDecimal(f.peek())", 1, "I scanner: the body is f.next(), which advances formatPos; peek answers EOF at the end and EOF is not a decimal"⟩,
  ⟨"lib/query/view_map.go", "ViewMap.GetWithInternalId/func", "for i := 0; i < len(ret.RecordSet[index]); i++", 1, "E the bound is read through an index under a variable whose elements are assigned in the function (ret.RecordSet[index] = record, after the loop): it gets no name; the body does not assign it"⟩,
  ⟨"lib/json/path_scanner.go", "PathScanner.scanObjectMember", "for", 1, "I scanner over the path text: every iteration consumes a rune with s.next() and leaves at EOF / the closing quote"⟩,
  ⟨"lib/json/query_scanner.go", "QueryScanner.skipSpaces", "for unicode.IsSpace(s.peek())", 1, "I scanner: the body is s.next(); peek answers EOF at the end and EOF is not a space"⟩,
  ⟨"lib/json/query_scanner.go", "QueryScanner.scanIdentifier", "for s.isIdentRune(s.peek())", 1, "I scanner: the body is s.next(); EOF is not an identifier rune"⟩,
  ⟨"lib/json/query_scanner.go", "QueryScanner.scanString", "for", 1, "I scanner: every iteration consumes a rune with s.next() and leaves at EOF / the closing quote (the measure EOF - ch the exits suggest is not one)"⟩,
  ⟨"lib/json/query_scanner.go", "QueryScanner.scanDecimal", "for s.isDecimal(s.peek())", 1, "I scanner: the body is s.next(); EOF is not a decimal"⟩
]

def unprovedLoopSites : List LoopSite := Gen.Loop.loopSites.filter (fun l => !l.proved Gen.Loop.loopEntries)

set_option maxRecDepth 100000 in
/-- **loop_sites_ok.**  Every regenerated loop has a measure whose back edges are all proved (or no back edge), except the
    reviewed ones. -/
theorem loop_sites_ok :
    Gen.Loop.loopSites.all (fun l => l.proved Gen.Loop.loopEntries || exemptLoopSites.any (fun r => r.is l)) = true := by
  decide +kernel

set_option maxRecDepth 100000 in
/-- … and of every reviewed loop no more occurrences are unproved than were reviewed -/
theorem exempt_loop_counts :
    exemptLoopSites.all (fun r => decide (unprovedLoopSites.countP (r.is ·) ≤ r.count)) = true := by
  decide +kernel

set_option maxRecDepth 100000 in
/-- no stale exemption: every entry names a loop that exists and is not proved -/
theorem exempt_loop_sites_exist :
    exemptLoopSites.all (fun r => unprovedLoopSites.any (r.is ·)) = true := by
  decide +kernel

/-- **loop_sites_terminate.**  For every `for` loop that is not reviewed: it has no back edge, or one of the measures read off its
    exit conditions is, for ALL integer valuations of one iteration (facts of the path to each back edge), non-negative at the
    head and strictly smaller at the back edge — the loop head is passed finitely often. -/
theorem loop_sites_terminate (l : LoopSite) (hl : l ∈ Gen.Loop.loopSites) (hk : ∀ r ∈ exemptLoopSites, r.is l = false) :
    l.terminates Gen.Loop.loopEntries := by
  have h := List.all_eq_true.mp loop_sites_ok l hl
  rw [Bool.or_eq_true] at h
  cases h with
  | inl hp => exact LoopSite.proved_sound _ l hp
  | inr hex =>
    rw [List.any_eq_true] at hex
    obtain ⟨r, hr, hrk⟩ := hex
    rw [hk r hr] at hrk
    exact absurd hrk (by decide)

/-! ## conversions -/

/-- a conversion named without its line (file, function, expression, float | narrow, occurrences, reason).  Reason classes:
    N the operand is a product / quotient of floats (no rule: its NaN-ness and range are non-linear facts);  W wrapping is the design. -/
structure ConvRef where
  file : String
  fn : String
  expr : String
  what : String
  count : Nat
  reason : String
deriving Repr

def ConvRef.is (r : ConvRef) (s : SizeSite) : Bool := r.expr == s.expr && r.what == s.what && r.fn == s.fn && r.file == s.file

def exemptConvSites : List ConvRef := [
  ⟨"lib/query/function.go", "Rand", "uint64(high - low)", "narrow", 1, "W the wrap-around is the design: `delta := uint64(high-low) + 1` counts the candidates as an unsigned number because high - low can exceed the int64 range (comment in the source); delta == 0 means every integer"⟩,
  ⟨"lib/query/load_view.go", "readRecordSet/func", "int((float64(fileSize) / float64(pos)) * fileLoadingPreparedRecordSetCap * 1.2)", "float: in range", 1, "N quotient of two positive file sizes times constants (0 < fileSize, 0 < pos, pos < fileSize dominate the conversion): finite, between 360 and 360 * fileSize"⟩,
  ⟨"lib/query/load_view.go", "loadViewFromJsonLinesFile/func", "int((float64(fileSize) / float64(pos)) * fileLoadingPreparedRecordSetCap * 1.2)", "float: in range", 1, "N the same ratio as readRecordSet"⟩,
  ⟨"lib/query/view.go", "View.Limit", "int(math.Ceil(float64(view.RecordLen() + view.offset) * percentage / 100))", "float: in range", 1, "N (RecordLen + offset) * percentage / 100 behind `math.IsNaN(percentage)` refused and percentage clamped to [0, 100]: a product of a non-negative integer and a number in [0, 1] — between 0 and RecordLen + offset (F11 was the missing NaN check)"⟩
]

def unprovedConvSites : List SizeSite := (Gen.IntConv.convEntries.filter (fun e => !e.proof.isYes)).map (·.site)

/-- **conv_sites_ok.**  Every float → integer / narrowing conversion that reaches a size or loop obligation is guarded, except the
    reviewed ones. -/
theorem conv_sites_ok :
    Gen.IntConv.convEntries.all (fun e => e.proof.isYes || exemptConvSites.any (fun r => r.is e.site)) = true := by
  decide +kernel

theorem exempt_conv_counts :
    exemptConvSites.all (fun r => decide (unprovedConvSites.countP (r.is ·) ≤ r.count) && unprovedConvSites.any (r.is ·)) = true := by
  decide +kernel

/-- **float_to_size_guarded.**  For every conversion that reaches a size operand or a loop bound and is not reviewed: for ALL
    valuations that satisfy the facts dominating it, the operand is not NaN and its floor lies inside the range of the target
    type — the conversion is the mathematical truncation, not the platform's out-of-range value. -/
theorem float_to_size_guarded (e : SizeEntry) (he : e ∈ Gen.IntConv.convEntries)
    (hk : ∀ r ∈ exemptConvSites, r.is e.site = false) (ρ : Nat → Int) (hconds : holdsAll ρ e.site.conds) :
    e.site.goal.holds ρ := by
  have h := List.all_eq_true.mp conv_sites_ok e he
  rw [Bool.or_eq_true] at h
  cases h with
  | inl hyes =>
    match e, hyes with
    | ⟨_, .yes hp⟩, _ => exact hp ρ hconds
  | inr hex =>
    rw [List.any_eq_true] at hex
    obtain ⟨r, hr, hrk⟩ := hex
    rw [hk r hr] at hrk
    exact absurd hrk (by decide)

/-! ## non-vacuity -/

/-- `for i := a; i < n; i++` (variables: 0 i at the head, 1 n, 2 i at the back edge): proved; the same loop whose body also
    takes the counter back is not, and the search names an iteration in which the measure does not decrease -/
def countedLoop : SizeSite := ⟨"", "", "loop", "for i := a; i < n; i++", "n - i", 3,
  [.lt (.v 0) (.v 1), .eq (.v 2) (.add (.v 0) (.c 1))],
  .and (.lt (.sub (.v 1) (.v 2)) (.sub (.v 1) (.v 0))) (.le (.c 0) (.sub (.v 1) (.v 0)))⟩
/-- the body does `i--` on some path before the post statement's `i++` (variables: 3 the counter after the body) -/
def stuckLoop : SizeSite := ⟨"", "", "loop", "for i := a; i < n; i++ { … i-- … }", "n - i", 4,
  [.lt (.v 0) (.v 1), .or (.eq (.v 3) (.sub (.v 0) (.c 1))) (.eq (.v 3) (.v 0)), .eq (.v 2) (.add (.v 3) (.c 1))],
  .and (.lt (.sub (.v 1) (.v 2)) (.sub (.v 1) (.v 0))) (.le (.c 0) (.sub (.v 1) (.v 0)))⟩
example : (by size_decide countedLoop : Proved countedLoop.safe).isYes = true := rfl
example : (by size_decide stuckLoop : Proved stuckLoop.safe).isYes = false := rfl
example : stuckLoop.violatedBy [0, 1, 0, -1] = true := by decide
example : ¬ stuckLoop.safe := stuckLoop.violatedBy_sound [0, 1, 0, -1] (by decide)
example : (⟨"", "", "for i := a; i < n; i++", 1, [("n - i", [0])]⟩ : LoopSite).proved [⟨countedLoop, by size_decide countedLoop⟩] = true := rfl
example : (⟨"", "", "for …", 1, [("n - i", [0])]⟩ : LoopSite).proved [⟨stuckLoop, by size_decide stuckLoop⟩] = false := rfl
example : (⟨"", "", "for { … return }", 0, []⟩ : LoopSite).proved [] = true := rfl
example : (⟨"", "", "for it.Next() { }", 1, []⟩ : LoopSite).proved [] = false := rfl
/-- int(p) behind `if p < 0 { return }` alone is NOT guarded (NaN passes the comparison: 0 nan p, 1 fl p), with IsNaN refused and
    both bounds it is -/
def convBehindLowerBound : SizeSite := ⟨"", "", "conv", "int(p)", "float", 2,
  [.le (.c 0) (.v 0), .le (.v 0) (.c 1), .or (.ne (.v 0) (.c 0)) (.le (.c 0) (.v 1))],
  .and (.eq (.v 0) (.c 0)) (.and (.le (.c (-9223372036854775808)) (.v 1)) (.le (.v 1) (.c 9223372036854775807)))⟩
def convGuarded : SizeSite := ⟨"", "", "conv", "int(p)", "float", 2,
  [.le (.c 0) (.v 0), .le (.v 0) (.c 1), .eq (.v 0) (.c 0), .or (.ne (.v 0) (.c 0)) (.le (.c 0) (.v 1)), .or (.ne (.v 0) (.c 0)) (.le (.v 1) (.c 100))],
  .and (.eq (.v 0) (.c 0)) (.and (.le (.c (-9223372036854775808)) (.v 1)) (.le (.v 1) (.c 9223372036854775807)))⟩
example : (by size_decide convBehindLowerBound : Proved convBehindLowerBound.safe).isYes = false := rfl
example : (by size_decide convGuarded : Proved convGuarded.safe).isYes = true := rfl
example : ¬ convBehindLowerBound.safe := convBehindLowerBound.violatedBy_sound [1, 0] (by decide)
/-- the theorems are about non-empty sets -/
example : (Gen.Loop.loopSites.filter (·.proved Gen.Loop.loopEntries)).length ≥ 35 := by decide +kernel
example : (Gen.IntConv.convEntries.filter (·.proof.isYes)).length ≥ 5 := by decide +kernel
/-- the NaN part of every float conversion that reaches a size / loop obligation is proved: no reviewed entry is about NaN -/
theorem conv_nan_parts_proved :
    Gen.IntConv.convEntries.all (fun e => !(e.site.what == "float: not NaN") || e.proof.isYes) = true := by
  decide +kernel

end Csvq.C19
