/-
  C04 — DISTINCT, GROUP BY, set operators and aggregates bucket rows by value equality.
  Property theorems only.  Keys: lib/query/utils.go; bucketing: lib/query/view.go.
-/
import Csvq.Lemmas.Keys
import Csvq.Lemmas.Group
import Csvq.Lemmas.Text
import Csvq.Gen.KeyFacts
namespace Csvq.C04
open Csvq

/-! ## the bucket key is injective: two rows share a key iff their normalised tuples are equal -/

/-- Joined comparison keys are uniquely decodable — for every character repertoire, including
    the separator `:` and the escape `\` inside strings.  (`KeyTextOK`: strconv's integer/float
    texts are injective and contain neither byte — recorded assumption, validated per observed
    text by the correspondence.) -/
theorem serKeys_inj (kt : KeyText) (ok : KeyTextOK kt) (a b : List NKey) (hl : a.length = b.length)
    (h : serKeys kt a = serKeys kt b) : a = b := by
  cases a with
  | nil => cases b with
    | nil => rfl
    | cons _ _ => simp at hl
  | cons x xs => cases b with
    | nil => simp at hl
    | cons y ys =>
      have h1 := splitKeys_serKeys kt ok x xs
      have h2 := splitKeys_serKeys kt ok y ys
      rw [h] at h1
      have hm : (x :: xs).map (serKey kt) = (y :: ys).map (serKey kt) := h1.symm.trans h2
      have inj : ∀ (l1 l2 : List NKey), l1.map (serKey kt) = l2.map (serKey kt) → l1 = l2 := by
        intro l1
        induction l1 with
        | nil => intro l2 h; cases l2 with
          | nil => rfl
          | cons _ _ => simp at h
        | cons p ps ih => intro l2 h; cases l2 with
          | nil => simp at h
          | cons q qs =>
            simp only [List.map_cons, List.cons.injEq] at h
            rw [serKey_injective kt ok p q h.1, ih qs h.2]
      exact inj _ _ hm

/-- two rows fall into the same bucket iff, column by column, their normalised values are equal -/
theorem same_bucket_iff (kt : KeyText) (ok : KeyTextOK kt) (r s : List Profile) (hl : r.length = s.length) :
    serKeys kt (r.map norm) = serKeys kt (s.map norm) ↔ r.map norm = s.map norm := by
  constructor
  · intro h; exact serKeys_inj kt ok _ _ (by simpa using hl) h
  · intro h; rw [h]

theorem same_bucket_strict_iff (kt : KeyText) (ok : KeyTextOK kt) (r s : List NKey) (hl : r.length = s.length) :
    serKeys kt r = serKeys kt s ↔ r = s :=
  ⟨serKeys_inj kt ok r s hl, fun h => by rw [h]⟩

/-- NULL keys only match NULL keys -/
theorem norm_null_iff (p : Profile) (hwf : p.isNull = false → (p.int?.isSome ∨ p.flt?.isSome ∨ p.dt?.isSome ∨ p.bool?.isSome ∨ p.strU?.isSome)) :
    norm p = .null ↔ p.isNull = true := by
  unfold norm
  cases hn : p.isNull
  · have := hwf hn
    simp only [Bool.false_eq_true, if_false, iff_false]
    cases hi : p.int? <;> cases hf : p.flt? <;> cases hd : p.dt? <;> cases hb : p.bool? <;> cases hs : p.strU? <;> simp_all
  · simp

/-- integers, and booleans read as 0/1, normalise to the same key exactly when they are equal numbers -/
theorem norm_int_eq (p q : Profile) (hp : p.isNull = false) (hq : q.isNull = false) (i j : Int)
    (hi : p.int? = some i) (hj : q.int? = some j) : norm p = norm q ↔ i = j := by
  simp [norm, hp, hq, hi, hj]

/-- `-0.0` and `0.0` are the same float key -/
theorem norm_negzero (p q : Profile) (hp : p.isNull = false) (hq : q.isNull = false)
    (h1 : p.int? = none) (h2 : q.int? = none) (hf : p.flt? = some .negz) (hg : q.flt? = some (.fin 0)) :
    norm p = norm q := by
  simp [norm, hp, hq, h1, h2, hf, hg]

/-- for the integer and datetime part of the key nothing is assumed: the decimal text the driver and
    the theorems use (`decText`, compared byte for byte with strconv.FormatInt by the stream) is injective
    and free of ':' and '\\'; only the float text remains an assumption of `KeyTextOK` -/
theorem keytext_ok_of_float (ftext : FVal → Bytes) (finj : ∀ f g, ftext f = ftext g → f = g)
    (fclean : ∀ f, Clean (ftext f)) : KeyTextOK { itext := decText, ftext := ftext } :=
  { iinj := decText_injective, finj := finj, iclean := decText_clean, fclean := fclean }

/-! ## bucketing: every worker count, every chunking — same buckets, same order, members in row order -/

/-- GROUP BY over any split of the rows into contiguous worker chunks equals the sequential
    specification: keys in order of first occurrence, each with exactly the rows of that key in row order. -/
theorem group_spec {κ : Type} [DecidableEq κ] (chunks : List (List (κ × Nat))) :
    groupImpl chunks = groupSpec chunks.flatten := by
  unfold groupImpl
  have hl : chunks.map localGroups = chunks.map groupSpec := by
    apply List.map_congr_left; intro c _; exact localGroups_eq_spec c
  simp only [hl]
  rw [keys_fold chunks []]
  show List.map _ (addKeys [] _) = List.map _ (firstOcc _)
  unfold firstOcc
  apply List.map_congr_left
  intro k _
  rw [members_flatten]

/-- the result does not depend on how the rows were cut into chunks (number of goroutines) -/
theorem group_indep_chunks {κ : Type} [DecidableEq κ] (c1 c2 : List (List (κ × Nat)))
    (h : c1.flatten = c2.flatten) : groupImpl c1 = groupImpl c2 := by
  rw [group_spec, group_spec, h]

/-- no bucket is split: every key heads at most one bucket -/
theorem no_bucket_split {κ : Type} [DecidableEq κ] (chunks : List (List (κ × Nat))) :
    ((groupImpl chunks).map Prod.fst).Nodup := by
  rw [group_spec]; unfold groupSpec
  simp only [List.map_map, Function.comp_def, List.map_id']
  exact firstOcc_nodup _

/-- no two different rows share a bucket wrongly: a row index is in bucket `k` iff its key is `k` -/
theorem bucket_members {κ : Type} [DecidableEq κ] (chunks : List (List (κ × Nat))) (k : κ) (is : List Nat)
    (h : (k, is) ∈ groupImpl chunks) : is = members k chunks.flatten := by
  rw [group_spec] at h; unfold groupSpec at h
  simp only [List.mem_map] at h
  obtain ⟨k', _, e⟩ := h
  injection e with e1 e2; subst e1; exact e2.symm

/-- every key that occurs has a bucket (no row is lost) -/
theorem bucket_exists {κ : Type} [DecidableEq κ] (chunks : List (List (κ × Nat))) (r : κ × Nat)
    (h : r ∈ chunks.flatten) : (r.1, members r.1 chunks.flatten) ∈ groupImpl chunks := by
  rw [group_spec]; unfold groupSpec
  simp only [List.mem_map]
  refine ⟨r.1, ?_, rfl⟩
  rw [mem_firstOcc]; exact List.mem_map_of_mem h

/-- and that bucket contains the row -/
theorem row_in_its_bucket {κ : Type} [DecidableEq κ] (rows : List (κ × Nat)) (r : κ × Nat) (h : r ∈ rows) :
    r.2 ∈ members r.1 rows := by
  unfold members
  simp only [List.mem_map, List.mem_filter, decide_eq_true_eq]
  exact ⟨r, ⟨h, rfl⟩, rfl⟩

/-! ## DISTINCT and the set operators bucket by the same keys -/

/-- DISTINCT (and UNION / EXCEPT / INTERSECT without ALL) keep, for every key that occurs, exactly one
    row — the first one — and keep them in input order: no two different keys merged, no key twice -/
theorem distinct_keys {κ ρ : Type} [DecidableEq κ] (rows : List (κ × ρ)) :
    (keepFirst rows).map Prod.fst = firstOcc (rows.map Prod.fst) ∧
    ((keepFirst rows).map Prod.fst).Nodup ∧ (keepFirst rows).Sublist rows := by
  refine ⟨keepFirst_keys rows, ?_, keepFirst_sublist rows⟩
  rw [keepFirst_keys]; exact firstOcc_nodup _

theorem distinct_represents_every_key {κ ρ : Type} [DecidableEq κ] (rows : List (κ × ρ)) (r : κ × ρ) (h : r ∈ rows) :
    r.1 ∈ (keepFirst rows).map Prod.fst := by
  rw [keepFirst_keys, mem_firstOcc]; exact List.mem_map_of_mem h

/-- UNION ALL is concatenation; UNION is DISTINCT of the concatenation -/
theorem union_spec {κ ρ : Type} [DecidableEq κ] (a b : List (κ × ρ)) :
    unionImpl true a b = a ++ b ∧ unionImpl false a b = keepFirst (a ++ b) := ⟨rfl, rfl⟩

/-- EXCEPT ALL keeps exactly the rows of the left operand whose key does not occur on the right,
    in order and with their multiplicities -/
theorem except_all_mem_iff {κ ρ : Type} [DecidableEq κ] (a b : List (κ × ρ)) (r : κ × ρ) :
    r ∈ exceptImpl true a b ↔ r ∈ a ∧ r.1 ∉ b.map Prod.fst := by
  simp [exceptImpl, List.mem_filter]

theorem except_all_sublist {κ ρ : Type} [DecidableEq κ] (a b : List (κ × ρ)) : (exceptImpl true a b).Sublist a := by
  simp only [exceptImpl, if_true]; exact List.filter_sublist

/-- INTERSECT ALL keeps exactly the rows of the left operand whose key occurs on the right -/
theorem intersect_all_mem_iff {κ ρ : Type} [DecidableEq κ] (a b : List (κ × ρ)) (r : κ × ρ) :
    r ∈ intersectImpl true a b ↔ r ∈ a ∧ r.1 ∈ b.map Prod.fst := by
  simp [intersectImpl, List.mem_filter]

/-- EXCEPT / INTERSECT without ALL: the keys of the result are the distinct keys of the ALL result -/
theorem except_distinct_keys {κ ρ : Type} [DecidableEq κ] (a b : List (κ × ρ)) :
    (exceptImpl false a b).map Prod.fst = firstOcc ((exceptImpl true a b).map Prod.fst) := by
  simp only [exceptImpl, if_true]; exact keepFirst_keys _

theorem intersect_distinct_keys {κ ρ : Type} [DecidableEq κ] (a b : List (κ × ρ)) :
    (intersectImpl false a b).map Prod.fst = firstOcc ((intersectImpl true a b).map Prod.fst) := by
  simp only [intersectImpl, if_true]; exact keepFirst_keys _

/-! ## Tie to the source: the shape of the keys, regenerated from lib/query/utils.go on every run
    (extract/keyfacts → Gen/KeyFacts.lean) -/

/-- the tag a writer puts in front of its payload, following a pure delegation
    (serializeDatetime → serializeDatetimeFromUnixNano) -/
def genTag (w : String) : Option (List Nat) :=
  match Csvq.Gen.keyTags.lookup w with
  | some [] => if w = "serializeDatetime" then Csvq.Gen.keyTags.lookup "serializeDatetimeFromUnixNano" else none
  | r => r

/-- the rungs of `norm` in order, with the tag of the key each produces -/
def modelLadder : List (String × List Nat) :=
  [("IsNull", [91, tagOf .null, 93]), ("ToIntegerStrictly", [91, tagOf (.int 0), 93]),
   ("ToFloat", [91, tagOf (.flt (.fin 0)), 93]), ("ToDatetime", [91, tagOf (.dt 0), 93]),
   ("ToBoolean", [91, tagOf (.int 1), 93]),      -- a boolean-looking value is keyed as the integer 1 / 0
   ("isString", [91, tagOf (.str []), 93]), ("else", [91, tagOf .null, 93])]

/-- SerializeKey tries the conversions in the order of the model's `norm` (integer, float, datetime,
    boolean, text; NULL first and last) and every rung writes the tag of the key `norm` produces there -/
theorem gen_ladder_eq_model :
    Csvq.Gen.keyLadderW.map (fun r => (r.1, (r.2.head?.bind genTag).getD [])) = modelLadder ∧
    (∀ r ∈ Csvq.Gen.keyLadderW, ∀ w ∈ r.2, some w = r.2.head?) := by decide

/-- with the strict-equal flag: one case per value type, each with the tag of the key `normStrict` gives -/
theorem gen_strict_ladder_eq_model :
    Csvq.Gen.strictLadderW.map (fun r => (r.1, (r.2.head?.bind genTag).getD []))
      = [("String", [91, tagOf (.str []), 93]), ("Integer", [91, tagOf (.int 0), 93]),
         ("Float", [91, tagOf (.flt (.fin 0)), 93]), ("Boolean", [91, tagOf (.bool true), 93]),
         ("Ternary", [91, tagOf (.tern .T), 93]), ("Datetime", [91, tagOf (.dt 0), 93]),
         ("default", [91, tagOf .null, 93])] := by decide

/-- separator and escape rule are the model's (`serKeys`, `escKey`), and -0 is folded into 0 as in `norm` -/
theorem gen_separator_and_escape :
    Csvq.Gen.keySeparator = sepByte ∧ Csvq.Gen.keyEscaped = [sepByte, escByte] ∧
    Csvq.Gen.keyEscapeByte = escByte ∧ Csvq.Gen.floatKeyNormalisesZero = true ∧
    Csvq.Gen.keyStrictSwitch = "SerializeIdenticalKey(val) / SerializeKey(val,flags)" := by decide

/-- the tags of different kinds of key differ (premise of `serKeys_inj`: a key's kind is read off its tag) -/
theorem gen_tags_distinct :
    ((["serializeNull", "serializeInteger", "serializeFloat", "serializeDatetime", "serializeString",
       "serializeBoolean", "serializeTernary"].map genTag).eraseDups).length = 7 ∧
    genTag "serializeString" = genTag "serializeCaseSensitiveString" := by decide

/-- the payload of every writer is the one the model's `payload` describes: decimal text for integers,
    floats and datetimes (UnixNano), escaped upper-cased trimmed text for strings (escaped trimmed text
    under --strict-equal), T / F (/ U) for booleans and ternaries, nothing for NULL -/
theorem gen_payloads_eq_ref :
    Csvq.Gen.keyPayloads =
      [("serializeNull", ""), ("serializeInteger", "WriteString:s"), ("serializeFloat", "WriteString:s"),
       ("serializeDatetime", "->serializeDatetimeFromUnixNano(t.UnixNano())"),
       ("serializeDatetimeFromUnixNano", "WriteString:value.Int64ToStr(t)"),
       ("serializeString", "writeEscapedKeyString:strings.ToUpper(option.TrimSpace(s))"),
       ("serializeCaseSensitiveString", "writeEscapedKeyString:option.TrimSpace(s)"),
       ("serializeBoolean", "WriteString:\"T\";WriteString:\"F\""),
       ("serializeTernary", "WriteString:\"T\";WriteString:\"F\";WriteString:\"U\"")] ∧
    Csvq.Gen.keyLadder.lookup "ToBoolean" = some "serializeInteger(\"1\");serializeInteger(\"0\")" ∧
    Csvq.Gen.keyLadder.lookup "ToFloat" = some "serializeFloat(floatKeyString(f.(*value.Float).Raw()))" := by decide

/-! ## non-vacuity -/

def exKT : KeyText := { itext := decText, ftext := fun _ => [] }

example : groupImpl [[(1, 0), (2, 1)], [(1, 2)], [(3, 3), (2, 4)]] = [(1, [0, 2]), (2, [1, 4]), (3, [3])] := by decide
example : serKeys exKT [.str [120, 58], .str [121]] ≠ serKeys exKT [.str [120], .str [58, 121]] := by decide
example : splitKeys false (serKeys exKT [.str [120, 58, 91, 83, 93, 121], .null]) [] =
    [serKey exKT (.str [120, 58, 91, 83, 93, 121]), serKey exKT .null] := by decide

end Csvq.C04
