/-
  Csvq.Props.C01Session — property C01, created tables, the SESSION's options as a dimension: which options reach a
  created table (CreateTable / NewFileInfoForCreate) and which function writes which option (every assignment to a
  field of Flags.ExportOptions / Flags.ImportOptions under lib/), REGENERATED on every run (Gen/CreateFacts.lean,
  extract/createfacts/session.go).  The attributes of a created table are a function of the file name and of the CURRENT
  values of six options; no other option and no earlier value of any option reaches them — in particular the format of
  RESULTS (@@FORMAT, --format, --out) does not touch the delimiter files are written with.  Property theorems only.
-/
import Csvq.Props.C01Create
namespace Csvq.C01
open Csvq.Session Csvq.CreateTable

/-! ## the regenerated facts -/

/-- every function under lib/ that assigns an option field, with the fields it assigns (reviewed): one setter per field,
    except JsonEscape (also named by the format aliases JSONH / JSONA) -/
theorem gen_export_option_writes_eq_ref : Gen.optionWrites =
    [("option.Flags.SetAllowUnevenFields", ["ImportOptions.AllowUnevenFields"]), ("option.Flags.SetColor", ["ExportOptions.Color"]),
     ("option.Flags.SetCountDiacriticalSign", ["ExportOptions.CountDiacriticalSign"]),
     ("option.Flags.SetCountFormatCode", ["ExportOptions.CountFormatCode"]), ("option.Flags.SetDelimiter", ["ImportOptions.Delimiter"]),
     ("option.Flags.SetDelimiterPositions", ["ImportOptions.DelimiterPositions", "ImportOptions.SingleLine"]),
     ("option.Flags.SetEastAsianEncoding", ["ExportOptions.EastAsianEncoding"]), ("option.Flags.SetEncloseAll", ["ExportOptions.EncloseAll"]),
     ("option.Flags.SetEncoding", ["ImportOptions.Encoding"]), ("option.Flags.SetFormat", ["ExportOptions.Format", "ExportOptions.JsonEscape"]),
     ("option.Flags.SetImportFormat", ["ImportOptions.Format"]), ("option.Flags.SetJsonEscape", ["ExportOptions.JsonEscape"]),
     ("option.Flags.SetJsonQuery", ["ImportOptions.JsonQuery"]), ("option.Flags.SetLineBreak", ["ExportOptions.LineBreak"]),
     ("option.Flags.SetNoHeader", ["ImportOptions.NoHeader"]), ("option.Flags.SetPrettyPrint", ["ExportOptions.PrettyPrint"]),
     ("option.Flags.SetScientificNotation", ["ExportOptions.ScientificNotation"]),
     ("option.Flags.SetStripEndingLineBreak", ["ExportOptions.StripEndingLineBreak"]),
     ("option.Flags.SetWithoutHeader", ["ExportOptions.WithoutHeader"]), ("option.Flags.SetWithoutNull", ["ImportOptions.WithoutNull"]),
     ("option.Flags.SetWriteDelimiter", ["ExportOptions.Delimiter"]),
     ("option.Flags.SetWriteDelimiterPositions", ["ExportOptions.DelimiterPositions", "ExportOptions.SingleLine"]),
     ("option.Flags.SetWriteEncoding", ["ExportOptions.Encoding"])] := rfl

/-- every step of the model assigns exactly the fields its setter assigns in the code -/
theorem gen_flag_setter_writes_eq_model (f : SetFlag) : Gen.optionWrites.lookup f.setter = some f.writes := by
  cases f <;> rfl

/-- each of the six options a created table takes has ONE writer anywhere under lib/: its own setter -/
theorem gen_own_options_have_one_writer :
    ownFields.map (fun fld => (Gen.optionWrites.filter (fun w => w.2.contains fld)).map (·.1)) =
      [["option.Flags.SetWriteDelimiter"], ["option.Flags.SetWriteEncoding"], ["option.Flags.SetLineBreak"],
       ["option.Flags.SetWithoutHeader"], ["option.Flags.SetEncloseAll"], ["option.Flags.SetPrettyPrint"]] := by decide

/-- no function that assigns the format of results assigns anything but Format and JsonEscape -/
theorem gen_format_writers_leave_write_options :
    (Gen.optionWrites.filter (fun w => w.2.contains "ExportOptions.Format")).all
      (fun w => w.2.all (fun fld => !ownFields.contains fld)) = true := by decide

/-- where every field of a created table's FileInfo comes from (reviewed) -/
theorem gen_created_attr_sources_eq_ref : Gen.createdAttrSources =
    [("Path", "fpath"), ("Delimiter", "<delimiter> Flags.ExportOptions.Delimiter"), ("Format", "format"),
     ("Encoding", "<encoding> Flags.ExportOptions.Encoding"), ("ViewType", "ViewTypeFile"), ("Handler", "h"),
     ("LineBreak", "Flags.ExportOptions.LineBreak"), ("EncloseAll", "Flags.ExportOptions.EncloseAll"),
     ("NoHeader", "Flags.ExportOptions.WithoutHeader"), ("PrettyPrint", "Flags.ExportOptions.PrettyPrint"), ("ForUpdate", "true")] := rfl

/-- … the session options among them are exactly the six of the model -/
theorem gen_created_attrs_read_own_options : Gen.createdAttrOptionReads =
    [("Delimiter", "ExportOptions.Delimiter"), ("Encoding", "ExportOptions.Encoding"), ("LineBreak", "ExportOptions.LineBreak"),
     ("EncloseAll", "ExportOptions.EncloseAll"), ("NoHeader", "ExportOptions.WithoutHeader"), ("PrettyPrint", "ExportOptions.PrettyPrint")] ∧
    (∀ r ∈ Gen.createdAttrOptionReads, r.2 ∈ ownFields) ∧ (∀ fld ∈ ownFields, fld ∈ Gen.createdAttrOptionReads.map (·.2)) := by
  decide

/-- a result (stdout / --out) is encoded under a copy of the session's export options, colour off for a file -/
theorem gen_result_options_eq_ref :
    Gen.resultOptionsSource = "proc.Tx.Flags.ExportOptions.Copy()" ∧
    Gen.resultOptionsOverrides = ["exportOptions.Color = false"] ∧
    Gen.resultTailCond = "!proc.Tx.Flags.ExportOptions.StripEndingLineBreak && !(proc.Tx.Session.OutFile() != nil && exportOptions.Format == option.FIXED && exportOptions.SingleLine)" :=
  ⟨rfl, rfl, rfl⟩

/-! ## the model's steps -/

/-- a step changes the six options only through `actOwn` … -/
theorem set_own (s : Session) (f : SetFlag) : (s.set f).own = f.actOwn s.own := by
  cases f <;> rfl

/-- … and a step whose setter assigns none of the six fields leaves them alone -/
theorem set_changes_only_declared_fields (s : Session) (f : SetFlag) (h : ∀ w ∈ f.writes, w ∉ ownFields) :
    (s.set f).own = s.own := by
  cases f <;> first | rfl | exact (h _ (List.mem_cons_self ..) (by decide)).elim

theorem run_own (h : List SetFlag) : ∀ s : Session, (s.run h).own = h.foldl (fun o f => f.actOwn o) s.own := by
  induction h with
  | nil => intro s; rfl
  | cons f rest ih =>
    intro s
    simp only [Session.run, List.foldl_cons]
    have := ih (s.set f)
    simp only [Session.run] at this
    rw [this, set_own]

theorem foldl_actOwn_filter (h : List SetFlag) :
    ∀ o : OwnOptions, h.foldl (fun o f => f.actOwn o) o = (h.filter SetFlag.isOwn).foldl (fun o f => f.actOwn o) o := by
  induction h with
  | nil => intro o; rfl
  | cons f rest ih =>
    intro o
    cases f <;> simp only [List.filter, SetFlag.isOwn, List.foldl_cons] <;> exact ih _

/-! ## the attributes of a created table -/

/-- **The attributes of a created table are a function of the file name and of the current values of the six options
    the manual names for it** (write delimiter, write encoding, line break, without-header, enclose-all, pretty-print):
    two sessions that agree on them create the same table, whatever else differs … -/
theorem created_attrs_depend_only_on_own_options (s₁ s₂ : Session) (path : List Char) (h : s₁.own = s₂.own) :
    createAttrs s₁ path = createAttrs s₂ path := by
  simp only [createAttrs, h]

/-- … **for every history of SET statements / command-line flags**: the current values are the fold of the six options'
    own steps over the history, every other step — result format, import options, JSON escape, strip, positions — may
    stand anywhere in it, any number of times, and is not seen -/
theorem created_attrs_ignore_other_flags (s : Session) (h : List SetFlag) (path : List Char) :
    createAttrs (s.run h) path = createAttrs (s.run (h.filter SetFlag.isOwn)) path := by
  apply created_attrs_depend_only_on_own_options
  rw [run_own, run_own, foldl_actOwn_filter]

/-- no earlier value: the write delimiter after a history is the LAST value it was set to (the initial one if never) -/
theorem write_delimiter_is_last_set (h : List SetFlag) : ∀ s : Session, (s.run h).delimiter = lastWriteDelimiter h s.delimiter := by
  induction h with
  | nil => intro s; rfl
  | cons f rest ih =>
    intro s
    simp only [Session.run, List.foldl_cons]
    have := ih (s.set f)
    simp only [Session.run] at this
    rw [this]
    cases f <;> rfl

/-- **setting the format of results — to TSV or anything else — does not change the delimiter files are written with**,
    nor any other of the six options -/
theorem result_format_does_not_change_write_delimiter (s : Session) (f : Format) (esc : Option Nat) :
    (s.set (.format f esc)).delimiter = s.delimiter ∧ (s.set (.format f esc)).own = s.own := ⟨rfl, rfl⟩

/-- … so a CSV table created after `SET @@FORMAT TO TSV; SET @@FORMAT TO CSV;` (or under --format TSV, --out x.tsv) is
    the table created without them -/
theorem created_attrs_after_format_history (s : Session) (fs : List (Format × Option Nat)) (path : List Char) :
    createAttrs (s.run (fs.map fun fe => .format fe.1 fe.2)) path = createAttrs s path := by
  rw [created_attrs_ignore_other_flags]
  have : (fs.map fun fe => SetFlag.format fe.1 fe.2).filter SetFlag.isOwn = [] := by
    induction fs with
    | nil => rfl
    | cons a rest ih => simpa [List.filter, SetFlag.isOwn] using ih
  rw [this]; rfl

/-- an option set and set back is as if never set -/
theorem set_back_restores (s : Session) (c : Char) (e l : Nat) (b : Bool) :
    (s.set (.writeDelimiter c)).set (.writeDelimiter s.delimiter) = s ∧
    (s.set (.writeEncoding e)).set (.writeEncoding s.encoding) = s ∧
    (s.set (.lineBreak l)).set (.lineBreak s.lineBreak) = s ∧
    (s.set (.withoutHeader b)).set (.withoutHeader s.withoutHeader) = s ∧
    (s.set (.encloseAll b)).set (.encloseAll s.encloseAll) = s ∧
    (s.set (.prettyPrint b)).set (.prettyPrint s.prettyPrint) = s := ⟨rfl, rfl, rfl, rfl, rfl, rfl⟩

/-- a created CSV table is comma-delimited in every session whose write delimiter is the comma now -/
theorem created_csv_delimiter (s : Session) (h : List SetFlag) (path : List Char) (hf : createFormat path = .csv) :
    (createAttrs (s.run h) path).delimiter = lastWriteDelimiter h s.delimiter := by
  simp only [createAttrs, createAttrsOf, hf, Session.own, write_delimiter_is_last_set]

/-- the format of a created table is the one its name gives (create side), in every session -/
theorem created_attrs_format (s : Session) (path : List Char) :
    (createAttrs s path).format = Gen.createDecision.format Gen.createDefault (extOf path) := by
  rw [gen_create_decision_eq_doc.1, gen_create_decision_eq_doc.2]; rfl

/-! ## what a fresh process reads -/

variable {V B : Type}

/-- **`created_table_fresh_read` for a table created in ANY session after ANY history of flags**: the hypothesis on the
    format holds by construction (`created_attrs_format`), so whenever the name gives a loadable format the fresh
    process reads the view the procedure last saw -/
theorem created_in_session_fresh_read (c : Codec V B) (strip : Bool) (rt : c.RoundTrip strip)
    (s0 : Session) (h : List SetFlag) (st : State (Attrs × V)) (p : Path) (path : List Char) (v : V)
    (hcr : st.created p = true) (hca : st.cache p = some ⟨(createAttrs (s0.run h) path, v), true⟩)
    (himp : (createFormat path).importable = true) :
    ((finish st .normal).disk p).bind
      (fun t => c.dec (freshAttrs path Gen.createDefault t.1) (commitBytes c Gen.createdLoopTail strip t.1 t.2)) = some v :=
  created_table_fresh_read c strip rt st p path _ v hcr hca (created_attrs_format _ path) himp

/-- … and when the six options have their default values NOW — whatever result formats were set, whatever was set and
    set back — the table is the one a session without any history creates: the one a load by the name alone assumes -/
theorem created_under_default_own_options (s : Session) (h : List SetFlag) (path : List Char)
    (hd : (s.run h).own = Session.default.own) : createAttrs (s.run h) path = createAttrs Session.default path :=
  created_attrs_depend_only_on_own_options _ _ path hd

/-! non-vacuity -/
example : (createAttrs (Session.default.run [.format .tsv none, .format .csv none]) "x.csv".toList).delimiter = ',' := by decide
example : (createAttrs (Session.default.run [.writeDelimiter ';', .format .tsv none]) "x.csv".toList).delimiter = ';' := by decide
example : (createAttrs (Session.default.run [.writeDelimiter ';']) "X.TSV".toList).delimiter = '\t' := by decide
example : createAttrs (Session.default.run [.format .tsv none, .strip true, .writeDelimiter ';', .importFormat .ltsv, .writeDelimiter ','])
    "x.csv".toList = createAttrs Session.default "x.csv".toList := by decide
example : lastWriteDelimiter [.writeDelimiter ';', .format .tsv none, .writeDelimiter '|', .lineBreak 1] ',' = '|' := rfl

end Csvq.C01
