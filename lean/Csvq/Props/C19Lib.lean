/-
  C19 (size / loop fragment, second group) — the same obligations as Csvq/Props/C19Sizes.lean and C19Loops.lean, regenerated
  for EVERY other non-test package of the module that runs at query time:

      lib/doc  lib/json (hand-written files)  lib/value  lib/option  lib/file  lib/terminal (the readline files aside)
      lib/syntax  lib/excmd  lib/cli  lib/action

  extract/errfacts (sizefacts.go / loopfacts.go; the package lists are parameters: `szLibGroup`, ERRFACTS_LIB_SIZE_PKGS /
  ERRFACTS_LIB_LOOP_PKGS) writes Csvq/Gen/LibSizeFacts.lean, LibLoopFacts.lean, LibIntConvFacts.lean with the same walk, the same
  IR and the same tactic: one omega obligation per operand that makes the Go runtime panic when out of range, one per
  (measure, back edge) of every non-range `for`.  (The loops of lib/value and lib/json are in the first group.)

  New kind of site in BOTH groups — `call`: a function of the module that hands an int parameter on, unchanged and unguarded, as
  a Repeat count or a make length / capacity (doc.Writer.WriteSpaces, NewUintPool, NewFieldIndexCache, NewReferenceRecord,
  NewEmptyHeader …; found by a fixpoint over the module) makes the ARGUMENT of every call the size operand:
  `w.WriteSpaces(27 - len(symbol))` is the obligation 0 ≤ 27 − len(symbol) at the caller, under the caller's facts.

  The title of a report (lib/doc/writer.go, Writer.String — SHOW TABLES / FIELDS / FLAGS …, `csvq fields`, ALTER TABLE … SET,
  SYNTAX): tw = width of the title, hlLen = max(tw + 2, lineWidth + 1, Column + 1) CLAMPED to the screen width MaxWidth (75
  columns when standard input is not a terminal); the title is centred with bytes.Repeat(" ", (hlLen − tw) / 2) inside
  `if tw < hlLen`.  The clamp is a disjunctive fact ((MaxWidth < hlLen₀ ∧ hlLen = MaxWidth) ∨ (hlLen₀ ≤ MaxWidth ∧ hlLen = hlLen₀)),
  the division by 2 is linearised; with the guard the count is proved non-negative for ALL valuations
  (`report_title_padding_proved`), without it (C19-m23) the obligation is open and the search names tw and MaxWidth with
  MaxWidth + 2 ≤ tw — a title two columns wider than the screen — which vt/p_c19.py turns into `csvq fields <long path>`.
-/
import Csvq.Gen.LibSizeFacts
import Csvq.Gen.LibLoopFacts
import Csvq.Gen.LibIntConvFacts
import Csvq.Lemmas.SizeFacts

namespace Csvq.C19
open Csvq.SizeFacts

/-- the reviewed size obligations of the second group the uniform tactic does not prove (classes as in `exemptSizeSites`) -/
def exemptLibSizeSites : List SizeRef := [
  ⟨"lib/action/run.go", "showStats", "w.WriteSpaces(width - len(exectime))", "arg0", 1, "C width = 1 + the maximum of the five lengths, computed by a range loop over a slice literal (`if width < len(v) { width = len(v) }`): the loop forgets that width only grows from len(exectime)"⟩,
  ⟨"lib/action/run.go", "showStats", "w.WriteSpaces(width - len(talloc))", "arg0", 1, "C same maximum: talloc is one of the five strings of the slice literal the loop ranges over"⟩,
  ⟨"lib/action/run.go", "showStats", "w.WriteSpaces(width - len(sys))", "arg0", 1, "C same maximum"⟩,
  ⟨"lib/action/run.go", "showStats", "w.WriteSpaces(width - len(mallocs))", "arg0", 1, "C same maximum"⟩,
  ⟨"lib/action/run.go", "showStats", "w.WriteSpaces(width - len(frees))", "arg0", 1, "C same maximum"⟩,
  ⟨"lib/doc/writer.go", "Writer.write", "strings.Repeat(\" \", width)", "count", 1, "I width = Padding + Indent * IndentWidth + subBlock: Padding = 1 and IndentWidth = 4 are set once by NewWriter, Indent counts BeginBlock − EndBlock (paired in every caller), subBlock = Column − LeadingSpacesWidth taken after the leading spaces were written; a product of two fields (non-linear)"⟩,
  ⟨"lib/doc/writer.go", "Writer.WriteSpaces", "strings.Repeat(\" \", l)", "count", 1, "P parameter l: every call of WriteSpaces in the module is its own obligation (kind `call`, 0 <= argument, at the caller)"⟩,
  ⟨"lib/doc/writer.go", "Writer.String", "bytes.Repeat([]byte(\"-\"), hlLen)", "count", 1, "P hlLen = min(max(tw + 2, lineWidth + 1, Column + 1), MaxWidth) with tw a sum of option.TextWidth results (>= 0) and MaxWidth the screen width handed to NewWriter: the terminal's column count (an unsigned winsize field) or 75 when standard input is no terminal — never negative; driven by the report-title grid"⟩,
  ⟨"lib/file/functions.go", "RandomString", "make([]rune, length)", "len", 1, "P parameter length: the callers pass the constants 12 and rlockFileSuffixLen (a call with a non-constant argument would be its own obligation)"⟩,
  ⟨"lib/file/reader.go", "NewReader", "make([]byte, headLen)", "len", 1, "P parameter headLen: the one caller passes the constant fileHeadLen of lib/query (calls with a non-constant argument are their own obligations)"⟩,
  ⟨"lib/file/reader.go", "NewReader", "fileHead[:n]", "order", 1, "P n is the count returned by io.Reader.Read(fileHead): 0 <= n <= len(fileHead) by the interface's contract"⟩,
  ⟨"lib/file/reader.go", "NewReader", "fileHead[:n]", "high", 1, "P n is the count returned by io.Reader.Read(fileHead): 0 <= n <= len(fileHead) by the interface's contract"⟩,
  ⟨"lib/file/reader.go", "Reader.Read", "make([]byte, delta)", "len", 1, "P delta = len(p) − n with n the count returned by bytes.Reader.Read(p): n <= len(p) by the interface's contract"⟩,
  ⟨"lib/file/reader.go", "Reader.Read", "p[n + i]", "low", 1, "P n, n2 are counts returned by Read: 0 <= n, and i < n2 <= len(b) = len(p) − n"⟩,
  ⟨"lib/file/reader.go", "Reader.Read", "p[n + i]", "high", 1, "P n, n2 are counts returned by Read: 0 <= n, and i < n2 <= len(b) = len(p) − n"⟩,
  ⟨"lib/file/reader.go", "Reader.HeadBytes", "make([]byte, r.headLen)", "len", 1, "I headLen is int64(n) of the count NewReader got from Read and is never assigned again"⟩,
  ⟨"lib/json/path_scanner.go", "PathScanner.runes", "s.src[(s.srcPos - s.offset):s.srcPos]", "low", 1, "I scanner invariant: offset counts the runes consumed since the token started, offset <= srcPos <= len(src) (next() advances both, only below len(src))"⟩,
  ⟨"lib/json/path_scanner.go", "PathScanner.runes", "s.src[(s.srcPos - s.offset):s.srcPos]", "order", 1, "I scanner invariant: offset counts the runes consumed since the token started, offset <= srcPos <= len(src) (next() advances both, only below len(src))"⟩,
  ⟨"lib/json/path_scanner.go", "PathScanner.runes", "s.src[(s.srcPos - s.offset):s.srcPos]", "high", 1, "I scanner invariant: offset counts the runes consumed since the token started, offset <= srcPos <= len(src) (next() advances both, only below len(src))"⟩,
  ⟨"lib/json/query_scanner.go", "QueryScanner.runes", "s.src[(s.srcPos - s.offset):s.srcPos]", "low", 1, "I the same scanner invariant as PathScanner (C19-m1, the lone quote, was a query that broke trimQuotes, not this slice)"⟩,
  ⟨"lib/json/query_scanner.go", "QueryScanner.runes", "s.src[(s.srcPos - s.offset):s.srcPos]", "order", 1, "I the same scanner invariant as PathScanner"⟩,
  ⟨"lib/json/query_scanner.go", "QueryScanner.runes", "s.src[(s.srcPos - s.offset):s.srcPos]", "high", 1, "I the same scanner invariant as PathScanner"⟩,
  ⟨"lib/option/utils.go", "FormatNumber", "intPart[start:end]", "order", 1, "I loop invariant i <= intLen / 3 of the decrementing loop `for i := intLen / 3; i >= 0; i--` (the walk keeps lower bounds of counters, not upper ones): end = intLen − 3i >= 0, and end != 0 is tested above, start = max(end − 3, 0)"⟩]

def unprovedLibSizeSites : List SizeSite := (Gen.LibSize.sizeEntries.filter (fun e => !e.proof.isYes)).map (·.site)

set_option maxRecDepth 100000 in
/-- **lib_size_sites_ok.**  Every regenerated size obligation of the second group carries a proof, except the reviewed ones. -/
theorem lib_size_sites_ok :
    Gen.LibSize.sizeEntries.all (fun e => e.proof.isYes || exemptLibSizeSites.any (fun r => r.is e.site)) = true := by
  decide +kernel

set_option maxRecDepth 100000 in
/-- of every reviewed obligation no more occurrences are without a proof than were reviewed, and every entry is in use -/
theorem lib_exempt_size_counts :
    exemptLibSizeSites.all (fun r => decide (unprovedLibSizeSites.countP (r.is ·) ≤ r.count) && unprovedLibSizeSites.any (r.is ·)) = true := by
  decide +kernel

/-- **lib_size_sites_nonneg.**  For every size obligation of lib/doc, lib/json, lib/value, lib/option, lib/file, lib/terminal,
    lib/syntax, lib/excmd, lib/cli, lib/action that is not reviewed: for ALL integer valuations of its variables that satisfy the
    facts dominating the site, the operand is in range — Go's run-time check cannot fail there. -/
theorem lib_size_sites_nonneg (e : SizeEntry) (he : e ∈ Gen.LibSize.sizeEntries)
    (hk : ∀ r ∈ exemptLibSizeSites, r.is e.site = false) (ρ : Nat → Int) (hconds : holdsAll ρ e.site.conds) :
    e.site.goal.holds ρ := by
  have h := List.all_eq_true.mp lib_size_sites_ok e he
  rw [Bool.or_eq_true] at h
  cases h with
  | inl hyes =>
    match e, hyes with
    | ⟨_, .yes hp⟩, _ => exact hp ρ hconds
  | inr hex =>
    rw [List.any_eq_true] at hex
    obtain ⟨r, hr, hrk⟩ := hex
    rw [hk r hr] at hrk
    exact absurd hrk (by decide)

set_option maxRecDepth 100000 in
/-- **report_title_padding_proved.**  The padding that centres the title of a report (lib/doc/writer.go, Writer.String:
    bytes.Repeat(" ", (hlLen − tw) / 2)) is found, is the only obligation with that text, and is PROVED — the guard
    `if tw < hlLen` is a fact at the site and, with the clamp of hlLen to the screen width as a disjunction, implies
    0 ≤ (hlLen − tw) / 2 for all valuations; it is not a reviewed entry. -/
theorem report_title_padding_proved :
    (Gen.LibSize.sizeEntries.filter (fun e => e.site.fn == "Writer.String" && e.site.kind == "repeat" && e.site.expr == "bytes.Repeat([]byte(\" \"), (hlLen - tw) / 2)")).length = 1 ∧
    Gen.LibSize.sizeEntries.all (fun e => !(e.site.fn == "Writer.String" && e.site.expr == "bytes.Repeat([]byte(\" \"), (hlLen - tw) / 2)") || e.proof.isYes) = true ∧
    exemptLibSizeSites.all (fun r => !(r.fn == "Writer.String" && r.expr == "bytes.Repeat([]byte(\" \"), (hlLen - tw) / 2)")) = true := by
  decide +kernel

/-! ## loops of the second group -/

def exemptLibLoopSites : List LoopRef := [
  ⟨"lib/action/run.go", "LaunchInteractiveShell", "for", 1, "U the interactive shell's read-eval loop: one round per line the user types, ends at EXIT, Ctrl+D (io.EOF) or cancellation — with standard input at its end ReadLine answers io.EOF (the harness runs it with an empty stdin)"⟩,
  ⟨"lib/doc/writer.go", "Writer.writeWithAutoLineBreak", "for wscanner.Scan()", 1, "I bufio.Scanner over the words of one line: every Scan consumes input or ends"⟩,
  ⟨"lib/doc/writer.go", "Writer.writeWithAutoLineBreak", "for scanner.Scan()", 1, "I bufio.Scanner over the lines of a string: every Scan consumes input or ends"⟩,
  ⟨"lib/excmd/args_splitter.go", "ArgsSplitter.Scan", "for unicode.IsSpace(s.peek())", 1, "I scanner: the body is s.next(); peek answers EOF at the end and EOF is not a space"⟩,
  ⟨"lib/excmd/args_splitter.go", "ArgsSplitter.scanQuotedVariable", "for", 1, "I scanner: every iteration consumes a rune with s.next() and leaves at EOF / the closing quote"⟩,
  ⟨"lib/excmd/args_splitter.go", "ArgsSplitter.scanQuotedString", "for", 1, "I scanner: every iteration consumes a rune with s.next() and leaves at EOF / the closing quote"⟩,
  ⟨"lib/excmd/args_splitter.go", "ArgsSplitter.scanString", "for", 1, "I scanner: every iteration consumes a rune with s.next() or leaves (peek is EOF / a space)"⟩,
  ⟨"lib/excmd/args_splitter.go", "ArgsSplitter.scanExternalCommand", "for", 1, "I scanner: every iteration consumes a rune with s.next() and leaves at EOF / the closing parenthesis"⟩,
  ⟨"lib/excmd/argument_scanner.go", "ArgumentScanner.scanQuotedEnvironmentVariable", "for", 1, "I scanner: every iteration consumes a rune with s.next() and leaves at EOF / the closing quote"⟩,
  ⟨"lib/excmd/argument_scanner.go", "ArgumentScanner.scanString", "for", 1, "I scanner: every iteration consumes a rune with s.next() (both branches) or leaves at a sign / EOF"⟩,
  ⟨"lib/excmd/argument_scanner.go", "ArgumentScanner.scanVariable", "for s.isVariableRune(s.peek())", 1, "I scanner: the body consumes a rune with s.next(); EOF is not a variable rune"⟩,
  ⟨"lib/excmd/argument_scanner.go", "ArgumentScanner.scanCsvqExpression", "for", 1, "I scanner: every iteration consumes a rune with s.next() and leaves at EOF / the closing brace"⟩,
  ⟨"lib/file/control_file.go", "CreateControlFileContext", "for", 1, "I retry loop of a lock / temporary file with a deadline: leaves on success, on another error, on ctx.Done() (the wait timeout) — C09's model of the retry loop (Csvq/Gen/RetryLoop.lean, retry_returns) is its proof; C19-m4 (wait timeout 0 = no deadline) is driven by the stale-control-file jobs"⟩,
  ⟨"lib/terminal/terminal.go", "Prompt.LoadConfig", "for scanner.Scan()", 2, "I excmd.ArgumentScanner over the prompt text: every Scan consumes at least one rune or ends"⟩
]

def unprovedLibLoopSites : List LoopSite := Gen.LibLoop.loopSites.filter (fun l => !l.proved Gen.LibLoop.loopEntries)

set_option maxRecDepth 100000 in
/-- **lib_loop_sites_ok.** -/
theorem lib_loop_sites_ok :
    Gen.LibLoop.loopSites.all (fun l => l.proved Gen.LibLoop.loopEntries || exemptLibLoopSites.any (fun r => r.is l)) = true := by
  decide +kernel

set_option maxRecDepth 100000 in
theorem lib_exempt_loop_counts :
    exemptLibLoopSites.all (fun r => decide (unprovedLibLoopSites.countP (r.is ·) ≤ r.count) && unprovedLibLoopSites.any (r.is ·)) = true := by
  decide +kernel

/-- **lib_loop_sites_terminate.**  Every non-range `for` loop of lib/action, lib/cli, lib/doc, lib/excmd, lib/file, lib/option,
    lib/syntax, lib/terminal that is not reviewed has no back edge, or a measure read off its exit conditions that is, for ALL
    valuations of one iteration, non-negative at the head and strictly smaller at every back edge. -/
theorem lib_loop_sites_terminate (l : LoopSite) (hl : l ∈ Gen.LibLoop.loopSites) (hk : ∀ r ∈ exemptLibLoopSites, r.is l = false) :
    l.terminates Gen.LibLoop.loopEntries := by
  have h := List.all_eq_true.mp lib_loop_sites_ok l hl
  rw [Bool.or_eq_true] at h
  cases h with
  | inl hp => exact LoopSite.proved_sound _ l hp
  | inr hex =>
    rw [List.any_eq_true] at hex
    obtain ⟨r, hr, hrk⟩ := hex
    rw [hk r hr] at hrk
    exact absurd hrk (by decide)

/-- **lib_conv_sites_ok.**  No float → integer / narrowing conversion of the second group that reaches a size or loop obligation
    is unguarded (at the pinned tree there is none that reaches one: a new one must be proved). -/
theorem lib_conv_sites_ok :
    Gen.LibIntConv.convEntries.all (fun e => e.proof.isYes) = true := by
  decide +kernel

/-! ## non-vacuity: the title of a report -/

/-- Writer.String as it stands (variables: 0 tw, 1 hlLen before the clamp, 2 MaxWidth, 3 hlLen, 4 the quotient (hlLen − tw) / 2) -/
def titleGuarded : SizeSite := ⟨"", "", "repeat", "bytes.Repeat([]byte(\" \"), (hlLen - tw) / 2)", "count", 5,
  [.le (.add (.v 0) (.c 2)) (.v 1),
   .or (.and (.lt (.v 2) (.v 1)) (.eq (.v 3) (.v 2))) (.and (.le (.v 1) (.v 2)) (.eq (.v 3) (.v 1))),
   .lt (.v 0) (.v 3),
   .or (.and (.le (.c 0) (.sub (.v 3) (.v 0))) (.and (.le (.mul 2 (.v 4)) (.sub (.v 3) (.v 0))) (.lt (.sub (.v 3) (.v 0)) (.add (.mul 2 (.v 4)) (.c 2)))))
       (.and (.lt (.sub (.v 3) (.v 0)) (.c 0)) (.and (.le (.sub (.v 3) (.v 0)) (.mul 2 (.v 4))) (.lt (.sub (.mul 2 (.v 4)) (.c 2)) (.sub (.v 3) (.v 0)))))],
  .le (.c 0) (.v 4)⟩

/-- the guard `if tw < hlLen` taken away (the shape of C19-m23) -/
def titleUnguarded : SizeSite := ⟨"", "", "repeat", "bytes.Repeat([]byte(\" \"), (hlLen - tw) / 2)", "count", 5,
  [.le (.add (.v 0) (.c 2)) (.v 1),
   .or (.and (.lt (.v 2) (.v 1)) (.eq (.v 3) (.v 2))) (.and (.le (.v 1) (.v 2)) (.eq (.v 3) (.v 1))),
   .or (.and (.le (.c 0) (.sub (.v 3) (.v 0))) (.and (.le (.mul 2 (.v 4)) (.sub (.v 3) (.v 0))) (.lt (.sub (.v 3) (.v 0)) (.add (.mul 2 (.v 4)) (.c 2)))))
       (.and (.lt (.sub (.v 3) (.v 0)) (.c 0)) (.and (.le (.sub (.v 3) (.v 0)) (.mul 2 (.v 4))) (.lt (.sub (.mul 2 (.v 4)) (.c 2)) (.sub (.v 3) (.v 0)))))],
  .le (.c 0) (.v 4)⟩

example : (by size_decide titleGuarded : Proved titleGuarded.safe).isYes = true := rfl
example : (by size_decide titleUnguarded : Proved titleUnguarded.safe).isYes = false := rfl
/-- a title of 2 columns on a screen of 0 columns (in general: MaxWidth + 2 ≤ tw): hlLen = 0, the count is (0 − 2) / 2 = −1 -/
example : titleUnguarded.violatedBy [2, 4, 0, 0, -1] = true := by decide
example : ¬ titleUnguarded.safe := titleUnguarded.violatedBy_sound [2, 4, 0, 0, -1] (by decide)
/-- a title ONE column wider than the screen is harmless even without the guard: −1 / 2 truncates to 0 -/
example : titleUnguarded.violatedBy [1, 3, 0, 0, 0] = false := by decide
example : (titleUnguarded.counterexample).isSome = true := by decide +kernel
/-- a sink parameter: the argument of WriteSpaces at the caller, unguarded and guarded -/
def spacesBare : SizeSite := ⟨"", "", "call", "w.WriteSpaces(27 - len(symbol))", "arg0", 1, [.le (.c 0) (.v 0)], .le (.c 0) (.sub (.c 27) (.v 0))⟩
def spacesClamped : SizeSite := ⟨"", "", "call", "w.WriteSpaces(spaces)", "arg0", 3,
  [.le (.c 0) (.v 0), .eq (.v 1) (.sub (.c 9) (.v 0)), .or (.eq (.v 2) (.c 2)) (.and (.le (.c 2) (.v 1)) (.eq (.v 2) (.v 1)))], .le (.c 0) (.v 2)⟩
example : (by size_decide spacesBare : Proved spacesBare.safe).isYes = false := rfl
example : (by size_decide spacesClamped : Proved spacesClamped.safe).isYes = true := rfl
/-- the theorems are about non-empty sets -/
example : (Gen.LibSize.sizeEntries.filter (·.proof.isYes)).length ≥ 50 := by decide +kernel
example : (Gen.LibLoop.loopSites.filter (·.proved Gen.LibLoop.loopEntries)).length ≥ 6 := by decide +kernel

end Csvq.C19
