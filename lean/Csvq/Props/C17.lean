/-
  C17 — analytic functions equal their per-partition, per-frame definition.
  Property theorems only.  Code: lib/query/analytic_function.go, lib/query/view.go (evalAnalyticFunction).
  Model and specification: Csvq/Model/Analytic.lean; lemmas: Csvq/Lemmas/Analytic.lean.

  Reading the statements: a partition `p` is the list of its records in the order of the (sorted) view;
  `perRow f [] p` applies the definition `f pre x post` to every record `x` of `p`, `pre` / `post` being
  the records before / after it.  Every theorem holds for ALL partitions, cell contents, frames, offsets.

  Three defects found by this check have been repaired in /repo (LAST_VALUE read the frame mirrored
  around the current row — pre-finding F14; NTH_VALUE returned the last visited cell when the frame
  was too short; an aggregate over an inverted frame panicked in windowValues).  The full statements
  `last_value_spec`, `nth_value_spec`, `agg_over_spec` now hold for the code that exists
  (`repoState`); the characterisations of the earlier code (`last_value_mirrored`, `nth_value_code`,
  `agg_over_partial`) and its counterexamples are kept as the record of the defects, and the harness
  laws analytic:last_value_frame_mirrored / nth_value_short_frame / inverted_frame_fatal /
  count_star_over_rejected guard against their return.
  LEAD has no windowing clause in the grammar (parser.y: FUNCTION_WITH_INS … analytic_clause), so the
  reversal it shares with LAST_VALUE is harmless: `lead_spec` holds in full.
-/
import Csvq.Lemmas.Analytic
import Csvq.Gen.AnalyticFacts
namespace Csvq.C17
open Csvq Csvq.Analytic

/-! ## partitions -/

section partitions
variable {κ : Type} [DecidableEq κ]

/-- the partitions are: one per distinct key, in order of first occurrence, holding exactly the
    records of that key in record order -/
theorem partition_spec (keys : List κ) : partitionsOf keys = groupSpec keys.zipIdx :=
  partitionsOf_eq_spec keys

/-- a record belongs to the partition of key `k` iff `k` is its key: two records share a partition
    iff their PARTITION BY keys are equal -/
theorem same_partition_iff (keys : List κ) (part : κ × List Nat) (h : part ∈ partitionsOf keys) (i : Nat) :
    i ∈ part.2 ↔ keys[i]? = some part.1 := by
  obtain ⟨_, h2⟩ := (mem_partitionsOf keys part).mp h
  rw [h2]; exact mem_members_zipIdx keys part.1 i

/-- the partitions tile the records: every record lies in exactly one partition -/
theorem partitions_tile (keys : List κ) (i : Nat) (hi : i < keys.length) :
    ∃ part, part ∈ partitionsOf keys ∧ i ∈ part.2 ∧ ∀ part', part' ∈ partitionsOf keys → i ∈ part'.2 → part' = part := by
  have hk : keys[i]? = some keys[i] := List.getElem?_eq_getElem hi
  refine ⟨(keys[i], members keys[i] keys.zipIdx), ?_, ?_, ?_⟩
  · exact (mem_partitionsOf keys _).mpr ⟨List.getElem_mem hi, rfl⟩
  · exact (mem_members_zipIdx keys _ i).mpr hk
  · intro part' hp hip
    have := (same_partition_iff keys part' hp i).mp hip
    rw [hk] at this; injection this with this
    obtain ⟨_, h2⟩ := (mem_partitionsOf keys part').mp hp
    cases part' with
    | mk a b => simp only at this h2 ⊢; subst this; rw [h2]

/-- no key heads two partitions -/
theorem partition_keys_nodup (keys : List κ) : ((partitionsOf keys).map Prod.fst).Nodup := by
  rw [partition_spec]; unfold groupSpec
  simp only [List.map_map, Function.comp_def, List.map_id']
  exact firstOcc_nodup _

/-- inside a partition the records keep the order of the (sorted) view -/
theorem partition_in_view_order (keys : List κ) (part : κ × List Nat) (h : part ∈ partitionsOf keys) :
    part.2.Pairwise (· < ·) := by
  obtain ⟨_, h2⟩ := (mem_partitionsOf keys part).mp h
  rw [h2]; exact members_sorted keys part.1

end partitions

/-! ## ROW_NUMBER, RANK, DENSE_RANK, CUME_DIST, PERCENT_RANK -/

/-- ROW_NUMBER: one more than the number of rows before the current row -/
theorem row_number_spec (p : List Nat) : rowNumber p = perRow rowNumberSpec [] p := by
  have := rowNumberLoop_spec p []
  simpa [rowNumber] using this

/-- RANK: one more than the number of preceding rows that are no peers of the current row -/
theorem rank_spec (eqv : Nat → Nat → Bool) (p : List Nat) (P : Peers eqv p) :
    rank eqv p = perRow (rankSpec eqv) [] p := rank_eq_spec eqv P

/-- DENSE_RANK: the number of distinct peer classes up to and including the current row -/
theorem dense_rank_spec (eqv : Nat → Nat → Bool) (p : List Nat) (P : Peers eqv p) :
    denseRank eqv p = perRow (denseRankSpec eqv) [] p := denseRank_eq_spec eqv P

/-- CUME_DIST: (rows before the current row + the current row + its later peers) / (rows), exactly -/
theorem cume_dist_spec (eqv : Nat → Nat → Bool) (p : List Nat) (P : Peers eqv p) :
    cumeDist eqv p = perRow (cumeDistSpec eqv) [] p := cumeDist_eq_spec eqv P

/-- PERCENT_RANK: (rank − 1) / (rows − 1), exactly (1 for a single-row partition: csvq's convention) -/
theorem percent_rank_spec (eqv : Nat → Nat → Bool) (p : List Nat) (P : Peers eqv p) :
    percentRank eqv p = perRow (percentRankSpec eqv) [] p := percentRank_eq_spec eqv P

/-- without ORDER BY the code treats no two rows as peers; the hypotheses then hold trivially … -/
theorem peers_without_order (p : List Nat) : Peers (fun _ _ => false) p :=
  ⟨by simp, by simp, by simp⟩

/-- … and RANK degenerates to ROW_NUMBER -/
theorem rank_without_order (p : List Nat) :
    rank (fun _ _ => false) p = perRow rowNumberSpec [] p := by
  rw [rank_spec _ p (peers_without_order p)]
  apply perRow_congr
  intro a x b _
  have : (a.filter fun j => !false) = a := List.filter_eq_self.mpr (by simp)
  simp only [rankSpec, rowNumberSpec, List.nil_append, this]; omega

/-- a partition sorted by a key whose equality is the ORDER BY equivalence satisfies the hypotheses
    (so they are satisfiable by every sorted partition, whatever its length) -/
theorem peers_of_sorted_key (key : Nat → Nat) (p : List Nat) (hs : p.Pairwise (fun a b => key a ≤ key b)) :
    Peers (fun a b => key a == key b) p := by
  refine ⟨?_, ?_, ?_⟩
  · intro a b h; simp only [beq_iff_eq] at h ⊢; exact h.symm
  · intro a b c h1 h2; simp only [beq_iff_eq] at h1 h2 ⊢; exact h1.trans h2
  · intro y z x hsub h
    simp only [beq_iff_eq] at h ⊢
    have hp := List.Pairwise.sublist hsub hs
    simp only [List.pairwise_cons, List.mem_cons, List.not_mem_nil, or_false, forall_eq_or_imp, forall_eq,
      List.Pairwise.nil, and_true] at hp
    omega

/-- more generally: a partition sorted by ANY strict weak order `lt` (the ORDER BY comparison), with
    "neither sorts before the other" as the peer relation, satisfies the hypotheses -/
theorem peers_of_sorted (lt eqv : Nat → Nat → Bool) (p : List Nat)
    (hneg : ∀ a b c, lt a c = true → lt a b = true ∨ lt b c = true)
    (heqv : ∀ a b, eqv a b = (!lt a b && !lt b a))
    (hs : p.Pairwise (fun a b => lt b a = false)) : Peers eqv p := by
  refine ⟨?_, ?_, ?_⟩
  · intro a b h; rw [heqv] at h ⊢; simp only [Bool.and_eq_true, Bool.not_eq_eq_eq_not, Bool.not_true] at h ⊢; exact ⟨h.2, h.1⟩
  · intro a b c h1 h2
    rw [heqv] at h1 h2 ⊢
    simp only [Bool.and_eq_true, Bool.not_eq_eq_eq_not, Bool.not_true] at h1 h2 ⊢
    constructor
    · cases h : lt a c with
      | false => rfl
      | true => rcases hneg a b c h with h' | h' <;> simp_all
    · cases h : lt c a with
      | false => rfl
      | true => rcases hneg c b a h with h' | h' <;> simp_all
  · intro y z x hsub h
    have hp := List.Pairwise.sublist hsub hs
    simp only [List.pairwise_cons, List.mem_cons, List.not_mem_nil, or_false, forall_eq_or_imp, forall_eq,
      List.Pairwise.nil, and_true] at hp
    rw [heqv] at h ⊢
    simp only [Bool.and_eq_true, Bool.not_eq_eq_eq_not, Bool.not_true] at h ⊢
    refine ⟨?_, hp.1.1⟩
    cases hyz : lt y z with
    | false => rfl
    | true => rcases hneg y x z hyz with h' | h' <;> simp_all

/-- the textbook form of RANK on a sorted partition: one more than the number of rows of the
    partition that sort strictly before the current row -/
theorem rank_textbook (lt eqv : Nat → Nat → Bool) (pre : List Nat) (x : Nat) (post : List Nat)
    (hirr : lt x x = false) (heqv : ∀ a b, eqv a b = (!lt a b && !lt b a))
    (hs : (pre ++ x :: post).Pairwise (fun a b => lt b a = false)) :
    rankSpec eqv pre x post = 1 + ((pre ++ x :: post).filter fun j => lt j x).length := by
  obtain ⟨_, hxpost, hcross⟩ := List.pairwise_append.mp hs
  have hpre : ∀ j ∈ pre, lt x j = false := fun j hj => hcross j hj x (by simp)
  have hpost : ∀ j ∈ post, lt j x = false := fun j hj => (List.pairwise_cons.mp hxpost).1 j hj
  unfold rankSpec
  rw [List.filter_append, List.filter_cons, hirr]
  simp only [Bool.false_eq_true, if_false, List.length_append]
  rw [filter_length_none _ post hpost]
  congr 2
  apply List.filter_congr
  intro j hj
  rw [heqv, hpre j hj]; simp

/-- the textbook form of CUME_DIST: (rows that do not sort after the current row) / (rows) -/
theorem cume_dist_textbook (lt eqv : Nat → Nat → Bool) (pre : List Nat) (x : Nat) (post : List Nat)
    (hirr : lt x x = false) (heqv : ∀ a b, eqv a b = (!lt a b && !lt b a))
    (hs : (pre ++ x :: post).Pairwise (fun a b => lt b a = false)) :
    cumeDistSpec eqv pre x post
      = (((pre ++ x :: post).filter fun j => !lt x j).length, (pre ++ x :: post).length) := by
  obtain ⟨_, hxpost, hcross⟩ := List.pairwise_append.mp hs
  have hpre : ∀ j ∈ pre, lt x j = false := fun j hj => hcross j hj x (by simp)
  have hpost : ∀ j ∈ post, lt j x = false := fun j hj => (List.pairwise_cons.mp hxpost).1 j hj
  unfold cumeDistSpec
  rw [List.filter_append, List.filter_cons, hirr]
  simp only [Bool.not_false, if_true, List.length_append, List.length_cons]
  rw [filter_length_all _ pre (fun j hj => by simp [hpre j hj])]
  have : (post.filter fun j => eqv j x) = post.filter fun j => !lt x j := by
    apply List.filter_congr
    intro j hj
    rw [heqv, hpost j hj]; simp
  rw [this]
  congr 1 <;> omega

/-! ## NTILE -/

/-- NTILE(n), 1 ≤ n: every row gets a bucket; the row at (0-based) position `j` gets bucket `b + 1`
    where `tileStart q r b ≤ j < tileStart q r (b + 1)`, i.e. buckets are filled consecutively, bucket
    `b` holding `q + 1` rows if `b < r` and `q` rows otherwise (`q = len / n`, `r = len % n`; one row
    per bucket when `len < n`); the bucket number lies in 1 … n -/
theorem ntile_spec (n : Int) (hn : 1 ≤ n) (p : List Nat) :
    ∃ out, ntile n p = some out ∧ out.map Prod.fst = p ∧
      ∀ (j : Nat) (e : Nat × Nat), out[j]? = some e →
        ∃ b, e.2 = b + 1 ∧ b + 1 ≤ n.toNat ∧
          tileStart (ntileParams p.length n.toNat).1 (ntileParams p.length n.toNat).2 b ≤ j ∧
          j < tileStart (ntileParams p.length n.toNat).1 (ntileParams p.length n.toNat).2 (b + 1) := by
  have hn' : ¬ n < 1 := by omega
  refine ⟨ntileLoop (ntileParams p.length n.toNat).1 p 1 0 (ntileParams p.length n.toNat).2,
    by simp only [ntile, hn', if_false], ntileLoop_map_fst _ p 1 0 _, ?_⟩
  intro j e he
  have hq := ntileParams_pos p.length n.toNat
  have hinv : NtileInv (ntileParams p.length n.toNat).1 (ntileParams p.length n.toNat).2 0 1 0
      (ntileParams p.length n.toNat).2 := ⟨0, rfl, by simp [tileStart], Or.inl ⟨by omega, by omega⟩⟩
  obtain ⟨b, h1, h2, h3⟩ := ntileLoop_spec _ _ hq p 0 1 0 _ hinv j e he
  refine ⟨b, h1, ?_, by simpa using h2, by simpa using h3⟩
  -- the bucket number does not exceed n: bucket n would start at or after the end of the partition
  have hj : j < p.length := by
    have hl : (ntileLoop (ntileParams p.length n.toNat).1 p 1 0 (ntileParams p.length n.toNat).2).length = p.length := by
      have := congrArg List.length (ntileLoop_map_fst (ntileParams p.length n.toNat).1 p 1 0 (ntileParams p.length n.toNat).2)
      simpa using this
    rcases Nat.lt_or_ge j p.length with h | h
    · exact h
    · rw [List.getElem?_eq_none (by omega)] at he; exact absurd he (by simp)
  have htot := tileStart_total p.length n.toNat (by omega)
  rcases Nat.lt_or_ge b n.toNat with h | h
  · omega
  · have := tileStart_mono (ntileParams p.length n.toNat).1 (ntileParams p.length n.toNat).2 h
    simp only [Nat.zero_add] at h2
    omega

/-- bucket sizes: `q + 1` for the first `r` buckets, `q` afterwards — they differ by at most one, the
    larger ones come first -/
theorem ntile_bucket_sizes (q r b : Nat) :
    tileStart q r (b + 1) - tileStart q r b = q + (if b < r then 1 else 0) := by
  rw [tileStart_succ]; omega

/-- a row's bucket is determined by its position -/
theorem ntile_bucket_unique (q r : Nat) (j b b' : Nat)
    (h1 : tileStart q r b ≤ j) (h2 : j < tileStart q r (b + 1))
    (h1' : tileStart q r b' ≤ j) (h2' : j < tileStart q r (b' + 1)) : b = b' := by
  rcases Nat.lt_trichotomy b b' with h | h | h
  · have := tileStart_mono q r (show b + 1 ≤ b' by omega); omega
  · exact h
  · have := tileStart_mono q r (show b' + 1 ≤ b by omega); omega

/-- NTILE rejects n < 1 -/
theorem ntile_invalid (n : Int) (hn : n < 1) (p : List Nat) : ntile n p = none := by
  simp [ntile, hn]

/-! ## FIRST_VALUE / LAST_VALUE / NTH_VALUE -/

/-- the i-th record a frame loop visits is the record at position `max lo 0 + i`, as long as that
    position does not exceed `hi` (nor the partition): the frame is `[lo, hi] ∩ [0, len)`, in order -/
theorem frame_records_spec (p : List Nat) (lo hi : Int) (i : Nat) :
    (frameRecords p lo hi)[i]? = if lo.toNat + i < (hi + 1).toNat then p[lo.toNat + i]? else none := by
  unfold frameRecords
  rw [List.getElem?_drop, List.getElem?_take]

/-- FIRST_VALUE (with or without IGNORE NULLS, every frame): the first counted cell of the row's frame,
    NULL if there is none -/
theorem first_value_spec (cells : Nat → Val) (ign : Bool) (w : Window) (p : List Nat) :
    firstValue cells ign w p = perRow (firstValueSpec cells ign w) [] p := by
  unfold firstValue setNthValue
  rw [frames_spec (fun _ rows => scanNth cells ign 1 rows .null 0) w p]
  apply perRow_congr
  intro a x b _
  exact scanNth_first cells ign _

/-
  FULL STATEMENT, false for the code before the repair (F14) — now `last_value_spec` below:

  theorem last_value_spec (cells) (ign) (w) (p) (hp : p.Pairwise (· < ·)) :
      lastValue cells ign w p = (perRow (lastValueSpec cells ign w) [] p).reverse
-/

/-- what LAST_VALUE computed before the repair, for every input: the last counted cell of the MIRRORED frame
    (`ROWS BETWEEN a PRECEDING AND b FOLLOWING` is read as `BETWEEN b PRECEDING AND a FOLLOWING`; the
    default frame of an ORDER BY without windowing clause as `CURRENT ROW … UNBOUNDED FOLLOWING`).
    (The records come out in reversed order; Analyze stores them by record index.) -/
theorem last_value_mirrored (cells : Nat → Val) (ign : Bool) (w : Window) (p : List Nat) (hp : p.Pairwise (· < ·)) :
    lastValue cells ign w p = (perRow (lastValueSpec cells ign (mirror w)) [] p).reverse := by
  unfold lastValue
  rw [sortDesc_eq_reverse p hp]
  have h1 := first_value_spec cells ign w p.reverse
  unfold firstValue at h1
  rw [h1, perRow_reverse]
  congr 1
  apply perRow_congr
  intro a x b _
  exact firstValueSpec_reverse cells ign w a x b

/-- the frames that are their own mirror image: there LAST_VALUE is right -/
theorem last_value_partial (cells : Nat → Val) (ign : Bool) (w : Window) (p : List Nat) (hp : p.Pairwise (· < ·))
    (hw : mirror w = w) :
    lastValue cells ign w p = (perRow (lastValueSpec cells ign w) [] p).reverse := by
  rw [last_value_mirrored cells ign w p hp, hw]

/-- … which covers: no ORDER BY, `UNBOUNDED PRECEDING … UNBOUNDED FOLLOWING`, `n PRECEDING … n FOLLOWING`,
    `CURRENT ROW … CURRENT ROW` -/
theorem symmetric_frames (n : Nat) :
    mirror .noOrder = .noOrder ∧
    mirror (.between .unboundedPreceding .unboundedFollowing) = .between .unboundedPreceding .unboundedFollowing ∧
    mirror (.between (.preceding n) (.following n)) = .between (.preceding n) (.following n) ∧
    mirror (.between .currentRow .currentRow) = .between .currentRow .currentRow := by
  simp [mirror, flipBound]

def exCells : Nat → Val := fun i => .int i

/-- `LAST_VALUE(x) OVER (ORDER BY k ROWS BETWEEN 1 PRECEDING AND CURRENT ROW)` on four rows with
    x = 0, 1, 2, 3 must return 0, 1, 2, 3; the code returns the NEXT row's x: 1, 2, 3, 3 -/
theorem last_value_counterexample :
    lastValue exCells false (.between (.preceding 1) .currentRow) [0, 1, 2, 3]
      = [(3, .int 3), (2, .int 3), (1, .int 2), (0, .int 1)] ∧
    (perRow (lastValueSpec exCells false (.between (.preceding 1) .currentRow)) [] [0, 1, 2, 3]).reverse
      = [(3, .int 3), (2, .int 2), (1, .int 1), (0, .int 0)] := by
  constructor <;> decide

/-- the same with the default frame of `ORDER BY k`: every row gets the partition's last x -/
theorem last_value_default_frame_counterexample :
    lastValue exCells false .orderOnly [0, 1, 2] = [(2, .int 2), (1, .int 2), (0, .int 2)] ∧
    (perRow (lastValueSpec exCells false .orderOnly) [] [0, 1, 2]).reverse = [(2, .int 2), (1, .int 1), (0, .int 0)] := by
  constructor <;> decide

/-
  FULL STATEMENT, false for the code before the repair — now `nth_value_spec` below:

  theorem nth_value_spec (cells) (ign) (n : Int) (hn : 1 ≤ n) (w) (p) :
      nthValue cells ign n w p = some (perRow (nthValueSpec cells ign n.toNat w) [] p)
-/

/-- what NTH_VALUE computed before the repair, for every input: the n-th counted cell of the frame if there is one,
    otherwise the LAST VISITED cell of the frame (counted or not) instead of NULL -/
theorem nth_value_code (cells : Nat → Val) (ign : Bool) (n : Int) (hn : 1 ≤ n) (w : Window) (p : List Nat) :
    nthValue cells ign n w p = some (perRow (fun pre x post =>
      ((keptCells cells ign (frameRows w pre x post))[n.toNat - 1]?).getD
        ((((frameRows w pre x post).map cells).getLast?).getD .null)) [] p) := by
  have hn' : ¬ n < 1 := by omega
  simp only [nthValue, hn', if_false, setNthValue]
  rw [frames_spec (fun _ rows => scanNth cells ign n.toNat rows .null 0) w p]
  congr 1
  apply perRow_congr
  intro a x b _
  have := scanNth_spec cells ign n.toNat (frameRows w a x b) .null 0 (by omega)
  simpa using this

/-- NTH_VALUE is right on every partition all of whose frames hold at least n counted cells -/
theorem nth_value_partial (cells : Nat → Val) (ign : Bool) (n : Int) (hn : 1 ≤ n) (w : Window) (p : List Nat)
    (henough : ∀ a x b, p = a ++ x :: b → n.toNat ≤ (keptCells cells ign (frameRows w a x b)).length) :
    nthValue cells ign n w p = some (perRow (nthValueSpec cells ign n.toNat w) [] p) := by
  have hn' : ¬ n < 1 := by omega
  simp only [nthValue, hn', if_false, setNthValue]
  rw [frames_spec (fun _ rows => scanNth cells ign n.toNat rows .null 0) w p]
  congr 1
  apply perRow_congr
  intro a x b e
  exact scanNth_enough cells ign n.toNat _ (by omega) (henough a x b (by simpa using e))

/-- and NTH_VALUE(x, 1) is FIRST_VALUE(x), in full -/
theorem nth_value_one (cells : Nat → Val) (ign : Bool) (w : Window) (p : List Nat) :
    nthValue cells ign 1 w p = some (perRow (nthValueSpec cells ign 1 w) [] p) := by
  have := first_value_spec cells ign w p
  unfold firstValue at this
  simp only [nthValue, show ¬ ((1 : Int) < 1) by omega, if_false, Int.toNat_one, this]
  congr 1
  apply perRow_congr
  intro a x b _
  simp [firstValueSpec, nthValueSpec, List.head?_eq_getElem?]

/-- `NTH_VALUE(x, 3) OVER (ORDER BY k ROWS BETWEEN 1 PRECEDING AND CURRENT ROW)`: no frame has three
    rows, the answer must be NULL everywhere; the code returns the current row's x -/
theorem nth_value_counterexample :
    nthValue exCells false 3 (.between (.preceding 1) .currentRow) [0, 1, 2]
      = some [(0, .int 0), (1, .int 1), (2, .int 2)] ∧
    perRow (nthValueSpec exCells false 3 (.between (.preceding 1) .currentRow)) [] [0, 1, 2]
      = [(0, .null), (1, .null), (2, .null)] := by
  constructor <;> decide

/-- NTH_VALUE rejects n < 1 -/
theorem nth_value_invalid (cells : Nat → Val) (ign : Bool) (n : Int) (hn : n < 1) (w : Window) (p : List Nat) :
    nthValue cells ign n w p = none := by
  simp [nthValue, hn]

/-! the repaired variants (Model: `lastValueFixed`, `nthValueFixed`) meet the full statements -/

theorem last_value_fixed_spec (cells : Nat → Val) (ign : Bool) (w : Window) (p : List Nat) :
    lastValueFixed cells ign w p = perRow (lastValueSpec cells ign w) [] p := by
  unfold lastValueFixed
  rw [frames_spec (fun _ rows => scanNth cells ign 1 rows.reverse .null 0) w p]
  apply perRow_congr
  intro a x b _
  rw [scanNth_first, keptCells_reverse, List.head?_reverse]
  rfl

theorem nth_value_fixed_spec (cells : Nat → Val) (ign : Bool) (n : Int) (hn : 1 ≤ n) (w : Window) (p : List Nat) :
    nthValueFixed cells ign n w p = some (perRow (nthValueSpec cells ign n.toNat w) [] p) := by
  have hn' : ¬ n < 1 := by omega
  simp only [nthValueFixed, hn', if_false]
  rw [frames_spec (fun _ rows => scanNthFixed cells ign n.toNat rows 0) w p]
  congr 1
  apply perRow_congr
  intro a x b _
  have := scanNthFixed_spec cells ign n.toNat (frameRows w a x b) 0 (by omega)
  simpa [nthValueSpec] using this

/-- LAST_VALUE (with or without IGNORE NULLS, every frame), the code that exists: the last counted cell
    of the row's own frame, NULL if there is none -/
theorem last_value_spec (cells : Nat → Val) (ign : Bool) (w : Window) (p : List Nat) :
    lastValueAt repoState cells ign w p = perRow (lastValueSpec cells ign w) [] p := by
  simp only [lastValueAt, repoState, Bool.false_eq_true, if_false]
  exact last_value_fixed_spec cells ign w p

/-- NTH_VALUE(expr, n), 1 ≤ n, the code that exists: the n-th counted cell of the row's frame, NULL if
    the frame holds fewer -/
theorem nth_value_spec (cells : Nat → Val) (ign : Bool) (n : Int) (hn : 1 ≤ n) (w : Window) (p : List Nat) :
    nthValueAt repoState cells ign n w p = some (perRow (nthValueSpec cells ign n.toNat w) [] p) := by
  simp only [nthValueAt, repoState, Bool.false_eq_true, if_false]
  exact nth_value_fixed_spec cells ign n hn w p

/-! ## LAG / LEAD -/

/-- LAG(expr, offset, default) [IGNORE NULLS]: the cell `offset` rows back — further back past NULL
    cells under IGNORE NULLS — or `default` -/
theorem lag_spec (cells : Nat → Val) (ign : Bool) (dflt : Val) (offset : Int) (p : List Nat) :
    lag cells ign dflt offset p = perRow (lagSpec cells ign dflt offset) [] p := by
  have := lagLoop_spec cells ign dflt offset p []
  simpa [lag] using this

/-- LEAD: the same towards the end of the partition (records come out in reversed order) -/
theorem lead_spec (cells : Nat → Val) (ign : Bool) (dflt : Val) (offset : Int) (p : List Nat) (hp : p.Pairwise (· < ·)) :
    lead cells ign dflt offset p = (perRow (leadSpec cells ign dflt offset) [] p).reverse := by
  unfold lead
  rw [sortDesc_eq_reverse p hp]
  have := lagLoop_spec cells ign dflt offset p.reverse []
  simp only [List.map_nil, List.reverse_nil] at this
  rw [this, perRow_reverse]
  congr 1
  apply perRow_congr
  intro a x b _
  simp [lagSpec, leadSpec]

/-- without IGNORE NULLS, LAG is the plain "cell `offset` rows before the current row, else default" -/
theorem lag_plain (cells : Nat → Val) (dflt : Val) (offset : Nat) (pre : List Nat) (x : Nat) (post : List Nat) :
    lagSpec cells false dflt offset pre x post = ((((pre ++ [x]).map cells).reverse)[offset]?).getD dflt := by
  unfold lagSpec
  simp only [show ¬ ((offset : Int) < 0) by omega, if_false, Int.toNat_natCast]
  generalize ((pre ++ [x]).map cells).reverse = l
  cases h : l.drop offset with
  | nil =>
    have : l.length ≤ offset := List.drop_eq_nil_iff.mp h
    simp [List.getElem?_eq_none this]
  | cons v vs =>
    have : l[offset]? = some v := by
      have := congrArg (fun t => t[0]?) h
      simpa using this
    simp [this, keepV]

/-- and LEAD the cell `offset` rows after it -/
theorem lead_plain (cells : Nat → Val) (dflt : Val) (offset : Nat) (pre : List Nat) (x : Nat) (post : List Nat) :
    leadSpec cells false dflt offset pre x post = (((x :: post).map cells)[offset]?).getD dflt := by
  unfold leadSpec
  simp only [show ¬ ((offset : Int) < 0) by omega, if_false, Int.toNat_natCast]
  generalize (x :: post).map cells = l
  cases h : l.drop offset with
  | nil =>
    have : l.length ≤ offset := List.drop_eq_nil_iff.mp h
    simp [List.getElem?_eq_none this]
  | cons v vs =>
    have : l[offset]? = some v := by
      have := congrArg (fun t => t[0]?) h
      simpa using this
    simp [this, keepV]

/-! ## aggregates and user-defined aggregates with OVER -/

/-
  FULL STATEMENT, false for the code before the repair — now `agg_over_spec` below:

  theorem agg_over_spec (cells) (agg) (w) (p) :
      aggOver cells agg w p = some (perRow (aggSpec cells agg w) [] p)
-/

/-- on every partition none of whose frames is inverted (end more than one position before the start)
    the aggregate of every row receives exactly the cells of the row's frame, in partition order -/
theorem agg_over_partial {β : Type} (cells : Nat → Val) (agg : Nat → List Val → β) (w : Window) (p : List Nat)
    (hw : NoInvertedFrame w p.length) :
    aggOver cells agg w p = some (perRow (aggSpec cells agg w) [] p) := by
  unfold aggOver
  rw [aggFrames_some cells agg p _ (frames_not_inverted w p hw)]
  congr 1
  exact frames_spec (fun idx rows => agg idx (rows.map cells)) w p

/-- the repaired aggregate branch meets the full statement -/
theorem agg_over_fixed_spec {β : Type} (cells : Nat → Val) (agg : Nat → List Val → β) (w : Window) (p : List Nat) :
    aggOverFixed cells agg w p = some (perRow (aggSpec cells agg w) [] p) := by
  unfold aggOverFixed
  congr 1
  exact frames_spec (fun idx rows => agg idx (rows.map cells)) w p

/-- aggregates and user-defined aggregates OVER, the code that exists, every frame (empty and inverted
    ones included): the aggregate of every row receives exactly the cells of the row's frame, in
    partition order -/
theorem agg_over_spec {β : Type} (cells : Nat → Val) (agg : Nat → List Val → β) (w : Window) (p : List Nat) :
    aggOverAt repoState cells agg w p = some (perRow (aggSpec cells agg w) [] p) := by
  simp only [aggOverAt, repoState, Bool.false_eq_true, if_false]
  exact agg_over_fixed_spec cells agg w p

/-- the frames that can never be inverted: everything except `BETWEEN x FOLLOWING AND y PRECEDING`-like
    clauses — in particular the default frame, `ROWS n PRECEDING`, and `BETWEEN a PRECEDING AND b FOLLOWING` -/
theorem usual_frames_not_inverted (len a b : Nat) :
    NoInvertedFrame .noOrder len ∧ NoInvertedFrame .orderOnly len ∧
    NoInvertedFrame (.rows (.preceding a)) len ∧ NoInvertedFrame (.rows .unboundedPreceding) len ∧
    NoInvertedFrame (.rows .currentRow) len ∧
    NoInvertedFrame (.between (.preceding a) (.following b)) len ∧
    NoInvertedFrame (.between .unboundedPreceding .currentRow) len ∧
    NoInvertedFrame (.between .currentRow .unboundedFollowing) len ∧
    NoInvertedFrame (.between .unboundedPreceding .unboundedFollowing) len := by
  refine ⟨?_, ?_, ?_, ?_, ?_, ?_, ?_, ?_, ?_⟩ <;> intro k hk <;> simp [frameBounds, frameIndex] <;> omega

/-- before the repair `COUNT(x) OVER (ORDER BY k ROWS BETWEEN CURRENT ROW AND 3 PRECEDING)` — a frame that is
    merely EMPTY — made windowValues panic (Fatal Error) instead of aggregating no cells (at the time, with the
    unclamped frame positions, so did `BETWEEN 2 FOLLOWING AND UNBOUNDED FOLLOWING` on the last rows) -/
theorem agg_over_counterexample :
    aggOver exCells (fun _ vs => vs.length) (.between .currentRow (.preceding 3)) [0, 1, 2] = none ∧
    perRow (aggSpec exCells (fun _ vs => vs.length) (.between .currentRow (.preceding 3))) [] [0, 1, 2]
      = [(0, 0), (1, 0), (2, 0)] := by
  constructor <;> decide

/-- LISTAGG / JSON_AGG … OVER: every row receives the cells of its whole partition, in partition order -/
theorem listagg_over_spec {β : Type} (cells : Nat → Val) (agg : List Val → β) (p : List Nat) :
    listAggOver cells agg p = perRow (fun pre x post => agg ((pre ++ x :: post).map cells)) [] p := by
  unfold listAggOver
  rw [perRow_const _ (fun _ => agg (p.map cells)) p []]
  intro a x b e
  simp [e]

/-- `COUNT(*) OVER (…)` (pre-finding F8, fixed in /repo by 02f8662): the select clause finds the column
    Analyze added, for every argument form … -/
theorem agg_column_found (a : AggArg) : selectFindsColumn a = true := by
  cases a <;> simp [selectFindsColumn, analyzeArg]

/-- … and what is evaluated for `*` is the literal 1, which is never NULL: COUNT(*) counts the rows of
    the frame -/
theorem count_star_counts_rows : (analyzeArg .allColumns).evaluated = .int1 := rfl

/-! ## the result column: other columns and the number of rows are unaffected -/

section analyze
variable {κ : Type} [DecidableEq κ] {β : Type}

/-- every record receives the value that `Execute` on ITS partition (the records with its key, in
    view order) returned for it -/
theorem analyze_row (exec : List Nat → List (Nat × β))
    (hexec : ∀ p j, j ∈ (exec p).map Prod.fst ↔ j ∈ p) (keys : List κ) (i : Nat) (k : κ)
    (hk : keys[i]? = some k) :
    (analyze exec keys)[i]? = some (assoc i (exec (members k keys.zipIdx))) :=
  analyze_getElem exec hexec keys i k hk

/-- … and if `Execute` follows a per-row definition `f`, that value is `f` applied to the records of
    the partition before / after record `i` -/
theorem analyze_row_spec (f : List Nat → Nat → List Nat → β) (exec : List Nat → List (Nat × β))
    (hexec : ∀ p, exec p = perRow f [] p ∨ (p.Pairwise (· < ·) → exec p = (perRow f [] p).reverse))
    (keys : List κ) (i : Nat) (k : κ) (hk : keys[i]? = some k) (a b : List Nat)
    (hsplit : members k keys.zipIdx = a ++ i :: b) :
    (analyze exec keys)[i]? = some (some (f a i b)) := by
  have hsorted := members_sorted keys k
  have hfst : ∀ p, p.Pairwise (· < ·) → ∀ j, j ∈ (exec p).map Prod.fst ↔ j ∈ p := by
    intro p hp j
    rcases hexec p with h | h
    · rw [h, perRow_map_fst]
    · rw [h hp, List.map_reverse, perRow_map_fst]; simp
  -- analyze only ever executes partitions of the form `members k' …`, which are sorted
  have key : (analyze exec keys)[i]? = some (assoc i (exec (members k keys.zipIdx))) := by
    have hi : i < keys.length := by
      rcases Nat.lt_or_ge i keys.length with h | h
      · exact h
      · rw [List.getElem?_eq_none h] at hk; exact absurd hk (by simp)
    unfold analyze analyzeWith
    simp only [List.flatMap_cons, List.flatMap_nil, List.append_nil]
    rw [List.getElem?_map, List.getElem?_range hi]
    simp only [Option.map_some]
    congr 1
    -- restrict `exec` to sorted partitions
    let exec' : List Nat → List (Nat × β) := fun p => if p.Pairwise (· < ·) then exec p else p.map fun j => (j, f [] j [])
    have hsame : (partitionsOf keys).flatMap (fun part => exec part.2) = (partitionsOf keys).flatMap (fun part => exec' part.2) := by
      apply flatMap_congr'
      intro part hp
      have := partition_in_view_order keys part hp
      simp [exec', this]
    rw [hsame]
    have h' : ∀ p j, j ∈ (exec' p).map Prod.fst ↔ j ∈ p := by
      intro p j
      by_cases hp : p.Pairwise (· < ·)
      · simp only [exec', hp, if_true]; exact hfst p hp j
      · simp [exec', hp]
    have hmemk : k ∈ keys := List.mem_of_getElem? hk
    have := assoc_flatMap exec' i (k, members k keys.zipIdx) (partitionsOf keys)
      (fun part _ j => h' part.2 j) ((mem_partitionsOf keys _).mpr ⟨hmemk, rfl⟩)
      ((mem_members_zipIdx keys k i).mpr hk)
      (fun part hp hip => by
        obtain ⟨_, h2⟩ := (mem_partitionsOf keys part).mp hp
        rw [h2] at hip
        have := (mem_members_zipIdx keys part.1 i).mp hip
        rw [hk] at this
        injection this with this
        cases part with
        | mk a b => simp only at this h2 ⊢; subst this; rw [h2])
    rw [this]
    simp [exec', hsorted]
  rw [key]
  congr 1
  have hnd : (members k keys.zipIdx).Nodup :=
    List.Pairwise.imp (fun h => Nat.ne_of_lt h) hsorted
  have hmem : (i, f a i b) ∈ perRow f [] (members k keys.zipIdx) := by
    rw [hsplit]
    have := perRow_mem f a [] i b
    simpa using this
  rcases hexec (members k keys.zipIdx) with h | h
  · rw [h]
    exact assoc_of_mem i _ _ (by rw [perRow_map_fst]; exact hnd) hmem
  · rw [h hsorted]
    apply assoc_of_mem i _ _
    · rw [List.map_reverse, perRow_map_fst]; exact nodup_reverse' _ hnd
    · exact List.mem_reverse.mpr hmem

/-- the result does not depend on how the partitions are distributed over worker goroutines -/
theorem analyze_indep_workers (split : List (κ × List Nat) → List (List (κ × List Nat)))
    (hsplit : ∀ l, (split l).flatten = l) (exec : List Nat → List (Nat × β)) (keys : List κ) :
    analyzeWith split exec keys = analyze exec keys := analyzeWith_eq split hsplit exec keys

/-- the new column has one cell per record -/
theorem analyze_length (exec : List Nat → List (Nat × β)) (keys : List κ) :
    (analyze exec keys).length = keys.length := by
  simp [analyze, analyzeWith]

end analyze

/-- appending the column leaves the number of rows unchanged … -/
theorem row_count_unchanged {γ : Type} (rows : List (List γ)) (col : List γ) (h : col.length = rows.length) :
    (appendColumn rows col).length = rows.length := by
  simp [appendColumn, h]

/-- … and every row keeps its cells, in order, followed by exactly one new cell -/
theorem other_columns_unchanged {γ : Type} (rows : List (List γ)) (col : List γ) (h : col.length = rows.length)
    (i : Nat) (r : List γ) (hr : rows[i]? = some r) :
    ∃ v, col[i]? = some v ∧ (appendColumn rows col)[i]? = some (r ++ [v]) := by
  have hi : i < rows.length := by
    rcases Nat.lt_or_ge i rows.length with h' | h'
    · exact h'
    · rw [List.getElem?_eq_none h'] at hr; exact absurd hr (by simp)
  have hc : i < col.length := by omega
  refine ⟨col[i], List.getElem?_eq_getElem hc, ?_⟩
  unfold appendColumn
  rw [List.getElem?_zipWith, hr, List.getElem?_eq_getElem hc]

/-! ## the model IS the source: definitions translated from analytic_function.go on every run

  `Csvq/Gen/AnalyticFacts.lean` is regenerated by /verif/extract/analyticfacts from the Go source before this
  file is built.  The theorems below state, for all inputs, that the hand-written model (on which every
  theorem above rests) computes what the translated code computes — frame positions, the decision structure
  of WindowFrameSet, every loop round of the counters, NTILE, setNthValue, setLag — and that the parts of the
  source the translator does not turn into arithmetic (Boolean conditions that became parameters, statements
  kept as text, the registration tables and grammar productions) are the reviewed ones. -/

section generated
open Csvq.Gen

/-- parser.WindowFramePosition of a frame bound -/
def posOf : Bound → An.Pos
  | .unboundedPreceding => ⟨.preceding, true, 0⟩
  | .preceding n => ⟨.preceding, false, n⟩
  | .currentRow => ⟨.current, false, 0⟩
  | .following n => ⟨.following, false, n⟩
  | .unboundedFollowing => ⟨.following, true, 0⟩

/-- `frameIndex` as it stands in the source is the model's `frameIndex`, for every row, partition length
    and frame bound -/
theorem gen_frameIndex (c len : Nat) (b : Bound) :
    An.frameIndex c len (posOf b) = frameIndex c len b := by
  cases b with
  | unboundedPreceding => simp [An.frameIndex, An.frameIndexC, posOf, frameIndex]
  | currentRow => simp [An.frameIndex, An.frameIndexC, posOf, frameIndex]
  | unboundedFollowing => simp [An.frameIndex, An.frameIndexC, posOf, frameIndex]
  | preceding n =>
    by_cases h : (c : Int) < (n : Int) <;> simp [An.frameIndex, An.frameIndexC, posOf, frameIndex, h]
  | following n =>
    by_cases h : (len : Int) - (c : Int) ≤ (n : Int) <;> simp [An.frameIndex, An.frameIndexC, posOf, frameIndex, h]

theorem frameRecords_low_outside (p : List Nat) (lo lo' hi : Int)
    (h : lo = lo' ∨ (lo < 0 ∧ lo' < 0) ∨ ((p.length : Int) ≤ lo ∧ (p.length : Int) ≤ lo')) :
    frameRecords p lo hi = frameRecords p lo' hi := by
  unfold frameRecords
  have h1 := Int.toNat_eq_max lo
  have h2 := Int.toNat_eq_max lo'
  have h3 := Int.toNat_eq_max (hi + 1)
  generalize lo.toNat = A at *
  generalize lo'.toNat = B at *
  generalize (hi + 1).toNat = C at *
  apply take_drop_congr
  omega

theorem frameRecords_high_outside (p : List Nat) (lo hi hi' : Int)
    (h : hi = hi' ∨ (hi < 0 ∧ hi' < 0) ∨ ((p.length : Int) - 1 ≤ hi ∧ (p.length : Int) - 1 ≤ hi')) :
    frameRecords p lo hi = frameRecords p lo hi' := by
  unfold frameRecords
  have h1 := Int.toNat_eq_max lo
  have h2 := Int.toNat_eq_max (hi + 1)
  have h3 := Int.toNat_eq_max (hi' + 1)
  generalize lo.toNat = A at *
  generalize (hi + 1).toNat = B at *
  generalize (hi' + 1).toNat = C at *
  apply take_drop_congr
  omega

theorem frameIndex_outside (k len : Nat) (b : Bound) :
    frameIndex k len b = frameIndexPlain k len b ∨
      (frameIndex k len b < 0 ∧ frameIndexPlain k len b < 0) ∨
      ((len : Int) ≤ frameIndex k len b ∧ (len : Int) ≤ frameIndexPlain k len b) := by
  cases b with
  | unboundedPreceding => exact Or.inl rfl
  | currentRow => exact Or.inl rfl
  | unboundedFollowing => exact Or.inl rfl
  | preceding n => simp only [frameIndex, frameIndexPlain]; split <;> omega
  | following n => simp only [frameIndex, frameIndexPlain]; split <;> omega

/-- the clamping the source applies to frame positions does not change any frame: the visited records are
    those of the textbook positions `current − n … current + n` -/
theorem frame_positions_textbook (p : List Nat) (k : Nat) (lo hi : Bound) :
    frameRecords p (frameIndex k p.length lo) (frameIndex k p.length hi)
      = frameRecords p (frameIndexPlain k p.length lo) (frameIndexPlain k p.length hi) := by
  rw [frameRecords_low_outside p _ (frameIndexPlain k p.length lo) _ (frameIndex_outside k p.length lo)]
  apply frameRecords_high_outside
  rcases frameIndex_outside k p.length hi with h | h | h
  · exact Or.inl h
  · exact Or.inr (Or.inl h)
  · exact Or.inr (Or.inr ⟨by omega, by omega⟩)

/-- (hasOrder, hasWindow, hasHigh, FrameLow, FrameHigh) of an analytic clause -/
def clauseOf : Window → Bool × Bool × Bool × An.Pos × An.Pos
  | .noOrder => (false, false, false, ⟨.current, false, 0⟩, ⟨.current, false, 0⟩)
  | .orderOnly => (true, false, false, ⟨.current, false, 0⟩, ⟨.current, false, 0⟩)
  | .rows lo => (true, true, false, posOf lo, ⟨.current, false, 0⟩)
  | .between lo hi => (true, true, true, posOf lo, posOf hi)

/-- the decision structure of `WindowFrameSet` as it stands in the source (no ORDER BY → one frame; no
    windowing clause → UNBOUNDED PRECEDING … current; `ROWS lo` → lo … current; UNBOUNDED PRECEDING …
    UNBOUNDED FOLLOWING → one frame; otherwise one frame per row) is the model's `windowFrameSet` -/
theorem gen_windowFrameSet (p : List Nat) (w : Window) :
    windowFrameSet p w =
      match An.windowFrameSet p.length (clauseOf w).1 (clauseOf w).2.1 (clauseOf w).2.2.1 (clauseOf w).2.2.2.1 (clauseOf w).2.2.2.2 with
      | .single => singleFrameSet p
      | .perRow lo hi => perRowFrames p (fun c => lo c) (fun c => hi c) := by
  cases w with
  | noOrder => simp [An.windowFrameSet, clauseOf, windowFrameSet]
  | orderOnly =>
    simp only [An.windowFrameSet, clauseOf, windowFrameSet]
    simp [← gen_frameIndex, posOf]
  | rows lo =>
    simp only [An.windowFrameSet, clauseOf, windowFrameSet]
    simp [← gen_frameIndex]
  | between lo hi =>
    cases lo <;> cases hi <;> simp only [An.windowFrameSet, clauseOf, windowFrameSet, posOf] <;>
      simp [← gen_frameIndex, posOf]

/-- `singleFrameSet`: Low = 0, High = len − 1 -/
theorem gen_singleFrame (p : List Nat) :
    singleFrameSet p = [⟨(An.singleFrame p.length).1, (An.singleFrame p.length).2, p⟩] := rfl

/-- `windowValues` (since the repair): the capacity handed to `make` is never negative, and a position
    outside the partition is skipped -/
theorem gen_windowCapacity (lo hi : Int) :
    (An.windowCapacity lo hi).2 = max 0 (hi - lo + 1) ∧ 0 ≤ (An.windowCapacity lo hi).2 := by
  unfold An.windowCapacity
  split <;> simp_all <;> omega

theorem gen_windowValues_step (i len : Int) :
    An.windowValuesStep i len = (if i < 0 ∨ len ≤ i then .cont else .fall) := by
  unfold An.windowValuesStep
  by_cases h1 : i < 0 <;> by_cases h2 : len ≤ i <;> simp [h1, h2]

/-! counters: one round of each loop -/

theorem gen_rowNumber_step (idx : Nat) (rest : List Nat) (number : Nat) :
    An.rowNumberStepInit = (.fall, 0) ∧
    An.rowNumberStep number = (.fall, ((number + 1 : Nat) : Int), ((number + 1 : Nat) : Int)) ∧
    rowNumberLoop (idx :: rest) number = (idx, number + 1) :: rowNumberLoop rest (number + 1) := by
  refine ⟨rfl, ?_, rfl⟩
  simp [An.rowNumberStep]

/-- RANK: `newGroup` is the source's `sortValuesInEachRecord == nil || !…EquivalentTo(currentRank)` -/
theorem gen_rank_step (eqv : Nat → Nat → Bool) (idx : Nat) (rest : List Nat) (number rank : Nat) (cur : Option Nat) (hasOrder : Bool) :
    An.rankStepInit = (.fall, 0, 0) ∧
    rankLoop eqv (idx :: rest) number rank cur =
      (idx, (An.rankStep number rank (!sameRank eqv idx cur) hasOrder).2.2.2.toNat) ::
        rankLoop eqv rest (An.rankStep number rank (!sameRank eqv idx cur) hasOrder).2.1.toNat
          (An.rankStep number rank (!sameRank eqv idx cur) hasOrder).2.2.1.toNat
          (if sameRank eqv idx cur then cur else some idx) := by
  refine ⟨rfl, ?_⟩
  cases h : sameRank eqv idx cur <;> simp [rankLoop, An.rankStep, h] <;>
    (try (have : ((number : Int) + 1).toNat = number + 1 := by omega)) <;> simp_all

theorem gen_denseRank_step (eqv : Nat → Nat → Bool) (idx : Nat) (rest : List Nat) (rank : Nat) (cur : Option Nat) (hasOrder : Bool) :
    An.denseRankStepInit = (.fall, 0) ∧
    denseLoop eqv (idx :: rest) rank cur =
      (idx, (An.denseRankStep rank (!sameRank eqv idx cur) hasOrder).2.2.toNat) ::
        denseLoop eqv rest (An.denseRankStep rank (!sameRank eqv idx cur) hasOrder).2.1.toNat
          (if sameRank eqv idx cur then cur else some idx) := by
  refine ⟨rfl, ?_⟩
  cases h : sameRank eqv idx cur <;> simp [denseLoop, An.denseRankStep, h] <;>
    (try (have : ((rank : Int) + 1).toNat = rank + 1 := by omega)) <;> simp_all

/-- perseCumulativeGroups is list code; its two branches (open a group / append to the last group) and the
    condition that selects them are the reviewed ones -/
theorem gen_groups_reviewed :
    An.groupStepConds = ["newGroup: view.sortValuesInEachRecord == nil || !view.sortValuesInEachRecord[idx].EquivalentTo(currentRank)", "hasOrder: view.sortValuesInEachRecord != nil"] ∧
    An.groupStepEffects = ["newGroup ⊢ groups = append(groups, []int{idx})", "newGroup & hasOrder ⊢ currentRank = view.sortValuesInEachRecord[idx]", "!newGroup ⊢ groups[len(groups)-1] = append(groups[len(groups)-1], idx)"] ∧
    An.groupStepInitEffects = ["groups := make([][]int, 0)", "var currentRank SortValues"] ∧
    An.groupStepLoop = "for _, idx := range partition" ∧ An.groupStepAfter = ["return groups"] :=
  ⟨rfl, rfl, rfl, rfl, rfl⟩

/-- CUME_DIST: one group — the exact fraction (cumulative + len(group)) / len(partition) -/
theorem gen_cumeDist_step (total : Nat) (g : List Nat) (gs : List (List Nat)) (cumulative : Nat) (len gl : Nat) :
    An.cumeDistStepInit gl len = (.fall, (len : Int), 0) ∧
    An.cumeDistStep total cumulative g.length len
      = (.fall, (total : Int), ((cumulative + g.length : Nat) : Int), (((cumulative + g.length : Nat) : Int), (total : Int))) ∧
    cumeLoop total (g :: gs) cumulative
      = g.map (fun idx => (idx, (cumulative + g.length, total))) ++ cumeLoop total gs (cumulative + g.length) := by
  refine ⟨rfl, ?_, rfl⟩
  simp [An.cumeDistStep]

/-- PERCENT_RANK: one group — cumulative / (len − 1), or 1 when there is a single row -/
theorem gen_percentRank_step (len : Nat) (g : List Nat) (gs : List (List Nat)) (cumulative : Nat) (gl : Nat) :
    An.percentRankStepInit gl len = (.fall, (len : Int) - 1, 0) ∧
    (An.percentRankStep ((len : Int) - 1) cumulative g.length len).2.2.2
      = (if 1 < len then ((cumulative : Int), ((len - 1 : Nat) : Int)) else (1, 1)) ∧
    (An.percentRankStep ((len : Int) - 1) cumulative g.length len).2.2.1 = ((cumulative + g.length : Nat) : Int) ∧
    percentLoop len (g :: gs) cumulative
      = g.map (fun idx => (idx, if 1 < len then (cumulative, len - 1) else (1, 1))) ++ percentLoop len gs (cumulative + g.length) := by
  refine ⟨rfl, ?_, ?_, rfl⟩
  · unfold An.percentRankStep
    by_cases h : 1 < len
    · have h' : (0 : Int) < (len : Int) - 1 := by omega
      have e : ((len - 1 : Nat) : Int) = (len : Int) - 1 := by omega
      simp only [h', decide_true, if_true, h, e]
    · have h' : ¬ (0 : Int) < (len : Int) - 1 := by omega
      simp only [h', decide_false, Bool.false_eq_true, if_false, h]
  · unfold An.percentRankStep
    split <;> simp

/-! NTILE -/

theorem gen_ntile_rejects (n : Int) (p : List Nat) : An.ntileRejects n = true ↔ ntile n p = none := by
  simp [An.ntileRejects, ntile]

theorem gen_ntileParams (total n : Nat) :
    An.ntileParams n total = (.fall, ((ntileParams total n).1 : Int), ((ntileParams total n).2 : Int)) := by
  unfold An.ntileParams ntileParams
  have e1 : Int.tdiv (total : Int) (n : Int) = ((total / n : Nat) : Int) := by
    rw [Int.tdiv_eq_ediv_of_nonneg (by omega)]; rfl
  have e2 : Int.tmod (total : Int) (n : Int) = ((total % n : Nat) : Int) := by
    rw [Int.tmod_eq_emod_of_nonneg (by omega)]; rfl
  rw [e1, e2]
  by_cases h : total / n < 1
  · have h' : ((total / n : Nat) : Int) < 1 := by omega
    simp only [h', decide_true, if_true, h]; rfl
  · have h' : ¬ ((total / n : Nat) : Int) < 1 := by omega
    simp only [h', decide_false, Bool.false_eq_true, if_false, h]

theorem gen_ntile_step (perTile idx : Nat) (rest : List Nat) (tile count mod : Nat) :
    An.ntileInit = (.fall, 1, 0) ∧
    ntileLoop perTile (idx :: rest) tile count mod =
      (idx, (An.ntileStep perTile tile count mod).2.2.2.2.toNat) ::
        ntileLoop perTile rest (An.ntileStep perTile tile count mod).2.1.toNat
          (An.ntileStep perTile tile count mod).2.2.1.toNat (An.ntileStep perTile tile count mod).2.2.2.1.toNat := by
  refine ⟨rfl, ?_⟩
  unfold An.ntileStep
  simp only [ntileLoop]
  by_cases hA : perTile + 1 < count + 1
  · have : ((perTile : Int) + 1 < (count : Int) + 1) := by omega
    simp only [hA, this, decide_true, if_true]
    have e : ((tile : Int) + 1).toNat = tile + 1 := by omega
    simp [e]
  · have nA : ¬ ((perTile : Int) + 1 < (count : Int) + 1) := by omega
    simp only [hA, nA, decide_false, if_false, Bool.false_eq_true]
    by_cases hB : perTile + 1 = count + 1
    · have : ((perTile : Int) + 1 = (count : Int) + 1) := by omega
      simp only [hB, this, decide_true, if_true]
      by_cases hm : 0 < mod
      · have : (0 : Int) < (mod : Int) := by omega
        have e1 : ((count : Int) + 1).toNat = count + 1 := by omega
        have e2 : ((mod : Int) - 1).toNat = mod - 1 := by omega
        simp [hm, e1, e2]
      · have : ¬ (0 : Int) < (mod : Int) := by omega
        have e : ((tile : Int) + 1).toNat = tile + 1 := by omega
        simp [hm, e]
    · have : ¬ ((perTile : Int) + 1 = (count : Int) + 1) := by omega
      have e1 : ((count : Int) + 1).toNat = count + 1 := by omega
      have hB' : ¬ perTile = count := by omega
      simp [hB', this, e1]

/-! setNthValue (FIRST_VALUE / LAST_VALUE / NTH_VALUE) -/

/-- the loop over the frame: starts at Low with step +1 (at High with step −1 when counting from the last
    row), runs while Low ≤ i ≤ High; afterwards the value is reset to NULL iff fewer than n cells counted -/
theorem gen_nth_header (lo hi i st count n : Int) :
    An.nthInit lo hi false = (.fall, 0, lo, 1) ∧ An.nthInit lo hi true = (.fall, 0, hi, -1) ∧
    An.nthCond lo hi i = decide (lo ≤ i ∧ i ≤ hi) ∧ An.nthPost i st = (.fall, i + st) ∧
    An.nthMissing count n = decide (count < n) := by
  refine ⟨rfl, rfl, ?_, rfl, rfl⟩
  unfold An.nthCond
  by_cases h1 : lo ≤ i <;> by_cases h2 : i ≤ hi <;> simp [h1, h2]

/-- the positions the loop visits, obtained by running the generated header -/
def nthVisit (lo hi : Int) : Nat → Int → Int → List Int
  | 0, _, _ => []
  | f + 1, i, st => if An.nthCond lo hi i then i :: nthVisit lo hi f (An.nthPost i st).2 st else []

/-- FIRST_VALUE / NTH_VALUE visit Low, Low + 1, …, High in this order -/
theorem gen_nth_visits_forward (lo hi : Int) : ∀ (f : Nat) (i : Int), i + f = hi + 1 → lo ≤ i →
    nthVisit lo hi f i 1 = (List.range f).map (fun (j : Nat) => i + (j : Int))
  | 0, _, _, _ => rfl
  | f + 1, i, h1, h2 => by
    have hc : An.nthCond lo hi i = true := by simp [An.nthCond]; omega
    simp only [nthVisit, hc, if_true, An.nthPost]
    rw [gen_nth_visits_forward lo hi f (i + 1) (by omega) (by omega), List.range_succ_eq_map, List.map_cons, List.map_map]
    congr 1
    · simp
    · apply List.map_congr_left
      intro j _
      simp only [Function.comp_apply, Nat.succ_eq_add_one]; omega

/-- LAST_VALUE visits High, High − 1, …, Low in this order -/
theorem gen_nth_visits_backward (lo hi : Int) : ∀ (f : Nat) (i : Int), i - f = lo - 1 → i ≤ hi →
    nthVisit lo hi f i (-1) = (List.range f).map (fun (j : Nat) => i - (j : Int))
  | 0, _, _, _ => rfl
  | f + 1, i, h1, h2 => by
    have hc : An.nthCond lo hi i = true := by simp [An.nthCond]; omega
    simp only [nthVisit, hc, if_true, An.nthPost]
    rw [gen_nth_visits_backward lo hi f (i + -1) (by omega) (by omega), List.range_succ_eq_map, List.map_cons, List.map_map]
    congr 1
    · simp
    · apply List.map_congr_left
      intro j _
      simp only [Function.comp_apply, Nat.succ_eq_add_one]; omega

/-- one round of the loop over the frame as it stands in the source is one unfolding of the model's
    `scanNthFixed` (the record at a position inside the partition: skipped if NULL under IGNORE NULLS,
    taken if it is the n-th counted one, otherwise counted); a position outside the partition is skipped -/
theorem gen_nth_step (cells : Nat → Val) (ign : Bool) (n r : Nat) (rest : List Nat) (count : Nat) (i len : Int)
    (h0 : 0 ≤ i) (hl : i < len) :
    scanNthFixed cells ign n (r :: rest) count =
      match An.nthStep i len count n ign (isNullV (cells r)) with
      | (.brk, _) => cells r
      | (_, c) => scanNthFixed cells ign n rest c.toNat := by
  have r1 : ¬ i < 0 := by omega
  have r2 : ¬ len ≤ i := by omega
  unfold An.nthStep
  simp only [r1, r2, decide_false, Bool.or_self, Bool.false_eq_true, if_false, scanNthFixed]
  by_cases hk : (ign && isNullV (cells r)) = true
  · simp [hk]
  · simp only [hk, Bool.false_eq_true, if_false]
    by_cases hn : count + 1 = n
    · have : ((count : Int) + 1 = (n : Int)) := by omega
      simp [hn, this]
    · have : ¬ ((count : Int) + 1 = (n : Int)) := by omega
      have e : ((count : Int) + 1).toNat = count + 1 := by omega
      simp [hn, this, e]

theorem gen_nth_step_outside (i len count n : Int) (ign b : Bool) (h : i < 0 ∨ len ≤ i) :
    An.nthStep i len count n ign b = (.cont, count) := by
  unfold An.nthStep
  rcases h with h | h
  · simp [h]
  · by_cases h1 : i < 0 <;> simp [h, h1]

/-- when the loop ends by `break` the n-th counted cell has been reached and the value is kept -/
theorem gen_nth_break_keeps (i len count n : Int) (ign b : Bool)
    (h : (An.nthStep i len count n ign b).1 = .brk) :
    An.nthMissing (An.nthStep i len count n ign b).2 n = false := by
  by_cases h1 : i < 0 <;> by_cases h2 : len ≤ i <;> by_cases h3 : (ign && b) = true <;>
    by_cases h4 : count + 1 = n <;> simp [An.nthStep, An.nthMissing, h1, h2, h3, h4] at h ⊢ <;> omega

/-! setLag (LAG / LEAD) -/

/-- the scan of setLag, obtained by running the generated header and loop round over `values` (oldest
    first, the current row last) -/
def lagScan (ign : Bool) (values : List Val) : Nat → Int → Option Val
  | 0, _ => none
  | f + 1, i =>
    if An.lagScanCond i then
      match values[i.toNat]? with
      | none => none
      | some v =>
        match An.lagScanStep ign (isNullV v) with
        | .brk => some v
        | _ => lagScan ign values f (An.lagScanPost i).2
    else none

def lagByGen (ign : Bool) (dflt : Val) (offset : Int) (values : List Val) : Val :=
  if An.lagInRange (An.lagIdx values.length offset).2 values.length then
    (lagScan ign values values.length (An.lagScanInit (An.lagIdx values.length offset).2).2).getD dflt
  else dflt

theorem lagScan_before_start (ign : Bool) (values : List Val) (f : Nat) : lagScan ign values f (-1) = none := by
  cases f <;> simp [lagScan, An.lagScanCond]

theorem lagScan_step (ign : Bool) (values : List Val) (i f : Nat) (hi : i < values.length) :
    lagScan ign values (f + 1) (i : Int)
      = if keepV ign values[i] then some values[i] else lagScan ign values f ((i : Int) - 1) := by
  have hv : values[i]? = some values[i] := List.getElem?_eq_getElem hi
  have hc : An.lagScanCond (i : Int) = true := by simp [An.lagScanCond]
  have hn : ((i : Nat) : Int).toNat = i := by omega
  simp only [lagScan, hc, if_true, hn, hv, An.lagScanStep, An.lagScanPost]
  cases h1 : ign <;> cases h2 : isNullV values[i] <;> simp [keepV, h1, h2]

theorem lagScan_spec (ign : Bool) (values : List Val) : ∀ (i f : Nat), i < values.length → i + 1 ≤ f →
    lagScan ign values f (i : Int) = ((values.take (i + 1)).reverse).find? (keepV ign) := by
  intro i
  induction i with
  | zero =>
    intro f hi hf
    obtain ⟨f', rfl⟩ : ∃ f', f = f' + 1 := ⟨f - 1, by omega⟩
    have ht : values.take (0 + 1) = [values[0]] := by
      cases values with
      | nil => simp at hi
      | cons a l => simp
    rw [lagScan_step ign values 0 f' hi, ht]
    have : ((0 : Nat) : Int) - 1 = -1 := by omega
    rw [this, lagScan_before_start]
    simp [List.find?_cons]
    cases keepV ign values[0] <;> simp
  | succ j ih =>
    intro f hi hf
    obtain ⟨f', rfl⟩ : ∃ f', f = f' + 1 := ⟨f - 1, by omega⟩
    have hv : values[j + 1]? = some values[j + 1] := List.getElem?_eq_getElem hi
    have ht : values.take (j + 1 + 1) = values.take (j + 1) ++ [values[j + 1]] := by
      rw [List.take_add_one, hv]; rfl
    rw [lagScan_step ign values (j + 1) f' hi, ht, List.reverse_append]
    have e : ((j + 1 : Nat) : Int) - 1 = (j : Int) := by omega
    rw [e, ih f' (by omega) (by omega)]
    simp only [List.reverse_cons, List.reverse_nil, List.nil_append, List.singleton_append, List.find?_cons]
    cases keepV ign values[j + 1] <;> simp

/-- LAG as the source computes it — `lagIdx := len(values) − 1 − offset`, the scan only if
    `0 ≤ lagIdx < len(values)`, from lagIdx downwards past NULL cells under IGNORE NULLS, else the default —
    is the model's `lagPick` (which `lag_spec` / `lead_spec` rest on), for every offset, negative ones included -/
theorem gen_lag_eq_model (ign : Bool) (dflt : Val) (offset : Int) (values : List Val) :
    lagByGen ign dflt offset values = lagPick ign dflt offset values.reverse := by
  unfold lagByGen lagPick An.lagIdx An.lagInRange An.lagScanInit
  simp only
  by_cases hneg : offset < 0
  · have : ¬ ((values.length : Int) - 1 - offset < (values.length : Int)) := by omega
    simp [hneg, this]
  · simp only [hneg, if_false]
    by_cases hin : offset < (values.length : Int)
    · have h1 : (0 : Int) ≤ (values.length : Int) - 1 - offset := by omega
      have h2 : (values.length : Int) - 1 - offset < (values.length : Int) := by omega
      simp only [h1, h2, decide_true, Bool.and_self, if_true]
      obtain ⟨i, hi⟩ : ∃ i : Nat, (i : Int) = (values.length : Int) - 1 - offset := ⟨((values.length : Int) - 1 - offset).toNat, by omega⟩
      rw [← hi, lagScan_spec ign values i values.length (by omega) (by omega), List.reverse_take]
      have : values.length - (i + 1) = offset.toNat := by omega
      rw [this]
      cases (List.drop offset.toNat values.reverse).find? (keepV ign) <;> rfl
    · have h2 : ¬ ((0 : Int) ≤ (values.length : Int) - 1 - offset) := by omega
      have hd : List.drop offset.toNat values.reverse = [] := List.drop_eq_nil_of_le (by simp; omega)
      simp only [h2, decide_false, Bool.false_and, Bool.false_eq_true, if_false, hd, List.find?_nil]

/-- the default offset of LAG / LEAD without a second argument is 1 -/
theorem gen_lag_default_offset : An.lagOffsetDefault = (.fall, 1) := rfl

/-! the parts that are not arithmetic, and the registration tables -/

/-- everything in the translated functions that is NOT integer code — the Boolean conditions that became
    parameters (with the names used above), the statements kept as text with the conditions they are nested
    under, the loop headers and what follows each loop — is the reviewed text; any edit of these parts of
    the source makes this theorem fail -/
theorem gen_opaque_parts_reviewed :
    An.singleFrameSetText = "{indices := make([]int, len(partition)) for i, idx := range partition {indices[i] = idx} return []WindowFrame{{Low: 0, High: len(partition) - 1, Records: indices}}}" ∧
    An.windowFrameSetEffects = ["length := len(partition)", "frameSet := make([]WindowFrame, 0, length)", "var windowClause parser.WindowingClause"] ∧
    An.windowCapacityConds = [] ∧
    An.windowCapacityEffects = ["values := make([]value.Primary, 0, capacity)", "anScope := scope.CreateScopeForAnalytics()"] ∧
    An.windowValuesLoop = "for i := frame.Low; i <= frame.High; i++" ∧
    An.windowValuesStepConds = [] ∧
    An.windowValuesStepEffects = ["!(decide (i < 0) || decide (length ≤ i)) ⊢ recordIdx := partition[i]", "!(decide (i < 0) || decide (length ≤ i)) ⊢ if v, ok := valueCache[recordIdx]; ok {values = append(values, v)} else {anScope.Records[0].recordIndex = recordIdx p, e := Evaluate(ctx, anScope, expr.Args[0]) if e != nil {return nil, e} valueCache[recordIdx] = p values = append(values, p)}"] ∧
    An.rowNumberStepInitConds = [] ∧
    An.rowNumberStepInitEffects = ["list := make(map[int]value.Primary, len(partition))"] ∧
    An.rowNumberStepLoop = "for _, idx := range partition" ∧
    An.rowNumberStepConds = [] ∧
    An.rowNumberStepEffects = [] ∧
    An.rowNumberStepAfter = ["return list, nil"] ∧
    An.rankStepInitConds = [] ∧
    An.rankStepInitEffects = ["list := make(map[int]value.Primary, len(partition))", "var currentRank SortValues"] ∧
    An.rankStepLoop = "for _, idx := range partition" ∧
    An.rankStepConds = ["newGroup: scope.Records[0].view.sortValuesInEachRecord == nil || !scope.Records[0].view.sortValuesInEachRecord[idx].EquivalentTo(currentRank)", "hasOrder: scope.Records[0].view.sortValuesInEachRecord != nil"] ∧
    An.rankStepEffects = ["newGroup & hasOrder ⊢ currentRank = scope.Records[0].view.sortValuesInEachRecord[idx]"] ∧
    An.rankStepAfter = ["return list, nil"] ∧
    An.denseRankStepInitConds = [] ∧
    An.denseRankStepInitEffects = ["list := make(map[int]value.Primary, len(partition))", "var currentRank SortValues"] ∧
    An.denseRankStepLoop = "for _, idx := range partition" ∧
    An.denseRankStepConds = ["newGroup: scope.Records[0].view.sortValuesInEachRecord == nil || !scope.Records[0].view.sortValuesInEachRecord[idx].EquivalentTo(currentRank)", "hasOrder: scope.Records[0].view.sortValuesInEachRecord != nil"] ∧
    An.denseRankStepEffects = ["newGroup & hasOrder ⊢ currentRank = scope.Records[0].view.sortValuesInEachRecord[idx]"] ∧
    An.denseRankStepAfter = ["return list, nil"] ∧
    An.groupStepInitConds = [] ∧
    An.groupStepInitEffects = ["groups := make([][]int, 0)", "var currentRank SortValues"] ∧
    An.groupStepLoop = "for _, idx := range partition" ∧
    An.groupStepConds = ["newGroup: view.sortValuesInEachRecord == nil || !view.sortValuesInEachRecord[idx].EquivalentTo(currentRank)", "hasOrder: view.sortValuesInEachRecord != nil"] ∧
    An.groupStepEffects = ["newGroup ⊢ groups = append(groups, []int{idx})", "newGroup & hasOrder ⊢ currentRank = view.sortValuesInEachRecord[idx]", "!newGroup ⊢ groups[len(groups)-1] = append(groups[len(groups)-1], idx)"] ∧
    An.groupStepAfter = ["return groups"] ∧
    An.cumeDistStepInitConds = [] ∧
    An.cumeDistStepInitEffects = ["list := make(map[int]value.Primary, len(partition))", "groups := perseCumulativeGroups(partition, scope.Records[0].view)"] ∧
    An.cumeDistStepLoop = "for _, group := range groups" ∧
    An.cumeDistStepConds = [] ∧
    An.cumeDistStepEffects = ["[stored for every record] for _, idx := range group"] ∧
    An.cumeDistStepAfter = ["return list, nil"] ∧
    An.percentRankStepInitConds = [] ∧
    An.percentRankStepInitEffects = ["list := make(map[int]value.Primary, len(partition))", "groups := perseCumulativeGroups(partition, scope.Records[0].view)"] ∧
    An.percentRankStepLoop = "for _, group := range groups" ∧
    An.percentRankStepConds = [] ∧
    An.percentRankStepEffects = ["decide (0 < denom) ⊢ [stored for every record] for _, idx := range group", "!decide (0 < denom) ⊢ [stored for every record] for _, idx := range group"] ∧
    An.percentRankStepAfter = ["return list, nil"] ∧
    An.ntileParamsConds = [] ∧
    An.ntileParamsEffects = ["tileNumber := 0", "p, err := Evaluate(ctx, scope, expr.Args[0])", "if err != nil {return nil, NewFunctionInvalidArgumentError(expr, expr.Name, \"the first argument must be an integer\")}", "i := value.ToInteger(p)", "if value.IsNull(i) {return nil, NewFunctionInvalidArgumentError(expr, expr.Name, \"the first argument must be an integer\")}", "tileNumber = int(i.(*value.Integer).Raw())", "value.Discard(i)", "guard ⊢ {return nil, NewFunctionInvalidArgumentError(expr, expr.Name, \"the first argument must be greater than 0\")}", "list := make(map[int]value.Primary, len(partition))", "var tile int64 = 1", "var count = 0"] ∧
    An.ntileInitConds = [] ∧
    An.ntileInitEffects = [] ∧
    An.ntileStepLoop = "for _, idx := range partition" ∧
    An.ntileStepConds = [] ∧
    An.ntileStepEffects = [] ∧
    An.nthInitConds = ["fromLast: fromLast"] ∧
    An.nthInitEffects = ["var val value.Primary = value.NewNull()"] ∧
    An.nthPostConds = [] ∧
    An.nthPostEffects = [] ∧
    An.nthStepConds = ["ign: expr.IgnoreNulls()", "isNull: value.IsNull(val)"] ∧
    An.nthStepEffects = ["!(decide (i < 0) || decide (length ≤ i)) ⊢ recordIdx := partition[i]", "!(decide (i < 0) || decide (length ≤ i)) ⊢ if v, ok := valueCache[recordIdx]; ok {val = v} else {anScope.Records[0].recordIndex = recordIdx p, err := Evaluate(ctx, anScope, expr.Args[0]) if err != nil {return nil, err} valueCache[recordIdx] = p val = p}"] ∧
    An.nthAfter = ["for _, idx := range frame.Records {list[idx] = val}"] ∧
    An.lagOffsetDefaultConds = [] ∧
    An.lagOffsetDefaultEffects = [] ∧
    An.lagPrologue = ["if 1 < len(expr.Args) {p, err := Evaluate(ctx, scope, expr.Args[1]) if err != nil {return nil, NewFunctionInvalidArgumentError(expr, expr.Name, \"the second argument must be an integer\")} i := value.ToInteger(p) if value.IsNull(i) {return nil, NewFunctionInvalidArgumentError(expr, expr.Name, \"the second argument must be an integer\")} offset = int(i.(*value.Integer).Raw()) value.Discard(i)}", "var defaultValue value.Primary = value.NewNull()", "if 2 < len(expr.Args) {p, err := Evaluate(ctx, scope, expr.Args[2]) if err != nil {return nil, err} defaultValue = p}", "anScope := scope.CreateScopeForAnalytics()", "list := make(map[int]value.Primary, len(partition))", "values := make([]value.Primary, 0)"] ∧
    An.lagIdxConds = [] ∧
    An.lagIdxEffects = ["anScope.Records[0].recordIndex = idx", "p, err := Evaluate(ctx, anScope, expr.Args[0])", "if err != nil {return nil, err}", "values = append(values, p)", "val := defaultValue", "list[idx] = val"] ∧
    An.lagScanInitConds = [] ∧
    An.lagScanInitEffects = [] ∧
    An.lagScanPostConds = [] ∧
    An.lagScanPostEffects = [] ∧
    An.lagScanStepConds = ["ign: expr.IgnoreNulls()", "isNull: value.IsNull(values[i])"] ∧
    An.lagScanStepEffects = ["!(ign && isNull) ⊢ val = values[i]"] :=
  ⟨rfl, rfl, rfl, rfl, rfl, rfl, rfl, rfl, rfl, rfl, rfl, rfl, rfl, rfl, rfl, rfl, rfl, rfl, rfl, rfl, rfl, rfl, rfl, rfl, rfl, rfl, rfl, rfl, rfl, rfl, rfl, rfl, rfl, rfl, rfl, rfl, rfl, rfl, rfl, rfl, rfl, rfl, rfl, rfl, rfl, rfl, rfl, rfl, rfl, rfl, rfl, rfl, rfl, rfl, rfl, rfl, rfl, rfl, rfl, rfl, rfl, rfl, rfl, rfl, rfl, rfl, rfl, rfl⟩

/-- the AnalyticFunctions map, CheckArgsLen of every function, and which shared helper each Execute calls with
    which constants (FIRST_VALUE = setNthValue(1, false), LAST_VALUE = setNthValue(1, true), NTH_VALUE =
    setNthValue(n, false), LEAD = partition.Reverse() + setLag) are the reviewed tables of the model -/
theorem gen_registry_reviewed :
    An.registry = registry ∧ An.argLens = argLens ∧ An.delegations = delegations := ⟨rfl, rfl, rfl⟩

/-- the keyword classes of the scanner and the productions of parser.y that decide which function may carry
    IGNORE NULLS / a windowing clause, and which frame bounds exist, are the reviewed ones -/
theorem gen_grammar_reviewed :
    An.keywordClasses = keywordClasses ∧ An.keywordTokens = keywordTokens ∧ An.grammarForms = grammarForms :=
  ⟨rfl, rfl, rfl⟩

/-- … from which: only FIRST/LAST/NTH_VALUE and LAG/LEAD take IGNORE NULLS; a windowing clause is allowed for
    user-defined aggregates, the aggregate functions, VAR, COUNT and FIRST/LAST/NTH_VALUE, and for nothing else
    (ROW_NUMBER … NTILE, LISTAGG / JSON_AGG, LAG / LEAD) -/
theorem clause_rights_from_grammar : An.grammarRights = clauseRights := rfl

end generated

/-! ## non-vacuity -/

example : partitionsOf [7, 8, 7, 9, 8] = [(7, [0, 2]), (8, [1, 4]), (9, [3])] := by decide
example : sortDesc [0, 2, 5] = [5, 2, 0] := by decide
example : rank (fun a b => a / 2 == b / 2) [0, 1, 2, 3, 4] = [(0, 1), (1, 1), (2, 3), (3, 3), (4, 5)] := by decide
example : denseRank (fun a b => a / 2 == b / 2) [0, 1, 2, 3, 4] = [(0, 1), (1, 1), (2, 2), (3, 2), (4, 3)] := by decide
example : cumeDist (fun a b => a / 2 == b / 2) [0, 1, 2, 3, 4] = [(0, (2, 5)), (1, (2, 5)), (2, (4, 5)), (3, (4, 5)), (4, (5, 5))] := by decide
example : percentRank (fun a b => a / 2 == b / 2) [0, 1, 2, 3, 4] = [(0, (0, 4)), (1, (0, 4)), (2, (2, 4)), (3, (2, 4)), (4, (4, 4))] := by decide
example : Peers (fun a b => a / 2 == b / 2) [0, 1, 2, 3, 4] :=
  peers_of_sorted_key (fun a => a / 2) _ (by decide)
example : ntile 3 [10, 11, 12, 13, 14, 15, 16] = some [(10, 1), (11, 1), (12, 1), (13, 2), (14, 2), (15, 3), (16, 3)] := by decide
example : ntile 3 [10, 11] = some [(10, 1), (11, 2)] := by decide
example : firstValue (fun i => if i = 0 then .null else .int i) true (.between (.preceding 1) (.following 1)) [0, 1, 2]
    = [(0, .int 1), (1, .int 1), (2, .int 1)] := by decide
example : lag exCells false (.str [122]) 2 [0, 1, 2] = [(0, .str [122]), (1, .str [122]), (2, .int 0)] := by decide
example : lead exCells false .null 1 [0, 1, 2] = [(2, .null), (1, .int 2), (0, .int 1)] := by decide
example : aggOver exCells (fun _ vs => vs.length) (.rows (.preceding 1)) [0, 1, 2] = some [(0, 1), (1, 2), (2, 2)] := by decide
example : analyze (fun p => (rowNumber p)) [7, 8, 7, 9, 8] = [some 1, some 1, some 2, some 1, some 2] := by decide

end Csvq.C17
