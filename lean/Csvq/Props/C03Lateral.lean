/-
  C03 — LATERAL joins and sub-queries with an aggregate select list, inside the model.  Property theorems only.

  Model/Lateral.lean mirrors the LATERAL branch of `loadView` (load_view.go) and `EvaluateSequentially` (eval.go):
  the left records are cut into worker chunks, every worker evaluates the sub-select once per record of its range
  (`sub l`, with the record in scope) and joins the one-record view with the result through `joinViews` — so the
  join kinds are the SAME `crossImpl` / `innerImpl` / `outerImpl` the plain joins use —, the results are stored in
  the slot of the record, the header is taken from record 0, the slots are concatenated in record order.

  Every theorem holds for ALL left tables, ALL sub-selects (arbitrary functions of the left record, also failing
  ones), ALL conditions and ALL cuttings of the left record range into worker chunks (= every `--cpu`, every size).
-/
import Csvq.Props.C03
import Csvq.Lemmas.Lateral
namespace Csvq.C03
open Csvq Csvq.Rel

/-! ## the workers: the result does not depend on how the left records are cut into chunks -/

/-- the chunked run (workers, slots of `resultSetList`, header from `rIdx == 0`) is the sequential application:
    one record after the other, the first error in LEFT order, the header of the first record's join -/
theorem lateral_run_eq_seq {ε η} (h0 : η) (chunks : List (List Row)) (fn : Row → Except ε (η × List Row)) :
    latRun h0 chunks fn = latSeq h0 chunks.flatten fn := by
  unfold latRun latSeq
  rw [latWorkers_eq]
  cases mapE fn chunks.flatten with
  | error e => rfl
  | ok ps =>
    cases ps with
    | nil => rfl
    | cons p ps => rfl

/-- every chunking / worker count gives the same answer (records, order, header, error) -/
theorem lateral_indep_chunks {ε} (J : LatJoin) (lw : Nat) (c1 c2 : List (List Row))
    (sub : Row → Except ε (Nat × List Row)) (h : c1.flatten = c2.flatten) :
    latImpl J lw c1 sub = latImpl J lw c2 sub := by
  unfold latImpl
  rw [lateral_run_eq_seq, lateral_run_eq_seq, h]

/-- RIGHT and FULL JOIN LATERAL are refused before any record is looked at -/
theorem lateral_right_full_rejected {ε} (J : LatJoin) (lw : Nat) (chunks : List (List Row))
    (sub : Row → Except ε (Nat × List Row)) (h : J.dir = .right ∨ J.dir = .full) :
    latImpl J lw chunks sub = .error .incorrectLateralUsage := by
  unfold latImpl
  rcases h with h | h <;> simp [h, lateralRejects]

/-! ## one left record: `joinViews` on the one-record view -/

/-- CrossJoin on the one-record view: the record merged with every record of the sub-select -/
theorem lateral_one_cross (l : Row) (s : Nat × List Row) :
    crossImpl [[l]] s.2 = latBlock .inner (fun _ => .T) l s := by
  rw [cross_spec]
  have hf : ∀ xs : List Row, xs.filter (fun _ => true) = xs := by
    intro xs; induction xs with
    | nil => rfl
    | cons a as ih => simp [ih]
  simp [crossSpec, latBlock, hf]

/-- InnerJoin on the one-record view: the merges that satisfy the condition -/
theorem lateral_one_inner (c : Cond) (l : Row) (s : Nat × List Row) :
    innerImpl [[l]] s.2 c = latBlock .inner c l s := by
  rw [inner_spec]
  simp [innerSpec, latBlock]

/-- OuterJoin (LEFT) on the one-record view: the matching merges, or the padded record when there is none -/
theorem lateral_one_left (c : Cond) (lw : Nat) (l : Row) (s : Nat × List Row) :
    outerImpl .left lw s.1 [[l]] s.2 c = latBlock .left c l s := by
  rw [left_outer_spec]
  simp [leftSpec, latBlock]

/-- the join functions applied to ONE left record give that record's block of the specification -/
theorem lateral_join_one_spec (J : LatJoin) (lw : Nat) (l : Row) (s : Nat × List Row)
    (hd : lateralRejects J.dir = false) :
    latJoinOne J lw l s = (lw + s.1, latBlock (latKindOf J.jt J.dir) (latCondOf J) l s) := by
  obtain ⟨jt, dir, cond⟩ := J
  unfold latJoinOne
  congr 1
  cases jt <;> cases dir <;> simp only [lateralRejects, Bool.true_eq_false] at hd <;>
    simp only [joinTypeOf, joinDispatchOf, latKindOf, latCondOf, outerDirOf] <;>
    first
    | exact lateral_one_cross l s
    | exact lateral_one_left (condOf cond) lw l s
    | (cases cond with
       | none => exact lateral_one_cross l s
       | some c => exact lateral_one_inner c l s)

/-! ## impl = spec -/

/-- LATERAL, for every chunking: for each left record in order, the records of `join(l, sub l)`.  The header is
    that of the first record's join — none when there is no left record (finding F15, see below). -/
theorem lateral_impl_eq_spec {ε} (J : LatJoin) (lw : Nat) (chunks : List (List Row)) (sub : Row → Nat × List Row)
    (hd : lateralRejects J.dir = false) :
    latImpl (ε := ε) J lw chunks (fun l => .ok (sub l)) =
      .ok ((match chunks.flatten with | [] => 0 | l :: _ => lw + (sub l).1),
           latSpecRows (latKindOf J.jt J.dir) (latCondOf J) chunks.flatten sub) := by
  unfold latImpl
  rw [hd, lateral_run_eq_seq]
  simp only [Bool.false_eq_true, if_false, latSeq]
  have hfn : latCallback (ε := ε) J lw (fun l => .ok (sub l)) = fun l => .ok (latJoinOne J lw l (sub l)) := by
    funext l; rfl
  rw [hfn, mapE_total]
  simp only [liftErr]
  congr 2
  · cases chunks.flatten with
    | nil => rfl
    | cons l ls => simp only [List.map_cons, lateral_join_one_spec J lw l (sub l) hd]
  · unfold latSpecRows
    rw [List.map_map, List.flatMap_def]
    congr 2
    funext l
    simp only [Function.comp, lateral_join_one_spec J lw l (sub l) hd]

/-- a failing sub-select fails the query with the error of the FIRST failing left record — whatever the chunking;
    without a failure before it a record's result is never lost -/
theorem lateral_impl_eq_seq {ε} (J : LatJoin) (lw : Nat) (chunks : List (List Row))
    (sub : Row → Except ε (Nat × List Row)) (hd : lateralRejects J.dir = false) :
    latImpl J lw chunks sub = liftErr (latSeq 0 chunks.flatten (latCallback J lw sub)) := by
  unfold latImpl
  rw [hd, lateral_run_eq_seq]
  simp

/-! ### several left records fail, with different errors

  With one worker the error of the first failing left record is reported.  With several workers the Go code leaves
  open which worker's error arrives first (`gm.SetError` keeps the first one set); every worker stops at ITS first
  failing record, so the report is the first error of one of the chunks.  The model reports the one of the first
  failing chunk — one of the allowed reports; whether the query fails at all does not depend on the chunking. -/

/-- the errors the Go code may report: the first error of some worker's range -/
def latMayReport {ε η} (chunks : List (List Row)) (fn : Row → Except ε (η × List Row)) (e : ε) : Prop :=
  ∃ ch, ch ∈ chunks ∧ mapE fn ch = .error e

/-- the model's report is one of them -/
theorem lateral_error_is_allowed {ε η} (h0 : η) (chunks : List (List Row)) (fn : Row → Except ε (η × List Row)) (e : ε)
    (he : latRun h0 chunks fn = .error e) : latMayReport chunks fn e := by
  unfold latRun at he
  induction chunks generalizing e with
  | nil => simp [latWorkers] at he
  | cons ch rest ih =>
    have key : ∀ start, (∃ x, latWorkers fn start (ch :: rest) = .error x) →
        ∀ x, latWorkers fn start (ch :: rest) = .error x → latMayReport (ch :: rest) fn x := by
      intro start _ x hx
      rw [latWorkers_eq] at hx
      simp only [List.flatten_cons, mapE_append] at hx
      cases h1 : mapE fn ch with
      | error e1 =>
        rw [h1] at hx
        simp only [Except.error.injEq] at hx
        exact ⟨ch, List.mem_cons_self, hx ▸ h1⟩
      | ok ps =>
        rw [h1] at hx
        simp only at hx
        cases h2 : mapE fn rest.flatten with
        | ok qs => rw [h2] at hx; cases hx
        | error e2 =>
          rw [h2] at hx
          simp only [Except.error.injEq] at hx
          subst hx
          have hrest : latRun h0 rest fn = .error e2 := by
            unfold latRun
            rw [latWorkers_eq, h2]
          obtain ⟨c, hc, hce⟩ := ih e2 (by unfold latRun at hrest; exact hrest)
          exact ⟨c, List.mem_cons_of_mem _ hc, hce⟩
    cases hw : latWorkers fn 0 (ch :: rest) with
    | ok p => rw [hw] at he; obtain ⟨a, b⟩ := p; cases he
    | error x =>
      rw [hw] at he
      simp only [Except.error.injEq] at he
      subst he
      exact key 0 ⟨x, hw⟩ x hw

/-- every allowed report is the error of a left record before which, in its worker's range, no record fails -/
theorem lateral_allowed_error_spec {ε η} (chunks : List (List Row)) (fn : Row → Except ε (η × List Row)) (e : ε) :
    latMayReport chunks fn e ↔
      ∃ ch pre l post, ch ∈ chunks ∧ ch = pre ++ l :: post ∧ (∀ y, y ∈ pre → ∃ b, fn y = .ok b) ∧ fn l = .error e := by
  unfold latMayReport
  constructor
  · rintro ⟨ch, hch, he⟩
    obtain ⟨pre, l, post, h1, h2, h3⟩ := (mapE_error_iff fn ch e).mp he
    exact ⟨ch, pre, l, post, hch, h1, h2, h3⟩
  · rintro ⟨ch, pre, l, post, hch, h1, h2, h3⟩
    exact ⟨ch, hch, (mapE_error_iff fn ch e).mpr ⟨pre, l, post, h1, h2, h3⟩⟩

/-- one worker (`--cpu 1`, or fewer records than a worker takes): exactly the first failing left record's error -/
theorem lateral_single_worker_error {ε η} (L : List Row) (fn : Row → Except ε (η × List Row)) (e : ε) :
    latMayReport [L] fn e ↔ mapE fn L = .error e := by
  simp [latMayReport]

/-- whether the join fails does not depend on the chunking: it fails iff the sub-select fails for some left record -/
theorem lateral_fails_iff_some_record_fails {ε η} (h0 : η) (chunks : List (List Row)) (fn : Row → Except ε (η × List Row)) :
    (∃ e, latRun h0 chunks fn = .error e) ↔ ∃ l e, l ∈ chunks.flatten ∧ fn l = .error e := by
  rw [lateral_run_eq_seq]
  unfold latSeq
  constructor
  · rintro ⟨e, he⟩
    cases hm : mapE fn chunks.flatten with
    | ok ps => rw [hm] at he; cases he
    | error e' =>
      obtain ⟨pre, l, post, h1, _, h3⟩ := (mapE_error_iff fn _ e').mp hm
      exact ⟨l, e', by rw [h1]; simp, h3⟩
  · rintro ⟨l, e, hl, hf⟩
    cases hm : mapE fn chunks.flatten with
    | error e' => exact ⟨e', rfl⟩
    | ok ps =>
      exfalso
      have : ∀ (L : List Row) (qs : List (η × List Row)), mapE fn L = .ok qs → ∀ x, x ∈ L → ∃ b, fn x = .ok b := by
        intro L
        induction L with
        | nil => intro _ _ x hx; cases hx
        | cons a as ih =>
          intro qs hq x hx
          simp only [mapE] at hq
          cases ha : fn a with
          | error e1 => rw [ha] at hq; cases hq
          | ok b =>
            rw [ha] at hq
            cases hr : mapE fn as with
            | error e2 => rw [hr] at hq; cases hq
            | ok bs =>
              rcases List.mem_cons.mp hx with rfl | hx
              · exact ⟨b, ha⟩
              · exact ih bs hr x hx
      obtain ⟨b, hb⟩ := this _ ps hm l hl
      rw [hf] at hb
      cases hb

/-- against the property's full statement (header included): equal whenever there is a left record -/
theorem lateral_spec_nonempty {ε} (J : LatJoin) (lw w : Nat) (chunks : List (List Row)) (sub : Row → Nat × List Row)
    (hd : lateralRejects J.dir = false) (hw : ∀ l, (sub l).1 = w) (hne : chunks.flatten ≠ []) :
    latImpl (ε := ε) J lw chunks (fun l => .ok (sub l)) =
      .ok (latSpec (latKindOf J.jt J.dir) (latCondOf J) lw w chunks.flatten sub) := by
  rw [lateral_impl_eq_spec J lw chunks sub hd]
  unfold latSpec
  cases h : chunks.flatten with
  | nil => exact absurd h hne
  | cons l ls => simp only [hw]

/- the full statement
     theorem lateral_spec … : latImpl J lw chunks (fun l => .ok (sub l)) = .ok (latSpec k c lw w chunks.flatten sub)
   is FALSE for an empty left table: the header is lost (finding F15; `hfields` is assigned only inside the callback,
   `if rIdx == 0`).  Reproducer:
     DECLARE le VIEW (a, b); DECLARE lt VIEW (k, ob);
     SELECT * FROM le AS e CROSS JOIN LATERAL (SELECT t.ob FROM lt AS t WHERE t.k = e.a) AS s;   -- no header -/
theorem lateral_empty_left_header_counterexample :
    ∃ (J : LatJoin) (lw w : Nat) (sub : Row → Nat × List Row), lateralRejects J.dir = false ∧ (∀ l, (sub l).1 = w) ∧
      latImpl (ε := Unit) J lw [[]] (fun l => .ok (sub l)) ≠
        .ok (latSpec (latKindOf J.jt J.dir) (latCondOf J) lw w [] sub) :=
  ⟨⟨.cross, .absent, none⟩, 2, 1, fun _ => (1, []), rfl, fun _ => rfl, by
    simp [latImpl, lateralRejects, latRun, latWorkers, latWorker, liftErr, latSpec, latSpecRows]⟩

/-- … and the records are right also then: only the header is affected -/
theorem lateral_rows_always {ε} (J : LatJoin) (lw : Nat) (chunks : List (List Row)) (sub : Row → Nat × List Row)
    (hd : lateralRejects J.dir = false) :
    (latImpl (ε := ε) J lw chunks (fun l => .ok (sub l))).toOption.map (fun p => p.2) =
      some (latSpecRows (latKindOf J.jt J.dir) (latCondOf J) chunks.flatten sub) := by
  rw [lateral_impl_eq_spec J lw chunks sub hd]; rfl

/-! ## the spellings -/

/-- `LEFT JOIN LATERAL` and `LEFT OUTER JOIN LATERAL` are the same join -/
theorem lateral_left_outer_spelling {ε} (cond : Option Cond) (lw : Nat) (chunks : List (List Row))
    (sub : Row → Except ε (Nat × List Row)) :
    latImpl ⟨.absent, .left, cond⟩ lw chunks sub = latImpl ⟨.outer, .left, cond⟩ lw chunks sub := rfl

/-- `JOIN LATERAL` and `INNER JOIN LATERAL` are the same join -/
theorem lateral_inner_spelling {ε} (cond : Option Cond) (lw : Nat) (chunks : List (List Row))
    (sub : Row → Except ε (Nat × List Row)) :
    latImpl ⟨.absent, .absent, cond⟩ lw chunks sub = latImpl ⟨.inner, .absent, cond⟩ lw chunks sub := rfl

/-- `FROM t, LATERAL (…)` is `t CROSS JOIN LATERAL (…)`, and both are the inner form with the condition TRUE -/
theorem lateral_from_list_is_cross {ε} (lw : Nat) (chunks : List (List Row)) (sub : Row → Nat × List Row) :
    latImpl (ε := ε) ⟨fromListJType, fromListJDir, none⟩ lw chunks (fun l => .ok (sub l)) =
      latImpl ⟨.cross, .absent, none⟩ lw chunks (fun l => .ok (sub l)) ∧
    latImpl (ε := ε) ⟨.cross, .absent, none⟩ lw chunks (fun l => .ok (sub l)) =
      latImpl ⟨.inner, .absent, some (fun _ => .T)⟩ lw chunks (fun l => .ok (sub l)) := by
  refine ⟨rfl, ?_⟩
  rw [lateral_impl_eq_spec _ lw chunks sub rfl, lateral_impl_eq_spec _ lw chunks sub rfl]
  rfl

/-! ## the outer form pads exactly the unmatched left records -/

/-- a left record without a partner contributes exactly its NULL-padded copy, one with partners exactly its
    matching merges (every one of them satisfies the condition: no padding is added) -/
theorem lateral_left_pads_exactly_unmatched (c : Cond) (l : Row) (s : Nat × List Row) :
    ((∀ r, r ∈ s.2 → c (l ++ r) ≠ .T) → latBlock .left c l s = [l ++ nulls s.1]) ∧
    ((∃ r, r ∈ s.2 ∧ c (l ++ r) = .T) →
      latBlock .left c l s = latBlock .inner c l s ∧
      ∀ x, x ∈ latBlock .left c l s → ∃ r, r ∈ s.2 ∧ c (l ++ r) = .T ∧ x = l ++ r) := by
  constructor
  · intro h
    have : s.2.filter (fun r => c (l ++ r) = .T) = [] := by
      rw [List.filter_eq_nil_iff]
      intro r hr
      simpa using h r hr
    simp [latBlock, this]
  · rintro ⟨r, hr, hT⟩
    have hne : (s.2.filter (fun r => c (l ++ r) = .T)).isEmpty = false := by
      rw [List.isEmpty_eq_false_iff]
      intro h
      have : r ∈ s.2.filter (fun r => c (l ++ r) = .T) := by simp [hr, hT]
      rw [h] at this
      cases this
    refine ⟨by simp [latBlock, hne], ?_⟩
    intro x hx
    simp only [latBlock, hne, Bool.false_eq_true, if_false, List.mem_map, List.mem_filter, decide_eq_true_eq] at hx
    obtain ⟨r', ⟨hr', hT'⟩, rfl⟩ := hx
    exact ⟨r', hr', hT', rfl⟩

/-- what exactly `LEFT JOIN LATERAL` contains -/
theorem lateral_left_mem_iff (c : Cond) (L : List Row) (sub : Row → Nat × List Row) (x : Row) :
    x ∈ latSpecRows .left c L sub ↔
      ∃ l, l ∈ L ∧ ((∃ r, r ∈ (sub l).2 ∧ c (l ++ r) = .T ∧ x = l ++ r) ∨
        ((∀ r, r ∈ (sub l).2 → c (l ++ r) ≠ .T) ∧ x = l ++ nulls (sub l).1)) := by
  unfold latSpecRows
  rw [List.mem_flatMap]
  constructor
  · rintro ⟨l, hl, hx⟩
    refine ⟨l, hl, ?_⟩
    by_cases h : ∃ r, r ∈ (sub l).2 ∧ c (l ++ r) = .T
    · obtain ⟨r, hr, hT, rfl⟩ := ((lateral_left_pads_exactly_unmatched c l (sub l)).2 h).2 x hx
      exact Or.inl ⟨r, hr, hT, rfl⟩
    · have hall : ∀ r, r ∈ (sub l).2 → c (l ++ r) ≠ .T := fun r hr hT => h ⟨r, hr, hT⟩
      rw [(lateral_left_pads_exactly_unmatched c l (sub l)).1 hall] at hx
      exact Or.inr ⟨hall, by simpa using hx⟩
  · rintro ⟨l, hl, h⟩
    refine ⟨l, hl, ?_⟩
    rcases h with ⟨r, hr, hT, rfl⟩ | ⟨hall, rfl⟩
    · rw [((lateral_left_pads_exactly_unmatched c l (sub l)).2 ⟨r, hr, hT⟩).1]
      simp only [latBlock, List.mem_map, List.mem_filter, decide_eq_true_eq]
      exact ⟨r, ⟨hr, hT⟩, rfl⟩
    · rw [(lateral_left_pads_exactly_unmatched c l (sub l)).1 hall]
      simp

/-- the padded copy of a left record is in its block iff the record has no partner (no record of the sub-select
    consisting of NULLs only — matched, it would be indistinguishable from the padding) -/
theorem lateral_padding_iff_unmatched (c : Cond) (l : Row) (s : Nat × List Row) (hN : nulls s.1 ∉ s.2) :
    (l ++ nulls s.1) ∈ latBlock .left c l s ↔ ¬ ∃ r, r ∈ s.2 ∧ c (l ++ r) = .T := by
  constructor
  · rintro hmem ⟨r, hr, hT⟩
    obtain ⟨r', hr', _, heq⟩ := ((lateral_left_pads_exactly_unmatched c l s).2 ⟨r, hr, hT⟩).2 _ hmem
    exact hN ((List.append_cancel_left heq) ▸ hr')
  · intro h
    rw [(lateral_left_pads_exactly_unmatched c l s).1 (fun r hr hT => h ⟨r, hr, hT⟩)]
    simp

/-- multiplicities: one record per partner, exactly one for a left record without partner -/
theorem lateral_left_length (c : Cond) (L : List Row) (sub : Row → Nat × List Row) :
    (latSpecRows .left c L sub).length =
      (L.map (fun l => max 1 ((sub l).2.countP (fun r => c (l ++ r) = .T)))).sum := by
  unfold latSpecRows
  induction L with
  | nil => rfl
  | cons l ls ih =>
    simp only [List.flatMap_cons, List.length_append, List.map_cons, List.sum_cons, ih]
    congr 1
    rw [List.countP_eq_length_filter]
    unfold latBlock
    cases h : (sub l).2.filter (fun r => decide (c (l ++ r) = .T)) with
    | nil => simp
    | cons a as => simp <;> omega

/-! ## order: the blocks follow the left records -/

/-- the left part of the result, record by record, is the left table with every record repeated as often as it
    contributes: left order is kept, nothing is interleaved -/
theorem lateral_keeps_left_order (k : LKind) (c : Cond) (lw : Nat) (L : List Row) (sub : Row → Nat × List Row)
    (hL : ∀ l, l ∈ L → l.length = lw) :
    (latSpecRows k c L sub).map (List.take lw) =
      L.flatMap (fun l => List.replicate (latBlock k c l (sub l)).length l) := by
  unfold latSpecRows
  induction L with
  | nil => rfl
  | cons l ls ih =>
    simp only [List.flatMap_cons, List.map_append]
    rw [ih (fun x hx => hL x (List.mem_cons_of_mem _ hx))]
    congr 1
    have hl : l.length = lw := hL l List.mem_cons_self
    apply List.ext_getElem
    · simp
    · intro i h1 h2
      simp only [List.getElem_map, List.getElem_replicate]
      have hx : (latBlock k c l (sub l))[i]'(by simpa using h1) ∈ latBlock k c l (sub l) := List.getElem_mem _
      have : ∃ t, (latBlock k c l (sub l))[i]'(by simpa using h1) = l ++ t := by
        revert hx
        generalize (latBlock k c l (sub l))[i]'(by simpa using h1) = x
        intro hx
        cases k with
        | inner =>
          simp only [latBlock, List.mem_map] at hx
          obtain ⟨r, _, rfl⟩ := hx
          exact ⟨r, rfl⟩
        | left =>
          simp only [latBlock] at hx
          split at hx
          · simp only [List.mem_singleton] at hx
            exact ⟨_, hx⟩
          · simp only [List.mem_map] at hx
            obtain ⟨r, _, rfl⟩ := hx
            exact ⟨r, rfl⟩
      obtain ⟨t, ht⟩ := this
      rw [ht, ← hl, List.take_left]

/-- every left record survives `LEFT JOIN LATERAL`, in its place: the left table is a sub-sequence of the left
    parts of the result -/
theorem lateral_left_keeps_every_left_row (c : Cond) (lw : Nat) (L : List Row) (sub : Row → Nat × List Row)
    (hL : ∀ l, l ∈ L → l.length = lw) :
    List.Sublist L ((latSpecRows .left c L sub).map (List.take lw)) := by
  rw [lateral_keeps_left_order .left c lw L sub hL]
  clear hL
  induction L with
  | nil => exact List.Sublist.slnil
  | cons l ls ih =>
    simp only [List.flatMap_cons]
    have hpos : 1 ≤ (latBlock .left c l (sub l)).length := by
      simp only [latBlock]
      split
      · simp
      · rename_i h
        rw [List.length_map]
        cases hf : (sub l).2.filter (fun r => decide (c (l ++ r) = .T)) with
        | nil => simp [hf] at h
        | cons a as => simp
    obtain ⟨n, hn⟩ : ∃ n, (latBlock .left c l (sub l)).length = n + 1 := ⟨_, (Nat.sub_add_cancel hpos).symm⟩
    rw [hn, List.replicate_succ, List.cons_append]
    exact List.Sublist.cons_cons l (ih.trans (List.sublist_append_right _ _))

/-! ## LATERAL over a sub-select that ignores the left record is the plain join -/

theorem lateral_constant_sub_eq_join (wr : Nat) (L R : List Row) (c : Cond) :
    latSpecRows .inner c L (fun _ => (wr, R)) = innerSpec L R c ∧
    latSpecRows .left c L (fun _ => (wr, R)) = leftSpec wr L R c := by
  constructor <;> simp [latSpecRows, latBlock, innerSpec, leftSpec]

/-! ## sub-queries whose select list is an aggregate (no GROUP BY): always exactly one record -/

/-- exactly one record with one field, whatever the source holds — also for no source record at all -/
theorem aggregate_subquery_always_one_row (agg : List Profile → Profile) (arg : Row → Profile) (rows : List Row) :
    (aggQuery agg arg rows).1 = 1 ∧ (aggQuery agg arg rows).2.length = 1 ∧
    (aggQuery agg arg rows).2 = [[agg (rows.map arg)]] ∧ (aggQuery agg arg []).2 = [[agg []]] :=
  ⟨rfl, rfl, rfl, rfl⟩

/-- EXISTS: TRUE iff the sub-query result has at least one record, FALSE otherwise — never UNKNOWN; an error of
    the sub-query is the error of the condition -/
theorem exists_spec (subs : SubEnv) (lw : Nat) (r : Row) (s : Nat) :
    (∀ res, subs s = .ok res →
      (evalCondE subs lw r (.exists s) = .ok .T ↔ 1 ≤ res.2.length) ∧
      (evalCondE subs lw r (.exists s) = .ok .F ↔ res.2.length = 0)) ∧
    (∀ e, subs s = .error e → evalCondE subs lw r (.exists s) = .error e) := by
  constructor
  · intro res h
    simp only [evalCondE, h, existsOf]
    cases res.2 with
    | nil => simp [Tern.ofBool]
    | cons a as => simp [Tern.ofBool]
  · intro e h
    simp only [evalCondE, h]

/-- so EXISTS over an aggregate sub-query is TRUE for every record, NOT EXISTS is FALSE -/
theorem exists_over_aggregate_is_true (subs : SubEnv) (lw : Nat) (r : Row) (s : Nat)
    (agg : List Profile → Profile) (arg : Row → Profile) (rows : List Row) (h : subs s = .ok (aggQuery agg arg rows)) :
    evalCondE subs lw r (.exists s) = .ok .T ∧ evalCondE subs lw r (.not (.exists s)) = .ok .F := by
  have h1 : evalCondE subs lw r (.exists s) = .ok .T := ((exists_spec subs lw r s).1 _ h).1.mpr (by simp [aggQuery])
  refine ⟨h1, ?_⟩
  simp only [evalCondE] at h1 ⊢
  rw [h1]
  rfl

/-- a scalar aggregate sub-query never fails with "too many records" and is never replaced by NULL: its value is
    the aggregate of the source's values (COUNT over no record: the aggregate of the empty list) -/
theorem scalar_over_aggregate_is_value (agg : List Profile → Profile) (arg : Row → Profile) (rows : List Row) :
    scalarOf (aggQuery agg arg rows) = .ok (agg (rows.map arg)) := by
  simp [scalarOf, aggQuery]

/-- `x IN (aggregate sub-query)` compares with exactly one value -/
theorem in_over_aggregate_is_singleton (agg : List Profile → Profile) (arg : Row → Profile) (rows : List Row) :
    listOf (aggQuery agg arg rows) = .ok [agg (rows.map arg)] := by
  simp [listOf, aggQuery]

/-- `LEFT JOIN LATERAL (aggregate sub-select) ON TRUE` never pads: every left record has exactly one partner -/
theorem lateral_over_aggregate_one_row_each (agg : List Profile → Profile) (arg : Row → Row → Profile)
    (src : Row → List Row) (L : List Row) :
    latSpecRows .left (fun _ => .T) L (fun l => aggQuery agg (arg l) (src l)) =
      L.map (fun l => l ++ [agg ((src l).map (arg l))]) ∧
    latSpecRows .left (fun _ => .T) L (fun l => aggQuery agg (arg l) (src l)) =
      latSpecRows .inner (fun _ => .T) L (fun l => aggQuery agg (arg l) (src l)) := by
  unfold latSpecRows
  constructor <;> induction L with
  | nil => rfl
  | cons l ls ih =>
    simp [List.flatMap_cons, latBlock, aggQuery] at ih ⊢ <;> exact ih

/-! ## the model against the source as it stands (lean/Csvq/Gen/RelFacts.lean, regenerated on every run)

  extract/relfacts translates the guards of the LATERAL branch, the join-type defaults and dispatch of `joinViews`,
  `LoadView`'s comma join and the length tests of the sub-query functions into Lean functions; a reordered guard, a
  dropped case or another record index breaks one of these equalities. -/

/-- the refused directions are RIGHT and FULL, exactly -/
theorem gen_lateral_rejects_eq_model (d : JDir) : Gen.lateralRejected d = lateralRejects d := by
  cases d <;> rfl

/-- the header is taken from the record the worker model takes it from: `rIdx == 0` -/
theorem gen_lateral_header_at_eq_model (rIdx : Nat) (h h' : Option Nat) :
    (if Gen.lateralHeaderAt rIdx then h else h') = (if rIdx = 0 then h else h') := by
  simp [Gen.lateralHeaderAt]

/-- no join type written: INNER without a direction, OUTER with one; then CROSS / INNER / OUTER go to the three
    join functions — as `latJoinOne` dispatches -/
theorem gen_join_type_eq_model (jt : JType) (dir : JDir) :
    Gen.joinTypeDefaulted jt dir = joinTypeOf jt dir ∧ Gen.joinDispatched jt = joinDispatchOf jt := by
  cases jt <;> cases dir <;> exact ⟨rfl, rfl⟩

/-- OuterJoin without a direction works as LEFT -/
theorem gen_outer_direction_eq_model (d : JDir) : Gen.outerDirection d = outerDirOf d := by
  cases d <;> rfl

/-- a comma in the FROM list is a CROSS join without direction -/
theorem gen_from_list_join_eq_model :
    Gen.fromListJoinType = fromListJType ∧ Gen.fromListJoinDir = fromListJDir := ⟨rfl, rfl⟩

/-- the LATERAL branch, statement by statement, is the reviewed one (callback, slots, assembly, header) -/
theorem gen_lateral_bodies_eq_ref :
    Gen.lateralGuard = Ref.lateralGuard ∧ Gen.joinCaseBody = Ref.joinCaseBody ∧
    Gen.lateralPrelude = Ref.lateralPrelude ∧ Gen.lateralCallback = Ref.lateralCallback ∧
    Gen.lateralAssembly = Ref.lateralAssembly ∧ Gen.lateralJoinAndSlot = Ref.lateralJoinAndSlot ∧
    Gen.fromListLoop = Ref.fromListLoop := ⟨rfl, rfl, rfl, rfl, rfl, rfl, rfl⟩

/-- EXISTS as translated from `evalExists` is the model's: FALSE iff the result has no record, never UNKNOWN -/
theorem gen_exists_eq_model (res : Nat × List Row) :
    Gen.existsOutcome res.1 res.2.length = .tern (existsOf res) := by
  unfold Gen.existsOutcome existsOf
  cases res.2 with
  | nil => simp [Tern.ofBool]
  | cons a as => simp [Tern.ofBool]

/-- the scalar sub-query as translated from `evalSubqueryForValue` is the model's `scalarOf` (a query always has a field) -/
theorem gen_scalar_eq_model (res : Nat × List Row) (hf : 1 ≤ res.1) :
    scalarBy (Gen.scalarOutcome res.1 res.2.length) res = scalarOf res := by
  obtain ⟨w, rows⟩ := res
  unfold Gen.scalarOutcome scalarOf
  simp only at hf ⊢
  by_cases h1 : 1 < w
  · simp [h1, scalarBy]
  · have h2 : ¬ w < 1 := by omega
    simp only [h1, h2, decide_false, decide_true, Bool.false_eq_true, if_false]
    match rows with
    | [] => simp [scalarBy]
    | [r] => simp [scalarBy]
    | _ :: _ :: _ => simp [scalarBy]

/-- the list of IN / ANY / ALL as translated from `evalSubqueryForArray` is the model's `listOf` -/
theorem gen_array_eq_model (res : Nat × List Row) (hf : 1 ≤ res.1) :
    listBy (Gen.arrayOutcome res.1 res.2.length) res = listOf res := by
  obtain ⟨w, rows⟩ := res
  unfold Gen.arrayOutcome listOf
  simp only at hf ⊢
  by_cases h1 : 1 < w
  · simp [h1, listBy]
  · have h2 : ¬ w < 1 := by omega
    simp only [h1, h2, decide_false, Bool.false_eq_true, if_false]
    cases rows with
    | nil => simp [listBy]
    | cons a as => simp [listBy]

/-- which function evaluates which node: IN, ANY, ALL, EXISTS and a sub-query used as a value go to the functions the
    model's `evalCondE` / `evalExprE` mirror; IN is `= ANY`, NOT IN is `<> ALL` (as `evalIn` of the model) -/
theorem gen_eval_dispatch_eq_ref :
    Gen.evalDispatch = Ref.evalDispatch ∧
    "parser.In→evalIn" ∈ Gen.evalDispatch ∧ "parser.Any→evalAny" ∈ Gen.evalDispatch ∧
    "parser.All→evalAll" ∈ Gen.evalDispatch ∧ "parser.Exists→evalExists" ∈ Gen.evalDispatch ∧
    "parser.Subquery→evalSubqueryForValue" ∈ Gen.evalDispatch ∧
    Gen.inQuantifiers = ["All <>", "Any ="] ∧
    (∀ v l, evalIn true v l = evalAll .ne v l) ∧ (∀ v l, evalIn false v l = evalAny .eq v l) := by
  refine ⟨rfl, by decide, by decide, by decide, by decide, by decide, rfl, ?_, ?_⟩ <;> intro v l <;> simp [evalIn]

/-- the sub-query functions, statement by statement, are the reviewed ones -/
theorem gen_subquery_bodies_eq_ref :
    Gen.existsOutcomeBody = Ref.existsOutcomeBody ∧ Gen.scalarOutcomeBody = Ref.scalarOutcomeBody ∧
    Gen.arrayOutcomeBody = Ref.arrayOutcomeBody ∧ Gen.evalInBody = Ref.evalInBody ∧
    Gen.evalAnyBody = Ref.evalAnyBody ∧ Gen.evalAllBody = Ref.evalAllBody ∧
    Gen.evalArrayBody = Ref.evalArrayBody ∧ Gen.inQuantifiers = Ref.inQuantifiers :=
  ⟨rfl, rfl, rfl, rfl, rfl, rfl, rfl, rfl⟩

/-! ## non-vacuity -/

/-- the sub-select of the examples: the records of a fixed table whose cell equals the left record's -/
def subEq (R : List Row) : Row → Nat × List Row := fun l => (1, R.filter (fun r => eq01 (l ++ r) = .T))

-- three workers, the sub-select is empty for the SECOND and the last record (not for the first)
example : latImpl (ε := Unit) ⟨.absent, .left, some (fun _ => .T)⟩ 1 [[[cI 1]], [[cI 2], [cI 3]], [[cI 4]]]
      (fun l => .ok (subEq [[cI 3], [cI 1], [cI 3]] l))
    = .ok (2, [[cI 1, cI 1], [cI 2, nullP], [cI 3, cI 3], [cI 3, cI 3], [cI 4, nullP]]) := by decide
example : latImpl (ε := Unit) ⟨.cross, .absent, none⟩ 1 [[[cI 1], [cI 2]], [[cI 3]]]
      (fun l => .ok (subEq [[cI 3], [cI 1], [cI 3]] l))
    = .ok (2, [[cI 1, cI 1], [cI 3, cI 3], [cI 3, cI 3]]) := by decide
-- an error of the sub-select for the third record, whatever worker meets it
example : latImpl ⟨.inner, .absent, none⟩ 1 [[[cI 1], [cI 2]], [[cI 3]], [[cI 4]]]
      (fun l => if l = [cI 3] then .error "e3" else if l = [cI 4] then .error "e4" else .ok (1, [l]))
    = .error (.sub "e3") := by decide
-- two workers fail differently: the model reports the first chunk's error; the second chunk's is an allowed report too
example : latMayReport (η := Nat) [[[cI 1], [cI 3]], [[cI 4]]]
      (fun l => if l = [cI 3] then .error "e3" else if l = [cI 4] then .error "e4" else .ok (1, [l])) "e4" :=
  ⟨[[cI 4]], by simp, by decide⟩
example : latImpl (ε := Unit) ⟨.outer, .full, none⟩ 1 [[[cI 1]]] (fun l => .ok (1, [l])) = .error .incorrectLateralUsage := by
  decide
example : (latImpl (ε := Unit) ⟨.outer, .left, none⟩ 2 [] (fun l => .ok (1, [l]))) = .ok (0, []) := by decide
example : latBlock .left eq01 [cI 2] (1, [[cI 3]]) = [[cI 2, nullP]] ∧ latBlock .left eq01 [cI 3] (1, [[cI 3]]) = [[cI 3, cI 3]] := by
  decide
example : (latSpecRows .left eq01 [[cI 1], [cI 2]] (fun _ => (1, [[cI 2], [cI 2]]))).map (List.take 1)
    = [[cI 1], [cI 2], [cI 2]] := by decide
example : aggQuery (fun l => cI l.length) (fun r => r.headD nullP) [] = (1, [[cI 0]]) := by decide
example : evalCondE (fun _ => .ok (aggQuery (fun l => cI l.length) (fun r => r.headD nullP) [])) 0 [] (.exists 0) = .ok .T := by
  decide
example : evalCondE (fun _ => .ok (1, [])) 0 [] (.exists 0) = .ok .F := by decide
example : Gen.lateralRejected .full = true ∧ Gen.lateralRejected .left = false := by decide
example : Gen.joinTypeDefaulted .absent .left = .outer ∧ Gen.joinDispatched .outer = some .outer := by decide
example : Gen.scalarOutcome 1 0 = .null ∧ Gen.scalarOutcome 1 2 = .tooManyRecords ∧ Gen.scalarOutcome 2 1 = .tooManyFields := by
  decide
example : Gen.existsOutcome 1 0 = .tern .F ∧ Gen.existsOutcome 1 1 = .tern .T := by decide
example : Gen.arrayOutcome 1 3 = .firstColumn ∧ Gen.arrayOutcome 1 0 = .empty := by decide

end Csvq.C03
