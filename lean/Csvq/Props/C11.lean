/-
  C11 — no surviving run leaves lock/temp/half-created files; reads modify nothing.
  Property theorems only, over the effect lists REGENERATED from lib/file/handler.go and the lock
  protocol model (Model/Lock.lean, proved invariant in Props/C09).
-/
import Csvq.Lemmas.Commit
import Csvq.Lemmas.Lock
import Csvq.Props.C09
import Csvq.Gen.FsProto
import Csvq.Ref.FsProto
namespace Csvq.C11
open Csvq.Commit

/-- a handler opened for read or update (not ForCreate) keeps its data file on close -/
def closeOpsExisting (l : List String) : List FsOp := (l.filter (· ≠ "remove(h.path)")).map parseOp

/-- Handler.close (ROLLBACK, normal release) removes every control file the handler made -/
theorem close_releases_all : releasesAll (closeOpsExisting Csvq.Gen.closeOps) = true := by decide

/-- Handler.closeWithErrors (the deferred path after an error / EXIT / signal) does so as well,
    and never stops at a failing step (no `return` between the removals) -/
theorem close_with_errors_releases_all :
    releasesAll (closeOpsExisting Csvq.Gen.closeWithErrorsOps) = true ∧
    Csvq.Gen.fxHandlerCloseWithErrors.filter (· = "return") = ["return"] := by decide

/-- commit of a handler that was not opened for update (created table, read handler) leaves nothing -/
theorem commit_other_releases_all : releasesAll (Csvq.Gen.commitOtherOps.map parseOp) = true := by decide

/-- closing never changes the contents of an existing table, whatever they are -/
theorem close_keeps_data {α} (old new : α) :
    (runOps (closeOpsExisting Csvq.Gen.closeWithErrorsOps) (startUpdate old new)).data = some old ∧
    (runOps (closeOpsExisting Csvq.Gen.closeOps) (startUpdate old new)).data = some old := by
  have h1 : (runOps (closeOpsExisting Csvq.Gen.closeWithErrorsOps) symStart).data = some false := by decide
  have h2 : (runOps (closeOpsExisting Csvq.Gen.closeOps) symStart).data = some false := by decide
  constructor
  · rw [← sym_start old new, ← map_run]; simp [TState.map, h1]
  · rw [← sym_start old new, ← map_run]; simp [TState.map, h2]

/-- a table created in this transaction (ForCreate) is removed again when its handler is closed
    without commit: `remove(h.path)` is among the close operations, guarded by the open type -/
theorem uncommitted_created_file_removed :
    "remove(h.path)" ∈ Csvq.Gen.closeOps ∧ "remove(h.path)" ∈ Csvq.Gen.closeWithErrorsOps ∧
    "if[h.openType == ForCreate && Exists(h.path)]{" ∈ Csvq.Gen.fxHandlerClose ∧
    "if[h.openType == ForCreate && Exists(h.path)]{" ∈ Csvq.Gen.fxHandlerCloseWithErrors := by decide

/-- reading never writes: opening a table for read creates only an rlock (under the lock) and opens
    the data file shared; no create / truncate / remove / rename of the data file appears -/
theorem read_path_touches_no_data :
    Csvq.Gen.fxNewHandlerForRead.filter
        (fun s => s ∈ ["remove(h.path)", "rename(h.tempFile.path,h.path)", "create_excl(h.path)", "truncate", "write", "control_file(Lock)", "control_file(Temporary)", "open_exclusive(path)"]) = [] := by
  decide

/-- a process that gave up waiting for a lock owns no control file (from the protocol invariant) -/
theorem timeout_leaves_nothing (s : Csvq.Lock.State) (h : Csvq.Lock.Reachable s) (p : Csvq.Lock.Pid)
    (hp : s.pc p = .wCheck ∨ s.pc p = .rCheck) : s.lockOwner ≠ some p ∧ s.rlock p = false :=
  Csvq.C09.timeout_changes_nothing s h p hp

/-- a finished process (committed, closed, or timed out) owns no control file -/
theorem done_leaves_nothing (s : Csvq.Lock.State) (h : Csvq.Lock.Reachable s) (p : Csvq.Lock.Pid)
    (hp : s.pc p = .done) : s.lockOwner ≠ some p ∧ s.rlock p = false := by
  have inv := Csvq.C09.inv_reachable s h
  constructor
  · intro e; have := (inv.owner p).mp e; simp [hp, Csvq.Lock.ownsLockPc] at this
  · cases hr : s.rlock p
    · rfl
    · have := (inv.rl p).mp hr; simp [hp, Csvq.Lock.hasRLockPc] at this

theorem gen_close_eq_ref : Csvq.Gen.fxHandlerClose = Csvq.Ref.fxHandlerClose := by decide
theorem gen_closeerr_eq_ref : Csvq.Gen.fxHandlerCloseWithErrors = Csvq.Ref.fxHandlerCloseWithErrors := by decide

end Csvq.C11
