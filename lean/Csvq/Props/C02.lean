/-
  C02 — what csvq writes to a table file or result stream reads back as the same table.

  Property theorems only (helper lemmas: Csvq/Lemmas/Csv.lean, CsvRect.lean, Ltsv.lean, Fixed.lean, FixedAuto.lean,
  Json.lean, JsonTable.lean, JsonLex.lean, JsonPath.lean, Encoding.lean, EncFacts.lean).
  All theorems quantify over ALL tables: any number of rows and columns, any cell text over all
  characters (`List Char`, i.e. the text after transcoding; the transcoders are a parameter of the
  property — section "transcoding" below: any sound encoder / decoder pair, with UTF-8, UTF-8 with BOM and
  UTF-16 modelled and proved sound), NULL a distinguished cell.  `decode… (file… t)` is the composition
  "what `EncodeView` + the ending line break put into the file" ∘ "what the loader makes of it".

  CSV / TSV.  The statement that applies to the code (since /repo 3f80460, where `encodeCSV` marks
  a field containing CR or LF for quoting; modelled by `o.quoteLB = true`, and re-probed on the real
  writer on every run — the harness passes the observed rule to the model writer) is

      csv_roundtrip : DelimOK o.delim → o.quoteLB = true → Spellable o t →
                      ∃ b, fileCsv o t = ok b ∧ decodeCsv o b = ok (canon o t)

  for every table and every setting, with `Spellable` = rectangular, ≥ 1 column, "no header ⇒ ≥ 1
  row" (`DataEmpty` otherwise, `csv_refuse_empty`) and two exceptions that are defects of the
  dependency's reader / of the ending line break, confirmed on the real code (law names in brackets)
  and witnessed below on the model:
    (F23) a record consisting of one empty field is dropped by the reader, also when it is
          spelled `""`                                             [roundtrip:csv:single_column_empty]
          → `csv_single_column_empty_counterexample`
    (F24) with --line-break CR the ending line break is a bare CR at end of input, on which the
          reader fails (`UnreadRune` after a failed `ReadRune`)    [roundtrip:csv:cr_ending_line_break]
          → `csv_cr_ending_counterexample`
  `Spellable` says nothing about the characters of a cell.
    `csv_roundtrip_partial`  is the same conclusion for ANY quoting rule (`quoteLB` arbitrary) under
                             "no cell contains CR/LF";
    `csv_linebreak_counterexample`, `csv_linebreak_splits_silently` are facts about the OLD writer
                             (`quoteLB = false`, before 3f80460; F12): they show what a regression of
                             the quoting would do, and the harness would report it as
                             roundtrip:csv:linebreak_in_cell plus a model/implementation difference
                             only if the probe and the encoder disagreed.
-/
import Csvq.Lemmas.Csv
import Csvq.Lemmas.CsvRect
import Csvq.Lemmas.Ltsv
import Csvq.Lemmas.Fixed
import Csvq.Lemmas.JsonTable
import Csvq.Lemmas.EncFacts
import Csvq.Lemmas.Encoding
import Csvq.Lemmas.JsonPath
import Csvq.Lemmas.JsonLex
import Csvq.Lemmas.FixedAuto
namespace Csvq.C02
open Csvq.Csv

/-! ## CSV / TSV -/

/-- what the format + reader can spell at all (the code refuses or loses nothing else):
    at least one column, rectangular, a header-less table has a record (`DataEmpty` otherwise),
    and — the reader drops a record that consists of one empty field — a single-column table has
    no empty text. -/
def Spellable (o : Opts) (t : Table) : Prop :=
  1 ≤ t.header.length ∧
  (∀ r ∈ t.rows, r.length = t.header.length) ∧
  (o.withoutHeader = true → t.rows ≠ []) ∧
  (t.header.length = 1 →
    (o.withoutHeader = false → ∀ h ∈ t.header, h ≠ []) ∧ ∀ r ∈ t.rows, ∀ c ∈ r, c.text ≠ []) ∧
  o.ending ≠ some .cr

instance (o : Opts) (t : Table) : Decidable (Spellable o t) := by
  unfold Spellable; infer_instance

/-- no header name that is written and no cell text contains CR or LF -/
def NoLineBreaks (o : Opts) (t : Table) : Prop :=
  (o.withoutHeader = false → ∀ h ∈ t.header, includesLineBreak h = false) ∧
  ∀ r ∈ t.rows, ∀ c ∈ r, includesLineBreak c.text = false

instance (o : Opts) (t : Table) : Decidable (NoLineBreaks o t) := by
  unfold NoLineBreaks; infer_instance

/-- **Round trip + detected line break**, common core of `csv_roundtrip` and
    `csv_roundtrip_partial`: under "every field is either quoted by the writer or free of CR/LF"
    the file loads back as `canon o t`, and the reader's `DetectedLineBreak` is the writer's line
    break as soon as two records are separated by one (else the ending line break, if any). -/
theorem csv_roundtrip_detect (o : Opts) (t : Table) (hd : DelimOK o.delim) (hs : Spellable o t)
    (hF : ∀ rec ∈ records o t, ∀ g ∈ rec, FieldOK o.w g) :
    ∃ b, fileCsv o t = .ok b ∧ decodeCsv o b = .ok (canon o t) ∧
      detectLB o b = (match t.rows, o.withoutHeader with
        | [], _ => o.ending
        | [_], true => o.ending
        | _, _ => some o.lb) := by
  obtain ⟨hcols, hrect, hne, hsingle, hend⟩ := hs
  -- the records are `rec :: more`, all of length n
  have hrecs : ∃ rec more, records o t = rec :: more := by
    unfold records
    cases hw : o.withoutHeader with
    | true =>
      cases hr : t.rows with
      | nil => exact absurd hr (hne hw)
      | cons r rs => exact ⟨r.map (cellField o), rs.map (·.map (cellField o)), by simp⟩
    | false => exact ⟨t.header.map (headerField o), t.rows.map (·.map (cellField o)), by simp⟩
  obtain ⟨rec, more, hrm⟩ := hrecs
  have hOK : RecsOK o.w t.header.length (rec :: more) := by
    rw [← hrm]
    intro x hx
    refine ⟨?_, hF x hx, ?_⟩
    · unfold records at hx
      cases hw : o.withoutHeader <;> simp only [hw] at hx
      · rcases List.mem_cons.mp hx with rfl | hx
        · simp
        · obtain ⟨r, hr, rfl⟩ := List.mem_map.mp hx
          simp [hrect r hr]
      · obtain ⟨r, hr, rfl⟩ := List.mem_map.mp hx
        simp [hrect r hr]
    · intro h1 g hg
      obtain ⟨hh, hc⟩ := hsingle h1
      unfold records at hx
      cases hw : o.withoutHeader <;> simp only [hw] at hx
      · rcases List.mem_cons.mp hx with rfl | hx
        · obtain ⟨h, hh', rfl⟩ := List.mem_map.mp hg
          exact hh hw h hh'
        · obtain ⟨r, hr, rfl⟩ := List.mem_map.mp hx
          obtain ⟨c, hc', rfl⟩ := List.mem_map.mp hg
          have := hc r hr c hc'
          cases c <;> simp [cellField, Cell.text] at this ⊢ <;> exact this
      · obtain ⟨r, hr, rfl⟩ := List.mem_map.mp hx
        obtain ⟨c, hc', rfl⟩ := List.mem_map.mp hg
        have := hc r hr c hc'
        cases c <;> simp [cellField, Cell.text] at this ⊢ <;> exact this
  -- the machine reads them back
  obtain ⟨σ, hσ, hrecsσ, hfpr, hdlb⟩ :=
    run_rows ⟨o.delim, o.allowUneven⟩ o.w rfl hd t.header.length hcols o.ending hend more rec {} hOK (Or.inl rfl)
  have hfile : fileCsv o t = .ok (writeRecord o.w rec ++ (writeMore o.w more ++ endingChars o.ending)) := by
    have henc : encodeCsv o t = .ok (writeAll o.w (rec :: more)) := by
      unfold records at hrm
      unfold encodeCsv
      cases hw : o.withoutHeader with
      | true =>
        simp only [hw, if_true] at hrm ⊢
        cases hr : t.rows with
        | nil => exact absurd hr (hne hw)
        | cons r rs => rw [hr] at hrm; simp only; rw [hrm]
      | false =>
        simp only [hw] at hrm ⊢
        simp only [Bool.false_eq_true, if_false] at hrm ⊢
        rw [hrm]
    unfold fileCsv
    rw [henc]
    simp [writeAll, List.append_assoc]
  have hread : readAll ⟨o.delim, o.allowUneven⟩
      (writeRecord o.w rec ++ (writeMore o.w more ++ endingChars o.ending)) = .ok σ := hσ
  have hrev : σ.recs.reverse = (records o t).map (·.map (rawOf o.w)) := by
    rw [hrecsσ, hrm]; simp
  refine ⟨_, hfile, ?_, ?_⟩
  · unfold decodeCsv
    rw [hread]
    simp only [hrev, hfpr]
    rw [assemble_records o t hrect]
  · unfold detectLB
    rw [hread]
    simp only [hdlb, dlbAfter]
    unfold records at hrm
    cases hw : o.withoutHeader with
    | false =>
      simp only [hw, Bool.false_eq_true, if_false] at hrm
      simp only [List.cons.injEq] at hrm
      rw [← hrm.2]
      cases hr : t.rows with
      | nil => rfl
      | cons r rs => cases rs <;> rfl
    | true =>
      simp only [hw, if_true] at hrm
      cases hr : t.rows with
      | nil => exact absurd hr (hne hw)
      | cons r rs =>
        rw [hr] at hrm
        simp only [List.map_cons, List.cons.injEq] at hrm
        rw [← hrm.2]
        cases rs <;> rfl

/-- **Round trip, full statement** — for every table and every setting, with the writer that quotes
    a field containing CR or LF (`quoteLB = true`: the code since /repo 3f80460): what is written
    loads back as `canon o t`.  `Spellable` says nothing about the characters in a cell. -/
theorem csv_roundtrip (o : Opts) (t : Table) (hd : DelimOK o.delim) (hq : o.quoteLB = true)
    (hs : Spellable o t) :
    ∃ b, fileCsv o t = .ok b ∧ decodeCsv o b = .ok (canon o t) := by
  obtain ⟨b, h1, h2, _⟩ := csv_roundtrip_detect o t hd hs
    (fun _ _ g _ => fieldOK_of_quoteLB o.w g hq)
  exact ⟨b, h1, h2⟩

/-- **Round trip for any quoting rule** (`quoteLB` arbitrary, in particular the old writer `false`):
    the same conclusion when no written header name and no cell contains CR or LF. -/
theorem csv_roundtrip_partial (o : Opts) (t : Table) (hd : DelimOK o.delim) (hn : NoLineBreaks o t)
    (hs : Spellable o t) :
    ∃ b, fileCsv o t = .ok b ∧ decodeCsv o b = .ok (canon o t) := by
  obtain ⟨b, h1, h2, _⟩ := csv_roundtrip_detect o t hd hs (by
    intro rec hrec g hg
    right
    unfold records at hrec
    cases hw : o.withoutHeader <;> simp only [hw, Bool.false_eq_true, if_false, if_true] at hrec
    · rcases List.mem_cons.mp hrec with rfl | hrec
      · obtain ⟨h, hh, rfl⟩ := List.mem_map.mp hg
        exact hn.1 hw h hh
      · obtain ⟨r, hr, rfl⟩ := List.mem_map.mp hrec
        obtain ⟨c, hc, rfl⟩ := List.mem_map.mp hg
        rw [cellField_contents]
        exact hn.2 r hr c hc
    · obtain ⟨r, hr, rfl⟩ := List.mem_map.mp hrec
      obtain ⟨c, hc, rfl⟩ := List.mem_map.mp hg
      rw [cellField_contents]
      exact hn.2 r hr c hc)
  exact ⟨b, h1, h2⟩

/-- **The file keeps its line break**: the reader detects the line break the writer used, as soon
    as the file contains one between two records (otherwise the ending line break, if any). -/
theorem csv_linebreak_detected (o : Opts) (t : Table) (hd : DelimOK o.delim)
    (hq : o.quoteLB = true ∨ NoLineBreaks o t) (hs : Spellable o t) (r1 r2 : List Cell)
    (rs : List (List Cell)) (hrows : t.rows = r1 :: r2 :: rs) :
    ∃ b, fileCsv o t = .ok b ∧ detectLB o b = some o.lb := by
  have hF : ∀ rec ∈ records o t, ∀ g ∈ rec, FieldOK o.w g := by
    rcases hq with hq | hn
    · exact fun _ _ g _ => fieldOK_of_quoteLB o.w g hq
    · intro rec hrec g hg
      right
      unfold records at hrec
      cases hw : o.withoutHeader <;> simp only [hw, Bool.false_eq_true, if_false, if_true] at hrec
      · rcases List.mem_cons.mp hrec with rfl | hrec
        · obtain ⟨h, hh, rfl⟩ := List.mem_map.mp hg
          exact hn.1 hw h hh
        · obtain ⟨r, hr, rfl⟩ := List.mem_map.mp hrec
          obtain ⟨c, hc, rfl⟩ := List.mem_map.mp hg
          rw [cellField_contents]
          exact hn.2 r hr c hc
      · obtain ⟨r, hr, rfl⟩ := List.mem_map.mp hrec
        obtain ⟨c, hc, rfl⟩ := List.mem_map.mp hg
        rw [cellField_contents]
        exact hn.2 r hr c hc
  obtain ⟨b, h1, _, h3⟩ := csv_roundtrip_detect o t hd hs hF
  refine ⟨b, h1, ?_⟩
  rw [h3, hrows]

/-- **Rectangular, for ALL inputs**: whatever characters the file contains, if the loader accepts
    it (with or without --allow-uneven-fields, --no-header, --without-null) every record of the
    view has as many fields as the header. -/
theorem csv_rectangular (o : Opts) (inp : List Char) (t : DTable) (h : decodeCsv o inp = .ok t) :
    ∀ row ∈ t.rows, row.length = t.header.length := by
  unfold decodeCsv at h
  split at h
  · cases h
  · rename_i σ hσ
    injection h with h
    subst h
    have hi := inv_readAll ⟨o.delim, o.allowUneven⟩ inp σ hσ
    obtain ⟨h1, h2, h3, _⟩ := hi
    apply assemble_rectangular
    refine ⟨?_, ?_, ?_, Or.elim (Nat.eq_zero_or_pos σ.fpr) Or.inl Or.inr⟩
    · intro h0; simp [h1 h0]
    · intro rec hrec; exact h2 rec (by simpa using hrec)
    · intro ha rec hrec; exact h3 ha rec (by simpa using hrec)

/-- **No shift**: in what is read back, position (i, j) holds the canonical form of the cell the
    table had at (i, j) — no cell text can change the number of records, the number of fields of a
    record, or the contents of another field.  (Corollary of the round trip.) -/
theorem csv_no_shift (o : Opts) (t : Table) (hd : DelimOK o.delim)
    (hq : o.quoteLB = true ∨ NoLineBreaks o t) (hs : Spellable o t) :
    ∃ b d, fileCsv o t = .ok b ∧ decodeCsv o b = .ok d ∧ d.rows.length = t.rows.length ∧
      ∀ i j : Nat, (d.rows[i]?.bind fun (r : List DCell) => r[j]?)
        = (t.rows[i]?.bind fun (r : List Cell) => r[j]?).map (canonCell o) := by
  have : ∃ b, fileCsv o t = .ok b ∧ decodeCsv o b = .ok (canon o t) := by
    rcases hq with hq | hn
    · exact csv_roundtrip o t hd hq hs
    · exact csv_roundtrip_partial o t hd hn hs
  obtain ⟨b, h1, h2⟩ := this
  refine ⟨b, canon o t, h1, h2, by simp [canon], ?_⟩
  intro i j
  simp only [canon, List.getElem?_map]
  cases t.rows[i]? with
  | none => rfl
  | some r => simp [List.getElem?_map]

/-- **Refusal**: the one table CSV cannot spell — no header line and no record — is answered by
    `DataEmpty`, and nothing is written. -/
theorem csv_refuse_empty (o : Opts) (t : Table) (hw : o.withoutHeader = true) (hr : t.rows = []) :
    fileCsv o t = .error .dataEmpty := by
  simp [fileCsv, encodeCsv, hw, hr]

/-! ### witnesses on the model: the two remaining exceptions of the current code
(`csv_single_column_empty_counterexample`, `csv_cr_ending_counterexample`, both with the current
quoting rule), and what the OLD writer (`quoteLB = false`, before /repo 3f80460) did with a line
break inside a cell (`csv_linebreak_*`).

Texts are spelled as character lists: `a,b⏎x⏎y,2` is `['a', ',', 'b', '\\n', …]`. -/

/-- F12 (old writer, `quoteLB = false`): header `a,b`, record (`x⏎y`, 2) is written as `a,b⏎x⏎y,2`;
    the loader rejects the file. -/
theorem csv_linebreak_counterexample :
    let o : Opts := {}
    let t : Table := ⟨[['a'], ['b']], [[.str ['x', '\n', 'y'], .raw ['2']]]⟩
    Spellable o t ∧ DelimOK o.delim ∧
    fileCsv o t = .ok ['a', ',', 'b', '\n', 'x', '\n', 'y', ',', '2'] ∧ decodeCsv o ['a', ',', 'b', '\n', 'x', '\n', 'y', ',', '2'] = .error .parse := by
  refine ⟨by decide, by decide, rfl, rfl⟩

/-- F12 (old writer), silent variant: a single column with the cell `x⏎y` comes back as TWO records. -/
theorem csv_linebreak_splits_silently :
    let o : Opts := {}
    let t : Table := ⟨[['a']], [[.str ['x', '\n', 'y']]]⟩
    Spellable o t ∧ fileCsv o t = .ok ['a', '\n', 'x', '\n', 'y'] ∧
    decodeCsv o ['a', '\n', 'x', '\n', 'y'] = .ok ⟨[['a']], [[some ['x']], [some ['y']]]⟩ := by
  refine ⟨by decide, rfl, rfl⟩

/-- a record that is one empty field is dropped: also with the repaired writer, also when the
    empty string is written as two quotation marks (enclose-all). -/
theorem csv_single_column_empty_counterexample :
    let o : Opts := { quoteLB := true, encloseAll := true }
    let t : Table := ⟨[['a']], [[.str []], [.str ['z']]]⟩
    fileCsv o t = .ok ['"', 'a', '"', '\n', '"', '"', '\n', '"', 'z', '"'] ∧
    decodeCsv o ['"', 'a', '"', '\n', '"', '"', '\n', '"', 'z', '"'] = .ok ⟨[['a']], [[some ['z']]]⟩ ∧
    canon o t = ⟨[['a']], [[some []], [some ['z']]]⟩ := by
  refine ⟨rfl, rfl, rfl⟩

/-- line break CR: the ending line break is a CR at end of input and the loader fails. -/
theorem csv_cr_ending_counterexample :
    let o : Opts := { lb := .cr, ending := some .cr, quoteLB := true }
    let t : Table := ⟨[['a'], ['b']], [[.raw ['1'], .raw ['2']]]⟩
    fileCsv o t = .ok ['a', ',', 'b', '\r', '1', ',', '2', '\r'] ∧ decodeCsv o ['a', ',', 'b', '\r', '1', ',', '2', '\r'] = .error .parse := by
  refine ⟨rfl, rfl⟩

/-! ### non-vacuity -/

example : Spellable {} ⟨[['a', ',', '"'], ['b']], [[.str ['x', ',', '"', 'y', '"'], .null], [.raw [], .str []]]⟩ := by decide

example : NoLineBreaks {} ⟨[['a', ',', '"'], ['b']], [[.str ['x', ',', '"', 'y', '"'], .null], [.raw [], .str []]]⟩ := by decide

/-- a table with CRLF, a comma and quotation marks inside a cell, NULL and empty strings,
    enclose-all, CRLF line breaks: what is written, and that it reads back as `canon` -/
example :
    let o : Opts := { quoteLB := true, lb := .crlf, ending := some .crlf, encloseAll := true }
    let t : Table := ⟨[['a'], ['b']], [[.str ['x', '\r', '\n', 'y', ',', '"'], .null], [.raw ['1'], .str []]]⟩
    fileCsv o t = .ok ['"', 'a', '"', ',', '"', 'b', '"', '\r', '\n', '"', 'x', '\r', '\n', 'y', ',', '"', '"', '"', ',', '\r', '\n', '1', ',', '"', '"', '\r', '\n'] ∧
    decodeCsv o ['"', 'a', '"', ',', '"', 'b', '"', '\r', '\n', '"', 'x', '\r', '\n', 'y', ',', '"', '"', '"', ',', '\r', '\n', '1', ',', '"', '"', '\r', '\n'] = .ok (canon o t) ∧
    canon o t = ⟨[['a'], ['b']], [[some ['x', '\r', '\n', 'y', ',', '"'], none], [some ['1'], some []]]⟩ := by
  refine ⟨rfl, rfl, rfl⟩

/-! ## LTSV

  Full statement:  `ltsv_roundtrip : LtsvSpellable t → t.header.Nodup →
                      ∃ b, fileLtsv o t = ok b ∧ decodeLtsv o b = ok (Ltsv.canon o t)`
  together with `ltsv_refuse_or_spell` (everything else is refused with an error).
  The refusal half is proved.  The round trip FAILS on the pinned dependency (go-text v1.6.0
  ltsv.Reader), confirmed on the real code:
    (F13) every ':' inside a value is dropped                     [roundtrip:ltsv:colon_in_value]
          → `ltsv_colon_counterexample`
    (new) a record of ONE field is skipped like an empty line, so a single-column table reads
          back with no record and no column                       [roundtrip:ltsv:single_field_record]
          → `ltsv_single_field_counterexample`
    (new) CR as ending line break: the reader fails at end of input [roundtrip:ltsv:cr_ending_line_break]
  Proved: `ltsv_roundtrip_partial` for all tables with ≥ 2 distinct labels and no ':' in a value. -/

namespace L
open Csvq.Ltsv

/-- exactly what the LTSV writer accepts -/
def LtsvSpellable (t : Table) : Prop :=
  t.rows ≠ [] ∧ (∀ l ∈ t.header, l.all labelChar = true) ∧
  ∀ r ∈ t.rows, r.length = t.header.length ∧ ∀ c ∈ r, c.text.all valueChar = true

instance (t : Table) : Decidable (LtsvSpellable t) := by unfold LtsvSpellable; infer_instance

/-- what the pinned reader additionally needs -/
def LtsvReadable (o : Ltsv.Opts) (t : Table) : Prop :=
  2 ≤ t.header.length ∧ t.header.Nodup ∧ (∀ r ∈ t.rows, ∀ c ∈ r, ':' ∉ c.text) ∧ o.ending ≠ some .cr

instance (o : Ltsv.Opts) (t : Table) : Decidable (LtsvReadable o t) := by unfold LtsvReadable; infer_instance

/-- **Refuse or spell** (LTSV): a table with an unpermitted label character, an unpermitted value
    character (TAB, CR, LF, NUL, U+100000…) or without records is answered by an error; every other
    rectangular table is written. -/
theorem ltsv_refuse_or_spell (o : Ltsv.Opts) (t : Table) :
    (¬ LtsvSpellable t → ∃ e, fileLtsv o t = .error e) ∧
    (LtsvSpellable t → fileLtsv o t =
      .ok (Ltsv.writeAll o.lb t.header (t.rows.map (·.map Cell.text)) ++ endingChars o.ending)) := by
  unfold fileLtsv encodeLtsv LtsvSpellable
  cases hr : t.rows with
  | nil => simp
  | cons r rs =>
    simp only [ne_eq, reduceCtorEq, not_false_eq_true, true_and]
    by_cases h1 : t.header.all (·.all labelChar) = false
    · simp only [h1, if_true]
      refine ⟨fun _ => ⟨_, rfl⟩, ?_⟩
      intro ⟨hl, _⟩
      have : t.header.all (·.all labelChar) = true := List.all_eq_true.mpr hl
      rw [this] at h1; cases h1
    · have h1' : t.header.all (·.all labelChar) = true := by simpa using h1
      simp only [h1', Bool.true_eq_false, if_false]
      by_cases h2 : (r :: rs).all (fun r => decide (r.length = t.header.length)) = false
      · simp only [h2, if_true]
        refine ⟨fun _ => ⟨_, rfl⟩, ?_⟩
        intro ⟨_, hrows⟩
        have : (r :: rs).all (fun r => decide (r.length = t.header.length)) = true :=
          List.all_eq_true.mpr (fun x hx => by simpa using (hrows x hx).1)
        rw [this] at h2; cases h2
      · have h2' : (r :: rs).all (fun r => decide (r.length = t.header.length)) = true := by simpa using h2
        simp only [h2', Bool.true_eq_false, if_false]
        by_cases h3 : (r :: rs).all (fun r => r.all (fun c => c.text.all valueChar)) = false
        · simp only [h3, if_true]
          refine ⟨fun _ => ⟨_, rfl⟩, ?_⟩
          intro ⟨_, hrows⟩
          have : (r :: rs).all (fun r => r.all (fun c => c.text.all valueChar)) = true :=
            List.all_eq_true.mpr (fun x hx => List.all_eq_true.mpr (fun c hc => (hrows x hx).2 c hc))
          rw [this] at h3; cases h3
        · have h3' : (r :: rs).all (fun r => r.all (fun c => c.text.all valueChar)) = true := by simpa using h3
          simp only [h3', Bool.true_eq_false, if_false]
          refine ⟨?_, fun _ => by first | rfl | trivial⟩
          intro hn
          exfalso
          apply hn
          refine ⟨List.all_eq_true.mp h1', ?_⟩
          intro x hx
          refine ⟨by simpa using List.all_eq_true.mp h2' x hx, ?_⟩
          exact List.all_eq_true.mp (List.all_eq_true.mp h3' x hx)

/-- **Round trip on the pinned reader** (LTSV): every table the writer accepts that has at least two
    columns with distinct labels and no ':' inside a value loads back as `canon` (empty text and
    NULL are one spelling), for every line break and ending line break other than a bare CR. -/
theorem ltsv_roundtrip_partial (o : Ltsv.Opts) (t : Table) (hs : LtsvSpellable t) (hr : LtsvReadable o t) :
    ∃ b, fileLtsv o t = .ok b ∧ decodeLtsv o b = .ok (Ltsv.canon o t) := by
  obtain ⟨hne, hlab, hrows⟩ := hs
  obtain ⟨h2, hnd, hcolon, hend⟩ := hr
  refine ⟨_, (ltsv_refuse_or_spell o t).2 ⟨hne, hlab, hrows⟩, ?_⟩
  cases hrw : t.rows with
  | nil => exact absurd hrw hne
  | cons r rs =>
    have hLab : Ltsv.LabelsOK t.header := ⟨h2, hnd, fun l hl c hc =>
      plain_of_labelChar c (List.all_eq_true.mp (hlab l hl) c hc)⟩
    have hOK : Ltsv.RecsOK t.header (r.map Cell.text :: rs.map (·.map Cell.text)) := by
      intro vs hvs
      rw [← List.map_cons (f := fun x => List.map Cell.text x)] at hvs
      obtain ⟨row, hrow, rfl⟩ := List.mem_map.mp hvs
      have hrow' : row ∈ t.rows := hrw ▸ hrow
      refine ⟨by simp [(hrows row hrow').1], ?_⟩
      intro v hv c hc
      obtain ⟨cell, hcell, rfl⟩ := List.mem_map.mp hv
      exact plain_of_valueChar c (List.all_eq_true.mp ((hrows row hrow').2 cell hcell) c hc)
        (fun e => hcolon row hrow' cell hcell (e ▸ hc))
    obtain ⟨σ, hσ, hrecs, hhead⟩ := Ltsv.run_rows o.lb t.header hLab o.ending hend (rs.map (·.map Cell.text))
      (r.map Cell.text) {} [] hOK (Or.inl rfl)
    have hread : Ltsv.readAll (Ltsv.writeAll o.lb t.header ((r :: rs).map (·.map Cell.text)) ++ endingChars o.ending)
        = .ok σ := by
      simp only [List.map_cons, Ltsv.writeAll, List.append_assoc]
      exact hσ
    unfold decodeLtsv
    rw [hread]
    simp only [hhead, hrecs, List.reverse_reverse, List.append_nil, Ltsv.assemble, Ltsv.canon]
    rw [hrw]
    have hrowsEq : List.map ((fun rec => List.map (Ltsv.lookup o.withoutNull rec) t.header) ∘
          fun v => (t.header.zip v).reverse)
          (List.map Cell.text r :: List.map (fun x => List.map Cell.text x) rs)
        = List.map (fun x => List.map (Ltsv.canonCell o) x) (r :: rs) := by
      rw [← List.map_cons (f := fun x => List.map Cell.text x), List.map_map]
      apply List.map_congr_left
      intro row hrow
      have hrow' : row ∈ t.rows := hrw ▸ hrow
      simp only [Function.comp]
      rw [Ltsv.lookup_record o.withoutNull t.header (row.map Cell.text) (by simp [(hrows row hrow').1]) hnd]
      simp only [List.map_map]
      apply List.map_congr_left
      intro c _
      simp only [Function.comp, Ltsv.canonText, Ltsv.canonCell]
      cases c.text <;> rfl
    first
      | rw [hrowsEq]
      | (simp only [List.map_map] at hrowsEq ⊢; rw [hrowsEq])

/-- **Rectangular, for ALL inputs** (LTSV): every record of the loaded view has as many fields as
    the header (short records are padded by the loader). -/
theorem ltsv_rectangular (o : Ltsv.Opts) (inp : List Char) (t : DTable) (h : decodeLtsv o inp = .ok t) :
    ∀ row ∈ t.rows, row.length = t.header.length := by
  unfold decodeLtsv at h
  split at h
  · cases h
  · injection h with h
    subst h
    intro row hrow
    simp only [Ltsv.assemble, List.mem_map] at hrow
    obtain ⟨rec, _, rfl⟩ := hrow
    simp [Ltsv.assemble]

/-- **No shift** (LTSV): position (i, j) of what is read back is the canonical form of the cell at
    (i, j). -/
theorem ltsv_no_shift (o : Ltsv.Opts) (t : Table) (hs : LtsvSpellable t) (hr : LtsvReadable o t) :
    ∃ b d, fileLtsv o t = .ok b ∧ decodeLtsv o b = .ok d ∧ d.header = t.header ∧
      d.rows.length = t.rows.length ∧
      ∀ i j : Nat, (d.rows[i]?.bind fun (r : List DCell) => r[j]?)
        = (t.rows[i]?.bind fun (r : List Cell) => r[j]?).map (Ltsv.canonCell o) := by
  obtain ⟨b, h1, h2⟩ := ltsv_roundtrip_partial o t hs hr
  refine ⟨b, Ltsv.canon o t, h1, h2, rfl, by simp [Ltsv.canon], ?_⟩
  intro i j
  simp only [Ltsv.canon, List.getElem?_map]
  cases t.rows[i]? with
  | none => rfl
  | some r => simp [List.getElem?_map]

/-- F13: the value `12:30` is written as `a:12:30` and read back as `1230`. -/
theorem ltsv_colon_counterexample :
    let o : Ltsv.Opts := {}
    let t : Table := ⟨[['a'], ['b']], [[.str ['1', '2', ':', '3', '0'], .raw ['2']]]⟩
    LtsvSpellable t ∧
    fileLtsv o t = .ok ['a', ':', '1', '2', ':', '3', '0', '\t', 'b', ':', '2'] ∧
    decodeLtsv o ['a', ':', '1', '2', ':', '3', '0', '\t', 'b', ':', '2'] = .ok ⟨[['a'], ['b']], [[some ['1', '2', '3', '0'], some ['2']]]⟩ := by
  refine ⟨by decide, rfl, rfl⟩

/-- a single-column table is written as one field per line — and every such line is skipped. -/
theorem ltsv_single_field_counterexample :
    let o : Ltsv.Opts := { ending := some .lf }
    let t : Table := ⟨[['a']], [[.raw ['1']], [.raw ['2']]]⟩
    LtsvSpellable t ∧
    fileLtsv o t = .ok ['a', ':', '1', '\n', 'a', ':', '2', '\n'] ∧
    decodeLtsv o ['a', ':', '1', '\n', 'a', ':', '2', '\n'] = .ok ⟨[], []⟩ := by
  refine ⟨by decide, rfl, rfl⟩

/-- non-vacuity: a table with blanks, quotation marks, backslashes, an empty text and NULL -/
example :
    let o : Ltsv.Opts := { lb := .crlf, ending := some .crlf }
    let t : Table := ⟨[['k', '-', '1'], ['v', '_', '2']], [[.str [' ', 'x', ' ', '"', 'y', '"', '\\', ' '], .null], [.str [], .raw ['7']]]⟩
    LtsvSpellable t ∧ LtsvReadable o t ∧
    fileLtsv o t = .ok ['k', '-', '1', ':', ' ', 'x', ' ', '"', 'y', '"', '\\', ' ', '\t', 'v', '_', '2', ':', '\r', '\n', 'k', '-', '1', ':', '\t', 'v', '_', '2', ':', '7', '\r', '\n'] ∧
    decodeLtsv o ['k', '-', '1', ':', ' ', 'x', ' ', '"', 'y', '"', '\\', ' ', '\t', 'v', '_', '2', ':', '\r', '\n', 'k', '-', '1', ':', '\t', 'v', '_', '2', ':', '7', '\r', '\n'] = .ok ⟨[['k', '-', '1'], ['v', '_', '2']], [[some [' ', 'x', ' ', '"', 'y', '"', '\\', ' '], none], [none, some ['7']]]⟩ := by
  refine ⟨by decide, by decide, rfl, rfl⟩

example : ¬ LtsvSpellable ⟨[['a', ' ', 'b']], [[.str ['x']]]⟩ := by decide
example : ¬ LtsvSpellable ⟨[['a']], [[.str ['x', '\t', 'y']]]⟩ := by decide

end L

/-! ## fixed-length

  Positions are byte positions; `wd` = byte size of a character in the file's encoding, any function
  with `1 ≤ wd c` and `wd ' ' = 1` (UTF-8 and Shift_JIS; NOT UTF-16, where the writer pads with
  two-byte blanks but counts them as one byte — law roundtrip:fixed:utf16_padding of the harness).
  Proved for EXPLICIT delimiter positions `P` (same `P` for writing and reading):
    `fixed_refuse_or_spell`   the writer answers with an error exactly when the positions do not
                              increase or a text is longer than its column;
    `fixed_roundtrip_partial` whatever it does write reads back as `canon` (edge blanks dropped,
                              empty = NULL, `__@i__` for nameless columns) — under "no text contains
                              CR or LF";
    `fixed_rectangular`       for ALL inputs and ALL positions the loaded records have |P| fields.
  Full statement (no restriction on the characters of a text, a text the format cannot spell is
  refused):   fixed_roundtrip : FixedSpellable o P t → fileFixed wd o t = ok b →
                                decodeFixed wd o P b = ok (canon o t)      with NoBreak removed.
  It FAILS on the pinned code, confirmed on the real code:
    (F16) a text containing CR/LF is written as it is and splits the record
                                                  [roundtrip:fixed:linebreak_in_cell]
          → `fixed_linebreak_counterexample`
    (F16) automatic positions: a column whose texts are all empty (no header) has width 0, the
          generated positions do not increase and the writer refuses the table
                                                  [roundtrip:fixed:empty_column]
          → `fixed_empty_column_counterexample`
  Automatic detection of the positions when READING (`Delimiter.Delimit`, a heuristic): modelled in
  Csvq.Model.FixedAuto, see "automatic delimiter positions" below (`fixed_auto_roundtrip` and its
  counter-witnesses). -/

namespace F
open Csvq.Fixed

def FixedSpellable (o : Fixed.Opts) (P : List Nat) (t : Fixed.Table) : Prop :=
  validFrom 0 P = true ∧ P ≠ [] ∧ t.header.length = P.length ∧ (∀ r ∈ t.rows, r.length = P.length) ∧
  (o.withoutHeader = false → ∀ h ∈ t.header, ∀ c ∈ h, c ≠ '\r' ∧ c ≠ '\n') ∧
  (∀ r ∈ t.rows, ∀ f ∈ r, ∀ c ∈ f.contents, c ≠ '\r' ∧ c ≠ '\n') ∧
  o.ending ≠ some .cr

instance (o : Fixed.Opts) (P : List Nat) (t : Fixed.Table) : Decidable (FixedSpellable o P t) := by
  unfold FixedSpellable; infer_instance

/-- the records handed to the writer -/
def frecords (o : Fixed.Opts) (t : Fixed.Table) : List (List Fixed.Field) :=
  if o.withoutHeader then t.rows else headerFields t.header :: t.rows

/-- **Refuse or spell** (fixed-length, explicit positions): the table is written if and only if
    there is a record to write, the positions increase, and every text fits into its column;
    otherwise the answer is an error. -/
theorem fixed_refuse_or_spell (wd : Char → Nat) (o : Fixed.Opts) (P : List Nat) (t : Fixed.Table)
    (ho : o.positions = some P) (hrect : ∀ r ∈ frecords o t, r.length = P.length) :
    (∃ b, fileFixed wd o t = .ok b) ↔
      (frecords o t ≠ [] ∧ (validFrom 0 P = true ∧ ∀ r ∈ frecords o t, Fits wd 0 P r)) := by
  unfold fileFixed encodeFixed
  simp only [ho]
  change (∃ b, (match (match frecords o t with
      | [] => Except.error Fixed.EncErr.dataEmpty
      | recs => Fixed.writeAll wd false o.lb P recs) with
    | .ok cs => Except.ok (cs ++ endingChars o.ending)
    | .error e => .error e) = .ok b) ↔ _
  cases hr : frecords o t with
  | nil => simp
  | cons r rs =>
    simp only [ne_eq, reduceCtorEq, not_false_eq_true, true_and]
    have hall := Fixed.writeAll_isOk wd false o.lb P (r :: rs)
    have hrec : ∀ x ∈ r :: rs, ((∃ s, Fixed.writeRecord wd false P x = .ok s) ↔ (validFrom 0 P = true ∧ Fits wd 0 P x)) :=
      fun x hx => writeFields_isOk wd false P x true 0 (hrect x (hr ▸ hx))
    constructor
    · rintro ⟨b, hb⟩
      cases hw : Fixed.writeAll wd false o.lb P (r :: rs) with
      | error e => rw [hw] at hb; cases hb
      | ok txt =>
        have h := hall.mp ⟨txt, hw⟩
        refine ⟨((hrec r (by simp)).mp (h r (by simp))).1, fun x hx => ((hrec x hx).mp (h x hx)).2⟩
    · rintro ⟨hv, hf⟩
      obtain ⟨txt, hw⟩ := hall.mpr (fun x hx => (hrec x hx).mpr ⟨hv, hf x hx⟩)
      exact ⟨_, by rw [hw]⟩

/-- **Round trip** (fixed-length, explicit positions, pinned code): whatever the writer writes for a
    table without CR/LF in its texts reads back, with the same positions, as `canon`. -/
theorem fixed_roundtrip_partial (wd : Char → Nat) (hwd : ∀ c, 1 ≤ wd c) (hw : wd ' ' = 1)
    (o : Fixed.Opts) (P : List Nat) (t : Fixed.Table) (ho : o.positions = some P)
    (hs : FixedSpellable o P t) (b : List Char) (hb : fileFixed wd o t = .ok b) :
    decodeFixed wd o P b = .ok (Fixed.canon o t) := by
  obtain ⟨hv, hP, hhl, hrl, hhnb, hrnb, hend⟩ := hs
  unfold fileFixed encodeFixed at hb
  simp only [ho] at hb
  change (match (match frecords o t with
      | [] => Except.error Fixed.EncErr.dataEmpty
      | recs => Fixed.writeAll wd false o.lb P recs) with
    | .ok cs => Except.ok (cs ++ endingChars o.ending)
    | .error e => .error e) = .ok b at hb
  have hok : ∀ x ∈ frecords o t, x.length = P.length ∧ ∀ f ∈ x, NoBreak f.contents := by
    intro x hx
    unfold frecords at hx
    cases hw' : o.withoutHeader <;> simp only [hw', Bool.false_eq_true, if_false, if_true] at hx
    · rcases List.mem_cons.mp hx with rfl | hx
      · refine ⟨by simp [headerFields, hhl], ?_⟩
        intro f hf
        simp only [headerFields, List.mem_map] at hf
        obtain ⟨h, hh, rfl⟩ := hf
        exact hhnb hw' h hh
      · exact ⟨hrl x hx, hrnb x hx⟩
    · exact ⟨hrl x hx, hrnb x hx⟩
  cases hr : frecords o t with
  | nil => rw [hr] at hb; cases hb
  | cons r more =>
    rw [hr] at hb hok
    simp only [Fixed.writeAll] at hb
    cases hs1 : Fixed.writeRecord wd false P r with
    | error e => rw [hs1] at hb; cases hb
    | ok s =>
      rw [hs1] at hb
      simp only at hb
      cases hm : Fixed.writeMore wd false o.lb P more with
      | error e => rw [hm] at hb; cases hb
      | ok rest =>
        rw [hm] at hb
        simp only at hb
        injection hb with hb
        subst hb
        obtain ⟨σ, hσ, hrecs⟩ := Fixed.run_rows wd hwd hw P hv hP o.lb o.ending hend more r { cols := P } s rest
          hok hs1 hm
        have hread : Fixed.readAll wd P (s ++ rest ++ endingChars o.ending) = .ok σ := by
          unfold Fixed.readAll
          rw [if_neg (by simp [hv]), List.append_assoc]
          exact hσ
        unfold decodeFixed
        rw [hread]
        simp only [hrecs, List.reverse_append, List.reverse_reverse]
        have hnil : ({ cols := P } : Fixed.St).recs.reverse = [] := rfl
        rw [hnil, List.nil_append]
        unfold frecords at hr
        unfold Fixed.assemble Fixed.canon
        cases hw' : o.withoutHeader with
        | true =>
          simp only [hw', if_true] at hr ⊢
          rw [← hr, autofill_autoNames, hhl]
          simp [rowOf, Fixed.canonCell, List.map_map, Function.comp]
        | false =>
          simp only [hw', Bool.false_eq_true, if_false] at hr ⊢
          simp only [List.cons.injEq] at hr
          rw [← hr.1, ← hr.2]
          simp [rowOf, headerFields, Fixed.canonCell, List.map_map, Function.comp]
          rfl

/-- **Rectangular, for ALL inputs** (fixed-length): whatever the file contains and whatever the
    positions are, every record of the loaded view has as many fields as the header. -/
theorem fixed_rectangular (wd : Char → Nat) (o : Fixed.Opts) (P : List Nat) (inp : List Char) (t : DTable)
    (h : decodeFixed wd o P inp = .ok t) : ∀ row ∈ t.rows, row.length = t.header.length := by
  unfold decodeFixed at h
  cases hr : Fixed.readAll wd P inp with
  | error e => rw [hr] at h; cases h
  | ok σ =>
    rw [hr] at h
    injection h with h
    subst h
    apply Fixed.assemble_rectangular
    intro rec hrec
    exact recs_readAll wd P inp σ hr rec (by simpa using hrec)

/-- **No shift** (fixed-length): position (i, j) of what is read back is the canonical form of the
    text at (i, j). -/
theorem fixed_no_shift (wd : Char → Nat) (hwd : ∀ c, 1 ≤ wd c) (hw : wd ' ' = 1)
    (o : Fixed.Opts) (P : List Nat) (t : Fixed.Table) (ho : o.positions = some P)
    (hs : FixedSpellable o P t) (b : List Char) (hb : fileFixed wd o t = .ok b) :
    ∃ d, decodeFixed wd o P b = .ok d ∧ d.rows.length = t.rows.length ∧
      ∀ i j : Nat, (d.rows[i]?.bind fun (r : List DCell) => r[j]?)
        = (t.rows[i]?.bind fun (r : List Fixed.Field) => r[j]?).map (Fixed.canonCell o) := by
  refine ⟨Fixed.canon o t, fixed_roundtrip_partial wd hwd hw o P t ho hs b hb, by simp [Fixed.canon], ?_⟩
  intro i j
  simp only [Fixed.canon, List.getElem?_map]
  cases t.rows[i]? with
  | none => rfl
  | some r => simp [List.getElem?_map]


/-! ### automatic delimiter positions

  Model of the reader side: Csvq.Model.FixedAuto (`delimit` = go-text `Delimiter.Delimit`, a heuristic over the
  blank runs of all lines; compared with the real one on written, mutated and hand-laid-out texts: ops c02.fpos,
  c02.deca).  `fixed_auto_roundtrip`: a table written with automatic positions reads back — positions detected
  from the text alone — as `canon`, if (`AutoSpellable`)
    * every cell, and every header name that is written, is non-empty and contains no white space
      (`unicode.IsSpace`; so no inner, leading or trailing blanks and no line breaks),
    * in every column but the first, every field begins at the first byte of its column: it is left-aligned
      (String, Datetime, header names) or as wide as the column (`Flush`; `fixed_auto_roundtrip_left` is the
      special case "all left-aligned"),
    * the line break is LF or CR LF.
  The widths (`measure`: the longest text of each column in bytes), the positions (`positionsOf`: running sums)
  and the separating blank are what `encodeFixedLengthFormat` does (`gen_fixed_writer_eq_ref`), the alignment by
  type is `gen_convert_field_contents_eq_ref`.  The positions found are, column by column, the largest end of a
  value (`delimit_written`).
  Outside the predicate the heuristic does go wrong, confirmed on the real code:
    `fixed_auto_right_aligned_counterexample`   a shorter header over right-aligned numbers of different lengths
                                                in a column that is not the first: 12345 is split into 1234 | 5;
    `fixed_auto_inner_blank_counterexample`     a text with an inner blank becomes two columns (F16);
    `fixed_empty_column_counterexample`         an all-empty column is refused by the writer (above). -/

/-- what a table must be like for the automatic positions to be found again -/
def AutoSpellable (wd : Char → Nat) (o : Fixed.Opts) (t : Fixed.Table) : Prop :=
  t.header ≠ [] ∧ (∀ r ∈ frecords o t, r.length = t.header.length) ∧
  (∀ r ∈ frecords o t, ∀ f ∈ r, (∀ c ∈ f.contents, isSpace c = false) ∧ f.contents ≠ []) ∧
  (∀ r ∈ frecords o t, Flush wd (measure wd t.header.length (frecords o t)).tail r.tail) ∧
  o.lb ≠ .cr ∧ o.ending ≠ some .cr

/-- **Round trip, fixed-length, AUTOMATIC positions.** -/
theorem fixed_auto_roundtrip (wd : Char → Nat) (hwd : ∀ c, 1 ≤ wd c) (hw : wd ' ' = 1)
    (o : Fixed.Opts) (t : Fixed.Table) (ho : o.positions = none) (hs : AutoSpellable wd o t)
    (b : List Char) (hb : fileFixed wd o t = .ok b) :
    decodeFixedAuto wd o b = .ok (Fixed.canon o t) := by
  obtain ⟨hhne, hlen, hcells, hflush, hlb, hend⟩ := hs
  unfold fileFixed encodeFixed at hb
  simp only [ho] at hb
  change (match (match frecords o t with
      | [] => Except.error Fixed.EncErr.dataEmpty
      | recs => Fixed.writeAll wd true o.lb (positionsOf 0 (measure wd t.header.length recs)) recs) with
    | .ok cs => Except.ok (cs ++ endingChars o.ending)
    | .error e => .error e) = .ok b at hb
  cases hr : frecords o t with
  | nil => rw [hr] at hb; cases hb
  | cons r more =>
    rw [hr] at hb hlen hcells hflush
    simp only at hb
    obtain ⟨w, ws, hws⟩ : ∃ w ws, measure wd t.header.length (r :: more) = w :: ws := by
      have hl := measure_length wd t.header.length (r :: more)
      cases hm : measure wd t.header.length (r :: more) with
      | nil =>
        rw [hm] at hl
        have : t.header.length = 0 := by simpa using hl.symm
        exact absurd (List.length_eq_zero_iff.mp this) hhne
      | cons w ws => exact ⟨w, ws, rfl⟩
    have hwl : ws.length + 1 = t.header.length := by
      have hl := measure_length wd t.header.length (r :: more)
      rw [hws] at hl
      simpa using hl
    rw [hws] at hb hflush
    simp only [Fixed.writeAll] at hb
    cases hs1 : Fixed.writeRecord wd true (positionsOf 0 (w :: ws)) r with
    | error e => rw [hs1] at hb; cases hb
    | ok s =>
      rw [hs1] at hb
      simp only at hb
      cases hm : Fixed.writeMore wd true o.lb (positionsOf 0 (w :: ws)) more with
      | error e => rw [hm] at hb; cases hb
      | ok rest =>
        rw [hm] at hb
        simp only at hb
        injection hb with hb
        subst hb
        have hlen' : ∀ x ∈ r :: more, x.length = (w :: ws).length := by
          intro x hx; rw [hlen x hx]; simp [hwl]
        obtain ⟨e1, f1⟩ := writeFields_lineOf wd (w :: ws) r true 0 s (hlen' r (by simp)) hs1
        obtain ⟨e2, f2⟩ := writeMore_lineOf wd o.lb (w :: ws) more rest (fun x hx => hlen' x (by simp [hx])) hm
        subst e1; subst e2
        have H : Written wd w ws (r :: more) :=
          ⟨fun x hx => by rw [hlen x hx]; omega,
           fun x hx => by
             rcases List.mem_cons.mp hx with rfl | hx
             · exact f1
             · exact f2 x hx,
           fun x hx => hcells x hx,
           fun x hx => by simpa using hflush x hx⟩
        obtain ⟨σ, hread, hrecs⟩ := readAll_written wd hwd hw o.withoutHeader w ws o.lb hlb o.ending hend r more H
        have hassoc : lineOf wd true (w :: ws) r ++ moreText wd o.lb (w :: ws) more ++ endingChars o.ending
            = lineOf wd true (w :: ws) r ++ (moreText wd o.lb (w :: ws) more ++ endingChars o.ending) := by
          simp [List.append_assoc]
        have hplen : (delimit wd o.withoutHeader
            (lineOf wd true (w :: ws) r ++ (moreText wd o.lb (w :: ws) more ++ endingChars o.ending))).length = t.header.length := by
          rw [delimit_written wd hwd hw o.withoutHeader w ws o.lb hlb o.ending hend r more H]
          simp [colMaxes_length, hwl]
        unfold decodeFixedAuto decodeFixed
        rw [hassoc, hread]
        simp only [hrecs, List.reverse_reverse, hplen]
        unfold frecords at hr
        unfold Fixed.assemble Fixed.canon
        cases hw' : o.withoutHeader with
        | true =>
          simp only [hw', if_true] at hr ⊢
          rw [← hr, autofill_autoNames]
          simp [rowOf, Fixed.canonCell, List.map_map, Function.comp]
        | false =>
          simp only [hw', Bool.false_eq_true, if_false] at hr ⊢
          simp only [List.cons.injEq] at hr
          rw [← hr.1, ← hr.2]
          simp [rowOf, headerFields, Fixed.canonCell, List.map_map, Function.comp]
          rfl

/-- the special case "every field after the first column is left-aligned" (texts, datetimes) -/
theorem fixed_auto_roundtrip_left (wd : Char → Nat) (hwd : ∀ c, 1 ≤ wd c) (hw : wd ' ' = 1)
    (o : Fixed.Opts) (t : Fixed.Table) (ho : o.positions = none)
    (hhne : t.header ≠ []) (hlen : ∀ r ∈ frecords o t, r.length = t.header.length)
    (hcells : ∀ r ∈ frecords o t, ∀ f ∈ r, (∀ c ∈ f.contents, isSpace c = false) ∧ f.contents ≠ [])
    (hleft : ∀ r ∈ frecords o t, ∀ f ∈ r.tail, f.align = .left) (hlb : o.lb ≠ .cr) (hend : o.ending ≠ some .cr)
    (b : List Char) (hb : fileFixed wd o t = .ok b) :
    decodeFixedAuto wd o b = .ok (Fixed.canon o t) :=
  fixed_auto_roundtrip wd hwd hw o t ho
    ⟨hhne, hlen, hcells, fun r hr => flush_of_left wd _ _ (hleft r hr), hlb, hend⟩ b hb

theorem fixed_auto_right_aligned_counterexample :
    let wd : Char → Nat := fun _ => 1
    let o : Fixed.Opts := { ending := some .lf }
    let t : Fixed.Table := ⟨[['c'], ['a', 'b']],
      [[⟨['x'], .left⟩, ⟨['1', '2', '3', '4', '5'], .right⟩], [⟨['y'], .left⟩, ⟨['1'], .right⟩]]⟩
    fileFixed wd o t = .ok ("c ab   \nx 12345\ny     1\n".toList) ∧
    delimit wd false ("c ab   \nx 12345\ny     1\n".toList) = [1, 6, 7] ∧
    decodeFixedAuto wd o ("c ab   \nx 12345\ny     1\n".toList)
      = .ok ⟨[['c'], ['a', 'b'], "__@3__".toList],
             [[some ['x'], some ['1', '2', '3', '4'], some ['5']], [some ['y'], none, some ['1']]]⟩ := by
  refine ⟨rfl, by decide, rfl⟩

theorem fixed_auto_inner_blank_counterexample :
    let wd : Char → Nat := fun _ => 1
    let o : Fixed.Opts := { ending := some .lf }
    let t : Fixed.Table := ⟨[['a'], ['b']],
      [[⟨['x', ' ', 'y'], .left⟩, ⟨['1'], .right⟩], [⟨['x', ' ', 'y'], .left⟩, ⟨['2'], .right⟩]]⟩
    fileFixed wd o t = .ok ("a   b\nx y 1\nx y 2\n".toList) ∧
    decodeFixedAuto wd o ("a   b\nx y 1\nx y 2\n".toList)
      = .ok ⟨[['a'], "__@2__".toList, ['b']],
             [[some ['x'], some ['y'], some ['1']], [some ['x'], some ['y'], some ['2']]]⟩ := by
  refine ⟨rfl, rfl⟩

/-- F16: positions 3, 4; the record (`x⏎y`, `2`) fits its columns, is written `x⏎y2`, and reads back
    as two records (x, NULL), (y2, NULL). -/
theorem fixed_linebreak_counterexample :
    let wd : Char → Nat := fun _ => 1
    let o : Fixed.Opts := { positions := some [3, 4], withoutHeader := true }
    let t : Fixed.Table := ⟨[['a'], ['b']], [[⟨['x', '\n', 'y'], .left⟩, ⟨['2'], .right⟩]]⟩
    fileFixed wd o t = .ok ['x', '\n', 'y', '2'] ∧
    decodeFixed wd o [3, 4] ['x', '\n', 'y', '2']
      = .ok ⟨[['c', '1'], ['c', '2']], [[some ['x'], none], [some ['y', '2'], none]]⟩ := by
  refine ⟨rfl, rfl⟩

/-- F16: automatic positions, no header, a column of empty texts: refused. -/
theorem fixed_empty_column_counterexample :
    let wd : Char → Nat := fun _ => 1
    let o : Fixed.Opts := { withoutHeader := true }
    let t : Fixed.Table := ⟨[['a'], ['b']], [[⟨[], .left⟩, ⟨['2'], .right⟩]]⟩
    fileFixed wd o t = .error .position := by
  rfl

/-- non-vacuity: left / centre / right alignment, inner and edge blanks, an empty text -/
example :
    let wd : Char → Nat := fun _ => 1
    let o : Fixed.Opts := { positions := some [4, 9, 12], lb := .crlf, ending := some .crlf }
    let t : Fixed.Table := ⟨[['a'], ['b', 'c'], ['d']], [[⟨['x', ' ', 'y'], .left⟩, ⟨['t'], .center⟩, ⟨['7'], .right⟩], [⟨[], .left⟩, ⟨[' ', 'q', ' '], .left⟩, ⟨['4', '2'], .right⟩]]⟩
    FixedSpellable o [4, 9, 12] t ∧
    fileFixed wd o t = .ok ['a', ' ', ' ', ' ', 'b', 'c', ' ', ' ', ' ', 'd', ' ', ' ', '\r', '\n', 'x', ' ', 'y', ' ', ' ', ' ', 't', ' ', ' ', ' ', ' ', '7', '\r', '\n', ' ', ' ', ' ', ' ', ' ', 'q', ' ', ' ', ' ', ' ', '4', '2', '\r', '\n'] ∧
    decodeFixed wd o [4, 9, 12] ['a', ' ', ' ', ' ', 'b', 'c', ' ', ' ', ' ', 'd', ' ', ' ', '\r', '\n', 'x', ' ', 'y', ' ', ' ', ' ', 't', ' ', ' ', ' ', ' ', '7', '\r', '\n', ' ', ' ', ' ', ' ', ' ', 'q', ' ', ' ', ' ', ' ', '4', '2', '\r', '\n']
      = .ok ⟨[['a'], ['b', 'c'], ['d']], [[some ['x', ' ', 'y'], some ['t'], some ['7']], [none, some ['q'], some ['4', '2']]]⟩ := by
  refine ⟨by decide, rfl, rfl⟩

end F

/-! ## JSON and JSON Lines

  Model: Csvq.Model.Json.  Numbers are opaque atoms: `canon lit` is what strconv makes of a number
  literal (`ParseFloat` then `FormatFloat 'f'`), a parameter the theorems quantify over; `AtomOK canon v`
  says that the decimal text the writer emits for a number cell is a fixed point of `canon`.

  Proved for ALL code-point strings / tables:
    `json_unescape_escape`     `Unescape (Escape… s) = s` for the three escape types — no exception;
    `json_string_token`        the scanner finds the end of an escaped string and the token is `s` again —
                               for HexDigits / AllWithHexDigits always, for Backslash unless `s` ends in a
                               backslash (`json_trailing_backslash_counterexample`, F27);
    `json_value_roundtrip`     `ConvertToValue (ParseValueToStructure v) = normVal v`, and
    `json_value_fixed`         the exact classes it is the identity on (NULL, String, Float, Boolean):
                               Integer → Float of the same text, Datetime → String, Ternary → Boolean /
                               NULL, NaN / ±Inf → NULL;
    `json_table_roundtrip`,    on TOKENS: what the compact writer emits for a table with distinct (flat)
    `jsonl_table_roundtrip`    column names and at least one record parses back to `canonTable`
                               (same header, same records, every cell the text `canonVal` of its value);
    `json_rectangular`,        for ALL input texts (characters, not tokens): every record of the loaded
    `jsonl_rectangular`        table has header-many fields;
    `json_no_shift`.
  The step from characters to tokens is proved too (`json_scan_print`, section "characters" below: strings with
  every escape of the three escape types, numbers in all spellings, literals, structural characters, white
  space), so that `json_table_roundtrip_text` / `jsonl_table_roundtrip_text` hold from text to text and, through
  any sound codec, from bytes to bytes (`T.json_roundtrip_encoded`).  Pretty printing and the embedding step are
  covered by the correspondence streams jenc / jdec (model = real encoder bytes, model = real loader on generated
  and mutated texts).  Column names as paths into nested objects: section P.  Counter-witnesses for what the real code does not round-trip:
    `json_trailing_backslash_counterexample` (F27), `json_empty_table_counterexample` (F27),
    `json_embedded_text_counterexample` (NEW: a String whose text is a JSON array / object is written as
    that array / object and comes back re-spelled: `[1, 2]` → `[1,2]`).
  Integers beyond 2^53 (F27 large_integer) are outside the model: the atom the harness supplies is what
  `Integer.Encode` (through float64) wrote. -/

namespace J
open Csvq.Json

/-- **Unescape ∘ Escape = id**, every escape type, every string of code points. -/
theorem json_unescape_escape (t : Esc) (s : List Char) : unescape (escape t s) = s :=
  Json.unescape_escape t s

/-- **String token**: after the opening quotation mark the scanner takes exactly the escaped text, and
    unescaping gives `s` back — for `Escape` (Backslash) only if `s` does not end in a backslash. -/
theorem json_string_token (t : Esc) (s rest : List Char) (h : t = .backslash → s.getLast? ≠ some '\\') :
    scanStr (escape t s ++ '"' :: rest) = some (escape t s, rest) ∧ unescape (escape t s) = s :=
  ⟨scanStr_escape t s rest h, Json.unescape_escape t s⟩

/-- F27: the text `a\` is written `"a\\"`; the scanner takes the closing quotation mark for an escaped
    one and runs to the end of the input. -/
theorem json_trailing_backslash_counterexample :
    escape .backslash ['a', '\\'] = ['a', '\\', '\\'] ∧
    scanStr (escape .backslash ['a', '\\'] ++ ['"', ',']) = none := by
  refine ⟨rfl, rfl⟩

/-- what a value is after `ParseValueToStructure` and `ConvertToValue` -/
def normVal (canon : List Char → Option (List Char)) : JVal → JVal
  | .null => .null
  | .str s => .str s
  | .int a => .flt (numText canon a)
  | .flt a => .flt (numText canon a)
  | .nonfinite => .null
  | .bool b => .bool b
  | .tern none => .null
  | .tern (some b) => .bool b
  | .dt s => .str s

/-- **Value round trip**, the exact image. -/
theorem json_value_roundtrip (canon : List Char → Option (List Char)) (v : JVal) :
    toValue canon (toStructure v) = normVal canon v := by
  cases v with
  | tern t => cases t <;> rfl
  | _ => rfl

/-- … which is the value itself exactly for NULL, String, Float (with a stable decimal text) and
    Boolean. -/
theorem json_value_fixed (canon : List Char → Option (List Char)) (v : JVal) (h : AtomOK canon v) :
    toValue canon (toStructure v) = v ↔
      (match v with | .null => True | .str _ => True | .flt _ => True | .bool _ => True | _ => False) := by
  rw [json_value_roundtrip]
  cases v with
  | null => simp [normVal]
  | str s => simp [normVal]
  | int a => simp [normVal]
  | flt a => simp only [AtomOK] at h; simp [normVal, numText, h]
  | nonfinite => simp [normVal]
  | bool b => simp [normVal]
  | tern t => cases t <;> simp [normVal]
  | dt s => simp [normVal]

/-- what the format + reader can spell: distinct column names, rectangular, at least one record (an
    empty table is written `[]` / as nothing and loses its header), stable number texts -/
def JsonSpellable (canon : List Char → Option (List Char)) (tb : Json.Table) : Prop :=
  tb.header.Nodup ∧ (∀ r ∈ tb.rows, r.length = tb.header.length) ∧ tb.rows ≠ [] ∧
  ∀ r ∈ tb.rows, ∀ v ∈ r, AtomOK canon v

def tableJS (tb : Json.Table) : JS := .arr (tb.rows.map (rowObj tb.header))

/-- **Table round trip, JSON** (tokens): the tokens of the array of one object per record parse back
    to the same header, the same number of records and fields, every cell `canonVal` of its value. -/
theorem json_table_roundtrip (canon : List Char → Option (List Char)) (tb : Json.Table)
    (hs : JsonSpellable canon tb) :
    decodeJsonToks canon (toksS (tableJS tb)) = .ok (canonTable tb) := by
  obtain ⟨hnd, hl, hne, ha⟩ := hs
  have hobjs : tb.rows.map (rowObj tb.header)
      = (tb.rows.map fun r => tb.header.zip (r.map toStructure)).map JS.obj := by
    simp [List.map_map, Function.comp, rowObj]
  unfold decodeJsonToks tableJS
  rw [hobjs, parseToks_flat_array _ tb.header.length (by simpa using hne)
    (by intro ms hms; obtain ⟨r, _, rfl⟩ := List.mem_map.mp hms; exact rowObj_flat _ r)
    (by intro ms hms; obtain ⟨r, hr, rfl⟩ := List.mem_map.mp hms; simp [hl r hr])]
  simp only
  have hm : (List.map JS.obj (tb.rows.map fun r => tb.header.zip (r.map toStructure))).mapM membersOf
      = some (tb.rows.map fun r => tb.header.zip (r.map toStructure)) := by
    generalize (tb.rows.map fun r => tb.header.zip (r.map toStructure)) = objs
    induction objs with
    | nil => rfl
    | cons o os ih => simp [List.mapM_cons, membersOf, ih]
  rw [hm]
  simp only
  rw [tableOf_rows canon tb hnd hl hne ha]

/-- **Table round trip, JSON Lines** (tokens): one object per line. -/
theorem jsonl_table_roundtrip (canon : List Char → Option (List Char)) (tb : Json.Table)
    (hs : JsonSpellable canon tb) :
    decodeJsonlToks canon (tb.rows.map fun r => toksS (rowObj tb.header r)) = .ok (canonTable tb) := by
  obtain ⟨hnd, hl, hne, ha⟩ := hs
  have hlines : (tb.rows.map fun r => toksS (rowObj tb.header r))
      = (tb.rows.map fun r => tb.header.zip (r.map toStructure)).map fun ms => toksS (.obj ms) := by
    simp [List.map_map, Function.comp, rowObj]
  unfold decodeJsonlToks
  rw [hlines, objsOfLines_rows _ (by
    intro ms hms; obtain ⟨r, _, rfl⟩ := List.mem_map.mp hms; exact rowObj_flat _ r)]
  simp only
  rw [tableOf_rows canon tb hnd hl hne ha]

/-- **Rectangular, for ALL input texts** (JSON): whatever the characters are, if the loader accepts
    them every record has as many fields as the header (missing members are NULL). -/
theorem json_rectangular (canon : List Char → Option (List Char)) (inp : List Char) (t : DTable)
    (h : decodeJson canon inp = .ok t) : ∀ row ∈ t.rows, row.length = t.header.length := by
  unfold decodeJson at h
  cases hl : lex canon inp with
  | error e => rw [hl] at h; cases h
  | ok ts =>
    rw [hl] at h
    simp only [decodeJsonToks] at h
    split at h
    · split at h
      · injection h with h; subst h; exact tableOf_rectangular canon _
      · cases h
    · cases h

/-- **Rectangular, for ALL input texts** (JSON Lines). -/
theorem jsonl_rectangular (canon : List Char → Option (List Char)) (inp : List Char) (t : DTable)
    (h : decodeJsonl canon inp = .ok t) : ∀ row ∈ t.rows, row.length = t.header.length := by
  unfold decodeJsonl at h
  cases hl : lexLines canon (splitLines [] inp) with
  | error e => rw [hl] at h; cases h
  | ok tss =>
    rw [hl] at h
    simp only [decodeJsonlToks] at h
    split at h
    · injection h with h; subst h; exact tableOf_rectangular canon _
    · cases h

/-- **No shift** (JSON and JSON Lines): position (i, j) of what is read back is `canonVal` of the value
    at (i, j); the header is the header. -/
theorem json_no_shift (canon : List Char → Option (List Char)) (tb : Json.Table) (hs : JsonSpellable canon tb) :
    ∃ d, decodeJsonToks canon (toksS (tableJS tb)) = .ok d ∧
      decodeJsonlToks canon (tb.rows.map fun r => toksS (rowObj tb.header r)) = .ok d ∧
      d.header = tb.header ∧ d.rows.length = tb.rows.length ∧
      ∀ i j : Nat, (d.rows[i]?.bind fun (r : List DCell) => r[j]?)
        = (tb.rows[i]?.bind fun (r : List JVal) => r[j]?).map canonVal := by
  refine ⟨canonTable tb, json_table_roundtrip canon tb hs, jsonl_table_roundtrip canon tb hs, rfl,
    by simp [canonTable], ?_⟩
  intro i j
  simp only [canonTable, List.getElem?_map]
  cases tb.rows[i]? with
  | none => rfl
  | some r => simp [List.getElem?_map]

/-- F27: a table without records is written `[]`; the header is gone. -/
theorem json_empty_table_counterexample :
    decodeJsonToks (fun a => some a) (toksS (tableJS ⟨[['a'], ['b']], []⟩)) = .ok ⟨[], []⟩ := by
  rfl

/-- NEW: the String `[1, 2]` is written as the array `[1,2]` and comes back as the text `[1,2]`
    (characters, through the whole writer and reader). -/
theorem json_embedded_text_counterexample :
    let canon : List Char → Option (List Char) := fun a => some a
    let tb : Json.Table := ⟨[['a']], [[.str ['[', '1', ',', ' ', '2', ']']]]⟩
    encodeJson .backslash canon none tb = ['[', '{', '"', 'a', '"', ':', '[', '1', ',', '2', ']', '}', ']'] ∧
    decodeJson canon ['[', '{', '"', 'a', '"', ':', '[', '1', ',', '2', ']', '}', ']'] = .ok ⟨[['a']], [[some ['[', '1', ',', '2', ']']]]⟩ := by
  refine ⟨rfl, rfl⟩

-- non-vacuity, characters through the whole writer and reader: quotation marks, a backslash inside,
-- a line break, every character as \uXXXX under AllWithHexDigits, pretty printing, NULL, numbers,
-- booleans
set_option maxRecDepth 16384 in
example :
    let canon : List Char → Option (List Char) := fun a => some a
    let tb : Json.Table := ⟨[['k', '"', '1'], ['n']], [[.str ['x', '"', 'y', '\\', 'z', '\n'], .int ['4', '2']], [.null, .bool true], [.dt ['2', '0', '2', '0', '-', '0', '1', '-', '0', '2', 'T', '0', '3', ':', '0', '4', ':', '0', '5', 'Z'], .tern none]]⟩
    JsonSpellable canon tb ∧
    decodeJson canon (encodeJson .backslash canon none tb) = .ok (canonTable tb) ∧
    decodeJson canon (encodeJson .all canon (some .crlf) tb) = .ok (canonTable tb) ∧
    decodeJsonl canon (encodeJsonl .hex canon .lf tb) = .ok (canonTable tb) := by
  refine ⟨?_, rfl, rfl, rfl⟩
  unfold JsonSpellable
  refine ⟨by decide, by decide, by decide, ?_⟩
  intro r _ v _
  cases v <;> simp [AtomOK]

/-! ### characters: scan ∘ print

  `json_scan_print`  for every well-formed value `j` (`PrintableV`: every string — keys too — is one the scanner
  can delimit, i.e. under `Escape` it does not end in a backslash (F27), and is not itself the text of a JSON
  array / object (F73, the encoder would embed it); every number is a literal in one of the spellings of
  RFC 8259 — sign, integer part without leading zero, fraction, exponent with `e`/`E` and sign (`NumLit`) — and
  a fixed point of `canon`), for all three escape types: the characters the compact encoder prints, followed
  by any line breaks, scan to exactly the tokens of `j`.  With it the table round trips hold from text to
  text:  `json_table_roundtrip_text`, `jsonl_table_roundtrip_text` (JSON Lines with LF or CR LF). -/

theorem json_scan_print (t : Esc) (canon : List Char → Option (List Char)) (j : JS) (hp : PrintableV t canon j)
    (w : List Char) (hw : ∀ c ∈ w, c = '\n' ∨ c = '\r') :
    lex canon (encode t canon j ++ w) = .ok (toksS j) := by
  rw [encode_printable t canon j hp]
  exact lex_encS_ws t canon j hp w hw

/-- the texts of a table, as far as the character level is concerned -/
def TextOK (t : Esc) (canon : List Char → Option (List Char)) (tb : Json.Table) : Prop :=
  (∀ k ∈ tb.header, StrOK t k) ∧ ∀ r ∈ tb.rows, ∀ v ∈ r, PrintableV t canon (toStructure v)

theorem printable_rowObj (t : Esc) (canon : List Char → Option (List Char)) (h : List (List Char)) (r : List JVal)
    (hk : ∀ k ∈ h, StrOK t k) (hv : ∀ v ∈ r, PrintableV t canon (toStructure v)) :
    PrintableV t canon (rowObj h r) := by
  simp only [rowObj, PrintableV]
  induction h generalizing r with
  | nil => simp [PrintableM]
  | cons k ks ih =>
    cases r with
    | nil => simp [PrintableM]
    | cons v vs =>
      simp only [List.map_cons, List.zip_cons_cons, PrintableM]
      exact ⟨hk k (by simp), hv v (by simp), ih vs (fun x hx => hk x (by simp [hx])) (fun x hx => hv x (by simp [hx]))⟩

theorem printable_tableJS (t : Esc) (canon : List Char → Option (List Char)) (tb : Json.Table) (h : TextOK t canon tb) :
    PrintableV t canon (tableJS tb) := by
  obtain ⟨hk, hv⟩ := h
  simp only [tableJS, PrintableV]
  generalize tb.rows = rows at hv
  induction rows with
  | nil => simp [PrintableL]
  | cons r rs ih =>
    simp only [List.map_cons, PrintableL]
    exact ⟨printable_rowObj t canon tb.header r hk (hv r (by simp)), ih (fun x hx => hv x (by simp [hx]))⟩

/-- **Table round trip, JSON, text to text**: what `encodeJson` writes (compact), the loader reads back as
    `canonTable`. -/
theorem json_table_roundtrip_text (t : Esc) (canon : List Char → Option (List Char)) (tb : Json.Table)
    (hs : JsonSpellable canon tb) (ht : TextOK t canon tb) (w : List Char) (hw : ∀ c ∈ w, c = '\n' ∨ c = '\r') :
    decodeJson canon (encodeJson t canon none tb ++ w) = .ok (canonTable tb) := by
  have hl := json_scan_print t canon (tableJS tb) (printable_tableJS t canon tb ht) w hw
  simp only [encodeJson, decodeJson]
  simp only [tableJS] at hl
  rw [hl]
  exact json_table_roundtrip canon tb hs

theorem lexLines_rows (t : Esc) (canon : List Char → Option (List Char)) (h : List (List Char)) (w : List Char)
    (hw : ∀ c ∈ w, c = '\n' ∨ c = '\r') (hk : ∀ k ∈ h, StrOK t k) (rows : List (List JVal))
    (hv : ∀ r ∈ rows, ∀ v ∈ r, PrintableV t canon (toStructure v)) :
    lexLines canon (rows.map fun r => encS t canon (rowObj h r) ++ w) = .ok (rows.map fun r => toksS (rowObj h r)) := by
  induction rows with
  | nil => rfl
  | cons r rs ih =>
    simp only [List.map_cons, lexLines]
    rw [lex_encS_ws t canon _ (printable_rowObj t canon h r hk (hv r (by simp))) w hw,
      ih (fun x hx => hv x (by simp [hx]))]

/-- **Table round trip, JSON Lines, text to text** (line break LF or CR LF). -/
theorem jsonl_table_roundtrip_text (t : Esc) (canon : List Char → Option (List Char)) (tb : Json.Table)
    (hs : JsonSpellable canon tb) (ht : TextOK t canon tb) (lb : LB) (hlb : lb ≠ .cr) :
    decodeJsonl canon (encodeJsonl t canon lb tb) = .ok (canonTable tb) := by
  obtain ⟨hk, hv⟩ := ht
  have henc : ∀ r ∈ tb.rows, encode t canon (rowObj tb.header r) = encS t canon (rowObj tb.header r) :=
    fun r hr => encode_printable t canon _ (printable_rowObj t canon tb.header r hk (hv r hr))
  have hnl : ∀ l ∈ tb.rows.map (fun r => encS t canon (rowObj tb.header r)), ∀ x ∈ l, x ≠ '\n' := by
    intro l hl
    obtain ⟨r, hr, rfl⟩ := List.mem_map.mp hl
    exact encS_noLF t canon _ (printable_rowObj t canon tb.header r hk (hv r hr))
  obtain ⟨cr, hcr⟩ : ∃ cr : Bool, lb.chars = (if cr then ['\r', '\n'] else ['\n']) := by
    cases lb with
    | lf => exact ⟨false, rfl⟩
    | crlf => exact ⟨true, rfl⟩
    | cr => exact absurd rfl hlb
  have htext : encodeJsonl t canon lb tb
      = ((tb.rows.map fun r => encS t canon (rowObj tb.header r)).map
          fun l => l ++ (if cr then ['\r', '\n'] else ['\n'])).flatten := by
    simp only [encodeJsonl, List.map_map, hcr]
    congr 1
    apply List.map_congr_left
    intro r hr
    simp [henc r hr]
  have hw : ∀ c ∈ (if cr then ['\r', '\n'] else ['\n']), c = '\n' ∨ c = '\r' := by
    cases cr <;> simp
  unfold decodeJsonl
  rw [htext, splitLines_lines _ cr hnl]
  have := lexLines_rows t canon tb.header _ hw hk tb.rows hv
  simp only [List.map_map, Function.comp_def]
  rw [this]
  exact jsonl_table_roundtrip canon tb hs

end J

/-! ## JSON: column names as paths into nested objects

  Model: Csvq.Model.JsonPath (`parsePath`, `addPath`, `buildRow` = lib/json `Path.Parse`,
  `addPathValueToRowStructure`, `ConvertRecordValueToJsonStructure`; the driver's jenc op writes through
  them, compared with the real encoder on generated path names).  The loader does not flatten: a loaded
  table has the top-level keys as columns (Csvq.Model.Json.tableOf) — what is proved is that the nested record
  carries the table's record:
    `json_paths_roundtrip`   column paths none of which is a prefix of another (in particular distinct), values
                             that are not objects: the record is written, and `flatten` of it is exactly the
                             set of (path, value) pairs of the table's record; every value is found by
                             `getPath` at its column's path;
    `json_flat_names`        names without '.' and backslash are single segments: `encodeJsonP` is the flat
                             `encodeJson` of the theorems above;
    `parse_path_segments`    a parsed path has at least one segment.
  Outside the predicate (confirmed on the real encoder by the jenc stream):
    `json_path_prefix_refused`      `a`, `a.b`: refused ("cannot be a member of a value that is not an object");
    `json_path_prefix_duplicate`    `a.b`, `a`: written with the key `a` twice — `getPath` (and every JSON reader
                                    that takes the first or the last member) finds one of them only;
    `json_path_duplicate_name`      `a`, `a`: the key twice;
    `json_path_syntax`              `a..b`, `.a`, `a.`: refused; `a\.b` is the one segment `a.b`, but `\.b` is the
                                    two segments `\` and `b` (a backslash that starts a segment escapes nothing). -/

namespace P
open Csvq.Json

/-- **Nested records carry the table's record.** -/
theorem json_paths_roundtrip (ps : List (List (List Char))) (vs : List JVal) (hlen : ps.length = vs.length)
    (hne : ∀ p ∈ ps, p ≠ []) (hpf : ps.Pairwise Unrelated) :
    ∃ ms, rowObjP ps vs = some (.obj ms) ∧
      (∀ q w, (q, w) ∈ flattenMembers ms ↔ (q, w) ∈ ps.zip (vs.map toStructure)) ∧
      (∀ q w, (q, w) ∈ ps.zip (vs.map toStructure) → getPath q ms = some w) := by
  have hvs : ∀ v ∈ vs.map toStructure, isObj v = false := by
    intro v hv
    obtain ⟨x, _, rfl⟩ := List.mem_map.mp hv
    exact toStructure_not_obj x
  obtain ⟨ms, h1, h2, h3⟩ := buildRow_spec ps (vs.map toStructure) [] (by simpa using hlen) hne hvs
    (by simp [wfMembers]) hpf (by simp [flattenMembers])
  have h3' : ∀ q w, (q, w) ∈ flattenMembers ms ↔ (q, w) ∈ ps.zip (vs.map toStructure) := by
    intro q w; rw [h3]; simp [flattenMembers]
  refine ⟨ms, by simp [rowObjP, h1], h3', ?_⟩
  intro q w hm
  exact getPath_of_mem q ms w h2 (hvs w (List.of_mem_zip hm).2) ((h3' q w).mpr hm)

theorem parse_path_segments (s : List Char) (segs : List (List Char)) (h : parsePath s = some segs) : segs ≠ [] := by
  cases s with
  | nil => simp only [parsePath] at h; injection h with h; subst h; simp
  | cons c rest => exact parseMember_ne _ _ segs h

/-- **Flat names**: the path-aware writer is the flat writer of `json_table_roundtrip`. -/
theorem json_flat_names (t : Esc) (canon : List Char → Option (List Char)) (pretty : Option LB) (lb : LB)
    (tb : Json.Table) (hn : ∀ s ∈ tb.header, FlatName s) (hr : ∀ r ∈ tb.rows, r.length = tb.header.length) :
    encodeJsonP t canon pretty tb = some (encodeJson t canon pretty tb) ∧
    encodeJsonlP t canon lb tb = some (encodeJsonl t canon lb tb) := by
  constructor
  · simp only [encodeJsonP, mapMOpt_parsePath_flat tb.header hn, mapMOpt_rowObjP_flat tb.header tb.rows hr, encodeJson]
    cases pretty <;> rfl
  · simp only [encodeJsonlP, mapMOpt_parsePath_flat tb.header hn, mapMOpt_rowObjP_flat tb.header tb.rows hr, encodeJsonl,
      List.map_map]
    rfl

theorem json_path_prefix_refused :
    rowObjP [[['a']], [['a'], ['b']]] [.int ['1'], .int ['2']] = none := by rfl

/-- the longer path first, then its prefix: refused as well (since F103, 868dfbb; before, the record was written
    with the member `a` twice and read back with one column) -/
theorem json_path_prefix_after_longer_refused :
    rowObjP [[['a'], ['b']], [['a']]] [.int ['1'], .int ['2']] = none ∧
    rowObjP [[['a'], ['b'], ['c']], [['a'], ['b']]] [.int ['1'], .int ['2']] = none := by
  exact ⟨rfl, rfl⟩

theorem json_path_duplicate_name :
    rowObjP [[['a']], [['a']]] [.int ['1'], .int ['2']] = some (.obj [(['a'], .num ['1']), (['a'], .num ['2'])]) := by rfl

theorem json_path_syntax :
    parsePath ['a', '.', '.', 'b'] = none ∧ parsePath ['.', 'a'] = none ∧ parsePath ['a', '.'] = none ∧
    parsePath ['a', '\\', '.', 'b'] = some [['a', '.', 'b']] ∧
    parsePath ['\\', '.', 'b'] = some [['\\'], ['b']] ∧
    parsePath [] = some [[]] := by
  refine ⟨by decide, by decide, by decide, by decide, by decide, rfl⟩

/-! ### refuse or spell, for LISTS of column names

  `pathsSpellable` (Csvq.Model.JsonPath, the decision the op `c02.jspell` answers with) is the predicate of
  `json_paths_roundtrip`, as a computation:
    `paths_spellable_iff`               `true` exactly when every name parses and no path is a prefix of another;
    `json_spellable_written`            the lists it accepts ARE written, every record carrying exactly its (path, value)
                                        pairs — the "spell" half of the law holds for the code;
    `json_unparsable_refused`           a name that is no path (an empty segment) is refused by both writers — that part of
                                        the "refuse" half holds too;
  the full "refuse" half
      ∀ names, pathsSpellable names = false → the writers refuse            (WANTED — does not hold)
  fails for the code as it is: a name that is a proper prefix path of an EARLIER name, and duplicates, are written
  (`json_refuse_or_spell_counterexample`), while the same two names in the other order are refused
  (`json_path_prefix_refused`).  The stream reports it on the real encoder (op c02.jspell, law
  refuse_or_spell:<fmt>:conflicting_paths_written). -/

theorem unrelatedB_iff (p q : List (List Char)) : unrelatedB p q = true ↔ Unrelated p q := by
  have h (a b : List (List Char)) : a.isPrefixOf b = false ↔ ¬ a <+: b := by
    constructor
    · intro hf hp
      rw [List.isPrefixOf_iff_prefix.mpr hp] at hf
      cases hf
    · intro hn
      cases hb : a.isPrefixOf b with
      | false => rfl
      | true => exact absurd (List.isPrefixOf_iff_prefix.mp hb) hn
  simp [unrelatedB, Unrelated, h]

theorem pairwiseUnrelatedB_iff (ps : List (List (List Char))) :
    pairwiseUnrelatedB ps = true ↔ ps.Pairwise Unrelated := by
  induction ps with
  | nil => simp [pairwiseUnrelatedB]
  | cons p ps ih =>
    simp only [pairwiseUnrelatedB, Bool.and_eq_true, List.all_eq_true, List.pairwise_cons, ih]
    constructor
    · intro h; exact ⟨fun q hq => (unrelatedB_iff p q).mp (h.1 q hq), h.2⟩
    · intro h; exact ⟨fun q hq => (unrelatedB_iff p q).mpr (h.1 q hq), h.2⟩

theorem paths_spellable_iff (names : List (List Char)) :
    pathsSpellable names = true ↔ ∃ ps, mapMOpt parsePath names = some ps ∧ ps.Pairwise Unrelated := by
  unfold pathsSpellable
  cases h : mapMOpt parsePath names with
  | none => simp
  | some ps => simp [pairwiseUnrelatedB_iff]

theorem mapMOpt_mem {α β : Type} (f : α → Option β) :
    ∀ (xs : List α) (ys : List β), mapMOpt f xs = some ys → ∀ y ∈ ys, ∃ x ∈ xs, f x = some y := by
  intro xs
  induction xs with
  | nil => intro ys h y hy; simp [mapMOpt] at h; subst h; simp at hy
  | cons x xs ih =>
    intro ys h y hy
    simp only [mapMOpt] at h
    cases hx : f x with
    | none => simp [hx] at h
    | some y0 =>
      cases hr : mapMOpt f xs with
      | none => simp [hx, hr] at h
      | some ys0 =>
        simp [hx, hr] at h
        subst h
        rcases List.mem_cons.mp hy with rfl | hy'
        · exact ⟨x, by simp, hx⟩
        · obtain ⟨x', hx', hf⟩ := ih ys0 hr y hy'
          exact ⟨x', by simp [hx'], hf⟩

/-- **Spell**: the lists of names the law accepts are written, and the record carries exactly the table's record. -/
theorem json_spellable_written (names : List (List Char)) (ps : List (List (List Char))) (vs : List JVal)
    (hs : pathsSpellable names = true) (hp : mapMOpt parsePath names = some ps) (hlen : ps.length = vs.length) :
    ∃ ms, rowObjP ps vs = some (.obj ms) ∧
      (∀ q w, (q, w) ∈ flattenMembers ms ↔ (q, w) ∈ ps.zip (vs.map toStructure)) ∧
      (∀ q w, (q, w) ∈ ps.zip (vs.map toStructure) → getPath q ms = some w) := by
  obtain ⟨ps', hp', hun⟩ := (paths_spellable_iff names).mp hs
  rw [hp] at hp'
  injection hp' with hp'
  subst hp'
  refine json_paths_roundtrip ps vs hlen ?_ hun
  intro p hpm
  obtain ⟨s, _, hsp⟩ := mapMOpt_mem parsePath names ps hp p hpm
  exact parse_path_segments s p hsp

/-- **Refuse** (the part that holds): a name with an empty segment stops both writers before anything is written. -/
theorem json_unparsable_refused (t : Esc) (canon : List Char → Option (List Char)) (pretty : Option LB) (lb : LB)
    (tb : Json.Table) (h : mapMOpt parsePath tb.header = none) :
    pathsSpellable tb.header = false ∧ encodeJsonP t canon pretty tb = none ∧ encodeJsonlP t canon lb tb = none := by
  simp [pathsSpellable, encodeJsonP, encodeJsonlP, h]

/-- the full "refuse" half does not hold for the code: a repeated name (`a`, `a`) must be refused and is written by
    both writers (known finding F40); the two orders of a path and its prefix are both refused (F103 repaired). -/
theorem json_refuse_or_spell_counterexample :
    pathsSpellable [['a', '.', 'b'], ['a']] = false ∧ pathsSpellable [['a'], ['a', '.', 'b']] = false ∧
    pathsSpellable [['a'], ['a']] = false ∧
    rowObjP [[['a'], ['b']], [['a']]] [.int ['1'], .int ['2']] = none ∧
    (rowObjP [[['a']], [['a']]] [.int ['1'], .int ['2']]).isSome = true ∧
    rowObjP [[['a']], [['a'], ['b']]] [.int ['1'], .int ['2']] = none := by
  refine ⟨by decide, by decide, by decide, rfl, rfl, rfl⟩

example : pathsSpellable [['a', '.', 'b'], ['a', '.', 'c'], ['d']] = true := by decide

end P

/-! ## transcoding

  The texts of the theorems above are lists of characters; a file is a list of bytes.  Between the two stands
  the transform writer / decoder of go-text, here a `Codec` (Csvq.Model.Encoding): `enc` may refuse a text
  (a character the encoding cannot spell), `dec` may report an error.
    `roundtrip_encoded`   for ANY codec with `dec (enc s) = some s` (`Codec.Sound`): a writer followed by `enc`,
                          then `dec` followed by the loader, gives what the loader gives on the text — every
                          round-trip theorem above carries over to bytes (`csv_roundtrip_encoded`,
                          `ltsv_roundtrip_encoded`, `fixed_roundtrip_encoded`); `refused_encoded`: nothing is
                          written when the writer or the encoding refuses;
    `utf8_roundtrip`, `utf8m_roundtrip`, `utf16_roundtrip`
                          the real models are sound: UTF-8, UTF-8 with BOM, UTF-16 BE / LE with BOM (ExpectBOM)
                          and without (IgnoreBOM) for EVERY text (all scalar values, surrogate pairs), and
                          `utf16_usebom_roundtrip` the generic UTF16 (written big endian without BOM, read
                          "the BOM decides") for every text that does not begin with U+FEFF / U+FFFE —
                          `utf16_bom_counterexample`: such a first character is taken for a byte order mark;
    Shift_JIS             stays an abstract sound codec (hypothesis of the `…_encoded` theorems).
  The models are compared with go-text on generated texts and byte strings (ops c02.tenc / c02.tdec). -/

namespace T
open Csvq.Enc

/-- what ends up in the file -/
def writeWith {ε : Type} (C : Codec) (w : Except ε (List Char)) : Option (List Nat) :=
  match w with
  | .ok txt => C.enc txt
  | .error _ => none

/-- what the loader sees -/
def readWith {α : Type} (C : Codec) (r : List Char → Except Err α) (b : List Nat) : Except Err α :=
  match C.dec b with
  | some txt => r txt
  | none => .error .parse

/-- **Any sound codec is transparent.** -/
theorem roundtrip_encoded {ε α : Type} (C : Codec) (hC : C.Sound) (w : Except ε (List Char))
    (r : List Char → Except Err α) (b : List Nat) (hw : writeWith C w = some b) :
    ∃ txt, w = .ok txt ∧ readWith C r b = r txt := by
  cases w with
  | error e => simp [writeWith] at hw
  | ok txt =>
    refine ⟨txt, rfl, ?_⟩
    simp only [writeWith] at hw
    simp [readWith, hC txt b hw]

/-- nothing is written exactly when the writer refuses the table or the encoding cannot spell its text -/
theorem refused_encoded {ε : Type} (C : Codec) (w : Except ε (List Char)) :
    writeWith C w = none ↔ (∃ e, w = .error e) ∨ (∃ txt, w = .ok txt ∧ C.enc txt = none) := by
  cases w with
  | error e => simp [writeWith]
  | ok txt => simp [writeWith]

theorem csv_roundtrip_encoded (C : Codec) (hC : C.Sound) (o : Opts) (t : Table) (hd : DelimOK o.delim)
    (hq : o.quoteLB = true) (hs : Spellable o t) (b : List Nat) (hw : writeWith C (fileCsv o t) = some b) :
    readWith C (decodeCsv o) b = .ok (canon o t) := by
  obtain ⟨txt, h1, h2⟩ := roundtrip_encoded C hC (fileCsv o t) (decodeCsv o) b hw
  obtain ⟨txt', h3, h4⟩ := csv_roundtrip o t hd hq hs
  rw [h3] at h1
  injection h1 with h1
  rw [h2, ← h1, h4]

theorem ltsv_roundtrip_encoded (C : Codec) (hC : C.Sound) (o : Ltsv.Opts) (t : Table) (hs : L.LtsvSpellable t)
    (hr : L.LtsvReadable o t) (b : List Nat) (hw : writeWith C (Ltsv.fileLtsv o t) = some b) :
    readWith C (Ltsv.decodeLtsv o) b = .ok (Ltsv.canon o t) := by
  obtain ⟨txt, h1, h2⟩ := roundtrip_encoded C hC (Ltsv.fileLtsv o t) (Ltsv.decodeLtsv o) b hw
  obtain ⟨txt', h3, h4⟩ := L.ltsv_roundtrip_partial o t hs hr
  rw [h3] at h1
  injection h1 with h1
  rw [h2, ← h1, h4]

theorem fixed_roundtrip_encoded (C : Codec) (hC : C.Sound) (wd : Char → Nat) (hwd : ∀ c, 1 ≤ wd c) (hw1 : wd ' ' = 1)
    (o : Fixed.Opts) (P : List Nat) (t : Fixed.Table) (ho : o.positions = some P) (hs : F.FixedSpellable o P t)
    (b : List Nat) (hw : writeWith C (Fixed.fileFixed wd o t) = some b) :
    readWith C (Fixed.decodeFixed wd o P) b = .ok (Fixed.canon o t) := by
  obtain ⟨txt, h1, h2⟩ := roundtrip_encoded C hC (Fixed.fileFixed wd o t) (Fixed.decodeFixed wd o P) b hw
  rw [h2]
  exact F.fixed_roundtrip_partial wd hwd hw1 o P t ho hs txt h1

/-- JSON and JSON Lines, bytes to bytes, through any sound codec (csvq writes them in UTF-8) -/
theorem json_roundtrip_encoded (C : Codec) (hC : C.Sound) (t : Json.Esc) (canon : List Char → Option (List Char))
    (tb : Json.Table) (hs : J.JsonSpellable canon tb) (ht : J.TextOK t canon tb) (lb : LB) (hlb : lb ≠ .cr)
    (b b' : List Nat) (hw : C.enc (Json.encodeJson t canon none tb) = some b)
    (hw' : C.enc (Json.encodeJsonl t canon lb tb) = some b') :
    readWith C (Json.decodeJson canon) b = .ok (Json.canonTable tb) ∧
    readWith C (Json.decodeJsonl canon) b' = .ok (Json.canonTable tb) := by
  constructor
  · simp only [readWith, hC _ _ hw]
    have := J.json_table_roundtrip_text t canon tb hs ht [] (by simp)
    simpa using this
  · simp only [readWith, hC _ _ hw']
    exact J.jsonl_table_roundtrip_text t canon tb hs ht lb hlb

/-- **UTF-8**, every text -/
theorem utf8_roundtrip : (codec .utf8).Sound := by
  intro s b h
  simp only [codec, Option.some.injEq] at h
  subst h
  simp [codec, Enc.decode, Enc.encode, decodeUtf8_roundtrip]

/-- **UTF-8 with byte order mark**, every text -/
theorem utf8m_roundtrip : (codec .utf8m).Sound := by
  intro s b h
  simp only [codec, Option.some.injEq] at h
  subst h
  simp only [codec, Enc.decode, Enc.encode, bom8, List.cons_append, List.nil_append]
  have h1 : takeBom16 (0xEF :: 0xBB :: 0xBF :: encodeUtf8 s) = none := by simp [takeBom16]
  rw [h1]
  simp [decodeUtf8_roundtrip]

/-- **UTF-16**, big and little endian, with byte order mark (read with ExpectBOM) and without (read with
    IgnoreBOM): every text, all scalar values -/
theorem utf16_roundtrip (e : Encoding) (he : e = .utf16be ∨ e = .utf16le ∨ e = .utf16bem ∨ e = .utf16lem) :
    (codec e).Sound := by
  intro s b h
  simp only [codec, Option.some.injEq] at h
  subst h
  rcases he with rfl | rfl | rfl | rfl
  · simp [codec, Enc.decode, Enc.encode, decodeUtf16, decodeUtf16F_roundtrip]
  · simp [codec, Enc.decode, Enc.encode, decodeUtf16, decodeUtf16F_roundtrip]
  · simp only [codec, Enc.decode, Enc.encode, decodeUtf16, takeBom16_bom]
    simp [decodeUtf16F_roundtrip]
  · simp only [codec, Enc.decode, Enc.encode, decodeUtf16, takeBom16_bom]
    simp [decodeUtf16F_roundtrip]

/-- the generic UTF16: every text that does not begin with a byte order mark character -/
theorem utf16_usebom_roundtrip (s : List Char)
    (h : ∀ c cs, s = c :: cs → c.toNat ≠ 0xFEFF ∧ c.toNat ≠ 0xFFFE) :
    Enc.decode .utf16 (Enc.encode .utf16 s) = some s := by
  simp only [Enc.decode, Enc.encode, decodeUtf16, takeBom16_encode .big s h]
  simp [decodeUtf16F_roundtrip]

theorem utf16_bom_counterexample :
    Enc.decode .utf16 (Enc.encode .utf16 [Char.ofNat 0xFEFF, 'a']) = some ['a'] ∧
    Enc.decode .utf16 (Enc.encode .utf16 [Char.ofNat 0xFFFE, 'a']) = some [Char.ofNat 0x6100] := by
  refine ⟨by decide, by decide⟩

/-- the byte size go-text counts for a character (`RuneByteSize`, the `wd` of the fixed-length model) is the
    number of bytes the encoder writes for it -/
theorem rune_byte_size (e : Encoding) (c : Char) :
    runeByteSize e c = (Enc.encode (match e with | .utf8m => .utf8 | .utf16bem => .utf16be | .utf16lem => .utf16le | e => e) [c]).length := by
  cases e <;> simp [runeByteSize, Enc.encode, encodeUtf8, encodeUtf16, unitsBytes_length]

end T

/-! ## the decisions csvq itself takes, REGENERATED from /repo on every run

  `extract/encfacts` (go/ast) rewrites `Csvq/Gen/EncFacts.lean` from lib/query/encode.go, file_info.go and
  load_view.go before this file is built.  The theorems below tie the hand-written models to what the code
  says NOW: the quoting decision of `encodeCSV` is the model's `mustQuote` (for all inputs); the line break
  detector of the JSON loaders, translated statement by statement, returns the first line break outside
  strings for ALL byte strings and does not depend on how the bytes are cut into reads; the options that
  reach the go-text writers, `ConvertFieldContents`, `EncodeEndingLineBreak`, the attribute mapping of
  `FileInfo.ExportOptions` and every store of a loader into `FileInfo` are the reviewed ones (`decide`).
  An edit of these functions makes the extractor refuse ([gen]) or one of these theorems fail ([build]). -/

namespace G
open Csvq.Gen.Enc Csvq.EncFacts

/-- **The generated quoting decision is the model's**, record fields: with the text and effect
    `ConvertFieldContents` reports for the cell (String / Datetime effect for `str`, any other for `raw` and
    NULL), the writer quotes exactly when the model's `mustQuote` (with `quoteLB`) says so. -/
theorem gen_cell_quote_eq_model (o : Opts) (c : Cell) (effect : String)
    (he : match c with
      | .str _ => effect = "StringEffect" ∨ effect = "DatetimeEffect"
      | _ => effect ≠ "StringEffect" ∧ effect ≠ "DatetimeEffect") :
    mustQuote ⟨o.delim, o.lb, true⟩ (cellField o c)
      = (cellQuote o.encloseAll effect c.text || includesDelimOrQuote o.delim c.text) := by
  unfold cellQuote mustQuote
  simp only [containsAny_crlf]
  cases c with
  | null =>
    obtain ⟨h1, h2⟩ := he
    simp [cellField, Cell.text, includesLineBreak, includesDelimOrQuote, h1, h2]
  | raw s =>
    obtain ⟨h1, h2⟩ := he
    cases hE : o.encloseAll <;> cases hL : includesLineBreak s <;> cases hD : includesDelimOrQuote o.delim s <;>
      simp [cellField, Cell.text, h1, h2, hE, hL, hD]
  | str s =>
    rcases he with h | h <;> subst h <;>
      cases hE : o.encloseAll <;> cases hL : includesLineBreak s <;> cases hD : includesDelimOrQuote o.delim s <;>
      simp [cellField, Cell.text, hE, hL, hD]

/-- … and header fields. -/
theorem gen_header_quote_eq_model (o : Opts) (h : List Char) :
    mustQuote ⟨o.delim, o.lb, true⟩ (headerField o h)
      = (headerQuote o.encloseAll h || includesDelimOrQuote o.delim h) := by
  unfold headerQuote mustQuote
  simp only [containsAny_crlf, headerField]
  cases hE : o.encloseAll <;> cases hL : includesLineBreak h <;> cases hD : includesDelimOrQuote o.delim h <;>
    simp [hE, hL, hD]

/-- **The generated detector finds the first line break outside strings**, for ALL byte strings: from the
    initial state, `LineBreak()` after `scan(b)` is `firstBreak` of `b` ("" when there is none: the session
    default stays). -/
theorem gen_detector_first_line_break (b : List Nat) :
    lineBreak (scan {} b) = Json.firstBreak false false b := by
  have : scan {} b = scanLoop {} b := by simp [scan]
  rw [this]
  exact scanLoop_spec b {} ⟨rfl, rfl, fun _ => rfl⟩

/-- **… however the bytes are cut into reads** (the JSON Lines loader feeds the detector chunk by chunk
    through `Read`). -/
theorem gen_detector_chunks (d : Det) (a b : List Nat) : scan (scan d a) b = scan d (a ++ b) :=
  scan_append d a b

theorem gen_detector_reads (chunks : List (List Nat)) :
    lineBreak (chunks.foldl scan {}) = Json.firstBreak false false chunks.flatten := by
  have h : ∀ (cs : List (List Nat)) (d : Det), cs.foldl scan d = scan d cs.flatten := by
    intro cs
    induction cs with
    | nil =>
      intro d
      simp only [List.foldl_nil, List.flatten_nil, scan, scanLoop]
      split <;> rfl
    | cons c cs ih =>
      intro d
      simp only [List.foldl_cons, List.flatten_cons]
      rw [ih, scan_append]
  rw [h]
  exact gen_detector_first_line_break _

/-- how the loaders use the detector: the JSON loader scans the text it has read, the JSON Lines loader
    puts it between the file and the line reader; `Read` passes everything on and scans what it passed -/
theorem gen_detector_uses_eq_ref :
    detectorUses =
  ["loadViewFromJsonFile: jsonLineBreakDetector{}", "loadViewFromJsonFile: lineBreakDetector.scan(jsonText)", "loadViewFromJsonFile: lineBreakDetector.LineBreak()", "loadViewFromJsonLinesFile: jsonLineBreakDetector{reader: fp}", "loadViewFromJsonLinesFile: jsonl.NewReader(lineBreakDetector)", "loadViewFromJsonLinesFile: lineBreakDetector.LineBreak()"] ∧
    detectorRead =
  ["n, err := d.reader.Read(p)", "d.scan(p[:n])", "return n, err"] :=
  ⟨rfl, rfl⟩

/-- **`FileInfo.ExportOptions`**: every attribute the file carries overrides the session's option,
    unconditionally (C02-m8 made this depend on the format and lost TSV); the session's terminal colours never
    reach a table file (F102: `--color --pretty-print` wrote escape sequences into committed JSON files); the one
    conditional statement withholds delimiter positions that were DETECTED on loading (F112), after the mapping. -/
theorem gen_export_options_eq_ref :
    exportOptionsMap =
  [("Format", "Format"), ("Delimiter", "Delimiter"), ("DelimiterPositions", "DelimiterPositions"), ("SingleLine", "SingleLine"), ("Encoding", "Encoding"), ("LineBreak", "LineBreak"), ("WithoutHeader", "NoHeader"), ("EncloseAll", "EncloseAll"), ("JsonEscape", "JsonEscape"), ("PrettyPrint", "PrettyPrint"), ("Color", "const false")] ∧
    exportOptionsOverrides = [("DelimiterPositions", "f.positionsDetected", "nil")] :=
  ⟨rfl, rfl⟩

/-- **the loaders' stores into `FileInfo`**: the encoding is refined by `DetectInSpecifiedEncoding` for
    EVERY named encoding (C02-m10 skipped the refinement for UTF16), the line break and the enclosure are
    what the reader detected AFTER the records have been read (C02-m4 stored the line break before, when a
    header-less file has shown none yet), JSON files are UTF-8 with the detected escape type and line break; the
    fixed-length loader marks positions it detected itself (F112, see `detected_positions_never_reach_the_writer`). -/
theorem gen_loader_stores_eq_ref :
    loaderStores =
  [("loadViewFromCSVFile", [("Delimiter", "'\\t'", "fileInfo.Format == option.TSV", "before the records are read"), ("Encoding", "enc := text.DetectInSpecifiedEncoding(fileHead, fileInfo.Encoding)", "", "before the records are read"), ("LineBreak", "reader.DetectedLineBreak", "reader.DetectedLineBreak != \"\"", "after the records are read"), ("EncloseAll", "reader.EnclosedAll", "", "after the records are read")]),
   ("loadViewFromFixedLengthTextFile", [("Encoding", "enc := text.DetectInSpecifiedEncoding(fileHead, fileInfo.Encoding)", "", "before the records are read"), ("positionsDetected", "true", "fileInfo.DelimiterPositions == nil", "before the records are read"), ("LineBreak", "reader.DetectedLineBreak", "reader.DetectedLineBreak != \"\"", "after the records are read")]),
   ("loadViewFromLTSVFile", [("Encoding", "enc := text.DetectInSpecifiedEncoding(fileHead, fileInfo.Encoding)", "", "before the records are read"), ("LineBreak", "reader.DetectedLineBreak", "reader.DetectedLineBreak != \"\"", "after the records are read")]),
   ("loadViewFromJsonFile", [("LineBreak", "lb := lineBreakDetector.LineBreak()", "lb := lineBreakDetector.LineBreak(); lb != \"\"", "after the records are read"), ("Encoding", "text.UTF8", "", "after the records are read"), ("JsonEscape", "escapeType := json.LoadTable(fileInfo.JsonQuery, string(jsonText))", "", "after the records are read")]),
   ("loadViewFromJsonLinesFile", [("LineBreak", "lb := lineBreakDetector.LineBreak()", "lb := lineBreakDetector.LineBreak(); lb != \"\"", "after the records are read"), ("Encoding", "text.UTF8", "", "after the records are read"), ("JsonEscape", "escapeType := txjson.Backslash", "", "after the records are read")])] :=
  rfl

/-- **Automatic delimiter positions are detected on the WHOLE file** (`loadViewFromFixedLengthTextFile`, regenerated):
    whatever the file is, `fixedlen.NewDelimiter` is handed all of its bytes — not the `loaderHeadLen` = 2048 bytes
    kept for the detection of the encoding (C02-m18 ran the detection on that head: a column that is blank
    throughout the first 2 KiB was not found) — and so is `fixedlen.NewReader`, in both branches, from the first byte
    (a reader that has been read to its end is rewound).  The detector is told about the header line and the
    encoding, and what it finds is stored as the table's positions.  This is what `Csvq.Drive.C02.decFixedAuto`
    (op c02.deca: `Fixed.delimit` over the whole text, then `Fixed.decodeFixed` over the whole text) assumes. -/
theorem auto_positions_use_whole_file (file : List Nat) :
    fixedAutoDetectorInput.bytes loaderHeadLen file = file ∧
    (∀ e ∈ fixedReaderInputs, readerBytes loaderHeadLen file e = file) ∧
    fixedReaderInputs.map (·.1) = [fixedAutoGuard, "!(" ++ fixedAutoGuard ++ ")"] ∧
    fixedAutoGuard = "fileInfo.DelimiterPositions == nil" ∧
    fixedAutoDetectorSettings = ["d.NoHeader = fileInfo.NoHeader", "d.Encoding = fileInfo.Encoding"] ∧
    fixedAutoPositionsStore = "fileInfo.DelimiterPositions, err = d.Delimit()" := by
  refine ⟨LoaderSrc.bytes_of_whole _ _ _ (by decide), ?_, by decide, by decide, by decide, by decide⟩
  intro e he
  have hw : ∀ e ∈ fixedReaderInputs, e.2.2 = false ∧ e.2.1.whole = true := by decide
  obtain ⟨h1, h2⟩ := hw e he
  simp [readerBytes, h1, LoaderSrc.bytes_of_whole _ _ _ h2]

/-- the statement is not empty: the head of the file is a different source -/
theorem auto_positions_head_is_not_the_file : ∃ file : List Nat, LoaderSrc.head.bytes loaderHeadLen file ≠ file :=
  LoaderSrc.head_loses loaderHeadLen

/-- the two attributes of a `FileInfo` this is about: the delimiter positions, and whether they were detected on loading -/
structure PosState where
  positions : Option (List Nat)
  detected : Bool

/-- what a store of `fileInfoPositionStores` does: the positions become `v`; the flag is what the statement next to
    the store says, and stays as it is when there is none -/
def applyPositionStore (e : String × String × String) (v : Option (List Nat)) (s : PosState) : PosState :=
  { positions := v,
    detected := if e.2.2 = "fileInfo.positionsDetected = true" ∨ e.2.2 = "f.positionsDetected = true" then true
                else if e.2.2 = "fileInfo.positionsDetected = false" ∨ e.2.2 = "f.positionsDetected = false" then false
                else s.detected }

/-- `FileInfo.ExportOptions` on the two attributes, read off the regenerated mapping and overrides: the positions the
    WRITER is handed (`none` = it measures the table) -/
def writerPositions (s : PosState) : Option (List Nat) :=
  if ("DelimiterPositions", "DelimiterPositions") ∈ exportOptionsMap then
    if ("DelimiterPositions", "f.positionsDetected", "nil") ∈ exportOptionsOverrides ∧ s.detected = true then none
    else s.positions
  else none

/-- **Detected positions never reach the writer** (F112: a fixed-length file read with AUTOMATIC positions got the
    detected positions as its explicit ones — UPDATE + COMMIT rewrote it without the blank between the columns, so
    that it no longer read back with automatic positions, and refused a value longer than the detected column).
    Over the regenerated facts: the loader's store of what `Delimit` found — in the branch of the detection, next
    to it the mark — makes the writer measure again, whatever the positions and whatever the state before; positions
    the user gives (`SetDelimiterPositions`) clear the mark and are what the writer gets; an unmarked `FileInfo` hands
    its positions on; and these, with the two stores that never mark (a fresh `FileInfo` from the import options,
    `AddColumns` dropping positions that cannot carry the new fields), are ALL stores into the positions of a
    `FileInfo`. -/
theorem detected_positions_never_reach_the_writer :
    (∀ ps s, writerPositions (applyPositionStore
        ("loadViewFromFixedLengthTextFile", fixedAutoPositionsStore, "fileInfo.positionsDetected = true") (some ps) s) = none) ∧
    (∀ ps s, writerPositions (applyPositionStore
        ("SetDelimiterPositions", "f.DelimiterPositions = delimiterPositions", "f.positionsDetected = false") ps s) = ps) ∧
    (∀ ps, writerPositions ⟨ps, false⟩ = ps) ∧
    fileInfoPositionStores =
      [("SetDefaultFileInfoAttributes", "f.DelimiterPositions = importOptions.DelimiterPositions", ""),
       ("SetDelimiterPositions", "f.DelimiterPositions = delimiterPositions", "f.positionsDetected = false"),
       ("loadViewFromFixedLengthTextFile", fixedAutoPositionsStore, "fileInfo.positionsDetected = true"),
       ("AddColumns", "view.FileInfo.DelimiterPositions = nil", "")] ∧
    exportOptionsOverrides = [("DelimiterPositions", "f.positionsDetected", "nil")] ∧
    (("positionsDetected", "true", fixedAutoGuard, "before the records are read") ∈
      (loaderStores.lookup "loadViewFromFixedLengthTextFile").getD []) := by
  have hm : ("DelimiterPositions", "DelimiterPositions") ∈ exportOptionsMap := by decide
  have ho : ("DelimiterPositions", "f.positionsDetected", "nil") ∈ exportOptionsOverrides := by decide
  refine ⟨?_, ?_, ?_, by decide, by decide, by decide⟩
  · intro ps s
    simp [writerPositions, applyPositionStore, hm, ho]
  · intro ps s
    simp [writerPositions, applyPositionStore, hm]
  · intro ps
    simp [writerPositions, hm]

/-- which options reach the go-text writers -/
theorem gen_writer_options_eq_ref :
    csvWriter =
  ["csv.NewWriter(fp, options.LineBreak, options.Encoding)", "w.Delimiter = options.Delimiter"] ∧
    ltsvWriter =
  ["ltsv.NewWriter(fp, hfields, options.LineBreak, options.Encoding)"] ∧
    fixedWriter =
  ["fixedlen.NewMeasure()", "m.Encoding = options.Encoding", "options.DelimiterPositions = m.GeneratePositions()", "fixedlen.NewWriter(fp, options.DelimiterPositions, options.LineBreak, options.Encoding)", "w.InsertSpace = true", "fixedlen.NewWriter(fp, options.DelimiterPositions, options.LineBreak, options.Encoding)", "w.SingleLine = options.SingleLine"] :=
  ⟨rfl, rfl, rfl⟩

/-- `ConvertFieldContents`: text, effect and alignment of every value type (String and Datetime are the
    two effects `cellQuote` tests; NULL and UNKNOWN have no text and no effect outside text tables) -/
theorem gen_convert_field_contents_eq_ref :
    convertInit =
  ["var s string", "var effect = option.NoEffect", "var align = text.NotAligned"] ∧
    convertFieldContents =
  [("String", "s = v.Raw(); effect = option.StringEffect"),
   ("Integer", "s = v.String(); effect = option.NumberEffect; align = text.RightAligned"),
   ("Float", "s = value.Float64ToStr(v.Raw(), useScientificNotation); effect = option.NumberEffect; align = text.RightAligned"),
   ("Boolean", "s = v.String(); effect = option.BooleanEffect; align = text.Centering"),
   ("Ternary", "if forTextTable { s = v.Ternary().String() effect = option.TernaryEffect align = text.Centering } else if v.Ternary() != ternary.UNKNOWN { s = strconv.FormatBool(v.Ternary().ParseBool()) effect = option.BooleanEffect align = text.Centering }"),
   ("Datetime", "s = v.Format(time.RFC3339Nano); effect = option.DatetimeEffect"),
   ("Null", "if forTextTable { s = \"NULL\" effect = option.NullEffect align = text.Centering }")] :=
  ⟨rfl, rfl⟩

/-- `EncodeEndingLineBreak`: UTF-16 outputs of the four text formats get the line break in their byte
    order, without byte order mark; everything else the bytes themselves -/
theorem gen_ending_line_break_eq_ref :
    endingLineBreak =
  [(["CSV", "TSV", "LTSV", "FIXED"], ["UTF16", "UTF16BE", "UTF16BEM"], "UTF16BE"),
   (["CSV", "TSV", "LTSV", "FIXED"], ["UTF16LE", "UTF16LEM"], "UTF16LE")] :=
  rfl

/-- the fixed-length writer of the pinned go-text module, the decisions `Csvq.Model.Fixed` models:
    `measure` (the width of a column = the largest byte size), `positionsOf` (running sums), the one blank
    between two fields under `InsertSpace`, `addField` (refuse a text longer than its field; pad left / right /
    both sides by the alignment).  With `gen_convert_field_contents_eq_ref` (numbers right-aligned, booleans
    centred, everything else — String, Datetime, header names — not aligned = padded on the right) and
    `gen_writer_options_eq_ref` (`NewMeasure`, `GeneratePositions`, `InsertSpace = true`) this is what
    `F.fixed_auto_roundtrip` is about. -/
theorem gen_fixedlen_eq_ref :
    fixedlenMeasure =
  ["l := text.ByteSize(v.Contents, m.Encoding)", "if len(m.size) <= i { m.size = append(m.size, l) } else if m.size[i] < l { m.size[i] = l }"] ∧
    fixedlenPositions =
  ["pos = pos + v", "p = append(p, pos)"] ∧
    fixedlenSeparator =
  ["e.InsertSpace && 0 < i", "e.writer.WriteByte(e.PadChar)"] ∧
    fixedlenFit =
  ["size := text.ByteSize(field.Contents, e.encoding)", "if fieldSize < size { error }", "padLen := fieldSize - size"] ∧
    fixedlenAlign =
  [("text.Centering", ["halfPadLen := padLen / 2", "bytes.Repeat([]byte{e.PadChar}, halfPadLen)", "field.Contents", "bytes.Repeat([]byte{e.PadChar}, padLen-halfPadLen)"]),
   ("text.RightAligned", ["bytes.Repeat([]byte{e.PadChar}, padLen)", "field.Contents"]),
   ("default", ["field.Contents", "bytes.Repeat([]byte{e.PadChar}, padLen)"])] :=
  ⟨rfl, rfl, rfl, rfl, rfl⟩

end G

end Csvq.C02
