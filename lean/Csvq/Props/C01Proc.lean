/-
  Csvq.Props.C01Proc — property C01, the clause "according to how it ended": the dispatch from the way a run ends
  to COMMIT or ROLLBACK, over definitions TRANSLATED from lib/query/processor.go on every run (Gen/ProcFacts.lean,
  extract/procfacts): the statement loop of Processor.execute and the auto-commit condition of Processor.Execute.
  Together with Gen/CliProto (the deferred AutoRollback of lib/cli/app.go, Props/C11) this is what makes
  `Session.finish` — the function the theorems of Props/C01.lean are about — the code's own ending.
  Property theorems only.
-/
import Csvq.Gen.ProcFacts
import Csvq.Ref.ProcFacts
namespace Csvq.C01
open Csvq.Session Csvq.ProcFrame

/-! ## the regenerated text facts are the reviewed ones -/

theorem gen_flow_names_eq_model : Gen.flowNames = Flow.names := by decide
theorem gen_execute_stmts_eq_ref : Gen.executeStmts = Ref.executeStmts := rfl
theorem gen_execute_defer_eq_ref : Gen.executeDefer = Ref.executeDefer := rfl
theorem gen_flow_assignments_eq_ref : Gen.flowAssignments = Ref.flowAssignments := rfl
theorem gen_delegations_eq_ref : Gen.delegations = Ref.delegations := rfl
/-- action.Run switches auto-commit on, executes once, returns that error — nothing in between -/
theorem gen_run_tail_eq_ref : Gen.runTail = Ref.runTail := rfl

/-! ## the auto-commit condition (translated) -/

/-- Execute commits exactly when no error was returned, the flow is still Terminate and auto-commit is on -/
theorem gen_autocommit_iff (e : Bool) (f : Flow) (a : Bool) :
    Gen.autoCommitCond e f a = true ↔ e = true ∧ f = .terminate ∧ a = true := by
  cases e <;> cases f <;> cases a <;> simp [Gen.autoCommitCond] <;> decide

/-- … that is: exactly when the procedure ended normally -/
theorem gen_autocommit_iff_normal (e : Bool) (f : Flow) :
    Gen.autoCommitCond e f true = true ↔ endingOf e f false = .normal := by
  cases e <;> cases f <;> simp [Gen.autoCommitCond, endingOf] <;> decide

theorem exit_never_commits (e a : Bool) : Gen.autoCommitCond e .exit a = false := by
  cases e <;> cases a <;> simp [Gen.autoCommitCond] <;> decide

theorem error_never_commits (f : Flow) (a : Bool) : Gen.autoCommitCond false f a = false := by
  cases f <;> cases a <;> simp [Gen.autoCommitCond]

/-- without auto-commit (interactive shell, library use) Execute never commits by itself -/
theorem no_autocommit_never_commits (e : Bool) (f : Flow) : Gen.autoCommitCond e f false = false := by
  cases e <;> cases f <;> simp [Gen.autoCommitCond]

/-! ## the deferred AutoRollback after a successful auto-commit changes nothing -/

theorem rollback_after_commit {C} (s : State C) : doRollback (doCommit s) = doCommit s := by
  simp only [doRollback, doCommit, Bool.false_eq_true, if_false]
  congr 1
  funext t
  cases s.temps t <;> simp

/-- THE TIE: the code's own end-of-run sequence — auto-commit under the translated condition, then the deferred
    AutoRollback — is `Session.finish` of the ending read off (err, flow), for every state -/
theorem frame_end_eq_finish {C} (s : State C) (e : Bool) (f : Flow) :
    frameEnd (Gen.autoCommitCond e f true) s = finish s (endingOf e f false) := by
  cases e <;> cases f <;> simp [frameEnd, Gen.autoCommitCond, endingOf, finish, rollback_after_commit]

/-- an interrupt reaches the frame as an error (ExecuteStatement returns the context's error): rolled back -/
theorem interrupt_rolls_back {C} (s : State C) (f : Flow) :
    frameEnd (Gen.autoCommitCond false f true) s = finish s .interrupt := by
  cases f <;> simp [frameEnd, Gen.autoCommitCond, finish]

/-! ## the statement loop (translated): it stops at the first error or transfer of control -/

/-- statements that all succeed with flow Terminate are all executed, in order -/
theorem execute_loop_all_ok {σ τ} (run : σ → τ → σ × Flow × Bool) (s : σ) (l : List τ)
    (h : ∀ s' st, st ∈ l → (run s' st).2 = (Flow.terminate, true)) :
    Gen.executeLoop run s l = (l.foldl (fun s st => (run s st).1) s, Flow.terminate, true) := by
  induction l generalizing s with
  | nil => rfl
  | cons st rest ih =>
    have h1 := h s st (by simp)
    rw [Gen.executeLoop]
    rcases hr : run s st with ⟨s', fl, ok⟩
    rw [hr] at h1
    simp only at h1
    obtain ⟨rfl, rfl⟩ := Prod.mk.inj h1
    simp only [Bool.not_true, Bool.false_eq_true, if_false, beq_self_eq_true, List.foldl_cons, hr]
    exact ih s' (fun s'' st' hm => h s'' st' (by simp [hm]))

/-- the first statement that returns an error or a flow other than Terminate ends the loop with exactly its
    result: nothing after it is executed, whatever follows -/
theorem execute_loop_first_stop {σ τ} (run : σ → τ → σ × Flow × Bool) (s : σ) (pre post : List τ) (st : τ)
    (hpre : ∀ s' x, x ∈ pre → (run s' x).2 = (Flow.terminate, true))
    (hst : (run (pre.foldl (fun s x => (run s x).1) s) st).2 ≠ (Flow.terminate, true)) :
    Gen.executeLoop run s (pre ++ st :: post) = run (pre.foldl (fun s x => (run s x).1) s) st := by
  induction pre generalizing s with
  | nil =>
    simp only [List.nil_append, List.foldl_nil] at hst ⊢
    rw [Gen.executeLoop]
    rcases hr : run s st with ⟨s', fl, ok⟩
    rw [hr] at hst
    cases ok <;> cases fl <;> simp_all
  | cons x rest ih =>
    have h1 := hpre s x (by simp)
    rw [List.cons_append, Gen.executeLoop]
    rcases hr : run s x with ⟨s', fl, ok⟩
    rw [hr] at h1
    simp only at h1
    obtain ⟨rfl, rfl⟩ := Prod.mk.inj h1
    simp only [Bool.not_true, Bool.false_eq_true, if_false, beq_self_eq_true, List.foldl_cons, hr]
    simp only [List.foldl_cons, hr] at hst
    exact ih s' (fun s'' y hm => hpre s'' y (by simp [hm])) hst

/-- the result of the loop is never "no error, flow Terminate" unless every statement was executed -/
theorem execute_loop_empty {σ τ} (run : σ → τ → σ × Flow × Bool) (s : σ) :
    Gen.executeLoop run s [] = (s, Flow.terminate, true) := rfl

/-! ## non-vacuity -/

/-- a three-statement run whose second statement is EXIT: the third is not executed, nothing is committed -/
example :
    let run : Nat → Nat → Nat × Flow × Bool := fun s st => if st = 1 then (s + 10, .exit, true) else (s + 1, .terminate, true)
    Gen.executeLoop run 0 [0, 1, 2] = (11, .exit, true) ∧ Gen.autoCommitCond true .exit true = false := by decide

example : Gen.autoCommitCond true .terminate true = true := by decide

end Csvq.C01
