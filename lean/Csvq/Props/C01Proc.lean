/-
  Csvq.Props.C01Proc — property C01, the clause "according to how it ended": the dispatch from the way a run ends
  to COMMIT or ROLLBACK, over definitions TRANSLATED from lib/query/processor.go on every run (Gen/ProcFacts.lean,
  extract/procfacts): the statement loop of Processor.execute and the auto-commit condition of Processor.Execute.
  Together with Gen/CliProto (the deferred AutoRollback of lib/cli/app.go, Props/C11) this is what makes
  `Session.finish` — the function the theorems of Props/C01.lean are about — the code's own ending.
  Property theorems only.
-/
import Csvq.Gen.ProcFacts
import Csvq.Ref.ProcFacts
namespace Csvq.C01
open Csvq.Session Csvq.ProcFrame

/-! ## the regenerated text facts are the reviewed ones -/

theorem gen_flow_names_eq_model : Gen.flowNames = Flow.names := by decide
theorem gen_execute_stmts_eq_ref : Gen.executeStmts = Ref.executeStmts := rfl
theorem gen_execute_defer_eq_ref : Gen.executeDefer = Ref.executeDefer := rfl
theorem gen_flow_assignments_eq_ref : Gen.flowAssignments = Ref.flowAssignments := rfl
theorem gen_delegations_eq_ref : Gen.delegations = Ref.delegations := rfl
/-- the statement kinds that run a nested statement list (IF, CASE, WHILE, WHILE IN, SOURCE, EXECUTE of a string,
    EXECUTE of a prepared statement) are the reviewed seven … -/
theorem gen_nested_flow_calls_eq_ref : Gen.nestedFlowCalls = Ref.nestedFlowCalls := rfl
/-- … and every one of them assigns the nested list's StatementFlow to `flow`, the variable ExecuteStatement returns:
    an EXIT / RETURN / error flow met at any depth reaches the loop of `execute_loop_first_stop` (a call whose flow is
    dropped — `_, err = proc.execute(…)` — would let the caller carry on and auto-commit after an EXIT in a sourced file) -/
theorem gen_nested_flow_reaches_caller :
    ∀ c ∈ Gen.nestedFlowCalls, c.2.2 = "flow" := by decide
/-- action.Run switches auto-commit on, executes once, returns that error — nothing in between -/
theorem gen_run_tail_eq_ref : Gen.runTail = Ref.runTail := rfl

/-! ## the auto-commit condition (translated) -/

/-- Execute commits exactly when no error was returned, the flow is still Terminate and auto-commit is on -/
theorem gen_autocommit_iff (e : Bool) (f : Flow) (a : Bool) :
    Gen.autoCommitCond e f a = true ↔ e = true ∧ f = .terminate ∧ a = true := by
  cases e <;> cases f <;> cases a <;> simp [Gen.autoCommitCond] <;> decide

/-- … that is: exactly when the procedure ended normally -/
theorem gen_autocommit_iff_normal (e : Bool) (f : Flow) :
    Gen.autoCommitCond e f true = true ↔ endingOf e f false = .normal := by
  cases e <;> cases f <;> simp [Gen.autoCommitCond, endingOf] <;> decide

theorem exit_never_commits (e a : Bool) : Gen.autoCommitCond e .exit a = false := by
  cases e <;> cases a <;> simp [Gen.autoCommitCond] <;> decide

theorem error_never_commits (f : Flow) (a : Bool) : Gen.autoCommitCond false f a = false := by
  cases f <;> cases a <;> simp [Gen.autoCommitCond]

/-- without auto-commit (interactive shell, library use) Execute never commits by itself -/
theorem no_autocommit_never_commits (e : Bool) (f : Flow) : Gen.autoCommitCond e f false = false := by
  cases e <;> cases f <;> simp [Gen.autoCommitCond]

/-! ## the deferred AutoRollback after a successful auto-commit changes nothing -/

theorem rollback_after_commit {C} (s : State C) : doRollback (doCommit s) = doCommit s := by
  simp only [doRollback, doCommit, Bool.false_eq_true, if_false]
  congr 1
  funext t
  cases s.temps t <;> simp

/-- THE TIE: the code's own end-of-run sequence — auto-commit under the translated condition, then the deferred
    AutoRollback — is `Session.finish` of the ending read off (err, flow), for every state -/
theorem frame_end_eq_finish {C} (s : State C) (e : Bool) (f : Flow) :
    frameEnd (Gen.autoCommitCond e f true) s = finish s (endingOf e f false) := by
  cases e <;> cases f <;> simp [frameEnd, Gen.autoCommitCond, endingOf, finish, rollback_after_commit]

/-- an interrupt reaches the frame as an error (ExecuteStatement returns the context's error): rolled back -/
theorem interrupt_rolls_back {C} (s : State C) (f : Flow) :
    frameEnd (Gen.autoCommitCond false f true) s = finish s .interrupt := by
  cases f <;> simp [frameEnd, Gen.autoCommitCond, finish]

/-! ## the statement loop (translated): it stops at the first error or transfer of control -/

/-- statements that all succeed with flow Terminate are all executed, in order -/
theorem execute_loop_all_ok {σ τ} (run : σ → τ → σ × Flow × Bool) (s : σ) (l : List τ)
    (h : ∀ s' st, st ∈ l → (run s' st).2 = (Flow.terminate, true)) :
    Gen.executeLoop run s l = (l.foldl (fun s st => (run s st).1) s, Flow.terminate, true) := by
  induction l generalizing s with
  | nil => rfl
  | cons st rest ih =>
    have h1 := h s st (by simp)
    rw [Gen.executeLoop]
    rcases hr : run s st with ⟨s', fl, ok⟩
    rw [hr] at h1
    simp only at h1
    obtain ⟨rfl, rfl⟩ := Prod.mk.inj h1
    simp only [Bool.not_true, Bool.false_eq_true, if_false, beq_self_eq_true, List.foldl_cons, hr]
    exact ih s' (fun s'' st' hm => h s'' st' (by simp [hm]))

/-- the first statement that returns an error or a flow other than Terminate ends the loop with exactly its
    result: nothing after it is executed, whatever follows -/
theorem execute_loop_first_stop {σ τ} (run : σ → τ → σ × Flow × Bool) (s : σ) (pre post : List τ) (st : τ)
    (hpre : ∀ s' x, x ∈ pre → (run s' x).2 = (Flow.terminate, true))
    (hst : (run (pre.foldl (fun s x => (run s x).1) s) st).2 ≠ (Flow.terminate, true)) :
    Gen.executeLoop run s (pre ++ st :: post) = run (pre.foldl (fun s x => (run s x).1) s) st := by
  induction pre generalizing s with
  | nil =>
    simp only [List.nil_append, List.foldl_nil] at hst ⊢
    rw [Gen.executeLoop]
    rcases hr : run s st with ⟨s', fl, ok⟩
    rw [hr] at hst
    cases ok <;> cases fl <;> simp_all
  | cons x rest ih =>
    have h1 := hpre s x (by simp)
    rw [List.cons_append, Gen.executeLoop]
    rcases hr : run s x with ⟨s', fl, ok⟩
    rw [hr] at h1
    simp only at h1
    obtain ⟨rfl, rfl⟩ := Prod.mk.inj h1
    simp only [Bool.not_true, Bool.false_eq_true, if_false, beq_self_eq_true, List.foldl_cons, hr]
    simp only [List.foldl_cons, hr] at hst
    exact ih s' (fun s'' y hm => hpre s'' y (by simp [hm])) hst

/-- the result of the loop is never "no error, flow Terminate" unless every statement was executed -/
theorem execute_loop_empty {σ τ} (run : σ → τ → σ × Flow × Bool) (s : σ) :
    Gen.executeLoop run s [] = (s, Flow.terminate, true) := rfl

/-! ## an internal failure (a panic inside a statement) is an ending by error -/

/-- the deferred function can change what execute returns: the results are NAMED, and what it assigns are exactly
    those names — regenerated from the signature and the deferred function literal -/
theorem gen_recover_can_set_results :
    Gen.executeHasNamedResults = true ∧ Gen.executeResultNames = ["flow", "err"] ∧ Gen.deferAssigns = ["flow", "err"]
    ∧ Gen.executeInitFlow = Flow.terminate := by decide

/-- the deferred function (translated): a panic met with no error pending becomes (TerminateWithError, Fatal Error);
    without a panic it changes nothing -/
theorem gen_defer_fn_spec (f : Flow) (e p : Bool) :
    Gen.executeDeferFn f e p = if e && p then (Flow.terminateWithError, false, true) else (f, e, false) := by
  cases e <;> cases p <;> simp [Gen.executeDeferFn]

/-- Processor.execute: the translated loop inside the translated deferred recover, results handed back as the
    regenerated signature says -/
def execute {σ τ : Type} (run : σ → τ → Outcome σ) (s : σ) (l : List τ) : σ × Flow × Bool × Bool :=
  executeWithRecover Gen.executeHasNamedResults Gen.executeDeferFn Flow.terminate run Gen.executeInitFlow true s l

/-- without a panic the frame is exactly the translated loop `Gen.executeLoop` (no Fatal Error) -/
theorem execute_no_panic_eq_loop {σ τ} (run : σ → τ → σ × Flow × Bool) (s : σ) (l : List τ) :
    execute (fun s st => Outcome.done (run s st).1 (run s st).2.1 (run s st).2.2) s l
      = ((Gen.executeLoop run s l).1, (Gen.executeLoop run s l).2.1, (Gen.executeLoop run s l).2.2, false) := by
  unfold execute
  have key : ∀ (l : List τ) (s : σ),
      executeWithRecover Gen.executeHasNamedResults Gen.executeDeferFn Flow.terminate
        (fun s st => Outcome.done (run s st).1 (run s st).2.1 (run s st).2.2) Flow.terminate true s l
      = ((Gen.executeLoop run s l).1, (Gen.executeLoop run s l).2.1, (Gen.executeLoop run s l).2.2, false) := by
    intro l
    induction l with
    | nil => intro s; rfl
    | cons st rest ih =>
      intro s
      rw [executeWithRecover, Gen.executeLoop]
      rcases hr : run s st with ⟨s', fl, ok⟩
      cases ok
      · cases fl <;> rfl
      · cases fl
        · simpa using ih s'
        all_goals rfl
  exact key l s

/-- PANIC NEVER COMMITS: the statements in front succeed, one statement panics — whatever follows it, execute returns
    (TerminateWithError, the Fatal Error); under the translated condition Execute does not auto-commit, the ending is
    `error`, and the end of the run is `Session.finish … .error`: every table as at the last commit point -/
theorem panic_never_commits {σ τ} (run : σ → τ → Outcome σ) (s : σ) (pre post : List τ) (st : τ) (sp : σ)
    (hpre : ∀ s' x, x ∈ pre → ∃ s'', run s' x = .done s'' .terminate true)
    (hst : run (pre.foldl (fun s x => (run s x).state) s) st = .panic sp) :
    execute run s (pre ++ st :: post) = (sp, Flow.terminateWithError, false, true)
    ∧ (∀ a, Gen.autoCommitCond false Flow.terminateWithError a = false)
    ∧ endingOf false Flow.terminateWithError false = .error := by
  refine ⟨?_, fun a => by cases a <;> rfl, rfl⟩
  unfold execute
  induction pre generalizing s with
  | nil =>
    simp only [List.nil_append, List.foldl_nil] at hst ⊢
    rw [executeWithRecover, hst]
    rfl
  | cons x rest ih =>
    obtain ⟨s'', hx⟩ := hpre s x (by simp)
    rw [List.cons_append, executeWithRecover, hx]
    simp only [List.foldl_cons, hx, Outcome.state] at hst
    have h := ih s'' (fun s' y hm => hpre s' y (by simp [hm])) hst
    simpa [Gen.executeInitFlow] using h

/-- … and the end of such a run over the session machine is the abnormal ending -/
theorem panic_run_ends_as_error {C} (s : State C) :
    frameEnd (Gen.autoCommitCond false Flow.terminateWithError true) s = finish s .error := by
  simpa [endingOf] using frame_end_eq_finish s false Flow.terminateWithError

/-- WHY THE RESULTS MUST BE NAMED: the same frame with unnamed results hands back the zero values after the
    recovered panic — (Terminate, nil) — and Execute goes on to the implicit COMMIT of a half-executed procedure -/
theorem unnamed_results_swallow_panic {σ τ} (run : σ → τ → Outcome σ) (s : σ) (post : List τ) (st : τ) (sp : σ)
    (hst : run s st = .panic sp) :
    executeWithRecover false Gen.executeDeferFn Flow.terminate run Gen.executeInitFlow true s (st :: post)
      = (sp, Flow.terminate, true, false)
    ∧ Gen.autoCommitCond true Flow.terminate true = true := by
  constructor
  · rw [executeWithRecover, hst]; rfl
  · decide

/-! ## non-vacuity -/

/-- INSERT; a statement that panics; INSERT — the second INSERT is not executed, the error is the Fatal Error, no
    auto-commit; with unnamed results the same run would have committed -/
example :
    let run : Nat → Nat → Outcome Nat := fun s st => if st = 1 then .panic (s + 100) else .done (s + 1) .terminate true
    execute run 0 [0, 1, 2] = (101, .terminateWithError, false, true)
    ∧ executeWithRecover false Gen.executeDeferFn Flow.terminate run Gen.executeInitFlow true 0 [0, 1, 2] = (101, .terminate, true, false) := by
  decide


/-- a three-statement run whose second statement is EXIT: the third is not executed, nothing is committed -/
example :
    let run : Nat → Nat → Nat × Flow × Bool := fun s st => if st = 1 then (s + 10, .exit, true) else (s + 1, .terminate, true)
    Gen.executeLoop run 0 [0, 1, 2] = (11, .exit, true) ∧ Gen.autoCommitCond true .exit true = false := by decide

example : Gen.autoCommitCond true .terminate true = true := by decide

end Csvq.C01
