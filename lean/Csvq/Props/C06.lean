/-
  C06 — comparison, ternary logic, arithmetic and casting follow the documented rules.
  Property theorems only (helper lemmas live in Csvq/Lemmas).  Every theorem quantifies over
  ALL coercion profiles (whatever strconv/time/strings return for the operands), all lists.
-/
import Csvq.Lemmas.Compare
import Csvq.Model.Float
import Csvq.Lemmas.Text
import Csvq.Lemmas.Float
import Csvq.Model.Cast
import Csvq.Gen.CmpFacts
import Csvq.Lemmas.ParseFloat
namespace Csvq.C06
open Csvq

/-! ## the ladder is symmetric; the six operators are mutually consistent -/

theorem cmp_symm (a b : Profile) : cmp b a = (cmp a b).flip := by
  unfold cmp
  cases a.isNull <;> cases b.isNull <;> simp [Cmp.flip]
  exact rungInt_flip a b

theorem lt_iff_gt (a b : Profile) : opLt a b = opGt b a := by
  unfold opLt opGt
  rw [cmp_symm a b]
  cases cmp a b <;> rfl

theorem le_iff_ge (a b : Profile) : opLe a b = opGe b a := by
  unfold opLe opGe
  rw [cmp_symm a b]
  cases cmp a b <;> rfl

theorem eq_symm (a b : Profile) : opEq a b = opEq b a := by
  unfold opEq
  rw [cmp_symm a b]
  cases cmp a b <;> rfl

theorem ne_not_eq (a b : Profile) : opNe a b = (opEq a b).not := by
  unfold opNe opEq
  cases cmp a b <;> rfl

/-- for operands that have an order, `<=` is `<` or `=` -/
theorem le_expand (a b : Profile) (h : (cmp a b).ordered = true) :
    opLe a b = (opLt a b).or (opEq a b) := by
  unfold opLe opLt opEq
  cases hc : cmp a b <;> rw [hc] at h <;> first | rfl | exact absurd h (by decide)

theorem ge_expand (a b : Profile) (h : (cmp a b).ordered = true) :
    opGe a b = (opGt a b).or (opEq a b) := by
  unfold opGe opGt opEq
  cases hc : cmp a b <;> rw [hc] at h <;> first | rfl | exact absurd h (by decide)

/-- exactly one of `<`, `=`, `>` is TRUE for ordered operands -/
theorem trichotomy (a b : Profile) (h : (cmp a b).ordered = true) :
    (opLt a b = .T ∧ opEq a b = .F ∧ opGt a b = .F) ∨
    (opLt a b = .F ∧ opEq a b = .T ∧ opGt a b = .F) ∨
    (opLt a b = .F ∧ opEq a b = .F ∧ opGt a b = .T) := by
  unfold opLt opGt opEq
  cases hc : cmp a b <;> rw [hc] at h <;> first | exact absurd h (by decide) | decide

/-- `=` is UNKNOWN exactly with a NULL operand or when no rung of the ladder applies -/
theorem eq_unknown_iff (a b : Profile) :
    opEq a b = .U ↔ (a.isNull = true ∨ b.isNull = true ∨ rungInt a b = .incomm) := by
  unfold opEq cmp
  cases ha : a.isNull <;> cases hb : b.isNull <;> simp
  cases rungInt a b <;> simp

theorem identical_null (x y : Val) (h : x = .null ∨ y = .null) : identical x y = .U := by
  rcases h with h | h
  · subst h; rfl
  · subst h; cases x <;> try rfl
    rename_i t; cases t <;> rfl

/-- a NULL operand makes every comparison UNKNOWN -/
theorem null_unknown (op : COp) (a b : Profile) (h : a.isNull = true ∨ b.isNull = true) :
    compare op a b = .U := by
  have hc : cmp a b = .incomm := by
    unfold cmp; rcases h with h | h <;> simp [h]
  have hi : identical a.raw b.raw = .U := by
    apply identical_null
    unfold Profile.isNull at h
    rcases h with h | h
    · left; cases hr : a.raw <;> simp_all
    · right; cases hr : b.raw <;> simp_all
  cases op <;> simp only [compare, opEq, opNe, opGt, opLt, opGe, opLe, hc, hi]

/-! ## Kleene logic -/

theorem and_is_min (a b : Tern) : (a.and b).rank = min a.rank b.rank := by
  cases a <;> cases b <;> decide
theorem or_is_max (a b : Tern) : (a.or b).rank = max a.rank b.rank := by
  cases a <;> cases b <;> decide
theorem not_is_neg (a : Tern) : a.not.rank = 2 - a.rank := by
  cases a <;> decide
theorem de_morgan_and (a b : Tern) : (a.and b).not = a.not.or b.not := by
  cases a <;> cases b <;> decide
theorem de_morgan_or (a b : Tern) : (a.or b).not = a.not.and b.not := by
  cases a <;> cases b <;> decide
theorem and_comm (a b : Tern) : a.and b = b.and a := by cases a <;> cases b <;> decide
theorem or_comm (a b : Tern) : a.or b = b.or a := by cases a <;> cases b <;> decide
theorem and_assoc (a b c : Tern) : (a.and b).and c = a.and (b.and c) := by
  cases a <;> cases b <;> cases c <;> decide
theorem or_assoc (a b c : Tern) : (a.or b).or c = a.or (b.or c) := by
  cases a <;> cases b <;> cases c <;> decide
theorem not_not (a : Tern) : a.not.not = a := by cases a <;> decide

/-- the evaluator's short-circuits do not change the Kleene result -/
theorem evalAnd_spec (a b : Profile) : evalAnd a b = a.tern.and b.tern := by
  unfold evalAnd; cases a.tern <;> cases b.tern <;> decide
theorem evalOr_spec (a b : Profile) : evalOr a b = a.tern.or b.tern := by
  unfold evalOr; cases a.tern <;> cases b.tern <;> decide

/-! ## BETWEEN, IN, ANY, ALL, IS, CASE equal their documented expansions -/

theorem between_expand (neg : Bool) (v lo hi : Profile) :
    evalBetween neg v lo hi =
      (let t := (opGe v lo).and (opLe v hi); if neg then t.not else t) := by
  unfold evalBetween
  cases hv : v.isNull
  · cases hl : opGe v lo <;> cases opLe v hi <;> cases neg <;> simp [Tern.and, Tern.not]
  · have h1 : opGe v lo = .U := by
      have := null_unknown .ge v lo (Or.inl hv); simpa [compare] using this
    have h2 : opLe v hi = .U := by
      have := null_unknown .le v hi (Or.inl hv); simpa [compare] using this
    cases neg <;> simp [h1, h2, Tern.and, Tern.not]

/-- a comparison on one-element rows is the plain comparison -/
theorem cmp1_spec (op : COp) (v p : Profile) : cmp1 op v p = evalComparison op v p := by
  unfold cmp1 evalComparison
  cases hv : v.isNull
  · cases op <;> simp [rowCmpLoop, compare, opEq, opNe, opGt, opLt, opGe, opLe] <;>
      first
      | (cases cmp v p <;> simp [Tern.ofBool])
      | (cases identical v.raw p.raw <;> simp)
  · have hc : cmp v p = .incomm := by unfold cmp; simp [hv]
    have hi : identical v.raw p.raw = .U := by
      apply identical_null; left
      unfold Profile.isNull at hv
      cases hr : v.raw <;> simp_all
    cases op <;> simp [rowCmpLoop, hc, hi]

theorem anyLoop_spec (f : Profile → Tern) (l : List Profile) (acc : List Tern)
    (hacc : ∀ t ∈ acc, t ≠ .T) :
    anyLoop f l acc = Tern.any (acc.reverse ++ l.map f) := by
  induction l generalizing acc with
  | nil => simp [anyLoop]
  | cons p ps ih =>
    unfold anyLoop
    by_cases h : f p = .T
    · simp only [h, if_true]
      -- once a TRUE is present the fold is TRUE
      have key : ∀ (xs : List Tern) (s : Tern), s = .T → xs.foldl Tern.or s = .T := by
        intro xs; induction xs with
        | nil => intro s hs; simpa using hs
        | cons x xs ihx => intro s hs; subst hs; simp only [List.foldl]; apply ihx; cases x <;> rfl
      unfold Tern.any
      rw [List.map_cons, List.foldl_append, List.foldl_cons]
      symm; apply key
      rw [h]; cases (List.foldl Tern.or Tern.F acc.reverse) <;> rfl
    · simp only [h, if_false]
      rw [ih (f p :: acc)]
      · simp
      · intro t ht
        rcases List.mem_cons.mp ht with rfl | ht
        · exact h
        · exact hacc t ht

theorem allLoop_spec (f : Profile → Tern) (l : List Profile) (acc : List Tern) :
    allLoop f l acc = Tern.all (acc.reverse ++ l.map f) := by
  induction l generalizing acc with
  | nil => simp [allLoop]
  | cons p ps ih =>
    unfold allLoop
    by_cases h : f p = .F
    · simp only [h, if_true]
      have key : ∀ (xs : List Tern) (s : Tern), s = .F → xs.foldl Tern.and s = .F := by
        intro xs; induction xs with
        | nil => intro s hs; simpa using hs
        | cons x xs ihx => intro s hs; subst hs; simp only [List.foldl]; apply ihx; cases x <;> rfl
      unfold Tern.all
      rw [List.map_cons, List.foldl_append, List.foldl_cons]
      symm; apply key
      rw [h]; cases (List.foldl Tern.and Tern.T acc.reverse) <;> rfl
    · simp only [h, if_false]
      rw [ih (f p :: acc)]
      simp

/-- `v op ANY (l)` is the Kleene disjunction of the single comparisons (early exit included) -/
theorem any_spec (op : COp) (v : Profile) (l : List Profile) :
    evalAny op v l = (l.map (evalComparison op v)).foldl Tern.or .F := by
  unfold evalAny
  rw [anyLoop_spec _ _ [] (by simp)]
  have : cmp1 op v = evalComparison op v := funext (cmp1_spec op v)
  simp [Tern.any, this]

/-- `v op ALL (l)` is the Kleene conjunction of the single comparisons (early exit included) -/
theorem all_spec (op : COp) (v : Profile) (l : List Profile) :
    evalAll op v l = (l.map (evalComparison op v)).foldl Tern.and .T := by
  unfold evalAll
  rw [allLoop_spec]
  have : cmp1 op v = evalComparison op v := funext (cmp1_spec op v)
  simp [Tern.all, this]

/-- over an EMPTY set (only a sub-query can produce one) ANY is FALSE and ALL is TRUE — also for a NULL
    left-hand side: the expansions have no term that could be UNKNOWN -/
theorem any_empty (op : COp) (v : Profile) : evalAny op v [] = .F := by rw [any_spec]; rfl
theorem all_empty (op : COp) (v : Profile) : evalAll op v [] = .T := by rw [all_spec]; rfl
theorem in_empty (v : Profile) : evalIn false v [] = .F ∧ evalIn true v [] = .T :=
  ⟨any_empty .eq v, all_empty .ne v⟩

theorem in_eq_any (v : Profile) (l : List Profile) : evalIn false v l = evalAny .eq v l := rfl
theorem notin_eq_all (v : Profile) (l : List Profile) : evalIn true v l = evalAll .ne v l := rfl

/-- `a IS NULL` tests nullness; `a IS <ternary>` compares the ternary readings -/
theorem is_null_spec (a b : Profile) (hb : b.isNull = true) :
    evalIs false a b = Tern.ofBool a.isNull := by simp [evalIs, hb]
theorem is_tern_spec (a b : Profile) (hb : b.isNull = false) :
    evalIs false a b = Tern.ofBool (a.tern == b.tern) := by simp [evalIs, hb, Tern.eqv]
theorem is_not_spec (a b : Profile) : evalIs true a b = (evalIs false a b).not := by simp [evalIs]

/-- CASE takes the first WHEN whose condition is TRUE, otherwise ELSE / NULL -/
theorem case_spec (v : Option Profile) (cs : List Profile) (i k : Nat) :
    caseIdx v cs i = some k ↔
      ∃ j, k = i + j ∧ j < cs.length ∧
        (∀ c, cs[j]? = some c → caseCond v c = .T) ∧
        (∀ j' c, j' < j → cs[j']? = some c → caseCond v c ≠ .T) := by
  induction cs generalizing i with
  | nil => simp [caseIdx]
  | cons c cs ih =>
    unfold caseIdx
    by_cases h : caseCond v c = .T
    · simp only [h, if_true]
      constructor
      · intro hk; injection hk with hk; subst hk
        refine ⟨0, by simp, by simp, ?_, ?_⟩
        · intro c' hc'; simp at hc'; subst hc'; exact h
        · intro j' c' hj'; omega
      · rintro ⟨j, hk, _, hj, hmin⟩
        cases j with
        | zero => simp [hk]
        | succ j => exact absurd h (hmin 0 c (by omega) (by simp))
    · simp only [h, if_false]
      rw [ih (i + 1)]
      constructor
      · rintro ⟨j, hk, hlt, hj, hmin⟩
        refine ⟨j + 1, by omega, by simp; omega, ?_, ?_⟩
        · intro c' hc'; simp at hc'; exact hj c' hc'
        · intro j' c' hj' hc'
          cases j' with
          | zero => simp at hc'; subst hc'; exact h
          | succ j' => simp at hc'; exact hmin j' c' (by omega) hc'
      · rintro ⟨j, hk, hlt, hj, hmin⟩
        cases j with
        | zero => exact absurd (hj c (by simp)) h
        | succ j =>
          refine ⟨j, by omega, by simp at hlt; omega, ?_, ?_⟩
          · intro c' hc'; exact hj c' (by simpa using hc')
          · intro j' c' hj' hc'; exact hmin (j' + 1) c' (by omega) (by simpa using hc')

theorem case_none_spec (v : Option Profile) (cs : List Profile) (i : Nat) :
    caseIdx v cs i = none ↔
      ∀ c ∈ cs, caseCond v c ≠ .T := by
  induction cs generalizing i with
  | nil => simp [caseIdx]
  | cons c cs ih =>
    unfold caseIdx
    by_cases h : caseCond v c = .T
    · simp [h]
    · simp only [h, if_false]; rw [ih]; simp [h]

/-! ## arithmetic -/

/-- NULL exactly when an operand is not numeric -/
theorem calc_null_iff (fo : FloatOps) (op : AOp) (a b : Profile) :
    calculate fo op a b = .null ↔
      ¬ (a.int?.isSome ∧ b.int?.isSome) ∧ ¬ (a.flt?.isSome ∧ b.flt?.isSome) := by
  unfold calculate
  cases a.int? <;> cases b.int? <;> cases a.flt? <;> cases b.flt? <;> simp <;>
    (cases calcInt op _ _ <;> simp)

/-- an integer (or the division-by-zero error) exactly when both operands are integers -/
theorem calc_int_iff (fo : FloatOps) (op : AOp) (a b : Profile) :
    ((∃ i, calculate fo op a b = .int i) ∨ calculate fo op a b = .divZero) ↔
      (a.int?.isSome ∧ b.int?.isSome) := by
  unfold calculate
  cases a.int? <;> cases b.int? <;> cases a.flt? <;> cases b.flt? <;> simp <;>
    (cases calcInt op _ _ <;> simp)

/-- a float otherwise (both numeric, not both integers) -/
theorem calc_float_otherwise (fo : FloatOps) (op : AOp) (a b : Profile)
    (hi : ¬ (a.int?.isSome ∧ b.int?.isSome)) (hf : a.flt?.isSome ∧ b.flt?.isSome) :
    ∃ f, calculate fo op a b = .flt f := by
  unfold calculate
  cases ha : a.int? <;> cases hb : b.int? <;> cases hfa : a.flt? <;> cases hfb : b.flt? <;> simp_all

/-- integer division by zero is the only error -/
theorem divzero_iff (fo : FloatOps) (op : AOp) (a b : Profile) :
    calculate fo op a b = .divZero ↔
      ∃ x, a.int? = some x ∧ b.int? = some 0 ∧ (op = .div ∨ op = .mod) := by
  unfold calculate
  cases ha : a.int? <;> cases hb : b.int? <;> cases a.flt? <;> cases b.flt? <;> simp <;>
    (cases op <;> simp [calcInt] <;> (split <;> simp_all))

/-- `a % b` on integers: sign of `a` (or zero), magnitude below `|b|`; no wrap-around occurs -/
theorem imod_sign_mag (x y : Int) (hx : inI64 x) (hy : inI64 y) (h0 : y ≠ 0) :
    ∃ r, calcInt .mod x y = some r ∧ r = Int.tmod x y ∧ r.natAbs < y.natAbs ∧
      (r = 0 ∨ (0 < r ↔ 0 < x)) := by
  have hlt : (Int.tmod x y).natAbs < y.natAbs := by
    rw [Int.natAbs_tmod]; exact Nat.mod_lt _ (by omega)
  have hr : inI64 (Int.tmod x y) := by
    unfold inI64 minI64 maxI64 at *; omega
  have hsign : (0 ≤ x → 0 ≤ Int.tmod x y) ∧ (x ≤ 0 → Int.tmod x y ≤ 0) := by
    constructor
    · intro h; exact Int.tmod_nonneg y h
    · intro h
      have h1 : 0 ≤ Int.tmod (-x) y := Int.tmod_nonneg y (by omega)
      rw [Int.neg_tmod] at h1; omega
  refine ⟨Int.tmod x y, ?_, rfl, hlt, ?_⟩
  · simp only [calcInt, h0, if_false]
    unfold wrap64; unfold inI64 minI64 maxI64 at hr; congr 1; omega
  · by_cases hz : Int.tmod x y = 0
    · exact Or.inl hz
    · right
      rcases Int.lt_or_le 0 x with hpos | hneg
      · have := hsign.1 (by omega); constructor <;> intro <;> omega
      · have := hsign.2 hneg; constructor <;> intro <;> omega

/-- float `%` on integral operands agrees with integer `%` (exactly: no rounding is involved) -/
theorem fmod_agrees_int (p q : Int) (hq : q ≠ 0) :
    FVal.feq (FVal.fmod (.fin (p * FVal.unit)) (.fin (q * FVal.unit))) (.fin (Int.tmod p q * FVal.unit)) = true := by
  have hu : (0 : Int) < (FVal.unit : Int) := by
    unfold FVal.unit FVal.pow2; exact_mod_cast Nat.pow_pos (by decide)
  have hq' : q * (FVal.unit : Int) ≠ 0 := Int.mul_ne_zero hq (Int.ne_of_gt hu)
  have hm : Int.tmod (p * FVal.unit) (q * FVal.unit) = Int.tmod p q * FVal.unit := by
    rw [Int.mul_comm p, Int.mul_comm q, Int.mul_tmod_mul_of_pos _ _ hu, Int.mul_comm]
  have hz : (q * (FVal.unit : Int) == 0) = false := by simpa using hq'
  unfold FVal.fmod
  simp only [FVal.isNaN, FVal.isInf, FVal.isZero, FVal.num?, Bool.or_false, hz, Bool.false_eq_true,
    if_false, hm]
  by_cases hr : Int.tmod p q * (FVal.unit : Int) = 0
  · rw [hr]; simp only [if_true]
    split <;> simp [FVal.feq, FVal.num?]
  · simp only [hr, if_false]
    simp [FVal.feq, FVal.num?]

/-- float64(i) is exact for every integer of magnitude below 2^53 (the driver's rounding instance) -/
theorem int_to_float_exact (i : Int) (h : i.natAbs < FVal.pow2 53) :
    FVal.ofInt i = .fin (i * (FVal.unit : Int)) := FVal.ofInt_exact i h

/-- float `+` agrees with integer `+` on integral operands: for integers p, q with |p|, |q|, |p+q| < 2^53
    the IEEE sum of their float images is the float image of the integer sum (no rounding occurs).
    (`-` and `*`: `float_int_sub_agree`, `float_int_mul_agree` below.) -/
theorem float_int_add_agree (p q : Int) (hp : p.natAbs < FVal.pow2 53) (hq : q.natAbs < FVal.pow2 53)
    (hr : (p + q).natAbs < FVal.pow2 53) :
    calcFloat FVal.ieee .add (FVal.ofInt p) (FVal.ofInt q) = FVal.ofInt (p + q) := by
  rw [FVal.ofInt_exact p hp, FVal.ofInt_exact q hq, FVal.ofInt_exact (p + q) hr]
  exact FVal.add_int_exact p q hr

theorem float_int_sub_agree (p q : Int) (hp : p.natAbs < FVal.pow2 53) (hq : q.natAbs < FVal.pow2 53)
    (hr : (p - q).natAbs < FVal.pow2 53) :
    calcFloat FVal.ieee .sub (FVal.ofInt p) (FVal.ofInt q) = FVal.ofInt (p - q) := by
  rw [FVal.ofInt_exact p hp, FVal.ofInt_exact q hq, FVal.ofInt_exact (p - q) hr]
  simp only [calcFloat, FVal.ieee]
  exact FVal.sub_int_exact p q hr

/-- `*`: exact whenever the product is non-zero (a zero product is +0 or -0 in float arithmetic: the sign of
    zero is the one place where the two arithmetics cannot agree, and `=` does not distinguish them) -/
theorem float_int_mul_agree (p q : Int) (hp : p.natAbs < FVal.pow2 53) (hq : q.natAbs < FVal.pow2 53)
    (h0 : p * q ≠ 0) (hr : (p * q).natAbs < FVal.pow2 53) :
    calcFloat FVal.ieee .mul (FVal.ofInt p) (FVal.ofInt q) = FVal.ofInt (p * q) := by
  rw [FVal.ofInt_exact p hp, FVal.ofInt_exact q hq, FVal.ofInt_exact (p * q) hr]
  simp only [calcFloat, FVal.ieee]
  exact FVal.mul_int_exact p q h0 hr

example : (3 : Int).natAbs < FVal.pow2 53 ∧ ((3 : Int) * 5) ≠ 0 :=
  ⟨Nat.lt_of_lt_of_le (by decide : (3 : Int).natAbs < 2 ^ 2) (Nat.pow_le_pow_right (by decide) (by decide)), by decide⟩

/-! ## casting functions -/

/-- INTEGER() of an integer is that integer; of a string it is the strict integer reading when there
    is one, else the truncated float reading, else NULL -/
theorem cast_integer_int (p : Profile) (i : Int) (h : p.raw = .int i) : castInteger p = .int i := by
  simp [castInteger, h]

theorem cast_integer_str (p : Profile) (s : Bytes) (h : p.raw = .str s) (i : Int) (hi : p.int? = some i) :
    castInteger p = .int i := by
  simp [castInteger, h, hi]

theorem cast_integer_str_float (p : Profile) (s : Bytes) (h : p.raw = .str s) (hi : p.int? = none)
    (f : FVal) (hf : p.flt? = some f) (t : Int) (ht : truncToInt64 f = some t) : castInteger p = .int t := by
  simp [castInteger, h, hi, hf, ht]

theorem cast_integer_str_null (p : Profile) (s : Bytes) (h : p.raw = .str s) (hi : p.int? = none)
    (hf : p.flt? = none) : castInteger p = .null := by
  simp [castInteger, h, hi, hf]

/-- truncation is toward zero and never increases the magnitude (finite values inside the int64 range) -/
theorem trunc_toward_zero (n : Int) (t : Int) (h : truncToInt64 (.fin n) = some t)
    (hr : minI64 ≤ Int.tdiv n (FVal.unit : Int) ∧ Int.tdiv n (FVal.unit : Int) ≤ maxI64) :
    t = Int.tdiv n (FVal.unit : Int) ∧ (t * (FVal.unit : Int)).natAbs ≤ n.natAbs := by
  simp only [truncToInt64, hr, and_self, if_true, Option.some.injEq] at h
  subst h
  refine ⟨rfl, ?_⟩
  rw [Int.natAbs_mul]
  have h1 : (Int.tdiv n (FVal.unit : Int)).natAbs = n.natAbs / (FVal.unit : Int).natAbs := Int.natAbs_tdiv n _
  rw [h1]; exact Nat.div_mul_le_self _ _

/-- BOOLEAN() and TERNARY() agree: BOOLEAN(x) is NULL exactly when TERNARY(x) is UNKNOWN, for values
    whose boolean reading is their ternary reading (everything but datetimes and NULL is so by profile) -/
theorem cast_boolean_ternary (p : Profile)
    (hwf : p.bool? = (match p.tern with | .T => some true | .F => some false | .U => none)) :
    (castBoolean p = .null ↔ castTernary p = .tern .U) := by
  unfold castBoolean castTernary
  rw [hwf]; cases p.tern <;> simp

/-! ## casting between text and integers (strconv.FormatInt / ParseInt as modelled in Model/Text.lean,
    both tied to the implementation by the streams c06.sint and c06.itext) -/

/-- the text csvq prints for an integer converts back to the same integer, for every int64 -/
theorem int_text_roundtrip (i : Int) (h : inI64 i) : strToIntStrict (decText i) = some i := by
  unfold strToIntStrict
  have hd : ∀ b ∈ decText i, isAsciiSpace b = false := by
    intro b hb
    unfold decText at hb
    have key : ∀ b ∈ natDigits (i.natAbs + 1) i.natAbs [], 48 ≤ b ∧ b ≤ 57 := by
      intro b hb
      rcases natDigits_bytes i.natAbs (i.natAbs + 1) [] (by omega) b hb with h | h
      · exact h
      · simp at h
    unfold isAsciiSpace
    by_cases hn : i < 0
    · simp only [hn, if_true, List.mem_cons] at hb
      rcases hb with rfl | hb
      · decide
      · have := key b hb; simp; omega
    · simp only [hn, if_false] at hb
      have := key b hb; simp; omega
  have ht : trimAscii (decText i) = decText i := by
    unfold trimAscii
    have h1 : ∀ (l : Bytes), (∀ b ∈ l, isAsciiSpace b = false) → l.dropWhile isAsciiSpace = l := by
      intro l hl
      cases l with
      | nil => rfl
      | cons a t => simp [List.dropWhile, hl a (by simp)]
    rw [h1 _ hd, h1 _ (by intro b hb; exact hd b (by simpa using hb))]
    simp
  rw [ht]; exact parseIntStrict_decText i h

/-- a string is an integer only inside the int64 range: larger magnitudes are not integers -/
theorem int_out_of_range_not_integer (s : Bytes) (i : Int) (h : parseSigned s = some i) (hr : ¬ inI64 i) :
    parseIntStrict s = none := by
  unfold parseIntStrict; rw [h]; unfold inI64 at hr; simp [hr]

/-! ## Tie to the source: the comparison core of lib/value/comparison.go, TRANSLATED on every run
    (extract/cmpfacts → Gen/CmpFacts.lean) -/


theorem gen_compareInteger_eq (x y : Int) : Gen.compareInteger x y = cmpInt x y := by
  simp [Gen.compareInteger, cmpInt]

theorem gen_compareFloat_eq (x y : FVal) : Gen.compareFloat x y = cmpFloat x y := by
  simp [Gen.compareFloat, cmpFloat]

theorem gen_rungDatetime_eq (x y : Int) : Gen.rungDatetime x y = cmpInt x y := by
  simp [Gen.rungDatetime, cmpInt]

theorem gen_rungString_eq (x y : Bytes) : Gen.rungString x y = cmpBytes x y := by
  simp [Gen.rungString, cmpBytes]

theorem gen_rungBoolean_eq (x y : Bool) : Gen.rungBoolean x y = (if x = y then Cmp.boolEq else Cmp.ne) := by
  cases x <;> cases y <;> rfl

/-- the six operators as they stand in the source are the model's, for every pair of operands -/
theorem gen_ops_eq_model (a b : Profile) :
    Gen.opEqual (cmp a b) = opEq a b ∧ Gen.opNotEqual (cmp a b) = opNe a b ∧
    Gen.opLess (cmp a b) = opLt a b ∧ Gen.opGreater (cmp a b) = opGt a b ∧
    Gen.opLessOrEqual (cmp a b) = opLe a b ∧ Gen.opGreaterOrEqual (cmp a b) = opGe a b := by
  simp only [opEq, opNe, opLt, opGt, opLe, opGe]
  cases cmp a b <;> decide

/-- the ladder of CompareCombinedly: the conversions in the order of the model's rungs -/
theorem gen_ladder_order :
    Gen.cmpLadder = ["ToIntegerStrictly", "ToFloat", "ToDatetime", "ToBoolean", "isString"] := by decide

/-- CompareCombinedly assembled from the TRANSLATED pieces in the extracted ladder order -/
def cmpGen (a b : Profile) : Cmp :=
  if a.isNull || b.isNull then .incomm
  else match a.int?, b.int? with
    | some x, some y => Gen.compareInteger x y
    | _, _ => match a.flt?, b.flt? with
      | some x, some y => Gen.compareFloat x y
      | _, _ => match a.dt?, b.dt? with
        | some x, some y => Gen.rungDatetime x y
        | _, _ => match a.bool?, b.bool? with
          | some x, some y => Gen.rungBoolean x y
          | _, _ => match a.strU?, b.strU? with
            | some x, some y => Gen.rungString x y
            | _, _ => .incomm

/-- the model's comparison ladder `cmp` — on which every theorem above rests — is that assembly -/
theorem cmp_eq_gen (a b : Profile) : cmp a b = cmpGen a b := by
  unfold cmp cmpGen rungInt rungFlt rungDt rungBool rungStr
  simp only [gen_compareInteger_eq, gen_compareFloat_eq, gen_rungDatetime_eq, gen_rungString_eq, gen_rungBoolean_eq]
  cases a.int? <;> cases b.int? <;> cases a.flt? <;> cases b.flt? <;> cases a.dt? <;> cases b.dt? <;>
    cases a.bool? <;> cases b.bool? <;> cases a.strU? <;> cases b.strU? <;> rfl

/-- `Compare` sends every operator to the function the model's `compare` uses, operands in order -/
theorem gen_dispatch :
    Gen.compareDispatch = [("=", "Equal"), ("==", "Identical"), (">", "Greater"), ("<", "Less"),
      (">=", "GreaterOrEqual"), ("<=", "LessOrEqual"), ("default", "NotEqual")] := by decide

/-- `Equivalent` (used by CASE, IN lists of NULLs …): both NULL → TRUE, else `Equal` -/
theorem gen_equivalent_shape :
    Gen.equivalentShape = ["if IsNull(p1) && IsNull(p2) { return ternary.TRUE }",
      "return Equal(p1, p2, datetimeFormats, location)"] := by decide

/-- `Identical` (`==`): same-type tests in the model's order, each comparing the raw values -/
theorem gen_identical_ladder :
    Gen.identicalOrder = ["Integer", "Float", "Datetime", "Boolean", "Ternary", "String"] := by decide

/-- the character the parser hands to `Calculate` for each arithmetic operator -/
def opCode : AOp → Nat
  | .add => 43 | .sub => 45 | .mul => 42 | .div => 47 | .mod => 37

/-- `calculateInteger` as it stands in lib/query/arithmetic.go IS the model's `calcInt`: wrap-around results,
    truncated division and remainder, division by zero refused — for all operands and operators -/
theorem gen_calculateInteger_eq (op : AOp) (x y : Int) : Gen.calculateInteger x y (opCode op) = calcInt op x y := by
  cases op <;> simp [Gen.calculateInteger, calcInt, opCode]

/-- `calculateFloat` as it stands in the source is the model's `calcFloat`, whatever the float operations are -/
theorem gen_calculateFloat_eq (fo : FloatOps) (op : AOp) (x y : FVal) :
    Gen.calculateFloat fo x y (opCode op) = calcFloat fo op x y := by
  cases op <;> simp [Gen.calculateFloat, calcFloat, opCode]

/-- `Calculate`: integers first, then floats (both operands converted the same way, raw values handed over in
    order), else NULL — the ladder of the model's `calculate` -/
theorem gen_calc_ladder :
    Gen.calcLadder = ["value.ToIntegerStrictly -> calculateInteger(val1,val2,operator)",
      "value.ToFloat -> calculateFloat(val1,val2,operator)", "else -> value.NewNull()"] := by decide

/-! ## texts read as numbers (Model/ParseFloat.lean: option.TrimSpace, strconv.ParseInt, strconv.ParseFloat) -/

/-- the coercion profile the conversion functions give a TEXT, computed by the model from its bytes
    (`dt` and `u` — the datetime reading and the upper-cased trimmed text — stay inputs) -/
def textProfile (s : Bytes) (dt : Option Int) (u : Bytes) : Profile :=
  { raw := .str s, int? := PF.strToIntStrictB s, flt? := PF.strToFloat s, dt? := dt,
    bool? := (match PF.strTernaryB s with | .U => none | .T => some true | .F => some false),
    strU? := some u, tern := PF.strTernaryB s }

/-- **The integer rung and the float rung agree.**  Every text that strconv.ParseInt accepts as the int64 `i`
    is also accepted by strconv.ParseFloat, and as float64(i) — the same value the ladder would reach for the
    Integer `i` itself (`-0` reads as the negative zero, which compares equal to 0). -/
theorem int_text_float_agrees (s : Bytes) (i : Int) (h : parseIntStrict s = some i) :
    PF.parseFloat s = some (if i = 0 then (if s.head? = some 45 then .negz else .fin 0) else FVal.ofInt i) := by
  unfold parseIntStrict at h
  cases hps : parseSigned s with
  | none => rw [hps] at h; cases h
  | some j =>
    rw [hps] at h
    simp only [] at h
    by_cases hr : minI64 ≤ j ∧ j ≤ maxI64
    · rw [if_pos hr] at h
      cases h
      unfold minI64 maxI64 at hr
      have main : ∀ (neg : Bool) (t : Bytes) (n : Nat), parseNat t = some n → n ≤ 2 ^ 63 →
          (∀ c cs, t = c :: cs → 48 ≤ c ∧ c ≤ 57 → PF.special s = none ∧ PF.stripSign s = (neg, t)) →
          PF.parseFloat s = some (if n = 0 then (if neg then .negz else .fin 0)
                                   else FVal.signed neg (FVal.roundMag (n * FVal.unit) 1)) := by
        intro neg t n hn hb hshape
        unfold parseNat at hn
        cases t with
        | nil => simp at hn
        | cons c cs =>
          simp only [List.isEmpty_cons, Bool.false_eq_true, if_false] at hn
          have hc := PF.parseDigits_head_digit c cs 0 n hn
          obtain ⟨hsp, hss⟩ := hshape c cs rfl hc
          have hhex := PF.stripHex_digits (c :: cs) n 0 hn
          obtain ⟨k, hk, hk1, _⟩ := PF.readBody_digits s (c :: cs) neg n (by simp) hn
          have hval := PF.parsed_int_value neg n k hk1 hb
          unfold PF.parseFloat
          rw [hsp]
          simp only []
          unfold PF.readFloat
          rw [hss]
          simp only [hhex]
          rw [hk]; exact hval
      unfold parseSigned at hps
      split at hps
      · -- "-" digits
        rename_i rest
        cases hn : parseNat rest with
        | none => rw [hn] at hps; cases hps
        | some n =>
          rw [hn] at hps
          simp at hps
          have hb : n ≤ 2 ^ 63 := by omega
          have := main true rest n hn hb (fun c cs hs hc => by subst hs; exact ⟨(PF.special_digit c cs hc).2.2, rfl⟩)
          rw [this]
          congr 1
          subst hps
          by_cases h0 : n = 0
          · simp [h0]
          · have e1 : ¬ (-(n : Int) = 0) := by omega
            simp only [h0, e1, if_false]
            unfold FVal.ofInt
            rw [if_neg e1]
            have : decide (-(n : Int) < 0) = true := by simp; omega
            rw [this, Int.natAbs_neg, Int.natAbs_natCast]
      · -- "+" digits
        rename_i rest
        cases hn : parseNat rest with
        | none => rw [hn] at hps; cases hps
        | some n =>
          rw [hn] at hps
          simp at hps
          have hb : n ≤ 2 ^ 63 := by omega
          have := main false rest n hn hb (fun c cs hs hc => by subst hs; exact ⟨(PF.special_digit c cs hc).2.1, rfl⟩)
          rw [this]
          congr 1
          subst hps
          by_cases h0 : n = 0
          · simp [h0]
          · have e1 : ¬ ((n : Int) = 0) := by omega
            simp only [h0, e1, if_false]
            unfold FVal.ofInt
            rw [if_neg e1]
            have : decide ((n : Int) < 0) = false := by simp
            rw [this, Int.natAbs_natCast]
      · -- digits
        rename_i hno45 hno43
        cases hn : parseNat s with
        | none => rw [hn] at hps; cases hps
        | some n =>
          rw [hn] at hps
          simp at hps
          have hb : n ≤ 2 ^ 63 := by omega
          have := main false s n hn hb
            (fun c cs hs hc => by rw [hs]; exact ⟨(PF.special_digit c cs hc).1, PF.stripSign_digit c cs hc⟩)
          rw [this]
          congr 1
          subst hps
          have hhead : ¬ s.head? = some 45 := by
            intro hh
            cases s with
            | nil => simp at hh
            | cons c cs => simp at hh; exact hno45 cs (by rw [hh])
          by_cases h0 : n = 0
          · simp [h0, hhead]
          · have e1 : ¬ ((n : Int) = 0) := by omega
            simp only [h0, e1, if_false]
            unfold FVal.ofInt
            rw [if_neg e1]
            have : decide ((n : Int) < 0) = false := by simp
            rw [this, Int.natAbs_natCast]
    · rw [if_neg hr] at h; cases h

/-- the same through the conversions of lib/value: a text ToIntegerStrictly reads as `i` is read by ToFloat
    as a float equal to float64(i) -/
theorem text_profile_int_float (s : Bytes) (dt : Option Int) (u : Bytes) (i : Int)
    (h : (textProfile s dt u).int? = some i) :
    ∃ f, (textProfile s dt u).flt? = some f ∧ FVal.feq f (FVal.ofInt i) = true := by
  have h' : parseIntStrict (PF.trimSpace s) = some i := h
  have := int_text_float_agrees (PF.trimSpace s) i h'
  refine ⟨_, this, ?_⟩
  by_cases h0 : i = 0
  · subst h0
    simp only [if_true]
    split <;> decide
  · simp only [h0, if_false]
    unfold FVal.ofInt
    rw [if_neg h0]
    cases hm : FVal.roundMag (i.natAbs * FVal.unit) 1 with
    | none => cases hd : decide (i < 0) <;> simp [FVal.signed, FVal.feq]
    | some m =>
      cases m with
      | zero => cases hd : decide (i < 0) <;> simp [FVal.signed, FVal.feq]
      | succ m => cases hd : decide (i < 0) <;> simp [FVal.signed, FVal.feq, FVal.num?]

/-- INTEGER(text), spelled out: ParseInt first, then ParseFloat truncated (a non-finite or out-of-range float
    gives the minimum integer, as `int64(f)` does on amd64), else NULL -/
theorem cast_integer_text (s : Bytes) (dt : Option Int) (u : Bytes) :
    castInteger (textProfile s dt u) =
      match parseIntStrict (PF.trimSpace s) with
      | some i => .int i
      | none => match PF.parseFloat (PF.trimSpace s) with
        | some f => (match truncToInt64 f with | some i => .int i | none => .int minI64)
        | none => .null := rfl

/-- FLOAT(text) and BOOLEAN(text) -/
theorem cast_float_text (s : Bytes) (dt : Option Int) (u : Bytes) :
    castFloat (textProfile s dt u) = (match PF.parseFloat (PF.trimSpace s) with | some f => .flt f | none => .null) := rfl

/-! ## non-vacuity: concrete operands meeting the hypotheses -/

def exInt (i : Int) : Profile :=
  { raw := .int i, int? := some i, flt? := none, dt? := none, bool? := none, strU? := none, tern := .U }
def exNull : Profile :=
  { raw := .null, int? := none, flt? := none, dt? := none, bool? := none, strU? := none, tern := .U }
def exStr (s u : Bytes) : Profile :=
  { raw := .str s, int? := none, flt? := none, dt? := none, bool? := none, strU? := some u, tern := .U }

example : (cmp (exInt 3) (exInt 5)).ordered = true := by decide
example : (cmp (exStr [97] [65]) (exStr [98] [66])).ordered = true ∧ opLt (exStr [97] [65]) (exStr [98] [66]) = .T := by decide
example : calcInt .mod (-7) 3 = some (-1) := by decide
example : evalBetween false (exInt 2) (exInt 1) exNull = .U := by decide
example : evalAny .eq (exInt 2) [exInt 1, exNull, exInt 2, exInt 3] = .T := by decide
example : caseIdx (some (exInt 2)) [exInt 1, exNull, exInt 2] 0 = some 2 := by decide

-- texts: "-42" is an integer text; "1_0.5e-3", "0x1.8p1" are float spellings; "1_" is not; the guard of option.TrimSpace
example : parseIntStrict [45, 52, 50] = some (-42) := by decide
example : PF.readFloat [45, 52, 50] = some { neg := true, hex := false, mant := 42, nd := 2, dp := 2 } := by decide
example : PF.readFloat [49, 95, 48, 46, 53, 101, 45, 51] = some { neg := false, hex := false, mant := 105, nd := 3, dp := -1 } := by decide
example : PF.readFloat [48, 120, 49, 46, 56, 112, 49] = some { neg := false, hex := true, mant := 24, nd := 2, dp := 5 } := by decide
example : PF.readFloat [49, 95] = none := by decide
example : PF.trimSpace [32, 0xE2, 0x80, 0x80, 49, 0xC2, 0xA0] = [49] := by decide
example : PF.trimSpace [0xE2, 0x80, 0x80, 49] = [0xE2, 0x80, 0x80, 49] := by decide

end Csvq.C06
