/-
  Csvq.Props.C12Stateful — property C12: objects with HIDDEN mutable state (a file position, a read buffer, a scanner, a
  hash, a random source, a text transformer) that several workers reach through session-wide state.  A method call on a
  shared *os.File changes its position although no field is assigned, so the census of field writes (C12Session) does
  not see it.

  extract/shapefacts (stateful.go) regenerates the census of every USE (call of a state-changing method, or passing the
  object to a function) of a value of a reviewed list of stateful library types that derives from session-wide state
  (Transaction / Session / Flags / file.Container / ViewMap / package-level variables), with the function, the mutexes
  held at that point and whether a worker body reaches the function.  Here:
    * the class is given its meaning over the scheduler's traces (Model/SharedCursor): through ONE handle, what a worker
      reads depends on the schedule (`shared_file_position_depends_on_schedule`, the shape of C12-m25), whereas a use
      that nobody interrupts - the mutex held from the seek to the last read - is the sequential one
      (`locked_use_is_sequential`);
    * `gen_shared_stateful_objects_used_under_lock`: every use a worker reaches holds a mutex, the uses below the
      loaders all hold Transaction.viewLoadingMutex, and the reachable uses are exactly the reviewed ones.
  Property theorems only.
-/
import Csvq.Model.Shapes
import Csvq.Model.SharedCursor
import Csvq.Lemmas.Shapes
import Csvq.Lemmas.SharedCursor
import Csvq.Gen.ShapeFacts
namespace Csvq.C12
open Csvq Csvq.Shapes

/-! ## the meaning of a shared handle -/

/-- a use of the handle that no other worker interrupts (the mutex is held from the seek to the last read): worker `k`
    reads what it would read from a handle of its own, whatever the others did before and do afterwards -/
theorem locked_use_is_sequential {α : Type} (file : List α) (k n : Nat) (pre post : List (Nat × FStep))
    (hpre : ∀ e ∈ pre, e.1 ≠ k) (hpost : ∀ e ∈ post, e.1 ≠ k) :
    sharedReads file (pre ++ (fileLoad n).map (fun c => (k, c)) ++ post) k = seqReads file (fileLoad n) := by
  simp only [sharedReads, curRun, List.foldl_append]
  have h1 := curRun_other file k pre (0, fun _ => []) hpre
  have h3 := curRun_other file k post
    (curRun file (curRun file (0, fun _ => []) pre) ((fileLoad n).map fun c => (k, c))) hpost
  simp only [curRun] at h1 h3 ⊢
  rw [h3]
  have h2 := (curRun_own file k (fileLoad n) (List.foldl (curStep file) (0, fun _ => []) pre)).2
  simp only [curRun] at h2
  rw [h2, h1]
  simp [fileLoad, seqReads, seqStep]

/-- ONE handle, two workers that each seek to the start and read two elements: under one schedule worker 0 reads the
    file, under another it reads the first element twice (the other worker's seek fell between its reads) - C12-m25 -/
theorem shared_file_position_depends_on_schedule {α : Type} (a b : α) (hab : a ≠ b) :
    ∃ t1 t2 : List (Nat × FStep),
      Interleave [fileLoad 2, fileLoad 2] t1 ∧ Interleave [fileLoad 2, fileLoad 2] t2 ∧
      sharedReads [a, b] t1 0 = seqReads [a, b] (fileLoad 2) ∧ sharedReads [a, b] t2 0 ≠ seqReads [a, b] (fileLoad 2) := by
  refine ⟨(fileLoad 2).map (fun c => (0, c)) ++ ((fileLoad 2).map (fun c => (1, c)) ++ []),
          [(0, .seek), (0, .read), (1, .seek), (0, .read), (1, .read), (1, .read)], ?_, ?_, ?_, ?_⟩
  · refine interleave_prefix (fileLoad 2) _ 0 [] _ (by simp) ?_
    refine interleave_prefix (fileLoad 2) _ 1 [] _ (by simp) ?_
    exact .done (by simp)
  · refine .step (k := 0) (rest := [.read, .read]) (by simp [fileLoad, List.replicate]) ?_
    refine .step (k := 0) (rest := [.read]) (by simp) ?_
    refine .step (k := 1) (rest := [.read, .read]) (by simp [fileLoad, List.replicate]) ?_
    refine .step (k := 0) (rest := []) (by simp) ?_
    refine .step (k := 1) (rest := [.read]) (by simp) ?_
    refine .step (k := 1) (rest := []) (by simp) ?_
    exact .done (by simp)
  · simp [sharedReads, curRun, curStep, seqReads, seqStep, fileLoad, List.replicate]
  · simp [sharedReads, curRun, curStep, seqReads, seqStep, fileLoad, List.replicate]
    exact fun h => hab h

-- non-vacuity: the two schedules exist for a concrete file, and the locked use is instantiated
example : ∃ t1 t2 : List (Nat × FStep), Interleave [fileLoad 2, fileLoad 2] t1 ∧ Interleave [fileLoad 2, fileLoad 2] t2 ∧
    sharedReads [10, 20] t1 0 = seqReads [10, 20] (fileLoad 2) ∧ sharedReads [10, 20] t2 0 ≠ seqReads [10, 20] (fileLoad 2) :=
  shared_file_position_depends_on_schedule 10 20 (by decide)
example : sharedReads [10, 20, 30] ([(1, .seek), (1, .read)] ++ (fileLoad 3).map (fun c => (0, c)) ++ [(1, .read)]) 0
    = [some 10, some 20, some 30] := by
  rw [locked_use_is_sequential [10, 20, 30] 0 3 _ _ (by decide) (by decide)]; rfl

/-! ## the regenerated census -/

abbrev SUse := String × String × String × String × String × Bool
def SUse.fn (u : SUse) : String := u.1
def SUse.typ (u : SUse) : String := u.2.1
def SUse.recv (u : SUse) : String := u.2.2.1
def SUse.op (u : SUse) : String := u.2.2.2.1
def SUse.held (u : SUse) : String := u.2.2.2.2.1
def SUse.reachable (u : SUse) : Bool := u.2.2.2.2.2

/-- the uses a worker body can reach -/
def reachableUses : List SUse := Gen.Shape.statefulUses.filter fun u => u.reachable

/-- reviewed: (function, type, operation, mutexes held, why the order of the workers cannot reach a result).
    `loader`: below Evaluate (a table object in a per-record sub-query): the whole use, from the seek to the end of the
    parse, is under the transaction's view-loading mutex, so `locked_use_is_sequential` applies.
    `statement`: Commit is a statement of its own (the call graph reaches it through the over-approximated function
    values); no fan-out is under way, and it holds the operation mutex. -/
def reviewedStatefulUses : List (String × String × String × String × String) := [
  ("Transaction.Commit", "os.File", "Seek", "Transaction.operationMutex", "statement"),
  ("Transaction.Commit", "os.File", "Truncate", "Transaction.operationMutex", "statement"),
  ("Transaction.Commit", "os.File", "Write", "Transaction.operationMutex", "statement"),
  ("Transaction.Commit", "os.File", "passed to EncodeView", "Transaction.operationMutex", "statement"),
  ("loadInlineObjectFromFile", "os.File", "Seek", "Transaction.viewLoadingMutex", "loader"),
  ("loadInlineObjectFromFile", "os.File", "passed to loadViewFromFile", "Transaction.viewLoadingMutex", "loader")
]

/-- every use of a session-wide stateful object that a worker reaches holds a mutex; the uses below the loaders all hold
    the SAME one (Transaction.viewLoadingMutex), statement-level ones the operation mutex; and the reachable uses are
    exactly the reviewed ones (a new use, or a use that lost its mutex, is a broken obligation) -/
theorem gen_shared_stateful_objects_used_under_lock :
    reachableUses.all (fun u => u.held != "") = true ∧
    (reviewedStatefulUses.all fun r =>
      (r.2.2.2.2 == "loader" && r.2.2.2.1 == "Transaction.viewLoadingMutex") ||
      (r.2.2.2.2 == "statement" && r.2.2.2.1 == "Transaction.operationMutex")) = true ∧
    (reachableUses.map fun (u : SUse) => (u.fn, u.typ, u.op, u.held)) =
      reviewedStatefulUses.map fun r => (r.1, r.2.1, r.2.2.1, r.2.2.2.1) := by
  decide

-- non-vacuity: the census is there, part of it reachable, part not; the loader's uses are in it
example : Gen.Shape.statefulUses.length ≥ 8 ∧ reachableUses.length = 6 := by decide
example : (Gen.Shape.statefulUses.filter fun (u : SUse) => !u.reachable).length ≥ 2 := by decide
example : (reachableUses.filter fun (u : SUse) => u.fn == "loadInlineObjectFromFile").length = 2 := by decide

end Csvq.C12
