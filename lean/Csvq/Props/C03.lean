/-
  C03 — SELECT filters, projects and joins exactly as relational semantics prescribe.
  Property theorems only.  Operators in the shape of the Go code: Model/Rel.lean
  (view.go `filter` / `Fix`, join.go `CrossJoin` / `InnerJoin` / `OuterJoin`, load_view.go `joinViews`,
  query.go `selectSetForRecursion`).  Every theorem holds for ALL tables, ALL conditions (arbitrary
  functions `Row → Tern`) and ALL cuttings of the outer record range into worker chunks, i.e. for every
  `--cpu` value and every table size.  The modelled operator set is: WHERE, select-list projection,
  CROSS / INNER / LEFT / RIGHT / FULL joins, USING / NATURAL merge, recursive CTE with UNION ALL.
  LATERAL: per-left-row application; its empty-left-table header defect (F15) is stated, witnessed and
  bounded by `lateral_spec_partial` below, and checked on the implementation by a direct law.  The LATERAL branch
  in the shape of the code (worker chunks, slots, header from record 0, the join kinds and spellings) and its
  specification theorems are in Props/C03Lateral.lean (Model/Lateral.lean).
-/
import Csvq.Lemmas.Rel
import Csvq.Props.C06
import Csvq.Gen.RelFacts
import Csvq.Ref.RelFacts
namespace Csvq.C03
open Csvq Csvq.Rel

/-- an integer cell (float view left out so that `decide` stays small) -/
def cI (n : Int) : Profile :=
  { raw := .int n, int? := some n, flt? := none, dt? := none, bool? := none, strU? := none, tern := .U }
/-- `left.0 = right.0` on rows of width 1 + 1 -/
def eq01 : Cond := fun r =>
  match r with
  | [a, b] => evalComparison .eq a b
  | _ => .U


/-! ## WHERE: a row is kept iff its condition is TRUE; a single source keeps its row order -/

/-- `View.filter` over any worker chunking = the sequential filter "condition is TRUE" -/
theorem filter_spec (chunks : List (List Row)) (p : Cond) :
    filterImpl chunks p = filterSpec chunks.flatten p := by
  unfold filterImpl filterSpec
  rw [flatten_map_map (holds p) chunks, compact_map]
  congr 1
  funext r
  exact holds_eq_decide p r

/-- a query over a single source keeps that source's row order -/
theorem filter_sublist (chunks : List (List Row)) (p : Cond) :
    (filterImpl chunks p).Sublist chunks.flatten := by
  rw [filter_spec]; exact List.filter_sublist

/-- exactly the rows whose condition is TRUE (UNKNOWN and FALSE both drop the row) -/
theorem filter_mem_iff (chunks : List (List Row)) (p : Cond) (r : Row) :
    r ∈ filterImpl chunks p ↔ r ∈ chunks.flatten ∧ p r = .T := by
  rw [filter_spec]; unfold filterSpec
  simp only [List.mem_filter, decide_eq_true_eq]

/-- with exactly the multiplicities of the source -/
theorem filter_count (chunks : List (List Row)) (p : Cond) (r : Row) :
    (filterImpl chunks p).count r = if p r = .T then chunks.flatten.count r else 0 := by
  rw [filter_spec]; unfold filterSpec
  by_cases h : p r = .T
  · rw [if_pos h]; exact List.count_filter (by simpa using h)
  · rw [if_neg h]
    apply List.count_eq_zero.mpr
    intro hm
    exact h (by simpa using (List.mem_filter.mp hm).2)

/-- the result does not depend on the number of goroutines -/
theorem filter_indep_chunks (c1 c2 : List (List Row)) (p : Cond) (h : c1.flatten = c2.flatten) :
    filterImpl c1 p = filterImpl c2 p := by
  rw [filter_spec, filter_spec, h]

/-! ## CROSS and INNER JOIN -/

theorem cross_spec (chunks : List (List Row)) (R : List Row) :
    crossImpl chunks R = crossSpec chunks.flatten R := by
  unfold crossImpl crossSpec
  exact flatten_flatten_map _ chunks

/-- `FROM a, b, c` is `(a CROSS JOIN b) CROSS JOIN c` (LoadView folds the list to the left); the grouping does not
    matter: the cross product is associative, records and order -/
theorem cross_assoc (A B C : List Row) : crossSpec (crossSpec A B) C = crossSpec A (crossSpec B C) := by
  unfold crossSpec
  have L1 : ∀ (a : Row) (X : List Row),
      (X.map (fun r => a ++ r)).flatMap (fun l => C.map (fun r => l ++ r))
        = (X.flatMap (fun l => C.map (fun r => l ++ r))).map (fun r => a ++ r) := by
    intro a X
    induction X with
    | nil => rfl
    | cons x xs ih =>
      simp only [List.map_cons, List.flatMap_cons, List.map_append, ih, List.map_map]
      congr 1
      apply List.map_congr_left
      intro c _
      simp [Function.comp, List.append_assoc]
  induction A with
  | nil => rfl
  | cons a as ih => simp only [List.flatMap_cons, List.flatMap_append, ih, L1]

/-- the table of a query without FROM (`DUAL`): one record without fields — a cross join with it changes nothing -/
theorem cross_dual (A : List Row) : crossSpec A [[]] = A ∧ crossSpec [[]] A = A := by
  unfold crossSpec
  constructor
  · induction A with
    | nil => rfl
    | cons a as ih =>
      simp only [List.flatMap_cons, List.map_cons, List.map_nil, List.append_nil, List.singleton_append]
      simp only [List.map_cons, List.map_nil, List.append_nil] at ih
      rw [ih]
  · simp

theorem inner_spec (chunks : List (List Row)) (R : List Row) (c : Cond) :
    innerImpl chunks R c = innerSpec chunks.flatten R c := by
  unfold innerImpl innerSpec
  have : innerWorker c R = fun ch => ch.flatMap (fun l => (R.filter (fun r => c (l ++ r) = .T)).map (fun r => l ++ r)) := by
    funext ch; exact innerWorker_eq c R ch
  rw [this, flatten_map_flatMap]

/-- the relational definition: an inner join is the selection of the cross product -/
theorem inner_eq_filter_cross (L R : List Row) (c : Cond) :
    innerSpec L R c = filterSpec (crossSpec L R) c := by
  unfold innerSpec filterSpec crossSpec
  induction L with
  | nil => rfl
  | cons l ls ih =>
    simp only [List.flatMap_cons, List.filter_append, ih, List.filter_map]
    rfl

/-- a merged row is in the inner join iff both halves come from the tables and the condition is TRUE -/
theorem inner_mem_iff (L R : List Row) (c : Cond) (x : Row) :
    x ∈ innerSpec L R c ↔ ∃ l, l ∈ L ∧ ∃ r, r ∈ R ∧ c (l ++ r) = .T ∧ x = l ++ r := by
  unfold innerSpec
  simp only [List.mem_flatMap, List.mem_map, List.mem_filter, decide_eq_true_eq]
  constructor
  · rintro ⟨l, hl, r, ⟨hr, hT⟩, rfl⟩; exact ⟨l, hl, r, hr, hT, rfl⟩
  · rintro ⟨l, hl, r, hr, hT, rfl⟩; exact ⟨l, hl, r, ⟨hr, hT⟩, rfl⟩

/-- multiplicities: the inner join has one row per (left row, matching right row) pair -/
theorem inner_length (L R : List Row) (c : Cond) :
    (innerSpec L R c).length = (L.map (fun l => R.countP (fun r => c (l ++ r) = .T))).sum := by
  unfold innerSpec
  induction L with
  | nil => rfl
  | cons l ls ih =>
    simp only [List.flatMap_cons, List.length_append, List.length_map, List.map_cons, List.sum_cons, ih,
      List.countP_eq_length_filter]

/-- exact multiplicities: the merged row `l ++ r` occurs (copies of l) × (copies of r) times when the
    condition is TRUE on it, and not at all otherwise (left table rectangular, so that a merged row
    splits in one way only) -/
theorem inner_count (wl : Nat) (L R : List Row) (c : Cond) (hL : ∀ l, l ∈ L → l.length = wl)
    (l r : Row) (hl : l.length = wl) :
    (innerSpec L R c).count (l ++ r) = if c (l ++ r) = .T then L.count l * R.count r else 0 := by
  unfold innerSpec
  induction L with
  | nil => simp
  | cons l' ls ih =>
    have ih' := ih (fun x hx => hL x (List.mem_cons_of_mem _ hx))
    simp only [List.flatMap_cons, List.count_append, ih', List.count_cons]
    by_cases hll : l' = l
    · subst hll
      rw [count_map_append_left, count_filter_ite]
      by_cases hT : c (l' ++ r) = .T
      · simp only [hT, decide_true, if_true, BEq.rfl]
        rw [Nat.add_mul, Nat.one_mul, Nat.add_comm]
      · simp [hT]
    · rw [count_map_append_other l l' r (by rw [hL l' (List.mem_cons_self ..), hl]) hll]
      have : (l' == l) = false := by simpa using hll
      simp [this]

/-! ## OUTER JOINs: outer joins pad exactly the unmatched rows with NULLs -/

theorem left_outer_spec (wo wj : Nat) (chunks : List (List Row)) (R : List Row) (c : Cond) :
    outerImpl .left wo wj chunks R c = leftSpec wj chunks.flatten R c := by
  unfold outerImpl leftSpec
  simp only
  rw [outer_recs_eq]
  congr 1
  funext l
  exact blockOf_left c wj R l .left (by decide)

/-- RIGHT: the code swaps the views; `chunks` cut the right table, the left table is the inner loop -/
theorem right_outer_spec (wo wj : Nat) (chunks : List (List Row)) (L : List Row) (c : Cond) :
    outerImpl .right wo wj chunks L c = rightSpec wj L chunks.flatten c := by
  unfold outerImpl rightSpec
  simp only
  rw [outer_recs_eq]
  congr 1
  funext r
  exact blockOf_right c wj L r

/-- FULL: per-worker `joinViewMatches` OR-ed afterwards; the unmatched right rows are appended NULL-padded -/
theorem full_outer_spec (wo wj : Nat) (chunks : List (List Row)) (R : List Row) (c : Cond) :
    outerImpl .full wo wj chunks R c = fullSpec wo wj chunks.flatten R c := by
  unfold outerImpl fullSpec leftSpec
  simp only
  rw [outer_recs_eq, outer_flags_eq, unmatchedOther_map]
  congr 1
  · congr 1
    funext l
    exact blockOf_left c wj R l .full (by decide)
  · congr 1
    apply List.filter_congr
    intro r _
    rw [not_any_eq_all_not]
    congr 1
    funext l
    simp only [hit, mergeRec, holds_eq_decide]

/-- the outer joins do not depend on the number of goroutines either -/
theorem outer_indep_chunks (dir : Dir) (wo wj : Nat) (c1 c2 : List (List Row)) (other : List Row) (c : Cond)
    (h : c1.flatten = c2.flatten) : outerImpl dir wo wj c1 other c = outerImpl dir wo wj c2 other c := by
  cases dir
  · rw [left_outer_spec, left_outer_spec, h]
  · rw [right_outer_spec, right_outer_spec, h]
  · rw [full_outer_spec, full_outer_spec, h]

/-- what exactly a LEFT JOIN contains: per left row its matched merges, or — iff it has no partner — its padding -/
theorem left_outer_mem_iff (wr : Nat) (L R : List Row) (c : Cond) (x : Row) :
    x ∈ leftSpec wr L R c ↔
      ∃ l, l ∈ L ∧ ((∃ r, r ∈ R ∧ c (l ++ r) = .T ∧ x = l ++ r) ∨
        ((∀ r, r ∈ R → c (l ++ r) ≠ .T) ∧ x = l ++ nulls wr)) :=
  mem_leftSpec wr L R c x

/-- "pads exactly the unmatched rows": a left row has a partner iff its NULL-padded copy is absent.
    (Hypotheses: the left table is rectangular; no right row consists of NULLs only — such a row, when
    matched, would be indistinguishable from the padding.) -/
theorem outer_pads_exactly_unmatched (wl wr : Nat) (L R : List Row) (c : Cond)
    (hL : ∀ l, l ∈ L → l.length = wl) (hN : nulls wr ∉ R) :
    ∀ l, l ∈ L → ((∃ r, r ∈ R ∧ c (l ++ r) = .T) ↔ (l ++ nulls wr) ∉ leftSpec wr L R c) := by
  intro l hl
  constructor
  · rintro ⟨r, hr, hT⟩ hmem
    obtain ⟨l', hl', h⟩ := (mem_leftSpec wr L R c _).mp hmem
    rcases h with ⟨r', hr', _, heq⟩ | ⟨hall, heq⟩
    · have := List.append_inj heq (by rw [hL l hl, hL l' hl'])
      exact hN (this.2 ▸ hr')
    · have : l = l' := List.append_cancel_right heq
      subst this
      exact hall r hr hT
  · intro hnot
    apply Classical.byContradiction
    intro hno
    apply hnot
    apply (mem_leftSpec wr L R c _).mpr
    exact ⟨l, hl, Or.inr ⟨fun r hr hT => hno ⟨r, hr, hT⟩, rfl⟩⟩

/-- every left row survives a LEFT JOIN (as the left part of some result row) -/
theorem left_outer_preserves (wr : Nat) (L R : List Row) (c : Cond) (l : Row) (hl : l ∈ L) :
    ∃ t, (l ++ t) ∈ leftSpec wr L R c := by
  apply Classical.byCases (p := ∃ r, r ∈ R ∧ c (l ++ r) = .T)
  · rintro ⟨r, hr, hT⟩
    exact ⟨r, (mem_leftSpec wr L R c _).mpr ⟨l, hl, Or.inl ⟨r, hr, hT, rfl⟩⟩⟩
  · intro hno
    exact ⟨nulls wr, (mem_leftSpec wr L R c _).mpr ⟨l, hl, Or.inr ⟨fun r hr hT => hno ⟨r, hr, hT⟩, rfl⟩⟩⟩

/-- multiplicities: a left row contributes one row per partner, and exactly one row when it has none -/
theorem left_outer_length (wr : Nat) (L R : List Row) (c : Cond) :
    (leftSpec wr L R c).length = (L.map (fun l => max 1 (R.countP (fun r => c (l ++ r) = .T)))).sum := by
  unfold leftSpec
  induction L with
  | nil => rfl
  | cons l ls ih =>
    simp only [List.flatMap_cons, List.length_append, List.map_cons, List.sum_cons, ih]
    congr 1
    rw [List.countP_eq_length_filter]
    cases hm : R.filter (fun r => c (l ++ r) = .T) with
    | nil => simp
    | cons a as =>
      simp only [List.isEmpty_cons, Bool.false_eq_true, if_false, List.length_map, List.length_cons]
      omega

/-- the LEFT JOIN is the INNER JOIN plus the padded unmatched rows — counted -/
theorem left_outer_length_inner (wr : Nat) (L R : List Row) (c : Cond) :
    (leftSpec wr L R c).length =
      (innerSpec L R c).length + L.countP (fun l => R.all (fun r => !(decide (c (l ++ r) = .T)))) := by
  unfold leftSpec innerSpec
  induction L with
  | nil => rfl
  | cons l ls ih =>
    simp only [List.flatMap_cons, List.length_append, ih, List.countP_cons]
    have hb := filter_isEmpty_eq (fun r => decide (c (l ++ r) = .T)) R
    rw [not_any_eq_all_not] at hb
    cases hm : R.filter (fun r => c (l ++ r) = .T) with
    | nil =>
      rw [hm] at hb
      simp only [List.isEmpty_nil] at hb
      simp only [List.isEmpty_nil, if_true, List.length_singleton, List.map_nil, List.length_nil, ← hb]
      omega
    | cons a as =>
      rw [hm] at hb
      simp only [List.isEmpty_cons] at hb
      simp only [List.isEmpty_cons, Bool.false_eq_true, if_false, ← hb]
      omega

/-- FULL = LEFT part followed by the padded right rows that have no partner -/
theorem full_eq_left_append (wl wr : Nat) (L R : List Row) (c : Cond) :
    ∃ tail, fullSpec wl wr L R c = leftSpec wr L R c ++ tail ∧
      tail = (R.filter (fun r => L.all (fun l => !(decide (c (l ++ r) = .T))))).map (fun r => nulls wl ++ r) :=
  ⟨_, rfl, rfl⟩

/-- a right row has no partner iff its NULL-padded copy is in the FULL JOIN
    (left table rectangular and without an all-NULL row, for the same reason as above) -/
theorem full_unmatched_right (wl wr : Nat) (L R : List Row) (c : Cond)
    (hL : ∀ l, l ∈ L → l.length = wl) (hN : nulls wl ∉ L) :
    ∀ r, r ∈ R → ((∀ l, l ∈ L → c (l ++ r) ≠ .T) ↔ (nulls wl ++ r) ∈ fullSpec wl wr L R c) := by
  intro r hr
  unfold fullSpec
  rw [List.mem_append]
  constructor
  · intro hall
    apply Or.inr
    apply List.mem_map.mpr
    refine ⟨r, List.mem_filter.mpr ⟨hr, ?_⟩, rfl⟩
    rw [List.all_eq_true]
    intro l hl
    simpa using hall l hl
  · rintro (hleft | htail)
    · obtain ⟨l', hl', h⟩ := (mem_leftSpec wr L R c _).mp hleft
      have hlen : (nulls wl).length = l'.length := by rw [nulls_length, hL l' hl']
      rcases h with ⟨r', _, _, heq⟩ | ⟨_, heq⟩
      · exact absurd ((List.append_inj heq hlen).1 ▸ hl') hN
      · exact absurd ((List.append_inj heq hlen).1 ▸ hl') hN
    · obtain ⟨r', hr', heq⟩ := List.mem_map.mp htail
      have : r' = r := List.append_cancel_left heq
      subst this
      have := (List.mem_filter.mp hr').2
      rw [List.all_eq_true] at this
      intro l hl
      simpa using this l hl

/-- A LEFT JOIN B and B RIGHT JOIN A hold the same merged pairs, modulo the column order:
    the RIGHT specification is the LEFT one with the roles (and the halves of each row) exchanged -/
theorem right_outer_mem_iff (wl : Nat) (L R : List Row) (c : Cond) (x : Row) :
    x ∈ rightSpec wl L R c ↔
      ∃ r, r ∈ R ∧ ((∃ l, l ∈ L ∧ c (l ++ r) = .T ∧ x = l ++ r) ∨
        ((∀ l, l ∈ L → c (l ++ r) ≠ .T) ∧ x = nulls wl ++ r)) := by
  unfold rightSpec
  rw [List.mem_flatMap]
  have key : ∀ r, x ∈ (let m := L.filter (fun l => c (l ++ r) = .T)
        if m.isEmpty then [nulls wl ++ r] else m.map (fun l => l ++ r)) ↔
      ((∃ l, l ∈ L ∧ c (l ++ r) = .T ∧ x = l ++ r) ∨ ((∀ l, l ∈ L → c (l ++ r) ≠ .T) ∧ x = nulls wl ++ r)) := by
    intro r
    simp only
    cases hm : L.filter (fun l => c (l ++ r) = .T) with
    | nil =>
      have hall : ∀ l, l ∈ L → c (l ++ r) ≠ .T := by
        intro l hl hT
        have : l ∈ L.filter (fun l => c (l ++ r) = .T) := List.mem_filter.mpr ⟨hl, by simpa using hT⟩
        rw [hm] at this; cases this
      simp only [List.isEmpty_nil, if_true, List.mem_singleton]
      constructor
      · intro h; exact Or.inr ⟨hall, h⟩
      · rintro (⟨l, hl, hT, _⟩ | ⟨_, h⟩)
        · exact absurd hT (hall l hl)
        · exact h
    | cons a as =>
      have ha : a ∈ L ∧ c (a ++ r) = .T := by
        have : a ∈ L.filter (fun l => c (l ++ r) = .T) := by rw [hm]; exact List.mem_cons_self ..
        have := List.mem_filter.mp this
        exact ⟨this.1, by simpa using this.2⟩
      simp only [List.isEmpty_cons, Bool.false_eq_true, if_false]
      rw [← hm]
      simp only [List.mem_map, List.mem_filter, decide_eq_true_eq]
      constructor
      · rintro ⟨l, ⟨hl, hT⟩, rfl⟩; exact Or.inl ⟨l, hl, hT, rfl⟩
      · rintro (⟨l, hl, hT, rfl⟩ | ⟨hall, _⟩)
        · exact ⟨l, ⟨hl, hT⟩, rfl⟩
        · exact absurd ha.2 (hall a ha.1)
  constructor
  · rintro ⟨r, hr, hx⟩; exact ⟨r, hr, (key r).mp hx⟩
  · rintro ⟨r, hr, hx⟩; exact ⟨r, hr, (key r).mpr hx⟩

/-- three-valued ON conditions: a preserved record is NULL-padded iff NO partner makes the condition TRUE — UNKNOWN
    counts like FALSE (the keep test of the nested loop is `== ternary.TRUE`, `gen_keep_tests_eq_model`) -/
theorem outer_join_pads_iff_no_true_match (wr : Nat) (R : List Row) (c : Cond) (l : Row) :
    (leftSpec wr [l] R c = [l ++ nulls wr] ↔ (∀ r, r ∈ R → c (l ++ r) ≠ .T) ∨ R.filter (fun r => c (l ++ r) = .T) = [nulls wr]) ∧
    ((∀ r, r ∈ R → c (l ++ r) = .U ∨ c (l ++ r) = .F) → leftSpec wr [l] R c = [l ++ nulls wr]) := by
  have hblock : leftSpec wr [l] R c =
      (let m := R.filter (fun r => c (l ++ r) = .T); if m.isEmpty then [l ++ nulls wr] else m.map (fun r => l ++ r)) := by
    simp [leftSpec]
  constructor
  · rw [hblock]
    cases hm : R.filter (fun r => c (l ++ r) = .T) with
    | nil =>
      simp only [List.isEmpty_nil, if_true, true_iff]
      left
      intro r hr hT
      have : r ∈ R.filter (fun r => c (l ++ r) = .T) := List.mem_filter.mpr ⟨hr, by simpa using hT⟩
      rw [hm] at this; cases this
    | cons a as =>
      have ha : a ∈ R ∧ c (l ++ a) = .T := by
        have : a ∈ R.filter (fun r => c (l ++ r) = .T) := by rw [hm]; exact List.mem_cons_self ..
        have := List.mem_filter.mp this
        exact ⟨this.1, by simpa using this.2⟩
      simp only [List.isEmpty_cons, Bool.false_eq_true, if_false, List.map_cons]
      constructor
      · intro h
        right
        have h1 : l ++ a = l ++ nulls wr := (List.cons.inj h).1
        have h2 : as.map (fun r => l ++ r) = [] := (List.cons.inj h).2
        have : as = [] := by simpa using h2
        rw [List.append_cancel_left h1, this]
      · rintro (h | h)
        · exact absurd ha.2 (h a ha.1)
        · have := List.cons.inj h
          rw [this.1, this.2]; rfl
  · intro hall
    rw [hblock]
    have : R.filter (fun r => c (l ++ r) = .T) = [] := by
      apply List.filter_eq_nil_iff.mpr
      intro r hr
      rcases hall r hr with h | h <;> simp [h]
    simp [this]

/-! ### empty other side, always-true condition (NATURAL join of sources without a common column)

  `ParseJoinCondition` yields NO condition when a NATURAL join finds no common column; `Evaluate(nil)` is TRUE.
  INNER then is the cross product, but an OUTER join must still pad the preserved side when the other
  side is empty. -/

/-- LEFT / FULL against an empty right side: every left row once, NULL-padded — whatever the condition -/
theorem left_outer_empty_other (wo wj : Nat) (chunks : List (List Row)) (c : Cond) :
    outerImpl .left wo wj chunks [] c = chunks.flatten.map (fun l => l ++ nulls wj) := by
  rw [left_outer_spec, leftSpec_empty_right]

theorem right_outer_empty_other (wo wj : Nat) (chunks : List (List Row)) (c : Cond) :
    outerImpl .right wo wj chunks [] c = chunks.flatten.map (fun r => nulls wj ++ r) := by
  rw [right_outer_spec, rightSpec_empty_left]

theorem full_outer_empty_other (wo wj : Nat) (chunks : List (List Row)) (c : Cond) :
    outerImpl .full wo wj chunks [] c = chunks.flatten.map (fun l => l ++ nulls wj) := by
  rw [full_outer_spec]; unfold fullSpec
  rw [leftSpec_empty_right]; simp

/-- FULL with an empty left side: every right row once, NULL-padded on the left -/
theorem full_outer_empty_preserved (wo wj : Nat) (chunks : List (List Row)) (R : List Row) (c : Cond)
    (he : chunks.flatten = []) : outerImpl .full wo wj chunks R c = R.map (fun r => nulls wo ++ r) := by
  rw [full_outer_spec, he]; unfold fullSpec leftSpec
  simp only [List.flatMap_nil, List.all_nil, List.nil_append]
  congr 1
  exact List.filter_eq_self.mpr (fun _ _ => rfl)

/-- with an always-true condition and a non-empty right side nothing is padded: LEFT = cross product -/
theorem left_outer_true_cond (wr : Nat) (L R : List Row) (c : Cond) (hc : ∀ x, c x = .T) (hR : R ≠ []) :
    leftSpec wr L R c = crossSpec L R := by
  unfold leftSpec crossSpec
  congr 1
  funext l
  have : R.filter (fun r => decide (c (l ++ r) = .T)) = R := by
    apply List.filter_eq_self.mpr
    intro r _; simp [hc]
  simp only [this]
  cases R with
  | nil => exact absurd rfl hR
  | cons _ _ => rfl

/-! ## select list -/

/-- `View.Fix` over any chunking = row-wise projection -/
theorem project_spec (chunks : List (List Row)) (idxs : List Nat) :
    projectImpl chunks idxs = projectSpec chunks.flatten idxs := by
  unfold projectImpl projectSpec
  exact mapOpt_chunks (pick idxs) chunks

/-- projection keeps the number and the order of the rows; cell k of a row is the cell `idxs[k]` of the source row -/
theorem project_cells (rows : List Row) (idxs : List Nat) (out : List Row) (h : projectSpec rows idxs = some out) :
    out.length = rows.length ∧
      ∀ i (hi : i < rows.length), ∃ o, out[i]? = some o ∧ o.length = idxs.length ∧
        ∀ k (hk : k < idxs.length), o[k]? = (rows[i])[idxs[k]]? := by
  unfold projectSpec at h
  refine ⟨mapOpt_length _ _ _ h, ?_⟩
  intro i hi
  have hget := mapOpt_get _ _ _ h i hi
  cases ho : pick idxs rows[i] with
  | none =>
    rw [ho] at hget
    have hlen := mapOpt_length _ _ _ h
    have : out[i]? ≠ none := by
      rw [ne_eq, List.getElem?_eq_none_iff]; omega
    exact absurd hget this
  | some o =>
    rw [ho] at hget
    refine ⟨o, hget, mapOpt_length _ _ _ ho, ?_⟩
    intro k hk
    exact mapOpt_get _ _ _ ho k hk

/-! ## USING / NATURAL: the joined columns are merged once -/

/-- the merge after a USING / NATURAL join over any chunking = merged columns once, first, coalesced;
    then the remaining columns of both sides in header order -/
theorem using_merge_spec (w : Nat) (pairs : List (Nat × Nat)) (hnd : (includes pairs).Nodup)
    (chunks : List (List Row)) : usingImpl w pairs chunks = usingSpec w pairs chunks.flatten := by
  unfold usingImpl usingSpec
  rw [mapOpt_chunks]
  exact mapOpt_congr _ _ _ (fun r _ => usingRow_eq w pairs hnd r)

/-- one output column per USING pair, then the columns that belong to no pair: nothing appears twice -/
theorem using_width (w : Nat) (pairs : List (Nat × Nat)) (r out : Row) (h : usingSpecRow w pairs r = some out) :
    out.length = pairs.length + (restIndices w pairs).length ∧
      ∀ i, i ∈ restIndices w pairs → i ∉ includes pairs ∧ i ∉ excludes pairs := by
  unfold usingSpecRow at h
  constructor
  · cases hm : mapOpt (coalesceAt r) pairs with
    | none => simp [hm] at h
    | some m =>
      cases hr : pick (restIndices w pairs) r with
      | none => simp [hm, hr] at h
      | some rest =>
        simp only [hm, hr, Option.some.injEq] at h
        subst h
        rw [List.length_append, mapOpt_length _ _ _ hm, mapOpt_length _ _ _ hr]
  · intro i hi
    unfold restIndices at hi
    simp only [List.mem_filter, Bool.not_eq_true', Bool.or_eq_false_iff] at hi
    exact ⟨by simpa using hi.2.2, by simpa using hi.2.1⟩

/-- the k-th output column is the k-th USING pair, coalesced: the include cell, or — when that is NULL
    (outer joins) — the cell of the other side -/
theorem using_merged_cell (w : Nat) (pairs : List (Nat × Nat)) (r out : Row) (h : usingSpecRow w pairs r = some out)
    (k : Nat) (hk : k < pairs.length) : out[k]? = coalesceAt r pairs[k] := by
  unfold usingSpecRow at h
  cases hm : mapOpt (coalesceAt r) pairs with
  | none => simp [hm] at h
  | some m =>
    cases hr : pick (restIndices w pairs) r with
    | none => simp [hm, hr] at h
    | some rest =>
      simp only [hm, hr, Option.some.injEq] at h
      subst h
      have hlen := mapOpt_length _ _ _ hm
      rw [List.getElem?_append_left (by omega)]
      exact mapOpt_get _ _ _ hm k hk

/-! ## LATERAL: per-left-row application — the header is lost when the left table is empty (finding F15)

  Full statement (does NOT hold for the current code):
    theorem lateral_spec (w) (L) (app) (hw : ∀ l, (app l).1 = w) : lateralImpl L app = lateralSpec w L app
  The code assigns the result header inside the per-record callback (`if rIdx == 0 { hfields = … }`), so
  for `L = []` the header has width 0 instead of `w`.  Reproducer (law `lateral_empty_left_header`):
    DECLARE le VIEW (a, b); DECLARE lt VIEW (k, ob); INSERT INTO lt VALUES (1,'p'),(2,'q');
    SELECT * FROM le AS e CROSS JOIN LATERAL (SELECT t.ob FROM lt AS t WHERE t.k = e.a) AS s;   -- no header -/

/-- what does hold: with a non-empty left table LATERAL is the per-left-row application, header included;
    the rows are right for every left table -/
theorem lateral_spec_partial (w : Nat) (L : List Row) (app : Row → Nat × List Row)
    (hw : ∀ l, (app l).1 = w) :
    (lateralImpl L app).2 = (lateralSpec w L app).2 ∧ (L ≠ [] → lateralImpl L app = lateralSpec w L app) := by
  have hrows : (lateralImpl L app).2 = (lateralSpec w L app).2 := by
    unfold lateralImpl lateralSpec
    simp only [List.flatMap]
  refine ⟨hrows, ?_⟩
  intro hne
  cases L with
  | nil => exact absurd rfl hne
  | cons l ls =>
    apply Prod.ext
    · simp only [lateralImpl, lateralSpec, hw]
    · exact hrows

/-- the concrete witness: an empty left table of header width 2, a sub-select of width 1 -/
theorem lateral_header_counterexample :
    ∃ (w : Nat) (app : Row → Nat × List Row), (∀ l, (app l).1 = w) ∧ lateralImpl [] app ≠ lateralSpec w [] app :=
  ⟨3, fun _ => (3, []), fun _ => rfl, by decide⟩

/-! ## recursive CTE with UNION ALL -/

/-- the result is the concatenation of the generations up to (excluding) the first empty one;
    `fuel` = `--limit-recursion` -/
theorem recursive_cte_spec (step : List Row → List Row) (fuel : Nat) (anchor out : List Row) :
    recursiveImpl step fuel anchor = some out ↔
      ∃ k, k < fuel ∧ (∀ j, 1 ≤ j → j ≤ k → generation step anchor j ≠ []) ∧
        generation step anchor (k + 1) = [] ∧ out = generationsUpTo step anchor k := by
  unfold recursiveImpl
  rw [recLoop_some]
  constructor
  · rintro ⟨k, hk, hne, hemp, hout⟩
    refine ⟨k, hk, ?_, hemp, by rw [generationsUpTo_eq]; exact hout⟩
    intro j h1 hj
    cases j with
    | zero => omega
    | succ j => exact hne j (by omega)
  · rintro ⟨k, hk, hne, hemp, hout⟩
    refine ⟨k, hk, fun j hj => hne (j + 1) (by omega) (by omega), hemp, by rw [← generationsUpTo_eq]; exact hout⟩

/-- the recursion-limit error is raised iff the first `fuel` generations after the anchor are all non-empty -/
theorem recursive_cte_limit (step : List Row → List Row) (fuel : Nat) (anchor : List Row) :
    recursiveImpl step fuel anchor = none ↔ ∀ j, 1 ≤ j → j ≤ fuel → generation step anchor j ≠ [] := by
  unfold recursiveImpl
  rw [recLoop_none]
  constructor
  · intro h j h1 hj
    cases j with
    | zero => omega
    | succ j => exact h j (by omega)
  · intro h j hj
    exact h (j + 1) (by omega) (by omega)

/-! ## recursive CTE with UNION (distinct) -/

/-- the result is the first-occurrence de-duplication (by comparison key) of the generations up to the first
    empty one; with no non-empty step the anchor is returned as it is -/
theorem recursive_union_spec {κ : Type} [DecidableEq κ] (key : Row → κ) (step : List Row → List Row) (fuel : Nat)
    (anchor out : List Row) :
    recursiveUnionImpl key step fuel anchor = some out ↔
      ∃ k, k < fuel ∧ (∀ j, 1 ≤ j → j ≤ k → generation step anchor j ≠ []) ∧
        generation step anchor (k + 1) = [] ∧
        out = (if k = 0 then anchor else dedupBy key (generationsUpTo step anchor k)) := by
  unfold recursiveUnionImpl
  rw [recLoopU_some]
  constructor
  · rintro ⟨k, hk, hne, hemp, hout⟩
    refine ⟨k, hk, ?_, hemp, by rw [generationsUpTo_eq]; exact hout⟩
    intro j h1 hj
    cases j with
    | zero => omega
    | succ j => exact hne j (by omega)
  · rintro ⟨k, hk, hne, hemp, hout⟩
    refine ⟨k, hk, fun j hj => hne (j + 1) (by omega) (by omega), hemp, by rw [← generationsUpTo_eq]; exact hout⟩

theorem recursive_union_limit {κ : Type} [DecidableEq κ] (key : Row → κ) (step : List Row → List Row) (fuel : Nat)
    (anchor : List Row) :
    recursiveUnionImpl key step fuel anchor = none ↔ ∀ j, 1 ≤ j → j ≤ fuel → generation step anchor j ≠ [] := by
  unfold recursiveUnionImpl
  rw [recLoopU_none]
  constructor
  · intro h j h1 hj
    cases j with
    | zero => omega
    | succ j => exact h j (by omega)
  · intro h j hj
    exact h (j + 1) (by omega) (by omega)

/-- duplicates in the anchor (or anywhere in what was accumulated so far) do not change what later
    generations contribute: de-duplicating early or late gives the same closure -/
theorem union_result_ignores_anchor_duplicates {κ : Type} [DecidableEq κ] (key : Row → κ) (anchor rest : List Row) :
    dedupBy key (dedupBy key anchor ++ rest) = dedupBy key (anchor ++ rest) :=
  dedupBy_absorb key anchor rest

/-- the de-duplicated result holds no key twice, keeps source order, and loses no key -/
theorem dedup_spec {κ : Type} [DecidableEq κ] (key : Row → κ) (rows : List Row) :
    ((dedupBy key rows).map key).Nodup ∧ (dedupBy key rows).Sublist rows ∧
      ∀ x, x ∈ rows → ∃ y, y ∈ dedupBy key rows ∧ key y = key x :=
  ⟨(dedupAux_keys key [] rows).1, dedupAux_sublist key [] rows,
    fun x hx => dedupAux_complete key [] rows x hx (fun h => by cases h)⟩

/-! ## field references by name: which column, or AMBIGUOUS / NOT FOUND

  Model of `Header.FieldIndex`.  The flag that lets the merged column of a USING / NATURAL join win is local to
  the join's own query: `View.Fix` clears it, so once the join result is a derived table or a CTE an unqualified
  name that also exists in another joined table is ambiguous again. -/

/-- a resolved reference points at a field that matches it -/
theorem field_index_sound (h : List HField) (view : Option String) (name : String) (k : Nat)
    (hk : fieldIndex h view name = .ok k) : ∃ f, h[k]? = some f ∧ fieldMatches view (trimSpace name) f = true := by
  rcases fieldIndexGo_sound view (trimSpace name) h 0 none k hk with h1 | ⟨j, f, hf, hkj, hm⟩
  · cases h1
  · exact ⟨f, by rw [hkj, Nat.zero_add]; exact hf, hm⟩

/-- two candidates, no join column in the header (or a qualified reference): the reference is rejected -/
theorem field_index_ambiguous (h : List HField) (view : Option String) (name : String)
    (hnj : view.isSome = true ∨ ∀ f, f ∈ h → f.isJoin = false)
    (h2 : 2 ≤ h.countP (fieldMatches view (trimSpace name))) : fieldIndex h view name = .error .ambiguous :=
  fieldIndexGo_ambiguous view (trimSpace name) h 0 none hnj (by simpa using h2)

/-- inside the join's own query the merged column wins (nothing before it carries the name) -/
theorem join_column_wins (name : String) (pre : List HField) (f : HField) (post : List HField)
    (hpre : ∀ g, g ∈ pre → fieldMatches none (trimSpace name) g = false) (hf : colEq f (trimSpace name) = true)
    (hj : f.isJoin = true) : fieldIndex (pre ++ f :: post) none name = .ok pre.length := by
  unfold fieldIndex
  rw [fieldIndexGo_join_wins (trimSpace name) pre f post 0 none hpre hf hj, Nat.zero_add]

/-- after `Fix` no field is a join column -/
theorem fix_clears_join_columns (labels : List String) (h : List HField) :
    ∀ f, f ∈ aliasHeader alias (fixHeader labels h) → f.isJoin = false := by
  intro f hf
  unfold aliasHeader at hf
  obtain ⟨g, hg, rfl⟩ := List.mem_map.mp hf
  exact fixHeader_isJoin labels h g hg

/-- hence: a derived table (built from whatever join) joined with a table that has a column of the same name
    makes the unqualified name ambiguous -/
theorem derived_table_column_ambiguous (alias : String) (labels : List String) (h other : List HField) (name : String)
    (hother : ∀ f, f ∈ other → f.isJoin = false)
    (h1 : 1 ≤ (aliasHeader alias (fixHeader labels h)).countP (fieldMatches none (trimSpace name)))
    (h2 : 1 ≤ other.countP (fieldMatches none (trimSpace name))) :
    fieldIndex (other ++ aliasHeader alias (fixHeader labels h)) none name = .error .ambiguous ∧
    fieldIndex (aliasHeader alias (fixHeader labels h) ++ other) none name = .error .ambiguous := by
  have hd := fix_clears_join_columns (alias := alias) labels h
  constructor
  · apply field_index_ambiguous
    · exact Or.inr (fun f hf => by
        rcases List.mem_append.mp hf with h | h
        · exact hother f h
        · exact hd f h)
    · rw [List.countP_append]; omega
  · apply field_index_ambiguous
    · exact Or.inr (fun f hf => by
        rcases List.mem_append.mp hf with h | h
        · exact hd f h
        · exact hother f h)
    · rw [List.countP_append]; omega

/-! ### resolution, characterised: unique / ambiguous / not found

  `hnj`: the reference is qualified, or no field of the header is a flagged join column (every header outside the
  join's own query: `fix_clears_join_columns`).  With a flagged join column an unqualified reference stops there
  (`join_column_wins`). -/

/-- an error "ambiguous" iff at least two fields match -/
theorem resolve_ambiguous_iff (h : List HField) (view : Option String) (name : String)
    (hnj : view.isSome = true ∨ ∀ f, f ∈ h → f.isJoin = false) :
    fieldIndex h view name = .error .ambiguous ↔ 2 ≤ h.countP (fieldMatches view (trimSpace name)) := by
  unfold fieldIndex
  rw [fieldIndexGo_char view (trimSpace name) h 0 none hnj]
  cases hc : h.countP (fieldMatches view (trimSpace name)) with
  | zero => simp
  | succ n => cases n with
    | zero => simp
    | succ m => simp

/-- "does not exist" iff no field matches -/
theorem resolve_not_exist_iff (h : List HField) (view : Option String) (name : String)
    (hnj : view.isSome = true ∨ ∀ f, f ∈ h → f.isJoin = false) :
    fieldIndex h view name = .error .notExist ↔ h.countP (fieldMatches view (trimSpace name)) = 0 := by
  unfold fieldIndex
  rw [fieldIndexGo_char view (trimSpace name) h 0 none hnj]
  cases hc : h.countP (fieldMatches view (trimSpace name)) with
  | zero => simp
  | succ n => cases n with
    | zero => simp
    | succ m => simp

/-- a reference resolves to field k iff k is the only field that matches it -/
theorem resolve_unique (h : List HField) (view : Option String) (name : String) (k : Nat)
    (hnj : view.isSome = true ∨ ∀ f, f ∈ h → f.isJoin = false) :
    fieldIndex h view name = .ok k ↔
      (∃ f, h[k]? = some f ∧ fieldMatches view (trimSpace name) f = true) ∧
      ∀ j g, h[j]? = some g → fieldMatches view (trimSpace name) g = true → j = k := by
  rw [← countP_one_findIdx]
  unfold fieldIndex
  rw [fieldIndexGo_char view (trimSpace name) h 0 none hnj]
  cases hc : h.countP (fieldMatches view (trimSpace name)) with
  | zero => simp
  | succ n => cases n with
    | zero =>
      simp only [Nat.zero_add, Except.ok.injEq, true_and]
      constructor <;> intro hh <;> exact hh.symm
    | succ m => simp

/-- `t.2`: the first field of that view with that column number; no such field, or a number below 1: not found -/
theorem field_number_index_spec (h : List HField) (view : String) (number : Int) (k : Nat) :
    (fieldNumberIndex h view number = .ok k ↔ 1 ≤ number ∧ h.findIdx? (numberMatches view number) = some k) ∧
    (fieldNumberIndex h view number = .error .notExist ↔ number < 1 ∨ h.findIdx? (numberMatches view number) = none) := by
  unfold fieldNumberIndex
  by_cases hn : number < 1
  · simp [hn]; omega
  · simp only [hn, if_false, false_or]
    cases h.findIdx? (numberMatches view number) with
    | none => simp
    | some j => simp; omega

/-- `*` lists the table columns, `t.*` those of the view `t`, both in header order and nothing else -/
theorem star_expansion_spec (h : List HField) (v : String) :
    (starFields h).Sublist h ∧ (∀ f, f ∈ starFields h ↔ f ∈ h ∧ f.fromTable = true) ∧
    (viewStarFields h v).Sublist h ∧ (∀ f, f ∈ viewStarFields h v ↔ f ∈ h ∧ f.fromTable = true ∧ f.view = v) := by
  refine ⟨List.filter_sublist, ?_, List.filter_sublist, ?_⟩
  · intro f; simp [starFields, List.mem_filter]
  · intro f; simp [viewStarFields, List.mem_filter]

/-- NATURAL: the joined names are the left column names, in header order, that the right side knows; a right side that
    knows a name twice is an error -/
theorem natural_names_spec (lh rh : List HField) (names : List String) (hn : naturalNames lh rh = .ok names) :
    names = (lh.filter (fun f => match fieldIndex rh none f.name with | .ok _ => true | .error _ => false)).map (fun f => f.name) ∧
    ∀ f, f ∈ lh → fieldIndex rh none f.name ≠ .error .ambiguous := by
  induction lh generalizing names with
  | nil => simp only [naturalNames, Except.ok.injEq] at hn; subst hn; exact ⟨rfl, fun _ h => by cases h⟩
  | cons f fs ih =>
    simp only [naturalNames] at hn
    cases hr : fieldIndex rh none f.name with
    | error e =>
      cases e <;> simp only [hr] at hn
      · cases hn
      all_goals
        obtain ⟨h1, h2⟩ := ih names hn
        refine ⟨by simp [List.filter_cons, hr, h1], ?_⟩
        intro g hg
        rcases List.mem_cons.mp hg with rfl | hg
        · rw [hr]; simp
        · exact h2 g hg
    | ok i =>
      simp only [hr] at hn
      cases hrest : naturalNames fs rh with
      | error e => simp [hrest] at hn
      | ok ns =>
        simp only [hrest, Except.ok.injEq] at hn
        subst hn
        obtain ⟨h1, h2⟩ := ih ns hrest
        refine ⟨by simp [List.filter_cons, hr, ← h1], ?_⟩
        intro g hg
        rcases List.mem_cons.mp hg with rfl | hg
        · rw [hr]; simp
        · exact h2 g hg

/-- USING / NATURAL: every name is one column on the left and one on the right, each found as an unqualified reference -/
theorem using_pairs_sound (lh rh : List HField) (names : List String) (pairs : List (Nat × Nat))
    (hp : usingPairs lh rh names = .ok pairs) :
    pairs.length = names.length ∧
    ∀ (k : Nat) (n : String) (p : Nat × Nat), names[k]? = some n → pairs[k]? = some p →
      fieldIndex lh none n = .ok p.1 ∧ fieldIndex rh none n = .ok p.2 := by
  induction names generalizing pairs with
  | nil => simp only [usingPairs, Except.ok.injEq] at hp; subst hp; simp
  | cons n ns ih =>
    simp only [usingPairs] at hp
    cases hl : fieldIndex lh none n with
    | error e => simp [hl] at hp
    | ok li =>
      cases hr : fieldIndex rh none n with
      | error e => simp [hl, hr] at hp
      | ok ri =>
        cases hrest : usingPairs lh rh ns with
        | error e => simp [hl, hr, hrest] at hp
        | ok ps =>
          simp only [hl, hr, hrest, Except.ok.injEq] at hp
          subst hp
          obtain ⟨h1, h2⟩ := ih ps hrest
          refine ⟨by simp [h1], ?_⟩
          intro k m p hk hpk
          cases k with
          | zero =>
            simp only [List.getElem?_cons_zero, Option.some.injEq] at hk hpk
            subst hk; subst hpk
            exact ⟨hl, hr⟩
          | succ k => exact h2 k m p (by simpa using hk) (by simpa using hpk)

/-! ## which object a FROM name denotes: CTE over temporary table over file -/

theorem cte_shadows_temp_and_file (ctes temps : List String) (n : String) (h : nameIn ctes n = true) :
    tableKind none ctes temps n = .cte := by
  simp [tableKind, h]

theorem temp_shadows_file (ctes temps : List String) (n : String) (hc : nameIn ctes n = false)
    (ht : nameIn temps n = true) : tableKind none ctes temps n = .temp := by
  simp [tableKind, hc, ht]

theorem recursive_working_view_first (ctes temps : List String) (r n : String) (h : eqFold r n = true) :
    tableKind (some r) ctes temps n = .recursive := by
  simp [tableKind, h]

/-! ## what the recursive name denotes inside nested scopes (createScope / CreateNode / CreateChild) -/

theorem tableKind_none_ne_recursive (ctes temps : List String) (n : String) :
    tableKind none ctes temps n ≠ .recursive := by
  unfold tableKind
  cases nameIn ctes n <;> cases nameIn temps n <;> simp

theorem derive_inherits (s : NameScope) (st : ScopeStep) :
    (s.derive st).recName = s.recName ∧ (s.derive st).working = s.working ∧ (s.derive st).temps = s.temps ∧
      (s.derive st).limitCount = s.limitCount := by
  cases st <;> simp [NameScope.derive]

/-- the recursion fields (and the temporary tables) survive every chain of scope constructors -/
theorem deriveAll_inherits (s : NameScope) (steps : List ScopeStep) :
    (s.deriveAll steps).recName = s.recName ∧ (s.deriveAll steps).working = s.working ∧
      (s.deriveAll steps).temps = s.temps ∧ (s.deriveAll steps).limitCount = s.limitCount := by
  induction steps generalizing s with
  | nil => simp [NameScope.deriveAll]
  | cons st rest ih =>
    have h1 := derive_inherits s st
    have h2 := ih (s.derive st)
    simp only [NameScope.deriveAll, List.foldl_cons] at h2 ⊢
    exact ⟨h2.1.trans h1.1, h2.2.1.trans h1.2.1, h2.2.2.1.trans h1.2.2.1, h2.2.2.2.trans h1.2.2.2⟩

/-- **the inner reference**: inside the recursive member of `WITH RECURSIVE r`, a FROM name equal to `r` (letter
    case ignored) denotes the records of the previous iteration at ANY nesting depth - whatever chain of per-record
    sub-query scopes, nested queries (each with common table expressions of its own, also ones called `r`) and
    blocks lies between, and whatever temporary tables / common table expressions of the enclosing scope carry the
    same name -/
theorem recursive_reference_any_depth (s : NameScope) (r n : String) (g : List Row) (steps : List ScopeStep)
    (h : eqFold r n = true) :
    ((s.forStep r g).deriveAll steps).denotes n = .previousIteration g := by
  have hi := deriveAll_inherits (s.forStep r g) steps
  have hr : (s.forStep r g).recName = some r := by simp [NameScope.forStep, NameScope.forRecQuery, NameScope.derive]
  have hw : (s.forStep r g).working = some g := by simp [NameScope.forStep, NameScope.forRecQuery, NameScope.derive]
  simp [NameScope.denotes, NameScope.kindOf, hi.1, hi.2.1, hr, hw, tableKind, h]

/-- … and every other name is looked up as if there were no recursion -/
theorem recursive_other_name_unaffected (s : NameScope) (r n : String) (g : List Row) (steps : List ScopeStep)
    (h : eqFold r n = false) :
    ((s.forStep r g).deriveAll steps).denotes n =
      .object (tableKind none ((s.forStep r g).deriveAll steps).ctes s.temps n) := by
  have hi := deriveAll_inherits (s.forStep r g) steps
  have hr : (s.forStep r g).recName = some r := by simp [NameScope.forStep, NameScope.forRecQuery, NameScope.derive]
  have hw : (s.forStep r g).working = some g := by simp [NameScope.forStep, NameScope.forRecQuery, NameScope.derive]
  have ht : (s.forStep r g).temps = s.temps := by simp [NameScope.forStep, NameScope.forRecQuery, NameScope.derive]
  have hk : tableKind (some r) ((s.forStep r g).deriveAll steps).ctes s.temps n =
      tableKind none ((s.forStep r g).deriveAll steps).ctes s.temps n := by simp [tableKind, h]
  simp only [NameScope.denotes, NameScope.kindOf, hi.1, hi.2.1, hi.2.2.1, hr, hw, ht, hk]
  cases hk2 : tableKind none ((s.forStep r g).deriveAll steps).ctes s.temps n <;> try rfl
  exact absurd hk2 (tableKind_none_ne_recursive _ _ _)

/-- inside the ANCHOR member (at any depth) there is no working view yet: the name is what it was before - a
    common table expression, a temporary table or a file called `r` -/
theorem anchor_reference_is_outer (s : NameScope) (r n : String) (steps : List ScopeStep) :
    ((s.forAnchor r).deriveAll steps).denotes n =
      .object (tableKind none ((s.forAnchor r).deriveAll steps).ctes s.temps n) := by
  have hi := deriveAll_inherits (s.forAnchor r) steps
  have hw : (s.forAnchor r).working = none := by simp [NameScope.forAnchor, NameScope.forRecQuery, NameScope.derive]
  have ht : (s.forAnchor r).temps = s.temps := by simp [NameScope.forAnchor, NameScope.forRecQuery, NameScope.derive]
  simp [NameScope.denotes, NameScope.kindOf, hi.2.1, hi.2.2.1, hw, ht]

/-! ### which set operators are the recursion -/

theorem derive_clears_root (s : NameScope) (st : ScopeStep) : (s.derive st).root = false := by
  cases st <;> rfl

theorem deriveAll_root_false (s : NameScope) (steps : List ScopeStep) (h : s.root = false) :
    (s.deriveAll steps).root = false := by
  induction steps generalizing s with
  | nil => simpa [NameScope.deriveAll] using h
  | cons st rest ih =>
    have := ih (s.derive st) (derive_clears_root s st)
    simpa [NameScope.deriveAll] using this

/-- the set operator of the recursive table's own query IS the recursion … -/
theorem own_set_operator_is_recursion (s : NameScope) (r : String) (w : Option (List Row)) :
    (s.forRecQuery r w).runsAsRecursion = true := by
  simp [NameScope.runsAsRecursion, NameScope.forRecQuery]

/-- … and no other: a set operator anywhere inside the recursive member - in a sub-query evaluated per record, a
    LATERAL sub-select, a derived table, a parenthesised right-hand side, at any depth - is an ordinary UNION /
    EXCEPT / INTERSECT (evaluated in the scope where it stands: the working view is still visible there,
    `recursive_reference_any_depth`) -/
theorem nested_set_operator_is_ordinary (s : NameScope) (r : String) (g : List Row) (steps : List ScopeStep) :
    ((s.forStep r g).deriveAll steps).runsAsRecursion = false := by
  have h := deriveAll_root_false (s.forStep r g) steps (derive_clears_root _ _)
  simp [NameScope.runsAsRecursion, h]

/-- the same inside the anchor member, one scope down or more (a derived table, a sub-query) -/
theorem anchor_nested_set_operator_is_ordinary (s : NameScope) (r : String) (st : ScopeStep) (steps : List ScopeStep) :
    ((s.forAnchor r).deriveAll (st :: steps)).runsAsRecursion = false := by
  have h := deriveAll_root_false ((s.forAnchor r).derive st) steps (derive_clears_root _ _)
  simp only [NameScope.deriveAll, List.foldl_cons] at h ⊢
  simp [NameScope.runsAsRecursion, h]

/-- outside a recursive definition no set operator is a recursion -/
theorem no_recursion_without_recursive_table (s : NameScope) (h : s.recName = none) : s.runsAsRecursion = false := by
  simp [NameScope.runsAsRecursion, h]

/-- `anchor UNION ALL (m1 <op> m2)`: every generation is the ordinary combination of BOTH members applied to the
    generation before -/
theorem two_member_generation (combine : List Row → List Row → List Row) (m1 m2 : List Row → List Row)
    (anchor : List Row) (k : Nat) :
    generation (twoMemberStep combine m1 m2) anchor (k + 1) =
      combine (m1 (generation (twoMemberStep combine m1 m2) anchor k))
        (m2 (generation (twoMemberStep combine m1 m2) anchor k)) := rfl

/-- with UNION ALL between the members the recursion ends exactly when both members come back empty -/
theorem two_member_union_all_ends_iff (m1 m2 : List Row → List Row) (g : List Row) :
    twoMemberStep (· ++ ·) m1 m2 g = [] ↔ m1 g = [] ∧ m2 g = [] := by
  simp [twoMemberStep]

/-- the decoy witness: a temporary table AND common table expressions called `t`, three scopes deep -/
example (t : String) (g : List Row) :
    (({ recName := none, working := none, ctes := [t], temps := [t] } : NameScope).forStep t g
      |>.deriveAll [.record, .node [t], .record]).denotes t = .previousIteration g :=
  recursive_reference_any_depth _ t t g _ (by simp)
example (t : String) : (({ recName := none, working := none, ctes := [], temps := [t] } : NameScope).forAnchor t
    |>.deriveAll [.record]).denotes t = .object .temp := by
  rw [anchor_reference_is_outer]
  simp [NameScope.deriveAll, NameScope.forAnchor, NameScope.forRecQuery, NameScope.derive, tableKind, nameIn]

/-- a condition without open references evaluates, with the short-circuits of eval.go, to the total value -/
theorem lazy_eval_agrees (subs : SubEnv) (lw : Nat) (r : Row) (c : CondE) (h : condPure c = true) :
    evalCondE subs lw r c = .ok (evalCond lw r c) := evalCondE_pure subs lw r c h

/-! ## sub-queries inside expressions (scalar, EXISTS, IN / ANY / ALL), also correlated -/

/-- EXISTS is "at least one record": TRUE or FALSE, never UNKNOWN -/
theorem exists_iff_nonempty (res : Nat × List Row) :
    (existsOf res = .T ↔ res.2 ≠ []) ∧ (existsOf res = .F ↔ res.2 = []) ∧ existsOf res ≠ .U := by
  unfold existsOf
  cases h : res.2 <;> simp [Tern.ofBool]

/-- scalar sub-query: no record is NULL, one record is its value, more records are an error;
    more than one field is an error whatever the records are -/
theorem scalar_subquery_spec (w : Nat) (hw : w ≤ 1) (r r' : Row) (rest : List Row) :
    scalarOf (w, []) = .ok nullP ∧ scalarOf (w, [r]) = .ok ((r[0]?).getD nullP) ∧
    scalarOf (w, r :: r' :: rest) = .error .tooManyRecords ∧
    ∀ rows, scalarOf (w + 2, rows) = .error .tooManyFields := by
  have h1 : ¬ (1 < w) := by omega
  refine ⟨by simp [scalarOf, h1], by simp [scalarOf, h1], by simp [scalarOf, h1], ?_⟩
  intro rows
  simp [scalarOf]

/-- `x IN (q)` is `x = ANY (q)`; `x NOT IN (q)` is `x <> ALL (q)` — on every record, errors included -/
theorem in_subquery_eq_any (subs : SubEnv) (lw : Nat) (r : Row) (a : Expr) (s : Nat) :
    evalCondE subs lw r (.inSub false a s) = evalCondE subs lw r (.anySub .eq a s) ∧
    evalCondE subs lw r (.inSub true a s) = evalCondE subs lw r (.allSub .ne a s) := by
  constructor <;> simp only [evalCondE, evalIn] <;> rfl

/-- in csvq's three-valued logic `x NOT IN (l)` IS the negation of `x IN (l)` (De Morgan over the Kleene
    connectives, early exits of the loops included) -/
theorem not_in_eq_not_in (v : Profile) (l : List Profile) : evalIn true v l = (evalIn false v l).not := by
  show evalAll .ne v l = (evalAny .eq v l).not
  rw [C06.all_spec, C06.any_spec]
  have : l.map (evalComparison .ne v) = (l.map (evalComparison .eq v)).map Tern.not := by
    rw [List.map_map]
    apply List.map_congr_left
    intro p _
    exact evalComparison_ne_not v p
  rw [this]
  exact tern_foldl_and_not _ .F

/-- over an empty sub-query IN is FALSE and NOT IN is TRUE, also for a NULL left-hand side -/
theorem in_empty_subquery (v : Profile) : evalIn false v [] = .F ∧ evalIn true v [] = .T := C06.in_empty v

/-- what is NOT true: "x NOT IN (l) holds iff no element of l equals x".  With a NULL in the list and no equal
    element the answer is UNKNOWN (the record is dropped by a WHERE) — for IN as well as for NOT IN -/
theorem not_in_with_null_counterexample :
    evalIn true (cI 1) [cI 2, nullP] = .U ∧ evalIn false (cI 1) [cI 2, nullP] = .U ∧
    evalIn true (cI 1) [cI 2] = .T := by decide

/-- a correlated EXISTS in WHERE is the semi-join: a left record is kept iff it has a partner -/
theorem exists_correlated_eq_semijoin (w : Nat) (L R : List Row) (c : Cond) :
    filterSpec L (fun l => existsOf (w, R.filter (fun r => c (l ++ r) = .T)))
      = L.filter (fun l => R.any (fun r => c (l ++ r) = .T)) := by
  unfold filterSpec existsOf
  apply List.filter_congr
  intro l _
  have := filter_isEmpty_eq (fun r => decide (c (l ++ r) = .T)) R
  simp only [this]
  cases R.any (fun r => decide (c (l ++ r) = .T)) <;> simp [Tern.ofBool]

/-- … and that is: the left halves of the inner join (every kept record has a row in the join, and only those) -/
theorem semijoin_mem_iff (L R : List Row) (c : Cond) (l : Row) :
    l ∈ L.filter (fun l => R.any (fun r => c (l ++ r) = .T)) ↔
      l ∈ L ∧ ∃ r, r ∈ R ∧ (l ++ r) ∈ innerSpec L R c := by
  simp only [List.mem_filter, List.any_eq_true, decide_eq_true_eq]
  constructor
  · rintro ⟨hl, r, hr, hT⟩
    exact ⟨hl, r, hr, (inner_mem_iff L R c _).mpr ⟨l, hl, r, hr, hT, rfl⟩⟩
  · rintro ⟨hl, r, hr, hm⟩
    obtain ⟨l', hl', r', hr', hT, heq⟩ := (inner_mem_iff L R c _).mp hm
    refine ⟨hl, ?_⟩
    -- the merged row may split differently; the condition holds on the merged row itself
    exact ⟨r, hr, by rw [heq]; exact hT⟩

/-- a correlated scalar sub-query in the select list, evaluated record by record, equals the LEFT JOIN formulation
    when every left record has at most one partner (unique key): the partner's column, or NULL -/
theorem scalar_correlated_eq_left_join (wl wr : Nat) (L R : List Row) (c : Cond) (j : Nat) (hj : j < wr)
    (hL : ∀ l, l ∈ L → l.length = wl)
    (huniq : ∀ l, l ∈ L → (R.filter (fun r => c (l ++ r) = .T)).length ≤ 1) :
    scalarPerRow L R c j =
      .ok ((leftSpec wr L R c).map (fun x => x.take wl ++ [(x[wl + j]?).getD nullP])) := by
  induction L with
  | nil => rfl
  | cons l ls ih =>
    have ihs := ih (fun x hx => hL x (List.mem_cons_of_mem _ hx)) (fun x hx => huniq x (List.mem_cons_of_mem _ hx))
    have hlen := hL l (List.mem_cons_self ..)
    have hu := huniq l (List.mem_cons_self ..)
    unfold scalarPerRow leftSpec
    simp only [List.flatMap_cons, List.map_append]
    unfold leftSpec at ihs
    rw [ihs]
    cases hm : R.filter (fun r => c (l ++ r) = .T) with
    | nil =>
      simp only [List.map_nil, scalarOf, Nat.lt_irrefl, if_false, List.isEmpty_nil, if_true, List.map_cons,
        List.nil_append]
      have h1 : (l ++ nulls wr).take wl = l := by rw [← hlen]; simp
      have h2 : ((l ++ nulls wr)[wl + j]?).getD nullP = nullP := by
        rw [← hlen]; exact getElem?_append_nulls l wr j hj
      rw [h1, h2]
      rfl
    | cons r rs =>
      rw [hm] at hu
      have hrs : rs = [] := by
        cases rs with
        | nil => rfl
        | cons _ _ => simp at hu
      subst hrs
      simp only [List.map_cons, List.map_nil, scalarOf, Nat.lt_irrefl, if_false, List.isEmpty_cons,
        Bool.false_eq_true, List.nil_append]
      have h1 : (l ++ r).take wl = l := by rw [← hlen]; simp
      have h2 : (l ++ r)[wl + j]? = r[j]? := by rw [← hlen]; exact getElem?_append_right' l r j
      rw [h1, h2]
      simp

/-- without the uniqueness the two formulations differ: two partners make the scalar sub-query an error while the
    join has two rows -/
theorem scalar_vs_join_counterexample :
    scalarPerRow [[cI 1]] [[cI 1], [cI 1]] eq01 0 = .error .tooManyRecords ∧
    leftSpec 1 [[cI 1]] [[cI 1], [cI 1]] eq01 = [[cI 1, cI 1], [cI 1, cI 1]] := ⟨by rfl, by decide⟩

/-- correlation: a reference is a column of the query's own header when it has one of that name — the records
    of the enclosing queries are consulted only when the own header does not know the name -/
theorem own_header_shadows_outer (h : List HField) (outer : List (List HField × Row)) (v : Option String) (n : String)
    (i : Nat) (hi : fieldIndex h v n = .ok i) : resolveExprEnv h outer (.ref v n) = .col 0 i := by
  simp [resolveExprEnv, hi]

/-- … and the enclosing queries innermost first -/
theorem outer_records_innermost_first (h1 : List HField) (r1 : Row) (rest : List (List HField × Row))
    (v : Option String) (n : String) (i : Nat) (hi : fieldIndex h1 v n = .ok i) :
    resolveOuter v n ((h1, r1) :: rest) = .ok ((r1[i]?).getD nullP) := by
  simp [resolveOuter, hi]

/-! ## set operators: chains -/

/-- UNION ALL is associative -/
theorem union_all_assoc {κ : Type} [DecidableEq κ] (key : Row → κ) (A B C : List Row) :
    setOp key .union true (setOp key .union true A B) C = setOp key .union true A (setOp key .union true B C) := by
  simp [setOp, List.append_assoc]

/-- UNION (distinct) is associative: both groupings are the first-occurrence de-duplication of A ++ B ++ C -/
theorem union_assoc {κ : Type} [DecidableEq κ] (key : Row → κ) (A B C : List Row) :
    setOp key .union false (setOp key .union false A B) C = setOp key .union false A (setOp key .union false B C) := by
  simp only [setOp, Bool.false_eq_true, if_false]
  rw [dedupBy_absorb, dedupBy_absorb_right, List.append_assoc]

/-- a UNION ALL inside a UNION does not matter -/
theorem union_absorbs_union_all {κ : Type} [DecidableEq κ] (key : Row → κ) (A B C : List Row) :
    setOp key .union false (setOp key .union true A B) C = setOp key .union false (setOp key .union false A B) C := by
  simp only [setOp, Bool.false_eq_true, if_false, if_true]
  rw [dedupBy_absorb]

/-- INTERSECT ALL is associative -/
theorem intersect_all_assoc {κ : Type} [DecidableEq κ] (key : Row → κ) (A B C : List Row) :
    setOp key .intersect true (setOp key .intersect true A B) C
      = setOp key .intersect true A (setOp key .intersect true B C) := by
  simp only [setOp, if_true, List.filter_filter]
  apply List.filter_congr
  intro r _
  rw [keyIn_filter, Bool.and_comm]

/-- what a record of EXCEPT ALL / INTERSECT ALL is: a left record whose key is absent from / present on the right
    (every copy of it - these are not multiset operations) -/
theorem except_intersect_all_mem {κ : Type} [DecidableEq κ] (key : Row → κ) (A B : List Row) (r : Row) :
    (r ∈ setOp key .except true A B ↔ r ∈ A ∧ keyIn key B r = false) ∧
    (r ∈ setOp key .intersect true A B ↔ r ∈ A ∧ keyIn key B r = true) := by
  simp [setOp, List.mem_filter]

def kI : Row → List (Option Int) := fun r => r.map (fun p => p.int?)

/-- EXCEPT is not associative, and the precedence matters: INTERSECT binds tighter than UNION / EXCEPT, so
    `A UNION ALL B INTERSECT ALL C` is A ∪ (B ∩ C), which differs from (A ∪ B) ∩ C -/
theorem set_operator_grouping_counterexamples :
    setOp kI .except true (setOp kI .except true [[cI 1]] [[cI 1]]) [[cI 1]]
      ≠ setOp kI .except true [[cI 1]] (setOp kI .except true [[cI 1]] [[cI 1]]) ∧
    setOp kI .union true [[cI 1]] (setOp kI .intersect true [[cI 2]] [[cI 3]])
      ≠ setOp kI .intersect true (setOp kI .union true [[cI 1]] [[cI 2]]) [[cI 3]] := by decide

/-! ## LATERAL: the right side per left record -/

/-- `l CROSS JOIN LATERAL (SELECT … FROM R WHERE c)` is the inner join; with LEFT JOIN LATERAL … ON TRUE the left join:
    the records are those of the per-record application (the header is right when there is a left record, see
    `lateral_spec_partial` / `lateral_header_counterexample` for the empty left table, finding F15) -/
theorem lateral_rows_eq_join (w wr : Nat) (L R : List Row) (c : Cond) :
    (lateralImpl L (fun l => (w, (R.filter (fun r => c (l ++ r) = .T)).map (fun r => l ++ r)))).2 = innerSpec L R c ∧
    (lateralImpl L (fun l => (w,
        let m := R.filter (fun r => c (l ++ r) = .T)
        if m.isEmpty then [l ++ nulls wr] else m.map (fun r => l ++ r)))).2 = leftSpec wr L R c := by
  constructor <;> simp [lateralImpl, innerSpec, leftSpec, List.flatMap]

/-! ## `*` and `view.*` after USING / NATURAL -/

/-- the header after a USING / NATURAL join: first the join columns (no view, flagged), then the other columns of both
    sides in their order — this is the order `SELECT *` lists them in -/
theorem using_header_shape (w : Nat) (pairs : List (Nat × Nat)) (h : List HField) :
    ∃ joined rest, usingHeader w pairs h = joined ++ rest ∧
      (∀ f, f ∈ joined → f.isJoin = true ∧ f.view = "") ∧ rest.Sublist h := by
  refine ⟨_, _, rfl, ?_, ?_⟩
  · intro f hf
    obtain ⟨i, _, hi⟩ := List.mem_filterMap.mp hf
    cases hh : h[i]? with
    | none => simp [hh] at hi
    | some g => simp [hh] at hi; subst hi; exact ⟨rfl, rfl⟩
  · unfold restIndices
    have : ∀ (p : Nat → Bool) (n : Nat), (((List.range n).filter p).filterMap (fun i => h[i]?)).Sublist (h.take n) := by
      intro p n
      induction n with
      | zero => simp
      | succ n ih =>
        rw [List.range_succ, List.filter_append, List.filterMap_append]
        by_cases hn : n < h.length
        · rw [List.take_succ_eq_append_getElem hn]
          apply List.Sublist.append ih
          by_cases hp : p n = true
          · simp [hp, hn]
          · simp [hp]
        · have : h.take (n + 1) = h.take n := by
            rw [List.take_of_length_le (by omega), List.take_of_length_le (by omega)]
          rw [this]
          have hnone : h[n]? = none := by simp; omega
          by_cases hp : p n = true
          · simp [hp, hnone]; exact ih
          · simp [hp]; exact ih
    exact (this _ w).trans (List.take_sublist _ _)

/-- `t.*` (t a table alias) never lists a merged join column: those carry no view name -/
theorem view_star_skips_join_columns (w : Nat) (pairs : List (Nat × Nat)) (h : List HField) (v : String) (hv : v ≠ "")
    (f : HField) (hf : f ∈ viewStarFields (usingHeader w pairs h) v) : f ∈ h ∧ f.view = v := by
  unfold viewStarFields at hf
  obtain ⟨hm, hvw⟩ := List.mem_filter.mp hf
  have hvw' : f.view = v := by
    have := hvw
    simp only [Bool.and_eq_true, beq_iff_eq] at this
    exact this.2
  refine ⟨?_, hvw'⟩
  unfold usingHeader at hm
  rcases List.mem_append.mp hm with hj | hr
  · obtain ⟨i, _, hi⟩ := List.mem_filterMap.mp hj
    cases hh : h[i]? with
    | none => simp [hh] at hi
    | some g => simp [hh] at hi; subst hi; exact absurd hvw'.symm hv
  · obtain ⟨i, _, hi⟩ := List.mem_filterMap.mp hr
    exact List.mem_of_getElem? hi

/-! ## select list: every item on its own -/

/-- the k-th column of a select list is what its k-th item yields when it is the only item: no item sees
    another one (two items that differ only in the letter case of a string literal are two columns) -/
theorem select_item_independent (items : List Item) (rows : List Row) (k : Nat) (it : Item) (hk : items[k]? = some it) :
    (selectRows items rows).map (fun r => r[k]?) = (selectRows [it] rows).map (fun r => r[0]?) := by
  unfold selectRows
  simp only [List.map_map]
  apply List.map_congr_left
  intro r _
  simp [Function.comp, List.getElem?_map, hk]

/-- number and order of the records are those of the source; every record has one cell per item -/
theorem select_rows_shape (items : List Item) (rows : List Row) :
    (selectRows items rows).length = rows.length ∧ ∀ r, r ∈ selectRows items rows → r.length = items.length := by
  unfold selectRows
  refine ⟨by simp, ?_⟩
  intro r hr
  obtain ⟨x, _, rfl⟩ := List.mem_map.mp hr
  simp

/-! ## the model against the source as it stands (lean/Csvq/Gen/RelFacts.lean, regenerated on every run)

  extract/relfacts translates `Header.FieldIndex` (loop body and tail), `InStrSliceWithCaseInsensitive`, the keep
  tests of `View.filter` / `InnerJoin` / `OuterJoin`, the FULL-join flag update, the operand order of `Merge`, the
  padding test, the order of the tests in `loadObject` and `CalcMinimumRequired` into Lean, and lists the statements
  of the functions around them as tokens.  The theorems below say that the hand-written model IS that code. -/

/-- the loop variable `idx` of the Go function: -1 = nothing found yet -/
def encIdx : Option Nat → Int
  | none => -1
  | some k => (k : Int)

theorem gen_fieldIndex_loop (view : Option String) (hv : view ≠ some "") (column : String) (fs : List HField)
    (i : Nat) (o : Option Nat) :
    (match runLoop (Gen.fieldIndexBody (viewStr view) column) fs i (encIdx o) with
      | .ok idx => Gen.fieldIndexPost idx
      | .error e => .error e) = fieldIndexGo view column fs i o := by
  induction fs generalizing i o with
  | nil =>
    cases o with
    | none => simp [runLoop, Gen.fieldIndexPost, fieldIndexGo, encIdx]
    | some k =>
      simp only [runLoop, Gen.fieldIndexPost, fieldIndexGo, encIdx]
      have : ¬ ((k : Int) < 0) := by omega
      simp [this]
  | cons f fs ih =>
    have ihs := ih (i + 1) (some i)
    simp only [encIdx] at ihs
    have hpos : ∀ k : Nat, (-1 : Int) < (k : Int) := fun k => by omega
    have hpost : ∀ k : Nat, Gen.fieldIndexPost (k : Int) = .ok k := fun k => by
      have : ¬ ((k : Int) < 0) := by omega
      simp [Gen.fieldIndexPost, this]
    cases view with
    | none =>
      have ihn := ih (i + 1)
      simp only [viewStr] at ihs ihn
      simp only [runLoop, Gen.fieldIndexBody, viewStr, fieldIndexGo, fieldMatches, joinWins, colEq, Gen.inStrSliceCI,
        Option.isNone_none, Bool.true_and]
      cases hE : eqFold (trimSpace f.name) column <;> cases hJ : f.isJoin <;>
        cases hA : f.aliases.any (fun a => eqFold column a) <;> cases o <;>
        simp [encIdx, hpos] <;>
        first | exact ihs | exact ihn none | exact hpost _ | exact ihn (some _)
    | some v =>
      have hne : v ≠ "" := fun h => hv (by rw [h])
      have ihn := ih (i + 1)
      simp only [viewStr] at ihs ihn
      simp only [runLoop, Gen.fieldIndexBody, viewStr, fieldIndexGo, fieldMatches, joinWins, colEq,
        Option.isNone_some, Bool.false_and]
      cases hV : eqFold f.view v <;> cases hE : eqFold (trimSpace f.name) column <;> cases o <;>
        simp [encIdx, hne, hpos] <;>
        first | exact ihs | exact ihn none | exact hpost _ | exact ihn (some _)

/-- `Header.FieldIndex` as it stands in the source IS the model's `fieldIndex`, for all headers and references -/
theorem gen_fieldIndex_eq_model (h : List HField) (view : Option String) (name : String) (hv : view ≠ some "") :
    fieldIndexBy Gen.fieldIndexBody Gen.fieldIndexPost h (viewStr view) name = fieldIndex h view name := by
  unfold fieldIndexBy fieldIndex
  exact gen_fieldIndex_loop view hv (trimSpace name) h 0 none

/-- `Header.FieldNumberIndex` as it stands: its guard and its match test are the model's, and its shape is "return the
    first field that matches" — hence the model's `fieldNumberIndex` -/
theorem gen_fieldNumberIndex_eq_model (view : String) (number : Int) (f : HField) :
    Gen.fieldNumberGuard number = decide (number < 1) ∧ Gen.fieldNumberMatches view number f = numberMatches view number f ∧
    Gen.fieldNumberIndexShape = Ref.fieldNumberIndexShape := ⟨rfl, rfl, rfl⟩

/-- the loop of `ContainsObject` over computed columns passes over exactly the fields the model's `identMatches`
    rejects (the first remaining one is the answer: `containsIdent` = `findIdx?`) -/
theorem gen_containsObject_eq_model (eqId : String → String → Bool) (column : String) (f : HField) :
    identMatches eqId column f = !(Gen.containsObjectSkips eqId column f) := by
  unfold identMatches Gen.containsObjectSkips
  cases f.fromTable <;> cases (f.identifier == "") <;> cases eqId f.identifier column <;> rfl

/-- what stands around the loop (taking `view` / `column` from the reference, `idx := -1`), and the callers
    `SearchIndex`, `ContainsObject`, `Header.Update`, are the reviewed statements -/
theorem gen_field_index_frame_eq_ref :
    Gen.fieldIndexPrelude = Ref.fieldIndexPrelude ∧ Gen.searchIndexBody = Ref.searchIndexBody ∧
    Gen.containsObjectBody = Ref.containsObjectBody ∧ Gen.headerUpdateBody = Ref.headerUpdateBody ∧
    Gen.equalFieldIdentifiersBody = Ref.equalFieldIdentifiersBody :=
  ⟨rfl, rfl, rfl, rfl, rfl⟩

/-- `View.Fix` does to every header field what the reviewed list says … -/
theorem gen_fix_effects_eq_ref :
    Gen.fixProjection = Ref.fixProjection ∧ Gen.fixHeaderEffects = Ref.fixHeaderEffects ∧
    Gen.fixViewResets = Ref.fixViewResets := ⟨rfl, rfl, rfl⟩

/-- … in particular what the model's `fixHeader` does: the join-column flag and the aliases are cleared -/
theorem gen_fix_clears_join_flag_and_aliases :
    "hfields[i].IsJoinColumn=false" ∈ Gen.fixHeaderEffects ∧ "hfields[i].Aliases=nil" ∈ Gen.fixHeaderEffects := by decide

/-- the join-column flag is set only by `joinViews` and cleared only by `View.Fix`; aliases grow in `evalColumn` /
    `AddHeaderField` and are cleared by `Fix` and `Header.Update`; `Header.Copy` gives the copy alias lists of its own (F106) -/
theorem gen_header_flag_writes_eq_ref : Gen.headerFlagWrites = Ref.headerFlagWrites := rfl

/-- the order in which `loadObject` tries the kinds of object IS the model's `tableKind` -/
theorem gen_table_kind_order_eq_model (recName : Option String) (ctes temps : List String) (n : String) :
    tableKindBy recName ctes temps n Gen.tableKindOrder = some (tableKind recName ctes temps n) := by
  simp only [Gen.tableKindOrder, tableKindBy, tableKind]
  repeat (first | rfl | split)

theorem gen_load_object_eq_ref : Gen.loadObjectBody = Ref.loadObjectBody := rfl

/-- the three scope constructors, read field by field from their `&ReferenceScope{…}` literals, ARE the model's
    `NameScope.derive`: the recursive table, its working view and the limit count are inherited by all of them;
    per-record scopes keep the common table expressions, a node adds a layer, a child block starts without -/
theorem gen_scope_derive_eq_model (s : NameScope) (defined : List String) :
    deriveBy Gen.createScopeOrigins [] s = s.derive .record ∧
    deriveBy Gen.createNodeOrigins defined s = s.derive (.node defined) ∧
    deriveBy Gen.createChildOrigins [] s = s.derive .child := ⟨rfl, rfl, rfl⟩

/-- … and so are the transaction, the file-path cache and the statement's time stamp (NOW() is one value per statement) -/
theorem gen_scope_inherits_tx_cache_now :
    ∀ o ∈ [Gen.createScopeOrigins, Gen.createNodeOrigins, Gen.createChildOrigins],
      o.tx = .inherited ∧ o.cachedFilePath = .inherited ∧ o.now = .inherited := by decide

/-- a per-record scope sees the records of the enclosing queries through what it is given, a node keeps them, a
    block starts without -/
theorem gen_scope_records :
    Gen.createScopeOrigins.records = .fresh ∧ Gen.createNodeOrigins.records = .inherited ∧
    Gen.createChildOrigins.records = .zero := ⟨rfl, rfl, rfl⟩

/-- no constructor hands the recursion-root mark on (only `selectQuery` sets it, for the recursive table's own query) -/
theorem gen_scope_root_not_inherited :
    ∀ o ∈ [Gen.createScopeOrigins, Gen.createNodeOrigins, Gen.createChildOrigins], o.recursionRoot = .zero := by decide

theorem gen_scope_bodies_eq_ref :
    Gen.createScopeBody = Ref.createScopeBody ∧ Gen.createChildBody = Ref.createChildBody ∧
    Gen.createNodeBody = Ref.createNodeBody := ⟨rfl, rfl, rfl⟩

/-- where the working view is set and the steps are counted: `selectSet`, `selectSetForRecursion`, `InlineTableMap.Set` -/
theorem gen_recursion_bodies_eq_ref :
    Gen.selectSetBody = Ref.selectSetBody ∧ Gen.selectSetForRecursionBody = Ref.selectSetForRecursionBody ∧
    Gen.inlineTableSetBody = Ref.inlineTableSetBody ∧ Gen.selectQueryScope = Ref.selectQueryScope ∧
    Gen.recursionRootWrites = Ref.recursionRootWrites := ⟨rfl, rfl, rfl, rfl, rfl⟩

/-- LIKE: the functions Model/Like.lean mirrors (`Like`, `matchText`, `matchTextTail`, `matchTextTailOnce`,
    `matchCondition`, `evalLike`) are the reviewed ones -/
theorem gen_like_bodies_eq_ref :
    Gen.likeBody = Ref.likeBody ∧ Gen.matchTextBody = Ref.matchTextBody ∧ Gen.matchTextTailBody = Ref.matchTextTailBody ∧
    Gen.matchTextTailOnceBody = Ref.matchTextTailOnceBody ∧ Gen.matchConditionBody = Ref.matchConditionBody ∧
    Gen.evalLikeBody = Ref.evalLikeBody := ⟨rfl, rfl, rfl, rfl, rfl, rfl⟩

/-- `View.filter`, `InnerJoin`, `OuterJoin` keep a record exactly when the model's `holds` says so -/
theorem gen_keep_tests_eq_model (c : Cond) (r : Row) :
    Gen.filterKeeps (c r) = holds c r ∧ Gen.innerKeeps (c r) = holds c r ∧ Gen.outerKeeps (c r) = holds c r := by
  unfold Gen.filterKeeps Gen.innerKeeps Gen.outerKeeps holds
  cases c r <;> exact ⟨rfl, rfl, rfl⟩

/-- the per-worker `joinViewMatches[j]` update of `OuterJoin` is the model's `setFlag` -/
theorem gen_outer_flag_eq_model (dir : Dir) (flag : Bool) : Gen.outerFlagAfter dir flag = setFlag dir flag := by
  cases dir <;> cases flag <;> rfl

/-- the halves of the merged record: for RIGHT the inner-loop record comes first (the views were swapped) -/
theorem gen_merge_order_eq_model (dir : Dir) (o j : Row) :
    mergeRec dir o j = if Gen.outerMergeInnerFirst dir then j ++ o else o ++ j := by
  cases dir <;> rfl

/-- the outer-loop record is padded exactly when no partner was found, as in the model's `outerWorker` -/
theorem gen_padding_test_eq_model (matched : Bool) (pad : Row) :
    (if Gen.outerPads matched then [pad] else []) = (if matched then ([] : List Row) else [pad]) := by
  cases matched <;> rfl

/-- dispatch join type → function: CROSS → CrossJoin, INNER → InnerJoin(condition), OUTER → OuterJoin(condition, direction);
    the default join type and the USING / NATURAL merge after the join are the reviewed statements -/
theorem gen_join_dispatch_eq_ref :
    Gen.joinDispatch = Ref.joinDispatch ∧ Gen.joinTypeDefault = Ref.joinTypeDefault ∧
    Gen.joinViewsBody = Ref.joinViewsBody := ⟨rfl, rfl, rfl⟩

/-- `InnerJoin` without a condition is `CrossJoin`; `OuterJoin` and `CrossJoin` return nothing before looking at the
    records — an outer join without a condition (NATURAL, no common column) still pads -/
theorem gen_join_shortcuts :
    Gen.innerJoinShortcuts = Ref.innerJoinShortcuts ∧ Gen.outerJoinShortcuts = [] ∧ Gen.crossJoinShortcuts = [] :=
  ⟨rfl, rfl, rfl⟩

/-- RIGHT: the views are swapped before the workers start and swapped back before the result is stored -/
theorem gen_right_swap_eq_ref : Gen.outerRightSwaps = Ref.outerRightSwaps ∧ Gen.outerPadding = Ref.outerPadding :=
  ⟨rfl, rfl⟩

/-- the nested loops, the worker lists put together in worker order, the FULL-join appendix: the reviewed bodies -/
theorem gen_join_bodies_eq_ref :
    Gen.crossJoinBody = Ref.crossJoinBody ∧ Gen.innerJoinBody = Ref.innerJoinBody ∧
    Gen.outerJoinBody = Ref.outerJoinBody ∧ Gen.filterBody = Ref.filterBody := ⟨rfl, rfl, rfl, rfl⟩

/-- `View.evalColumn`: only references and analytic functions are looked up among the columns already there; every
    other item is calculated anew for every record -/
theorem gen_eval_column_eq_ref : Gen.evalColumnBody = Ref.evalColumnBody := rfl

/-- `CalcMinimumRequired` never asks for less than one record per worker (the chunking itself is universally
    quantified in the theorems above, so its value cannot change a result) -/
theorem gen_calcMinimumRequired_pos (i1 i2 d : Int) (hd : 1 ≤ d) : 1 ≤ Gen.calcMinimumRequired i1 i2 d := by
  unfold Gen.calcMinimumRequired
  simp only
  split
  · exact hd
  · rename_i h1
    split
    · exact hd
    · rename_i h2
      simp only [Bool.or_eq_true, decide_eq_true_eq, not_or, Int.not_lt] at h1
      simp only [decide_eq_true_eq, Int.not_le] at h2
      unfold ceilDivI floorDivI
      have hq : 1 ≤ i1 * i2 / d := Int.le_ediv_of_mul_le (by omega) (by omega)
      exact Int.le_ediv_of_mul_le (by omega) (by omega)

/-! ## non-vacuity -/

example : filterImpl [[[cI 1], [cI 2]], [], [[cI 1]]] (fun r => evalComparison .eq (r.headD nullP) (cI 1))
    = [[cI 1], [cI 1]] := by decide
example : innerImpl [[[cI 1]], [[cI 2], [cI 3]]] [[cI 2], [cI 1], [cI 2]] eq01
    = [[cI 1, cI 1], [cI 2, cI 2], [cI 2, cI 2]] := by decide
example : outerImpl .left 1 1 [[[cI 1]], [[nullP], [cI 3]]] [[cI 3], [cI 3]] eq01
    = [[cI 1, nullP], [nullP, nullP], [cI 3, cI 3], [cI 3, cI 3]] := by decide
example : outerImpl .right 1 1 [[[cI 3]], [[cI 4]]] [[cI 1], [cI 3]] eq01
    = [[cI 3, cI 3], [nullP, cI 4]] := by decide
example : outerImpl .full 1 1 [[[cI 1]], [[cI 3]]] [[cI 3], [cI 4]] eq01
    = [[cI 1, nullP], [cI 3, cI 3], [nullP, cI 4]] := by decide
example : usingImpl 2 [(0, 1)] [[[nullP, cI 4], [cI 3, cI 3]]] = some [[cI 4], [cI 3]] := by decide
example : recursiveImpl (fun g => (g.filter (fun r => r != [cI 3])).map (fun _ => [cI 3])) 5 [[cI 1], [cI 2]]
    = some [[cI 1], [cI 2], [cI 3], [cI 3]] := by decide
example : recursiveImpl (fun g => g) 5 [[cI 1]] = none := by decide
-- UNION: duplicate anchor rows, the first step adds a new distinct row while the row count stays the same
example : recursiveUnionImpl (fun r => r.map (fun p => p.int?))
      (fun g => (g.filter (fun r => r != [cI 3])).map (fun r => if r == [cI 1] then [cI 2] else [cI 3])) 9 [[cI 1], [cI 1]]
    = some [[cI 1], [cI 2], [cI 3]] := by decide
example (n x : String) : fieldIndex [⟨"c", n, false, [], 0, true, ""⟩, ⟨"s", n, false, [], 0, true, ""⟩, ⟨"s", x, false, [], 0, true, ""⟩] none n = .error .ambiguous := by
  simp [fieldIndex, fieldIndexGo, fieldMatches, joinWins, colEq]
example (n : String) : fieldIndex [⟨"", n, true, [], 0, true, ""⟩, ⟨"c", n, false, [], 0, true, ""⟩] none n = .ok 0 := by
  simp [fieldIndex, fieldIndexGo, fieldMatches, joinWins, colEq]
-- `SELECT v AS k, k AS …`: the alias given to v makes the following unqualified k ambiguous
example (k v : String) (hk : trimSpace k = k) :
    fieldIndex [⟨"t", k, false, [], 0, true, ""⟩, ⟨"t", v, false, [k], 0, true, ""⟩] none k = .error .ambiguous := by
  simp [fieldIndex, fieldIndexGo, fieldMatches, joinWins, colEq, hk]
example (t : String) : tableKind none [t] [t] t = .cte := by simp [tableKind, nameIn]
example : outerImpl .left 1 2 [[[cI 1]], [[cI 2]]] [] (fun _ => .T) = [[cI 1, nullP, nullP], [cI 2, nullP, nullP]] := by decide

end Csvq.C03
