/-
  C06 ↔ C02 — a value written into a cell of a table file (query.ConvertFieldContents, Model/CellText.lean) and
  read again as a String cell is EQUAL to the original under csvq's `=`, compares with other re-read values as
  the originals did, and falls into the same GROUP BY / DISTINCT bucket — with the exceptions stated and proved
  below.  All four conversions are the model's own (decText / ParseInt, FF.fmtF / ParseFloat, FT.fmtTime /
  StrToTime, FormatBool / ParseBool); `u`, the upper-cased text of the cell, is arbitrary.
  Property theorems only; lemmas in Lemmas/CellText.lean.
-/
import Csvq.Lemmas.CellText
namespace Csvq.C06
open Csvq

/-- the values this is about: every int64, every binary64 value but NaN, every datetime whose text reads back
    (local year 0000 … 9999, zone offset of whole minutes below 25 h — `time_text_roundtrip`), the booleans,
    TRUE and FALSE.  (A String cell is its own text; NULL and UNKNOWN have no equal: see below.) -/
def CellRange (v : Val) (off : Int) : Prop :=
  match v with
  | .int i => inI64 i
  | .flt f => f.IsDouble ∧ f ≠ .nan
  | .dt ns => (0 ≤ FT.localYear ns off ∧ FT.localYear ns off ≤ 9999) ∧ off % 60 = 0 ∧ (-90000 < off ∧ off < 90000)
  | .bool _ => True
  | .tern t => t ≠ .U
  | .str _ => False
  | .null => False

instance (v : Val) (off : Int) : Decidable (CellRange v off) := by
  unfold CellRange; split <;> infer_instance

/-! ## the rung of the ladder on which two profiles meet -/

theorem cmp_int (a b : Profile) (ha : a.isNull = false) (hb : b.isNull = false) (x y : Int)
    (h1 : a.int? = some x) (h2 : b.int? = some y) : cmp a b = cmpInt x y := by
  simp [cmp, ha, hb, rungInt, h1, h2]

theorem cmp_flt (a b : Profile) (ha : a.isNull = false) (hb : b.isNull = false) (x y : FVal)
    (h0 : a.int? = none ∨ b.int? = none) (h1 : a.flt? = some x) (h2 : b.flt? = some y) : cmp a b = cmpFloat x y := by
  rcases h0 with h0 | h0
  · simp [cmp, ha, hb, rungInt, rungFlt, h0, h1, h2]
  · cases hi : a.int? <;> simp [cmp, ha, hb, rungInt, rungFlt, h0, h1, h2]

theorem cmp_dt (a b : Profile) (ha : a.isNull = false) (hb : b.isNull = false) (x y : Int)
    (h0 : a.int? = none) (h1 : a.flt? = none) (h2 : a.dt? = some x) (h3 : b.dt? = some y) : cmp a b = cmpInt x y := by
  simp [cmp, ha, hb, rungInt, rungFlt, rungDt, h0, h1, h2, h3]

theorem cmp_bool (a b : Profile) (ha : a.isNull = false) (hb : b.isNull = false) (x y : Bool)
    (h0 : a.int? = none) (h1 : a.flt? = none) (h2 : a.dt? = none) (h3 : a.bool? = some x) (h4 : b.bool? = some y) :
    cmp a b = if x = y then .boolEq else .ne := by
  simp [cmp, ha, hb, rungInt, rungFlt, rungDt, rungBool, h0, h1, h2, h3, h4]

theorem cmpInt_self (x : Int) : cmpInt x x = .eq := by simp [cmpInt]

/-! ## written and read again: equal to the original -/

/-- **a cell text reads back equal to the value that was written** -/
theorem cell_text_reads_back_equal (v : Val) (sci : Bool) (off : Int) (u : Bytes) (h : CellRange v off) :
    opEq (profileOf v) (profileOfText (cellText v false sci off) u) = .T := by
  cases v with
  | null => exact absurd h id
  | str s => exact absurd h id
  | int i =>
    have := cmp_int (profileOf (.int i)) (profileOfText (decText i) u) rfl rfl i i rfl (Cell.profile_int_text i h u)
    show opEq _ (profileOfText (decText i) u) = .T
    unfold opEq; rw [this, cmpInt_self]
  | flt f =>
    have := cmp_flt (profileOf (.flt f)) (profileOfText (if sci then FF.fmtG f else FF.fmtF f) u) rfl rfl f f (Or.inl rfl) rfl
      (Cell.profile_float_text f h.1 sci u)
    show opEq _ (profileOfText (if sci then FF.fmtG f else FF.fmtF f) u) = .T
    unfold opEq; rw [this, Cell.cmpFloat_self f h.2]
  | dt ns =>
    obtain ⟨hy, hm, hb⟩ := h
    have hp := Cell.profile_time_text ns off hy.1 hy.2 hm hb u
    have := cmp_dt (profileOf (.dt ns)) (profileOfText (FT.fmtTime ns off) u) rfl rfl ns ns rfl rfl rfl hp.2.2
    show opEq _ (profileOfText (FT.fmtTime ns off) u) = .T
    unfold opEq; rw [this, cmpInt_self]
  | bool b =>
    cases b
    · have := cmp_bool (profileOf (.bool false)) (profileOfText sFalse u) rfl rfl false false rfl rfl rfl rfl (Cell.profile_false_text u).2.2.2
      show opEq _ (profileOfText sFalse u) = .T
      unfold opEq; rw [this]; rfl
    · have := cmp_bool (profileOf (.bool true)) (profileOfText sTrue u) rfl rfl true true rfl rfl rfl rfl (Cell.profile_true_text u).2.2.2
      show opEq _ (profileOfText sTrue u) = .T
      unfold opEq; rw [this]; rfl
  | tern t =>
    cases t with
    | U => exact absurd rfl h
    | F =>
      have := cmp_bool (profileOf (.tern .F)) (profileOfText sFalse u) rfl rfl false false rfl rfl rfl rfl (Cell.profile_false_text u).2.2.2
      show opEq _ (profileOfText sFalse u) = .T
      unfold opEq; rw [this]; rfl
    | T =>
      have := cmp_bool (profileOf (.tern .T)) (profileOfText sTrue u) rfl rfl true true rfl rfl rfl rfl (Cell.profile_true_text u).2.2.2
      show opEq _ (profileOfText sTrue u) = .T
      unfold opEq; rw [this]; rfl

/-- NaN is written as `NaN` and read as NaN — which is not equal to NaN, before as after -/
theorem cell_text_nan (u : Bytes) :
    cellText (.flt .nan) false false 0 = [78, 97, 78] ∧ (profileOfText [78, 97, 78] u).flt? = some .nan
      ∧ opEq (profileOf (.flt .nan)) (profileOfText [78, 97, 78] u) = .F
      ∧ opEq (profileOf (.flt .nan)) (profileOf (.flt .nan)) = .F := by
  have h1 : (profileOfText [78, 97, 78] u).flt? = some .nan := by show PF.strToFloat [78, 97, 78] = some .nan; decide
  refine ⟨rfl, h1, ?_, by decide⟩
  have := cmp_flt (profileOf (.flt .nan)) (profileOfText [78, 97, 78] u) rfl rfl .nan .nan (Or.inl rfl) rfl h1
  unfold opEq; rw [this]; rfl

/-- NULL and UNKNOWN are written as nothing; the empty text is no number, no datetime, no boolean, and compared
    with the original gives UNKNOWN (what the reader makes of an empty field is C02's matter) -/
theorem cell_text_null_unknown (u : Bytes) :
    cellText .null false false 0 = [] ∧ cellText (.tern .U) false false 0 = []
      ∧ cellText .null true false 0 = [78, 85, 76, 76] ∧ cellText (.tern .U) true false 0 = [85, 78, 75, 78, 79, 87, 78]
      ∧ (profileOfText [] u).int? = none ∧ (profileOfText [] u).flt? = none ∧ (profileOfText [] u).dt? = none
      ∧ (profileOfText [] u).bool? = none ∧ (profileOfText [] u).tern = .U
      ∧ opEq (profileOf .null) (profileOfText [] u) = .U ∧ opEq (profileOf (.tern .U)) (profileOfText [] u) = .U := by
  refine ⟨rfl, rfl, rfl, rfl, ?_, ?_, ?_, ?_, ?_, ?_, ?_⟩
  · show PF.strToIntStrictB [] = none; decide
  · show PF.strToFloat [] = none; decide
  · show PT.strToTime [] = none; decide
  · show (match PF.strTernaryB [] with | .U => none | .T => some true | .F => some false) = none; decide
  · show PF.strTernaryB [] = .U; decide
  · rfl
  · have h4 : (profileOfText [] u).bool? = none := by
      show (match PF.strTernaryB [] with | .U => none | .T => some true | .F => some false) = none; decide
    simp [opEq, cmp, Profile.isNull, profileOf, profileOfText, rungInt, rungFlt, rungDt, rungBool, rungStr]

/-! ## comparisons between re-read values agree with the originals -/

/-- integers: every comparison operator gives on two re-read cells what it gave on the originals -/
theorem cell_text_keeps_order_int (a b : Int) (ha : inI64 a) (hb : inI64 b) (ua ub : Bytes) :
    cmp (profileOfText (decText a) ua) (profileOfText (decText b) ub) = cmp (profileOf (.int a)) (profileOf (.int b)) := by
  rw [cmp_int _ _ rfl rfl a b (Cell.profile_int_text a ha ua) (Cell.profile_int_text b hb ub),
      cmp_int (profileOf (.int a)) (profileOf (.int b)) rfl rfl a b rfl rfl]

/-- datetimes (each printed in its own zone) -/
theorem cell_text_keeps_order_time (a b offa offb : Int) (ha : CellRange (.dt a) offa) (hb : CellRange (.dt b) offb) (ua ub : Bytes) :
    cmp (profileOfText (FT.fmtTime a offa) ua) (profileOfText (FT.fmtTime b offb) ub)
      = cmp (profileOf (.dt a)) (profileOf (.dt b)) := by
  obtain ⟨hya, hma, hba⟩ := ha
  obtain ⟨hyb, hmb, hbb⟩ := hb
  have pa := Cell.profile_time_text a offa hya.1 hya.2 hma hba ua
  have pb := Cell.profile_time_text b offb hyb.1 hyb.2 hmb hbb ub
  rw [cmp_dt _ _ rfl rfl a b pa.1 pa.2.1 pa.2.2 pb.2.2, cmp_dt (profileOf (.dt a)) (profileOf (.dt b)) rfl rfl a b rfl rfl rfl rfl]

/-- floats, whenever at least one of the two texts is not also an int64 text (a point, an exponent, Inf, or
    beyond the int64 range): the comparison is the float comparison of the original values -/
theorem cell_text_keeps_order_float_partial (f g : FVal) (hf : f.IsDouble) (hg : g.IsDouble) (sci : Bool) (uf ug : Bytes)
    (hi : (profileOfText (if sci then FF.fmtG f else FF.fmtF f) uf).int? = none
        ∨ (profileOfText (if sci then FF.fmtG g else FF.fmtF g) ug).int? = none) :
    cmp (profileOfText (if sci then FF.fmtG f else FF.fmtF f) uf) (profileOfText (if sci then FF.fmtG g else FF.fmtF g) ug)
      = cmp (profileOf (.flt f)) (profileOf (.flt g)) := by
  rw [cmp_flt _ _ rfl rfl f g hi (Cell.profile_float_text f hf sci uf) (Cell.profile_float_text g hg sci ug),
      cmp_flt (profileOf (.flt f)) (profileOf (.flt g)) rfl rfl f g (Or.inl rfl) rfl rfl]

/-- **floats, all of them**: also when both texts are int64 texts (`1` for 1.0, `1234567890123456800` for a float
    near 1.23e18) and the ladder therefore compares the two cells as INTEGERS, the answer is that of the float
    comparison of the originals — rounding to binary64 is monotone (Lemmas/RoundMono.lean) and different floats
    have different texts -/
theorem cell_text_keeps_order_float (f g : FVal) (hf : f.IsDouble) (hg : g.IsDouble) (sci : Bool) (uf ug : Bytes) :
    cmp (profileOfText (if sci then FF.fmtG f else FF.fmtF f) uf) (profileOfText (if sci then FF.fmtG g else FF.fmtF g) ug)
      = cmp (profileOf (.flt f)) (profileOf (.flt g)) := by
  cases hi : (profileOfText (if sci then FF.fmtG f else FF.fmtF f) uf).int? with
  | none => exact cell_text_keeps_order_float_partial f g hf hg sci uf ug (Or.inl hi)
  | some i =>
    cases hj : (profileOfText (if sci then FF.fmtG g else FF.fmtF g) ug).int? with
    | none => exact cell_text_keeps_order_float_partial f g hf hg sci uf ug (Or.inr hj)
    | some j =>
      rw [cmp_int _ _ rfl rfl i j hi hj, cmp_flt (profileOf (.flt f)) (profileOf (.flt g)) rfl rfl f g (Or.inl rfl) rfl rfl]
      apply Cell.int_texts_order _ _ i j f g hi hj (Cell.float_text_float f hf sci) (Cell.float_text_float g hg sci)
      intro e
      subst e
      have : some i = some j := hi.symm.trans hj
      injection this

/-! ## the GROUP BY / DISTINCT bucket -/

/-- integers, datetimes, booleans, TRUE / FALSE keep their comparison key when written and read again
    (booleans are keyed as the integers 1 / 0, before as after) -/
theorem cell_text_same_key (v : Val) (sci : Bool) (off : Int) (u : Bytes) (h : CellRange v off)
    (hnf : ∀ f, v ≠ .flt f) : norm (profileOfText (cellText v false sci off) u) = norm (profileOf v) := by
  cases v with
  | null => exact absurd h id
  | str s => exact absurd h id
  | flt f => exact absurd rfl (hnf f)
  | int i =>
    show norm (profileOfText (decText i) u) = _
    simp [norm, Profile.isNull, profileOfText, Cell.int_text_int i h, profileOf]
  | dt ns =>
    obtain ⟨hy, hm, hb⟩ := h
    have hp := Cell.profile_time_text ns off hy.1 hy.2 hm hb u
    show norm (profileOfText (FT.fmtTime ns off) u) = _
    unfold norm
    rw [hp.1, hp.2.1, hp.2.2]
    rfl
  | bool b =>
    cases b
    · have hp := Cell.profile_false_text u
      show norm (profileOfText sFalse u) = _
      unfold norm; rw [hp.1, hp.2.1, hp.2.2.1, hp.2.2.2]; rfl
    · have hp := Cell.profile_true_text u
      show norm (profileOfText sTrue u) = _
      unfold norm; rw [hp.1, hp.2.1, hp.2.2.1, hp.2.2.2]; rfl
  | tern t =>
    cases t with
    | U => exact absurd rfl h
    | F =>
      have hp := Cell.profile_false_text u
      show norm (profileOfText sFalse u) = _
      unfold norm; rw [hp.1, hp.2.1, hp.2.2.1, hp.2.2.2]; rfl
    | T =>
      have hp := Cell.profile_true_text u
      show norm (profileOfText sTrue u) = _
      unfold norm; rw [hp.1, hp.2.1, hp.2.2.1, hp.2.2.2]; rfl

/-- floats keep their key (with -0 folded into 0) whenever the text is not also an int64 text -/
theorem cell_text_same_key_float_partial (f : FVal) (hf : f.IsDouble) (sci : Bool) (u : Bytes)
    (hi : (profileOfText (if sci then FF.fmtG f else FF.fmtF f) u).int? = none) :
    norm (profileOfText (cellText (.flt f) false sci 0) u) = norm (profileOf (.flt f)) := by
  show norm (profileOfText (if sci then FF.fmtG f else FF.fmtF f) u) = _
  unfold norm
  rw [hi, Cell.profile_float_text f hf sci u]
  rfl

/-- … and a float whose text IS an int64 text (1.0 is written `1`, -0.0 is written `-0`) comes back with the key
    of that integer: equal to the original under `=`, but no longer in the bucket of the Float it was.
    Full statement, false for this reason: `norm (profileOfText (cellText (.flt f) …) u) = norm (profileOf (.flt f))`.
    (Integer 1 and Float 1.0 are different buckets in csvq although `1 = 1.0` is TRUE — reported.) -/
theorem cell_text_same_key_counterexample (u : Bytes) :
    cellText (.flt (.fin (2 ^ 1074))) false false 0 = [49]
      ∧ norm (profileOf (.flt (.fin (2 ^ 1074)))) = .flt (.fin (2 ^ 1074))
      ∧ norm (profileOfText [49] u) = .int 1
      ∧ opEq (profileOf (.flt (.fin (2 ^ 1074)))) (profileOfText [49] u) = .T
      ∧ opEq (profileOf (.int 1)) (profileOf (.flt (.fin (2 ^ 1074)))) = .T
      ∧ norm (profileOf (.int 1)) ≠ norm (profileOf (.flt (.fin (2 ^ 1074)))) := by
  have ht : cellText (.flt (.fin (2 ^ 1074))) false false 0 = [49] := by decide +kernel
  have hd : FVal.IsDouble (.fin (2 ^ 1074)) := by decide +kernel
  have hi : (profileOfText [49] u).int? = some 1 := by show PF.strToIntStrictB [49] = some 1; decide
  refine ⟨ht, by decide +kernel, ?_, ?_, by decide +kernel, by decide +kernel⟩
  · unfold norm; rw [hi]; rfl
  · have := cell_text_reads_back_equal (.flt (.fin (2 ^ 1074))) false 0 u ⟨hd, by decide⟩
    rw [ht] at this; exact this

/-- a datetime in a zone whose offset has seconds (local mean time) comes back as another instant: not equal -/
theorem cell_text_reads_back_equal_counterexample_seconds_offset (u : Bytes) :
    opEq (profileOf (.dt (-2840112422000000000))) (profileOfText (cellText (.dt (-2840112422000000000)) false false (-28378)) u) = .F := by
  have hd : (profileOfText (FT.fmtTime (-2840112422000000000) (-28378)) u).dt? = some (-2840112480000000000) := by
    show PT.strToTime (FT.fmtTime (-2840112422000000000) (-28378)) = some (-2840112480000000000); decide +kernel
  have := cmp_dt (profileOf (.dt (-2840112422000000000))) (profileOfText (FT.fmtTime (-2840112422000000000) (-28378)) u)
    rfl rfl _ _ rfl rfl rfl hd
  show opEq _ (profileOfText (FT.fmtTime (-2840112422000000000) (-28378)) u) = .F
  unfold opEq; rw [this]; decide

/-! ## non-vacuity -/

example : CellRange (.int (-9223372036854775808)) 0 ∧ CellRange (.flt (.fin 1)) 0 ∧ CellRange (.flt .negz) 0
    ∧ CellRange (.dt 1328260695000000000) 32400 ∧ CellRange (.tern .T) 0 := by decide +kernel
example : cellText (.int (-42)) false false 0 = [45, 52, 50] ∧ cellText (.bool true) false false 0 = [116, 114, 117, 101]
    ∧ cellText (.tern .U) false false 0 = [] := by decide
example : cellText (.flt (.fin (3602879701896397 * 2 ^ 1019))) false false 0 = [48, 46, 49] := by decide +kernel
example : (profileOfText [48, 46, 49] []).int? = none ∧ (profileOfText [48, 46, 49] []).flt? = some (.fin (3602879701896397 * 2 ^ 1019)) := by
  decide +kernel

end Csvq.C06
