/-
  C04 — the bucket of a value does not depend on how the value is SPELLED.

  SerializeKey normalises a text on the first rung that accepts it: value.ToIntegerStrictly (option.TrimSpace +
  strconv.ParseInt(s, 10, 64)), then value.ToFloat, ….  A text that writes an int64 with leading zeros, a sign and
  surrounding blanks is accepted by the FIRST rung, whatever its length — so '42', '0042', '+42', ' 42 ' and
  '000000000000000000000042' are one bucket, and two padded integers above 2^53 that round to one float are two
  buckets.  Stated for every digit string, every number of leading zeros and every run of blanks (induction over the
  padding in Lemmas/Spell.lean); the key is `keyOf` (Model/KeyOf.lean), every conversion the model's own.

  Tie to /repo: `Gen.Conv.toIntegerStrictly` is value.ToIntegerStrictly TRANSLATED from lib/value/conv.go on every
  run (extract/convfacts, fail-closed: a statement in front of ParseInt — a length test, a first-byte test — is outside
  the supported shapes and stops the generator); `gen_to_integer_strictly_is_parse_int` says that it is trim + ParseInt
  and nothing else, `gen_int_rung_is_key_rung` that its answer IS the integer rung of `keyOf`.

  Property theorems only.
-/
import Csvq.Props.C04KeyText
import Csvq.Lemmas.Spell
import Csvq.Lemmas.SpellWs
import Csvq.Gen.ConvFacts
namespace Csvq.C04
open Csvq Csvq.Spell

/-- a well-formed spelling of an int64: runs of White_Space runes (any of the 25 of unicode.IsSpace, in UTF-8) around —
    such that option.TrimSpace's guard lets it trim (`Spell.Guard`: no run at all, or the first or last BYTE of the text
    is a blank; runs of ASCII blanks always qualify, `wf_of_blanks`) —, a digit string (at least one digit), a value
    in range -/
structure IntSpelling.WF (s : IntSpelling) (v : Int) : Prop where
  left : ∃ rs, AllSpace rs ∧ s.left = Uni.encodeRunes rs
  right : ∃ rs, AllSpace rs ∧ s.right = Uni.encodeRunes rs
  guard : Guard s.left s.right s.text
  value : s.value = some v
  fits : inI64 v

theorem value_digits (s : IntSpelling) (v : Int) (h : s.value = some v) :
    ∃ n, parseNat s.digits = some n ∧ v = (if s.sign = some true then -(n : Int) else (n : Int)) := by
  unfold IntSpelling.value IntSpelling.mag at h
  cases hp : parseNat s.digits with
  | none => rw [hp] at h; cases h
  | some n => rw [hp] at h; simp at h; exact ⟨n, rfl, h.symm⟩

/-- runs of ASCII blanks (space, \t, \n, \v, \f, \r) of any length are always well-formed padding -/
theorem wf_of_blanks (s : IntSpelling) (v : Int) (hl : IsBlank s.left) (hr : IsBlank s.right)
    (hv : s.value = some v) (hf : inI64 v) : IntSpelling.WF s v := by
  obtain ⟨n, hn, _⟩ := value_digits s v hv
  obtain ⟨c, e, mid, hcm, _⟩ := core_shape s n hn
  have hl' := blanks_are_ws s.left hl
  have hr' := blanks_are_ws s.right hr
  exact ⟨⟨s.left, hl'.1, hl'.2.symm⟩, ⟨s.right, hr'.1, hr'.2.symm⟩,
    blanks_guard s.left s.right s.core hl hr (by rw [hcm]; simp), hv, hf⟩

/-- what option.TrimSpace + strconv.ParseInt make of a well-formed spelling: its value -/
theorem padded_int_text_parses (s : IntSpelling) (v : Int) (h : IntSpelling.WF s v) :
    PF.strToIntStrictB s.text = some v := by
  obtain ⟨n, hn, hv⟩ := value_digits s v h.value
  obtain ⟨c, e, mid, hcm, hrev, hc, hcs, he, hes⟩ := core_shape s n hn
  obtain ⟨lrs, hls, hle⟩ := h.left
  obtain ⟨rrs, hrs, hre⟩ := h.right
  have ht : PF.trimSpace s.text = s.core := by
    have hg := h.guard
    unfold IntSpelling.text at hg ⊢
    rw [hle, hre] at hg ⊢
    exact trimSpace_ws lrs rrs s.core c e mid hls hrs hcm hrev hc hcs he hes hg
  unfold PF.strToIntStrictB parseIntStrict
  rw [ht, parseSigned_core s n hn, ← hv]
  have := h.fits
  unfold inI64 at this
  simp [this]

/-- **the key of an integer text ignores the padding**: for every digit string, every number of leading zeros, sign
    and run of surrounding blanks, the key is the INTEGER key of the value, whenever the value fits int64 —
    whatever the length of the text -/
theorem int_text_key_ignores_padding (s : IntSpelling) (v : Int) (h : IntSpelling.WF s v) :
    keyOf (.str s.text) = .int v ∧ serKey goKeyText (keyOf (.str s.text)) = 91 :: 73 :: 93 :: decText v := by
  have hp := padded_int_text_parses s v h
  have hk : keyOf (.str s.text) = .int v := by
    simp only [keyOf, ownProfile, norm, Profile.isNull, profileOfText, hp]
    rfl
  exact ⟨hk, by rw [hk]; rfl⟩

/-- **no text that ParseInt accepts gets a float key** (nor a datetime, boolean or text key): the integer rung is
    the first one -/
theorem padded_int_never_float_key (t : Bytes) (i : Int) (h : PF.strToIntStrictB t = some i) :
    keyOf (.str t) = .int i ∧ (∀ f, keyOf (.str t) ≠ .flt f) ∧ tagOf (keyOf (.str t)) = 73 := by
  have hk : keyOf (.str t) = .int i := by
    simp only [keyOf, ownProfile, norm, Profile.isNull, profileOfText, h]
    rfl
  refine ⟨hk, ?_, by rw [hk]; rfl⟩
  intro f hf
  rw [hk] at hf
  cases hf

/-- the key of a value that fits: `none` (not a digit string) is no key at all -/
def valKey : Option Int → NKey
  | some v => .int v
  | none => .null

theorem valKey_injective : ∀ a b, valKey a = valKey b → a = b := by
  intro a b h
  cases a <;> cases b <;> simp [valKey] at h ⊢
  exact h

/-- **`same_bucket_iff_go` for padded spellings**: two rows of integer texts — each cell padded in its own way, of
    any length — share a bucket iff, column by column, the integers are equal -/
theorem padded_rows_same_bucket_iff (r s : List IntSpelling) (hl : r.length = s.length)
    (hr : ∀ x ∈ r, ∃ v, IntSpelling.WF x v) (hs : ∀ x ∈ s, ∃ v, IntSpelling.WF x v) :
    serKeys goKeyText (r.map fun x => keyOf (.str x.text)) = serKeys goKeyText (s.map fun x => keyOf (.str x.text))
      ↔ r.map (·.value) = s.map (·.value) := by
  have conv : ∀ l : List IntSpelling, (∀ x ∈ l, ∃ v, IntSpelling.WF x v) →
      (l.map fun x => keyOf (.str x.text)) = (l.map (·.value)).map valKey := by
    intro l hl
    rw [List.map_map]
    apply List.map_congr_left
    intro x hx
    obtain ⟨v, hv⟩ := hl x hx
    simp only [Function.comp, (int_text_key_ignores_padding x v hv).1, hv.value, valKey]
  rw [same_bucket_strict_iff_go _ _ (by simp [hl]), conv r hr, conv s hs]
  constructor
  · intro h
    exact (List.map_inj_right valKey_injective).mp h
  · intro h; rw [h]

/-- two spellings of one integer share a bucket … -/
theorem padded_twins_share_bucket (a b : IntSpelling) (v : Int) (ha : IntSpelling.WF a v) (hb : IntSpelling.WF b v) :
    serKey goKeyText (keyOf (.str a.text)) = serKey goKeyText (keyOf (.str b.text)) := by
  rw [(int_text_key_ignores_padding a v ha).1, (int_text_key_ignores_padding b v hb).1]

/-- … and spellings of two different integers never do — however close the integers are (beyond 2^53 they may well
    round to the same float) -/
theorem padded_near_twins_split_bucket (a b : IntSpelling) (v w : Int) (ha : IntSpelling.WF a v) (hb : IntSpelling.WF b w)
    (hne : v ≠ w) : serKey goKeyText (keyOf (.str a.text)) ≠ serKey goKeyText (keyOf (.str b.text)) := by
  rw [(int_text_key_ignores_padding a v ha).1, (int_text_key_ignores_padding b w hb).1]
  intro h
  have := serKey_injective goKeyText keytext_ok _ _ h
  cases this
  exact hne rfl

/-! ## the tie: value.ToIntegerStrictly, regenerated, is trim + ParseInt and nothing else -/

/-- the translated function body: an Integer is itself, a String is option.TrimSpace + strconv.ParseInt(s, 10, 64),
    everything else NULL — no test on the text in front of ParseInt -/
theorem gen_to_integer_strictly_is_parse_int (v : Val) :
    Gen.Conv.toIntegerStrictly v =
      (match v with
       | .int i => .int i
       | .str s => (match parseIntStrict (PF.trimSpace s) with | some i => .int i | none => .null)
       | _ => .null) := by
  cases v <;> rfl

/-- … and its answer is the integer rung of the key: the text gets the key `[I]i` exactly when the translated
    ToIntegerStrictly returns the Integer i; otherwise the key is no spelling-dependent integer key (an integer key
    0 / 1 can then only come from the boolean rung) -/
theorem gen_int_rung_is_key_rung (s : Bytes) (i : Int) (h : Gen.Conv.toIntegerStrictly (.str s) = .int i) :
    keyOf (.str s) = .int i := by
  rw [gen_to_integer_strictly_is_parse_int] at h
  dsimp only at h
  have hp : PF.strToIntStrictB s = some i := by
    unfold PF.strToIntStrictB
    cases hq : parseIntStrict (PF.trimSpace s) with
    | none => rw [hq] at h; cases h
    | some j => rw [hq] at h; cases h; rfl
  exact (padded_int_never_float_key s i hp).1

/-- for a well-formed padded spelling the translated function returns the value — at every length -/
theorem gen_to_integer_strictly_ignores_padding (s : IntSpelling) (v : Int) (h : IntSpelling.WF s v) :
    Gen.Conv.toIntegerStrictly (.str s.text) = .int v := by
  rw [gen_to_integer_strictly_is_parse_int]
  have := padded_int_text_parses s v h
  unfold PF.strToIntStrictB at this
  dsimp only
  rw [this]

/-! ## non-vacuity: texts longer than 20 and longer than 32 characters -/

/-- '000000000000000000000042' (24 characters) -/
def sp42_24 : IntSpelling := { left := [], sign := none, zeros := 22, digits := [52, 50], right := [] }
/-- '  +0000000000000000000000000000000042 \t' (39 characters) -/
def sp42_39 : IntSpelling := { left := [32, 32], sign := some false, zeros := 32, digits := [52, 50], right := [32, 9] }
/-- '42' -/
def sp42 : IntSpelling := { left := [], sign := none, zeros := 0, digits := [52, 50], right := [] }
/-- '000000009007199254740993' and '000000009007199254740992' (24 characters each) -/
def spBig3 : IntSpelling := { left := [], sign := none, zeros := 8, digits := [57, 48, 48, 55, 49, 57, 57, 50, 53, 52, 55, 52, 48, 57, 57, 51], right := [] }
def spBig2 : IntSpelling := { left := [], sign := none, zeros := 8, digits := [57, 48, 48, 55, 49, 57, 57, 50, 53, 52, 55, 52, 48, 57, 57, 50], right := [] }
/-- '-00000000000000000000000000009223372036854775808' (48 characters): the smallest int64 -/
def spMin : IntSpelling := { left := [], sign := some true, zeros := 28, digits := [57, 50, 50, 51, 51, 55, 50, 48, 51, 54, 56, 53, 52, 55, 55, 53, 56, 48, 56], right := [] }

theorem wf_of_decide (s : IntSpelling) (v : Int) (h1 : s.left.all isAsciiSpace = true) (h2 : s.right.all isAsciiSpace = true)
    (h3 : s.value = some v) (h4 : inI64 v) : IntSpelling.WF s v :=
  wf_of_blanks s v (fun b hb => List.all_eq_true.mp h1 b hb) (fun b hb => List.all_eq_true.mp h2 b hb) h3 h4

example : sp42_24.text.length = 24 ∧ sp42_39.text.length = 39 ∧ spBig3.text.length = 24 ∧ spMin.text.length = 48 := by decide
example : IntSpelling.WF sp42_24 42 := wf_of_decide _ _ (by decide) (by decide) (by decide) (by decide)
example : IntSpelling.WF sp42_39 42 := wf_of_decide _ _ (by decide) (by decide) (by decide) (by decide)
example : IntSpelling.WF spMin (-9223372036854775808) := wf_of_decide _ _ (by decide) (by decide) (by decide) (by decide)

-- '000000000000000000000042', '  +00…0042 \t' and '42' carry the key `[I]42`
example : serKey goKeyText (keyOf (.str sp42_24.text)) = [91, 73, 93, 52, 50] :=
  (int_text_key_ignores_padding sp42_24 42 (wf_of_decide _ _ (by decide) (by decide) (by decide) (by decide))).2
example : serKey goKeyText (keyOf (.str sp42_39.text)) = serKey goKeyText (keyOf (.str sp42.text)) :=
  padded_twins_share_bucket sp42_39 sp42 42 (wf_of_decide _ _ (by decide) (by decide) (by decide) (by decide))
    (wf_of_decide _ _ (by decide) (by decide) (by decide) (by decide))
-- the 48-character spelling of the smallest int64 is still an integer key
example : keyOf (.str spMin.text) = .int (-9223372036854775808) :=
  (int_text_key_ignores_padding spMin _ (wf_of_decide _ _ (by decide) (by decide) (by decide) (by decide))).1
-- 9007199254740993 and 9007199254740992, padded to 24 characters: two buckets, although both round to 2^53 as floats
example : serKey goKeyText (keyOf (.str spBig3.text)) ≠ serKey goKeyText (keyOf (.str spBig2.text)) :=
  padded_near_twins_split_bucket spBig3 spBig2 9007199254740993 9007199254740992
    (wf_of_decide _ _ (by decide) (by decide) (by decide) (by decide)) (wf_of_decide _ _ (by decide) (by decide) (by decide) (by decide)) (by decide)
example : PF.strToFloat spBig3.text = PF.strToFloat spBig2.text := by decide +kernel
-- the rows ('0042', '000000009007199254740993') and (' 42', '9007199254740993') share a bucket, by the iff
example : [sp42_24, spBig3].map (·.value) = [sp42_39, { spBig3 with zeros := 0, left := [32] }].map (·.value) := by decide
-- the translated ToIntegerStrictly on the 24-character text
example : Gen.Conv.toIntegerStrictly (.str sp42_24.text) = .int 42 := by decide +kernel
-- a text ParseInt refuses (one beyond the largest int64, padded) has no integer key
example : PF.strToIntStrictB ({ spMin with sign := none } : IntSpelling).text = none := by decide +kernel

/-! ## the other rungs: the key of a text is decided by the FIRST conversion that accepts it -/

/-- the ladder on a text, rung by rung, each conversion the model's own: ParseInt, else ParseFloat (-0 folded onto
    0), else StrToTime (UnixNano, wrapped to int64), else ParseBool (as the integers 1 / 0), else the upper-cased
    trimmed text -/
theorem text_key_by_rung (t : Bytes) :
    keyOf (.str t) =
      (match PF.strToIntStrictB t with
       | some i => .int i
       | none => match PF.strToFloat t with
         | some f => .flt (if f = .negz then .fin 0 else f)
         | none => match PT.strToTime t with
           | some ns => .dt (wrap64 ns)
           | none => match PF.strTernaryB t with
             | .T => .int 1
             | .F => .int 0
             | .U => .str (Uni.strToUpper (PF.trimSpace t))) := by
  simp only [keyOf, ownProfile, norm, Profile.isNull, profileOfText]
  cases PF.strToIntStrictB t <;> cases PF.strToFloat t <;> cases PT.strToTime t <;> cases PF.strTernaryB t <;> rfl

/-- two float spellings (texts ParseInt refuses) share a bucket iff ParseFloat reads them as the same number, the two
    zeros counted as one -/
theorem float_spellings_same_bucket_iff (a b : Bytes) (f g : FVal) (ha : PF.strToIntStrictB a = none) (hb : PF.strToIntStrictB b = none)
    (hf : PF.strToFloat a = some f) (hg : PF.strToFloat b = some g) :
    serKey goKeyText (keyOf (.str a)) = serKey goKeyText (keyOf (.str b))
      ↔ (if f = .negz then .fin 0 else f) = (if g = .negz then FVal.fin 0 else g) := by
  rw [text_key_by_rung, text_key_by_rung]
  simp only [ha, hb, hf, hg]
  constructor
  · intro h
    have := serKey_injective goKeyText keytext_ok _ _ h
    injection this
  · intro h; rw [h]

/-- two spellings of instants (texts no number rung accepts) share a bucket iff StrToTime reads the same instant
    (up to the int64 wrap of UnixNano, finding F17) -/
theorem datetime_spellings_same_bucket_iff (a b : Bytes) (x y : Int) (ha : PF.strToIntStrictB a = none) (hb : PF.strToIntStrictB b = none)
    (hfa : PF.strToFloat a = none) (hfb : PF.strToFloat b = none) (hx : PT.strToTime a = some x) (hy : PT.strToTime b = some y) :
    serKey goKeyText (keyOf (.str a)) = serKey goKeyText (keyOf (.str b)) ↔ wrap64 x = wrap64 y := by
  rw [text_key_by_rung, text_key_by_rung]
  simp only [ha, hb, hfa, hfb, hx, hy]
  constructor
  · intro h
    have := serKey_injective goKeyText keytext_ok _ _ h
    injection this
  · intro h; rw [h]

/-- a word of strconv.ParseBool shares its bucket with the integer 1 / 0 and every spelling of it -/
theorem bool_word_key (t : Bytes) (ha : PF.strToIntStrictB t = none) (hf : PF.strToFloat t = none) (hd : PT.strToTime t = none) :
    keyOf (.str t) = (match PF.strTernaryB t with
      | .T => keyOf (.int 1) | .F => keyOf (.int 0) | .U => .str (Uni.strToUpper (PF.trimSpace t))) := by
  rw [text_key_by_rung]
  simp only [ha, hf, hd]
  cases PF.strTernaryB t <;> rfl

-- '4.2e1', '0x1.5p+5', '42.000' and '+00042.0e000' are one bucket (the float 42), which is not the bucket of '42'
example : keyOf (.str [52, 46, 50, 101, 49]) = .flt (FVal.ofInt 42)
    ∧ keyOf (.str [48, 120, 49, 46, 53, 112, 43, 53]) = .flt (FVal.ofInt 42)
    ∧ keyOf (.str [52, 50, 46, 48, 48, 48]) = .flt (FVal.ofInt 42)
    ∧ keyOf (.str [43, 48, 48, 48, 52, 50, 46, 48, 101, 48, 48, 48]) = .flt (FVal.ofInt 42)
    ∧ keyOf (.str [52, 50]) = .int 42 := by decide +kernel
-- '2012-02-03T09:18:15Z', '2012-02-03 18:18:15 +09:00' and '2012/2/3 09:18:15.000' are one instant
example : keyOf (.str [50, 48, 49, 50, 45, 48, 50, 45, 48, 51, 84, 48, 57, 58, 49, 56, 58, 49, 53, 90]) = .dt 1328260695000000000
    ∧ keyOf (.str [50, 48, 49, 50, 45, 48, 50, 45, 48, 51, 32, 49, 56, 58, 49, 56, 58, 49, 53, 32, 43, 48, 57, 58, 48, 48]) = .dt 1328260695000000000
    ∧ keyOf (.str [50, 48, 49, 50, 47, 50, 47, 51, 32, 48, 57, 58, 49, 56, 58, 49, 53, 46, 48, 48, 48]) = .dt 1328260695000000000 := by decide +kernel
-- ' True ' is the bucket of 1; 'tRUE' is a text
example : keyOf (.str [32, 84, 114, 117, 101, 32]) = keyOf (.int 1) ∧ keyOf (.str [116, 82, 85, 69]) = .str [84, 82, 85, 69] := by
  decide +kernel

/-! ### White_Space beyond ASCII, and the guard -/

/-- U+3000 U+2003 '0042' U+00A0 (the last BYTE, 0xA0, is a blank to option.TrimSpace's guard) -/
def sp42_ws : IntSpelling :=
  { left := Uni.encodeRunes [0x3000, 0x2003], sign := none, zeros := 2, digits := [52, 50], right := Uni.encodeRunes [0xA0] }

example : IntSpelling.WF sp42_ws 42 :=
  ⟨⟨[0x3000, 0x2003], by intro r hr; simp at hr; rcases hr with rfl | rfl <;> decide, rfl⟩,
   ⟨[0xA0], by intro r hr; simp at hr; subst hr; decide, rfl⟩,
   Or.inr ⟨0xE3, _, 0xA0, rfl, by decide, by decide⟩, by decide, by decide⟩

/-- why the guard is a hypothesis: U+3000 '42' — neither the first byte (0xE3) nor the last ('2') is a blank, so
    option.TrimSpace returns the text as it is, ParseInt refuses it, and the key is the text itself -/
theorem white_space_guard_needed_counterexample :
    PF.strToIntStrictB (Uni.encodeRunes [0x3000] ++ [52, 50]) = none
      ∧ keyOf (.str (Uni.encodeRunes [0x3000] ++ [52, 50])) = .str (Uni.encodeRunes [0x3000] ++ [52, 50]) := by
  decide +kernel

end Csvq.C04
