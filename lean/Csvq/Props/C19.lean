/-
  C19 — csvq never fails internally: any program, data or file state ends cleanly
  (exit code 0 or a documented error message and code; never `Fatal Error`, a Go panic or a hang;
  every loaded table is rectangular).

  A universally quantified ABSENCE over the whole program; no theorem about all of csvq is attempted.
  PROVED here (machine-checked, for all inputs, over facts REGENERATED from /repo on every run by
  extract/errfacts → Csvq/Gen/ErrFacts.lean):

    (a) loaders     `csv_loader_total`, `ltsv_loader_total`, `fixed_loader_total`: every character string,
                    under every option vector, decodes to an error or to a RECTANGULAR table (C02's theorems);
                    `json_loader_total`, `jsonl_loader_total`: the same for JSON / JSON Lines texts, and
                    `json_structure_loader_total`, `jsonl_structure_loader_total`, `json_query_loader_total`: for EVERY
                    decoded JSON value the structure mapping (lib/json LoadTable with the empty query and with `{}`,
                    ConvertToTableValue, the collector of loadViewFromJsonLinesFile — Csvq.Model.JsonStruct) returns an
                    error or a rectangular table (Csvq.Props.C02Json); `fixed_singleline_loader_total`: the same for
                    single-line fixed-length files (`S[…]`, Csvq.Props.C02Single);
    (b) exit codes  `exit_code_total`: every error constructor of lib/query/error.go passes a return code of
                    the manual's table (or is one of the three documented dynamic ones: EXIT n, TRIGGER ERROR n,
                    signal 128+n); `return_codes_documented`, `exit_default_documented`,
                    `error_numbers_distinct`, `ctor_numbers_known`, `ctor_number_determines_code`;
    (c) index       `strToTime_index_in_range` (every `s[i]` of value.StrToTime, under the path conditions on
        guards      `len(s)` read off the source, is in range for EVERY length), `limit_in_bounds`,
                    `offset_in_bounds`, `limit_percent_nan_refused` (C07), `cursor_index_inv` (C16);
                    Csvq/Props/C19Args.lean: `arg_index_in_range` — every index / slice expression on an ARGUMENT
                    slice of every built-in function (and every constant index of lib/query, lib/action, lib/cli,
                    lib/option that a length condition of the same function guards) is in range for EVERY number of
                    arguments; `arg_facts_cover_function_table`;
    (d) nil errors  `nil_error_sites_except_known`: no method call on an error variable on a path where a
                    DIFFERENT error variable is the one known non-nil, except the listed sites;
        recover     `recover_unconditional_except_known`: every `recover()` runs whenever its goroutine
                    panics (unguarded, or guarded by the goroutine's own state at a reviewed site), except
                    the listed sites whose guard reads state another goroutine sets.
        assertions  Csvq/Props/C19Asserts.lean: `assertion_sites_ok` / `assertion_site_safe` — every unchecked `x.(T)` of
                    lib/query, lib/action, lib/cli, lib/parser, lib/value, lib/json, lib/option is safe by the class of its
                    guard (type-switch clause, comma-ok, finite set of possible dynamic types from the conversion functions /
                    the grammar contract of parser.y / typed containers, minus IsNull / nil tests) or is listed one by one.

  FULL STATEMENTS that the pinned tree does not meet yet (kept visible; each open site is REPORTED by
  vt/p_c19.py under the stable signature `nilerr:<file>:<function>:<expr>` / `recover:<file>:<function>:<guard>`
  and reproduced against the real binary by harness/cmd/c19):

      theorem nil_error_sites      : Gen.nilErrorFacts = []
      theorem recover_unconditional : Gen.recoverFacts.all RecoverFact.safe = true

  They follow from the `…_except_known` theorems as soon as the known lists are empty
  (`nil_error_sites_of_no_known`, `recover_unconditional_of_no_known`): after the repair in /repo, empty
  `knownNilErrorSites` / `knownSkippedRecoverSites` and instantiate them with `rfl`.

  EXPLORED, not proved (harness/cmd/c19 against the real binary; the evidence lists what was driven):
  every built-in function and clause with boundary arguments, arbitrary bytes × formats × options,
  file-system conditions.  Level: proof for (a)–(d), exploration for the rest ⇒ partial.
-/
import Csvq.Gen.ErrFacts
import Csvq.Lemmas.ErrFacts
import Csvq.Props.C02
import Csvq.Props.C02Json
import Csvq.Props.C02Single
import Csvq.Props.C07
import Csvq.Props.C16

namespace Csvq.C19
open Csvq.ErrFacts

/-! ## (b) the error → exit-code table -/

/-- constructors whose return code is not a constant, each documented in the manual:
    `EXIT [exit_code]` and `TRIGGER ERROR [exit_code]` (control-flow.md: the code the program asks for,
    64 by default) and the row `128+n — terminated by signal n` of the Return Code table -/
def documentedDynamicCodes : List (String × String) :=
  [("NewForcedExit", "code"),
   ("NewUserTriggeredError", "code"),
   ("NewSignalReceived", "returnCodeBaseSignal + code")]

def codeOK (c : ErrCtor) : Bool :=
  match c.code with
  | some n => Gen.documentedReturnCodes.contains n
  | none => documentedDynamicCodes.contains (c.name, c.codeExpr)

set_option maxRecDepth 100000 in
/-- **exit_code_total.**  Every error constructor of lib/query/error.go (regenerated list) hands the base
    error a return code that is a row of the manual's Return Code table, or is one of the three
    documented dynamic codes. -/
theorem exit_code_total : Gen.errorCtors.all codeOK = true := by decide +kernel

/-- the same, element-wise -/
theorem exit_code_total_mem (c : ErrCtor) (hc : c ∈ Gen.errorCtors) : codeOK c = true :=
  List.all_eq_true.mp exit_code_total c hc

/-- the `128+n` row is what `NewSignalReceived` adds the signal number to -/
theorem signal_base_documented : Gen.documentedSignalBase = some Gen.returnCodeBaseSignal := by decide

/-- the ReturnCode… constants are exactly the non-zero rows of the manual's table -/
theorem return_codes_documented :
    (Gen.returnCodes.map (·.2)).all (Gen.documentedReturnCodes.contains ·) = true ∧
    (Gen.documentedReturnCodes.filter (· ≠ 0)).all ((Gen.returnCodes.map (·.2)).contains ·) = true := by decide

/-- cli.Exit: the exit code is the error's own `Code()` or, for an error that is not a query.Error, a
    documented default; nothing else is ever assigned to it -/
theorem exit_default_documented :
    Gen.documentedReturnCodes.contains Gen.exitDefaultCode = true ∧
    Gen.exitCodeSources = [Gen.exitDefaultCodeExpr, "apperr.Code()"] := by decide

/-- **error_numbers_distinct.**  No two Error… constants of error_code.go share a number. -/
theorem error_numbers_distinct : (Gen.errorNumbers.map (·.2)).Nodup := by decide +kernel

set_option maxRecDepth 100000 in
/-- every constructor's error number is a constant of the table (or the documented signal number) -/
theorem ctor_numbers_known :
    Gen.errorCtors.all (fun c => match c.number with
      | some n => (Gen.errorNumbers.map (·.2)).contains n
      | none => c.name == "NewSignalReceived" && c.numberExpr == "errorSignalBase + code") = true := by decide +kernel

/-- the error number determines the exit code: constructors that share a number (variants of one kind of
    error) pass the same return code -/
theorem ctor_number_determines_code :
    Gen.errorCtors.all (fun c => Gen.errorCtors.all (fun d =>
      c.number.isNone || c.number != d.number || c.code == d.code)) = true := by decide +kernel

/-! ## (d) nil error variables -/

/-- sites known to violate the rule.  Two existed in the pinned tree (`err.Error()` where `e` was the
    non-nil error, in cacheViewFromFile and Processor.ExecuteStatement: finding F11b, harness law
    `fatal:nil_error_removed_cwd`); repaired in /repo, so the list is empty. -/
def knownNilErrorSites : List String := []

/-- **nil_error_sites_except_known.**  In every package of the module no method is called on an error
    variable at a point where a different error variable is the one established non-nil (and nothing
    establishes or assigns the first) — except at the known sites. -/
theorem nil_error_sites_except_known :
    Gen.nilErrorFacts.all (fun f => knownNilErrorSites.contains f.site) = true := by decide

/-- with no known site left this IS the full statement `nil_error_sites : Gen.nilErrorFacts = []` -/
theorem nil_error_sites_of_no_known (h : knownNilErrorSites = []) : Gen.nilErrorFacts = [] := by
  have hall := nil_error_sites_except_known
  rw [h] at hall
  exact all_contains_nil _ _ hall

/-! ## (d) recover() guards -/

/-- local guards reviewed by hand: the condition only reads variables the panicking goroutine itself
    assigns, and every assignment that makes it false is followed by `break` / `return` without further
    work (so no panic can happen while it is false) -/
def reviewedLocalGuards : List (String × String × String) :=
  [("lib/query/load_view.go", "readRecordSet", "err == nil && !panicOccurred"),
   ("lib/query/load_view.go", "loadViewFromJsonLinesFile", "err == nil && !panicOccurred"),
   ("lib/query/processor.go", "Processor.execute", "err == nil")]

/-- a recover that runs whenever its goroutine panics -/
def _root_.Csvq.ErrFacts.RecoverFact.safe (f : RecoverFact) : Bool :=
  f.guard == "" || (!f.shared && reviewedLocalGuards.contains (f.file, f.fn, f.guard))

/-- sites known to violate the rule.  Six existed in the pinned tree (`if !gm.HasError() { recover() }` in
    Analyze, evaluateSequentialRoutine, GoroutineTaskManager.run, InnerJoin, OuterJoin, View.group: once one
    worker had recorded an error a panic in a second worker killed the process — finding F36, harness law
    `panic:unrecovered_worker`); repaired in /repo, so the list is empty. -/
def knownSkippedRecoverSites : List String := []

/-- **recover_unconditional_except_known.**  Every `recover()` of the module is unconditional or guarded by
    a reviewed goroutine-local condition — except at the known sites. -/
theorem recover_unconditional_except_known :
    Gen.recoverFacts.all (fun f => f.safe || knownSkippedRecoverSites.contains f.site) = true := by decide

/-- with no known site left this IS the full statement `recover_unconditional` -/
theorem recover_unconditional_of_no_known (h : knownSkippedRecoverSites = []) :
    Gen.recoverFacts.all RecoverFact.safe = true := by
  have hall := recover_unconditional_except_known
  rw [h] at hall
  exact all_or_contains_nil _ _ _ hall

/-- **nil_error_sites** (full statement) -/
theorem nil_error_sites : Gen.nilErrorFacts = [] := nil_error_sites_of_no_known rfl

/-- **recover_unconditional** (full statement) -/
theorem recover_unconditional : Gen.recoverFacts.all RecoverFact.safe = true :=
  recover_unconditional_of_no_known rfl

/-- every panic that can reach the top of the statement loop is turned into an error value:
    the processor's own recover is among the facts and is safe -/
theorem processor_recovers :
    Gen.recoverFacts.any (fun f => f.fn == "Processor.execute" && f.safe) = true := by decide

/-! ## (d) unchecked type assertions: Csvq/Props/C19Asserts.lean (every unchecked `x.(T)` of the hand-written packages with its guard
    class; the earlier per-function counts of lib/action and built_in_command.go with a hand-filled reviewed list are gone: the four
    assertions of F96 had been IN that list) -/

/-! ## (c) index guards -/

/-- **strToTime_index_in_range.**  Every index expression `s[k]` / `s[len(s)-k]` of value.StrToTime, under the
    conditions on `len(s)` that enclose it in the source (regenerated), is in range for EVERY length:
    the function cannot panic with "index out of range" on any string. -/
theorem strToTime_index_in_range (s : IndexSite) (hs : s ∈ Gen.strToTimeIndexSites) (len : Nat)
    (h : ∀ c ∈ s.conds, c.holds len) : s.idx.inRange len :=
  IndexSite.ok_sound s (List.all_eq_true.mp (by decide : Gen.strToTimeIndexSites.all IndexSite.ok = true) s hs) len h

/-- non-vacuity of the checker: the same index without the guards is rejected, and the guard the code
    has for `s[10]` (8 ≤ len, ¬ len < 10, ¬ len = 10) is needed in full -/
example : IndexSite.ok ⟨0, "s[10]", [.ge 8, .notLt 10], .const 10⟩ = false := by decide
example : IndexSite.ok ⟨0, "s[len(s) - 6]", [], .fromEnd 6⟩ = false := by decide
example : ¬ Idx.inRange 10 (.const 10) := by simp [Idx.inRange]

/-- LIMIT never reaches outside the table (C07) -/
theorem limit_in_bounds {α} (eqv : α → α → Bool) (wt : Bool) (k : Nat) (rows : List α) :
    limitRows eqv wt k rows <+: rows := by
  exact C07.limit_is_prefix eqv wt k rows

/-- OFFSET never reaches outside the table: any integer, negative or beyond the end (C07) -/
theorem offset_in_bounds {α} (n : Int) (rows : List α) : offsetRows n rows <:+ rows := by
  rw [C07.offset_spec]; exact List.drop_suffix _ _

/-- an invalid percentage (NaN) is refused before it reaches the slice expression (C07; was a Fatal Error) -/
theorem limit_percent_nan_refused (total : Nat) : limitPercent total .nan = none := by
  exact C07.limit_percent_nan total

/-- an open cursor's pointer stays within [−1, len] after ANY history of cursor statements (C16), so
    `view.RecordSet[index]` behind the range check cannot be out of range -/
theorem cursor_index_inv {α} (ops : List (Cursor.Op α)) (name : String) (rows : List α) (i : Int) (f : Bool)
    (h : Cursor.lookup (Cursor.run ([] : Cursor.Scope α) ops).1 name = some (.opened rows i f)) :
    -1 ≤ i ∧ i ≤ rows.length := by
  exact C16.index_inv ops name rows i f h

/-! ## (a) the loaders are total and rectangular (C02) -/

/-- **CSV / TSV**: for every character string and every option vector (delimiter, --no-header,
    --allow-uneven-fields, --without-null) the loader returns an error or a table every record of which has
    as many fields as the header -/
theorem csv_loader_total (o : Csv.Opts) (inp : List Char) :
    (∃ e, Csv.decodeCsv o inp = .error e) ∨
    (∃ t, Csv.decodeCsv o inp = .ok t ∧ ∀ row ∈ t.rows, row.length = t.header.length) := by
  cases h : Csv.decodeCsv o inp with
  | error e => exact Or.inl ⟨e, rfl⟩
  | ok t => exact Or.inr ⟨t, rfl, C02.csv_rectangular o inp t h⟩

/-- **LTSV** -/
theorem ltsv_loader_total (o : Ltsv.Opts) (inp : List Char) :
    (∃ e, Ltsv.decodeLtsv o inp = .error e) ∨
    (∃ t, Ltsv.decodeLtsv o inp = .ok t ∧ ∀ row ∈ t.rows, row.length = t.header.length) := by
  cases h : Ltsv.decodeLtsv o inp with
  | error e => exact Or.inl ⟨e, rfl⟩
  | ok t => exact Or.inr ⟨t, rfl, C02.L.ltsv_rectangular o inp t h⟩

/-- **fixed-length**: any positions, any character widths -/
theorem fixed_loader_total (wd : Char → Nat) (o : Fixed.Opts) (P : List Nat) (inp : List Char) :
    (∃ e, Fixed.decodeFixed wd o P inp = .error e) ∨
    (∃ t, Fixed.decodeFixed wd o P inp = .ok t ∧ ∀ row ∈ t.rows, row.length = t.header.length) := by
  cases h : Fixed.decodeFixed wd o P inp with
  | error e => exact Or.inl ⟨e, rfl⟩
  | ok t => exact Or.inr ⟨t, rfl, C02.F.fixed_rectangular wd o P inp t h⟩

/-- JSON: every text is refused or loads as a rectangular table (scanner + grammar + structure mapping). -/
theorem json_loader_total (canon : List Char → Option (List Char)) (inp : List Char) :
    (∃ e, Json.decodeJson canon inp = .error e) ∨
    ∃ t, Json.decodeJson canon inp = .ok t ∧ ∀ row ∈ t.rows, row.length = t.header.length := by
  cases h : Json.decodeJson canon inp with
  | error e => exact Or.inl ⟨e, rfl⟩
  | ok t => exact Or.inr ⟨t, rfl, C02.J.json_rectangular canon inp t h⟩

/-- JSON Lines: the same. -/
theorem jsonl_loader_total (canon : List Char → Option (List Char)) (inp : List Char) :
    (∃ e, Json.decodeJsonl canon inp = .error e) ∨
    ∃ t, Json.decodeJsonl canon inp = .ok t ∧ ∀ row ∈ t.rows, row.length = t.header.length := by
  cases h : Json.decodeJsonl canon inp with
  | error e => exact Or.inl ⟨e, rfl⟩
  | ok t => exact Or.inr ⟨t, rfl, C02.J.jsonl_rectangular canon inp t h⟩

/-- the structure mapping of the JSON loader, for EVERY decoded value (`none` = the empty text) -/
theorem json_structure_loader_total (canon : List Char → Option (List Char)) (v : Option Json.JS) :
    Json.loadTable canon v = .error .parse ∨
    ∃ t, Json.loadTable canon v = .ok t ∧ ∀ row ∈ t.rows, row.length = t.header.length :=
  C02.S.json_load_rectangular canon v

/-- … of the JSON Lines loader, for EVERY sequence of decoded lines -/
theorem jsonl_structure_loader_total (canon : List Char → Option (List Char)) (lines : List (Option Json.JS)) :
    Json.loadJsonLines canon lines = .error .parse ∨
    ∃ t, Json.loadJsonLines canon lines = .ok t ∧ ∀ row ∈ t.rows, row.length = t.header.length :=
  C02.S.jsonl_load_rectangular canon lines

/-- … with the json-query `{}` -/
theorem json_query_loader_total (canon : List Char → Option (List Char)) (v : Option Json.JS) :
    Json.loadTableQ canon v = .error .parse ∨
    ∃ t, Json.loadTableQ canon v = .ok t ∧ ∀ row ∈ t.rows, row.length = t.header.length :=
  C02.S.json_query_load_rectangular canon v

/-- fixed-length SINGLE-LINE files (`S[…]`): every text, under every positions list, is refused or loads rectangular -/
theorem fixed_singleline_loader_total (wd : Char → Nat) (o : Fixed.Opts) (P : List Nat) (inp : List Char) :
    (∃ e, Fixed.decodeFixedS wd o P inp = .error e) ∨
    ∃ t, Fixed.decodeFixedS wd o P inp = .ok t ∧ ∀ row ∈ t.rows, row.length = t.header.length := by
  cases h : Fixed.decodeFixedS wd o P inp with
  | error e => exact Or.inl ⟨e, rfl⟩
  | ok t => exact Or.inr ⟨t, rfl, C02.FS.fixed_singleline_rectangular wd o P inp t h⟩

-- non-vacuity: a value that loads (with a missing member) and one that is refused
example : ∃ t, Json.loadTable (fun a => some a) (some (.arr [.obj [(['a'], .null)], .obj []])) = .ok t ∧ t.rows.length = 2 :=
  ⟨_, rfl, rfl⟩
example : Json.loadTable (fun a => some a) (some (.arr [.null])) = .error .parse := rfl

end Csvq.C19
