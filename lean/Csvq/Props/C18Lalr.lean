/-
  Csvq.Props.C18Lalr — property C18, the grammar layer below the semantic actions:
  "for every input text the parser terminates and returns either a statement list or a syntax error whose position
   lies inside the input; it never panics" — for the goyacc driver loop and its tables.

  Model: Csvq/Model/Lalr.lean, the loop of `(*yyParserImpl).Parse` with `yylex1` and `(*Lexer).Lex`, over the token
  codes the scanner returns; tables regenerated from lib/parser/parser.go on every run (Csvq/Gen/LalrTables.lean),
  the text of the loop pinned (Csvq/Ref/Lalr.lean).  All theorems quantify over ALL token lists (any integers) and
  over all fuel.  The finite part is one kernel evaluation (`lalr_tables_wf`); the rest is an invariant of the loop
  (Csvq/Lemmas/Lalr.lean):

    the state stack is a chain in a relation "s may lie directly below u" that is closed under every shift and every
    goto the tables can perform; along such a chain every state has at least `depth` entries below it, and no state
    reduces more symbols than its depth — so `yyS[yyp]`, `yyS[yyp+1]` and the window `yyS[yypt-N : yypt+1]` of the
    semantic actions are in range (LR-correctness of the tables, as far as the driver depends on it);
    a measure (tokens left, then Σ weight + rank of the top state) strictly decreases with every round — the loop
    ends without fuel.

  Not modelled (trusted, see the note of the check): the bodies of the semantic actions beyond their classification
  below, and that the tables implement the grammar of parser.y.
-/
import Csvq.Lemmas.Lalr
import Csvq.Lemmas.LalrGen
import Csvq.Gen.LalrDriver
import Csvq.Ref.Lalr
namespace Csvq.C18
open Csvq.Lalr

/-! ## the driver is still the goyacc template the model mirrors -/

/-- the loop, `yylex1`, `yyParse`, `Parse`, `(*Lexer).Lex` and the scanner's EOF / Uncategorized declaration, statement
    by statement, are the reviewed ones -/
theorem gen_driver_eq_ref :
    Gen.Lalr.driverText = Ref.Lalr.driverText ∧ Gen.Lalr.lex1Text = Ref.Lalr.lex1Text ∧
    Gen.Lalr.yyParseText = Ref.Lalr.yyParseText ∧ Gen.Lalr.parseText = Ref.Lalr.parseText ∧
    Gen.Lalr.lexText = Ref.Lalr.lexText ∧ Gen.Lalr.scannerConstText = Ref.Lalr.scannerConstText :=
  ⟨rfl, rfl, rfl, rfl, rfl, rfl⟩

/-- the semantic actions that are more than a construction from `yyDollar[k]` fields are the reviewed ones -/
theorem gen_actions_reviewed : Gen.Lalr.nonPureActions = Ref.Lalr.nonPureActions := rfl

/-- the list of production lengths printed beside the actions is the table the model reads -/
theorem gen_r2_list_eq_tables :
    Gen.Lalr.r2List.length = genP.r2.size ∧
    (Gen.Lalr.r2List.zipIdx.all fun (x, i) => decide ((x : Int) = genP.r2.get i)) = true := by decide +kernel

/-- every semantic action slices exactly the window the model checks: `yyDollar = yyS[yypt-N : yypt+1]` with
    `N = yyR2[production]` -/
theorem lalr_actions_window :
    (Gen.Lalr.actionCases.all fun c => Gen.Lalr.r2List[c.1]? == some c.2.1) = true := by decide +kernel

/-- and reads `yyDollar[k]` only inside it: `k ≤ N` (the slice has `N + 1` entries) -/
theorem lalr_actions_dollar_in_window :
    (Gen.Lalr.actionCases.all fun c => decide (c.2.2.1 ≤ c.2.1)) = true := by decide +kernel

/-! ## the finite facts about the tables -/

/-- the table facts the invariant needs, and the certificates of the extractor, checked by evaluation in the kernel:
    sizes agree (`yyPact`, `yyDef`, `yyChk`; `yyR1`, `yyR2`; `yyLast = len(yyAct)`); every `yyAct` entry is a state; every
    `yyR2` entry is ≥ 0 and every `yyR1` entry a nonterminal with a `yyPgo` entry inside `yyAct`; `yyTok1/2/3` yield token
    numbers 0 … maxTok and the `yyTok3` loop stays inside the table; every state's default action is -2 with a
    well-formed `(-1, state) … (-2, _)` block in `yyExca`, or a production number; no state shifts `error` or the
    end-of-input token; the lower-neighbour relation is closed under shifts and gotos; no state reduces more symbols
    than its depth; every reduction lowers the measure -/
theorem lalr_tables_wf : check genP genC = true := gen_check

/-- the ∀-statements the checker stands for (Csvq/Lemmas/Lalr.lean, `Facts`) -/
theorem gen_facts : Facts genP genC := facts_of_check genP genC gen_check

/-! ## the loop -/

/-- every table read and every stack read the driver performs is in range, for every input and any number of rounds -/
theorem lalr_no_index_panic (toks : List Int) (fuel : Nat) (w : Where) :
    run genT fuel (init toks) ≠ .indexPanic w := by
  intro h
  rcases run_safe gen_facts fuel (init toks) [0] (init_inv gen_facts toks) with h1 | ⟨i, h1, _⟩ | h1 <;>
    · rw [show genT = genP.toTables from rfl, h1] at h; exact absurd h (by simp)

/-- a syntax error names a token of the input, or its end (index `|toks|`) -/
theorem lalr_error_position_in_input (toks : List Int) (fuel i : Nat)
    (h : run genT fuel (init toks) = .syntaxError i) : i ≤ toks.length := by
  rcases run_safe gen_facts fuel (init toks) [0] (init_inv gen_facts toks) with h1 | ⟨j, h1, hj⟩ | h1
  · rw [show genT = genP.toTables from rfl, h1] at h; exact absurd h (by simp)
  · rw [show genT = genP.toTables from rfl, h1] at h
    injection h with h; omega
  · rw [show genT = genP.toTables from rfl, h1] at h; exact absurd h (by simp)

/-- one round of the loop from a state the invariant describes: it accepts, aborts, or goes on in a state the
    invariant describes again with a strictly smaller measure (so no input makes it spin) -/
theorem lalr_step_progress {N : Nat} {s : St} {L : List Nat} (I : Inv genP genC N s L) {s' : St} {e : Event}
    (h : step genT s = .next s' e) : ∃ L', Inv genP genC N s' L' ∧ loopMeasure genC s' L' < loopMeasure genC s L := by
  rcases step_spec gen_facts I with h1 | ⟨i, h1, _⟩ | ⟨s2, e2, L', h1, hI, hm, _⟩
  · rw [show genT = genP.toTables from rfl, h1] at h; exact absurd h (by simp)
  · rw [show genT = genP.toTables from rfl, h1] at h; exact absurd h (by simp)
  · rw [show genT = genP.toTables from rfl, h1] at h
    injection h with h1 h2
    subst h1
    exact ⟨L', hI, hm⟩

/-- rounds that suffice for `n` tokens -/
def lalrFuel (n : Nat) : Nat := loopMeasure genC (init (List.replicate n 0)) [0] + 1

theorem lalrFuel_eq (toks : List Int) : lalrFuel toks.length = loopMeasure genC (init toks) [0] + 1 := by
  unfold lalrFuel loopMeasure tokCount init
  simp

/-- the loop ends by itself: with `lalrFuel |toks|` rounds it never runs out of fuel … -/
theorem lalr_terminates (toks : List Int) : run genT (lalrFuel toks.length) (init toks) ≠ .outOfFuel := by
  rw [lalrFuel_eq]
  exact run_terminates gen_facts _ (init toks) [0] (init_inv gen_facts toks) (Nat.lt_succ_self _)

/-- … and more fuel changes nothing: the result is a function of the input alone -/
theorem lalr_fuel_irrelevant (toks : List Int) (extra : Nat) :
    run genT (lalrFuel toks.length + extra) (init toks) = run genT (lalrFuel toks.length) (init toks) :=
  run_fuel_irrelevant genT _ extra _ (lalr_terminates toks)

/-- the driver as a total function of the token list -/
def parse (toks : List Int) : Result := run genT (lalrFuel toks.length) (init toks)

/-- it accepts or reports a syntax error inside the input — nothing else -/
theorem lalr_parse_total (toks : List Int) :
    parse toks = .accept ∨ ∃ i, parse toks = .syntaxError i ∧ i ≤ toks.length := by
  unfold parse
  rcases run_safe gen_facts (lalrFuel toks.length) (init toks) [0] (init_inv gen_facts toks) with h | h | h
  · exact Or.inl h
  · exact Or.inr h
  · exact absurd h (lalr_terminates toks)

/-- the fuel the compiled driver of the correspondence stream uses is at least `lalrFuel`: it computes `parse` -/
theorem lalr_driver_fuel_enough (toks : List Int) :
    run genT (driverFuel toks.length) (init toks) = parse toks := by
  have hb := gen_facts.bounded 0 gen_facts.nPos
  have hle : lalrFuel toks.length ≤ driverFuel toks.length := by
    rw [lalrFuel_eq]
    unfold loopMeasure tokCount phi wsum driverFuel init
    simp only [List.map_cons, List.map_nil, List.sum_cons, List.sum_nil]
    have hneg : ¬ (0 ≤ (-1 : Int)) := by omega
    rw [if_neg hneg]
    have hgb : genC.bound = Gen.Lalr.measureBound := rfl
    simp only [Nat.add_zero, hgb] at hb ⊢
    omega
  obtain ⟨extra, he⟩ : ∃ extra, driverFuel toks.length = lalrFuel toks.length + extra := ⟨_, (Nat.add_sub_cancel' hle).symm⟩
  rw [he]
  exact lalr_fuel_irrelevant toks extra

/-! ## non-vacuity: the model accepts and rejects (evaluated in the kernel on the tables read directly) -/

/-- `SELECT 1` (token codes 57362 57348) is accepted -/
example : run genT 40 (init [57362, 57348]) = .accept := by
  rw [show genT = genP.toTables from rfl, PTables.toTables_eq_direct]; decide +kernel

/-- `SELECT 1 FROM` is a syntax error at the end of input (index 3) -/
example : run genT 40 (init [57362, 57348, 57363]) = .syntaxError 3 := by
  rw [show genT = genP.toTables from rfl, PTables.toTables_eq_direct]; decide +kernel

/-- `SELECT SELECT` is a syntax error at token 1; an uncategorised token (code -2) is one wherever it stands -/
example : run genT 40 (init [57362, 57362]) = .syntaxError 1 ∧ run genT 40 (init [-2, 57362, 57348]) = .syntaxError 0 := by
  rw [show genT = genP.toTables from rfl, PTables.toTables_eq_direct]; decide +kernel

end Csvq.C18

