/-
  C18 — the parser is total; printed queries re-parse to the same query.   LEXICAL LAYER.
  Property theorems only (helper lemmas live in Csvq/Lemmas).  Every theorem quantifies over ALL rune
  strings (no length bound) and, for the scanner, over ALL classifications `cls` of runes into letters
  and digits (the unicode tables are a parameter) and both quoting / prepared-statement modes.

  The grammar layer (goyacc driver + semantic actions + the remaining `String()` methods) is NOT
  modelled here; it is validated by the correspondence stream `c18` only (laws `parse_total:*`,
  `print_parse_fixpoint:*`, `print_parse_eval_agree`).
-/
import Csvq.Lemmas.Escape
import Csvq.Lemmas.Scanner
import Csvq.Lemmas.UnaryPrint
import Csvq.Lemmas.OpExpr
import Csvq.Lemmas.AstPrint
import Csvq.Ref.AstPrint
import Csvq.Lemmas.Clause
namespace Csvq.C18
open Csvq.Esc Csvq.Scan Csvq.UPrint

/-! ## escape / unescape round trips (lib/option/utils.go) -/

/-- `UnescapeString(EscapeString(s), '\'') = s` for every string: the single quote is the quote rune
    `QuoteString` writes and the one the scanner passes for a `'…'` literal. -/
theorem string_roundtrip (s : List Char) : unescapeString (escapeString s) '\'' = s :=
  unesc_escapeWith '\'' '\'' (Or.inl rfl) s (fun c _ hc => by subst hc; decide)

/-- the same for any quote rune that does not occur unescaped in `s` -/
theorem string_roundtrip_any_quote (s : List Char) (quote : Char)
    (h : ∀ c ∈ s, c = quote → isEscaped '\'' c = true) : unescapeString (escapeString s) quote = s :=
  unesc_escapeWith '\'' quote (Or.inl rfl) s h

/-
  Full statement for the double-quote reading (FALSE for the current code, which is harmless because
  `QuoteString` never writes `"…"`):
      theorem string_roundtrip_dq (s) : unescapeString (escapeString s) '"' = s
  `EscapeString` leaves `"` alone while `UnescapeString(_, '"')` collapses `""` to `"` and drops a
  trailing `"`.
-/
theorem string_roundtrip_dq_counterexample :
    unescapeString (escapeString ['"']) '"' = [] ∧
    unescapeString (escapeString ['a', '"', '"', 'b']) '"' = ['a', '"', 'b'] := by decide

theorem string_roundtrip_dq_partial (s : List Char) (h : '"' ∉ s) :
    unescapeString (escapeString s) '"' = s :=
  unesc_escapeWith '\'' '"' (Or.inl rfl) s (fun c hc he => by subst he; exact absurd hc h)

/-- `UnescapeIdentifier(EscapeIdentifier(s), '`') = s` for every string -/
theorem ident_roundtrip (s : List Char) : unescapeIdentifier (escapeIdentifier s) '`' = s :=
  unesc_escapeWith '`' '`' (Or.inr rfl) s (fun c _ hc => by subst hc; decide)

theorem ident_roundtrip_dq_counterexample :
    unescapeIdentifier (escapeIdentifier ['"']) '"' = [] := by decide

theorem ident_roundtrip_dq_partial (s : List Char) (h : '"' ∉ s) :
    unescapeIdentifier (escapeIdentifier s) '"' = s :=
  unesc_escapeWith '`' '"' (Or.inr rfl) s (fun c hc he => by subst he; exact absurd hc h)

/-! ## the scanner reads back what the printer quotes (lib/parser/scanner.go) -/

/-- Scanning `QuoteString(s)` followed by anything that does not start with another `'` yields exactly
    one STRING token whose literal is `s`, no error, and leaves the rest of the text — in every mode,
    at any position.  (`'` is not a letter/digit in the real unicode tables: hypothesis `hcls`.) -/
theorem scan_quoted_string (cls : Classes) (m : Mode) (h0 : Holders) (s rest : List Char) (l k : Nat)
    (hcls : isIdentRune cls '\'' = false) (hrest : rest.head? ≠ some '\'') :
    scanStep cls m ⟨quoteString s ++ rest, l, k⟩ h0 =
      .tok { kind := .string, lit := s, line := l, col := k + 1 } none
        ⟨rest, l, k + (escapeString s).length + 2⟩ h0 := by
  have e : quoteString s ++ rest = '\'' :: (escapeWith '\'' s ++ '\'' :: rest) := by
    simp [quoteString, escapeString]
  rw [e, scanStep_head cls m '\'' _ l k h0 (by decide) (by decide) (by decide)]
  have hd : dispatch cls m '\'' ⟨escapeWith '\'' s ++ '\'' :: rest, l, k + 1⟩ h0 =
      stepString '\'' ⟨escapeWith '\'' s ++ '\'' :: rest, l, k + 1⟩ h0 l (k + 1) := by
    simp [dispatch, hcls, isDecimal, isOperatorRune]
  rw [hd]
  unfold stepString
  rw [scanString_escaped '\'' (Or.inl rfl) s rest l (k + 1) hrest]
  have := string_roundtrip s
  simp only [escapeString] at this
  simp [this, escapeString]
  omega

/-- the same for `QuoteIdentifier(s)`: one quoted IDENTIFIER token with literal `s` -/
theorem scan_quoted_ident (cls : Classes) (m : Mode) (h0 : Holders) (s rest : List Char) (l k : Nat)
    (hcls : isIdentRune cls '`' = false) (hrest : rest.head? ≠ some '`') :
    scanStep cls m ⟨quoteIdentifier s ++ rest, l, k⟩ h0 =
      .tok { kind := .identifier, lit := s, quoted := true, line := l, col := k + 1 } none
        ⟨rest, l, k + (escapeIdentifier s).length + 2⟩ h0 := by
  have e : quoteIdentifier s ++ rest = '`' :: (escapeWith '`' s ++ '`' :: rest) := by
    simp [quoteIdentifier, escapeIdentifier]
  rw [e, scanStep_head cls m '`' _ l k h0 (by decide) (by decide) (by decide)]
  have hd : dispatch cls m '`' ⟨escapeWith '`' s ++ '`' :: rest, l, k + 1⟩ h0 =
      stepQuotedIdent '`' ⟨escapeWith '`' s ++ '`' :: rest, l, k + 1⟩ h0 l (k + 1) := by
    simp [dispatch, hcls, isDecimal, isOperatorRune]
  rw [hd]
  unfold stepQuotedIdent
  rw [scanString_escaped '`' (Or.inr rfl) s rest l (k + 1) hrest]
  have := ident_roundtrip s
  simp only [escapeIdentifier] at this
  simp [this, escapeIdentifier]
  omega

/-! ## totality and positions -/

/-- the token loop never stops for lack of fuel: `scan` is the complete token list of the text
    (each `Scan()` consumes at least one rune unless it returns EOF — the progress lemma) -/
theorem scan_total (cls : Classes) (m : Mode) (src : List Char) : (scan cls m src).exhausted = false := by
  unfold scan
  exact (scanAll_spec cls m (St.init src) _ _ _ (St.le_refl _)).1 (by simp [St.init])

/-- every token (the last one carries the scanner error, if any) has a position inside the input:
    its line is between 1 and 1 + the number of line-break runes, its column at most the input length -/
theorem scan_pos_in_input (cls : Classes) (m : Mode) (src : List Char) :
    ∀ t ∈ (scan cls m src).toks, 1 ≤ t.line ∧ t.line ≤ 1 + nl src ∧ t.col ≤ src.length := by
  intro t ht
  unfold scan at ht
  obtain ⟨s, hs, h1, h2⟩ := (scanAll_spec cls m (St.init src) _ _ _ (St.le_refl _)).2.1 t ht
  unfold St.le at hs
  simp [St.init] at hs
  omega

/-- a scanner error is always reported together with a token (whose position `scan_pos_in_input` bounds) -/
theorem scan_err_has_token (cls : Classes) (m : Mode) (src : List Char) :
    (scan cls m src).err.isSome = true → (scan cls m src).toks ≠ [] := by
  unfold scan
  exact (scanAll_spec cls m (St.init src) _ _ _ (St.le_refl _)).2.2

/-! ## token fusion in the unary-operator printer (lib/parser/ast.go, after c4eeafc and 98baed3) -/

/-- FULL statement: the printed text of any tree of unary `-`, `+`, `!` and parentheses over operands whose
    own text has no comment opener contains neither `--` nor `/*`. -/
theorem unary_print_no_comment (e : UExpr) (h : e.atomsClean = true) : hasCommentOpener e.print = false := by
  induction e with
  | atom t => simpa [UExpr.atomsClean, UExpr.print] using h
  | neg e ih =>
    have ih := ih h
    simp only [UExpr.print]
    split
    · simp [hco_cons_minus, startsWith, hco_cons_other ' ' _ (by decide) (by decide), ih]
    · rename_i hn
      simp [hco_cons_minus, ih, hn]
  | pos e ih => simpa [UExpr.print, hco_cons_other '+' _ (by decide) (by decide)] using ih h
  | bang e ih =>
    have ih := ih h
    simp only [UExpr.print]
    split
    · simp [hco_cons_other '!' _ (by decide) (by decide), hco_cons_other ' ' _ (by decide) (by decide), ih]
    · simp [hco_cons_other '!' _ (by decide) (by decide), ih]
  | paren e ih =>
    simpa [UExpr.print, hco_cons_other '(' _ (by decide) (by decide), hco_append_close] using ih h

/-- FULL statement: `!`s never fuse — the printed text contains no `!` immediately followed by an operator rune
    (`= > < ! | :`), provided no operand text begins with an operator rune other than `:` (named placeholder) or
    contains such a pair itself. -/
theorem unary_print_no_bang_fusion (e : UExpr) (h : e.atomsNoOp = true) : hasBangFusion e.print = false := by
  induction e with
  | atom t =>
    simp [UExpr.atomsNoOp] at h
    simpa [UExpr.print] using h.2
  | neg e ih =>
    have ih := ih h
    simp only [UExpr.print]
    split
    · simp [hbf_cons_other '-' _ (by decide), hbf_cons_other ' ' _ (by decide), ih]
    · simp [hbf_cons_other '-' _ (by decide), ih]
  | pos e ih => simpa [UExpr.print, hbf_cons_other '+' _ (by decide)] using ih h
  | bang e ih =>
    have ih' := ih h
    simp only [UExpr.print]
    split
    · simp [hbf_cons_bang, startsOp, opRune, hbf_cons_other ' ' _ (by decide), ih']
    · rename_i hn
      have : startsOp e.print = false := by
        cases hs : startsOp e.print with
        | false => rfl
        | true => exact absurd (startsOp_print e h hs) hn
      simp [hbf_cons_bang, this, ih']
  | paren e ih =>
    simpa [UExpr.print, hbf_cons_other '(' _ (by decide), hbf_append_close] using ih h

/-- a named placeholder `:a` (prepared-statement mode) under `!` prints `! :a`: the tokens `!` and the placeholder -/
theorem unary_print_bang_placeholder :
    (UExpr.bang (.atom [':', 'a'])).atomsNoOp = true ∧
    (UExpr.bang (.atom [':', 'a'])).print = ['!', ' ', ':', 'a'] ∧
    ((scan asciiClasses ⟨true, false⟩ (UExpr.bang (.atom [':', 'a'])).print).toks.map (·.kind)) =
      [.rune '!', .placeholder, .eof] ∧
    -- before the repair: one unrecognised operator `!:` followed by an identifier
    ((scan asciiClasses ⟨true, false⟩ (UExpr.bang (.atom [':', 'a'])).printOld).toks.map (·.kind)) =
      [.uncategorized, .identifier, .eof] := by decide

/-- what the scanner makes of the printed `- -1` and `! !a`: the intended tokens -/
theorem unary_print_scans_to_tokens :
    ((scan asciiClasses ⟨false, false⟩ (UExpr.neg (.neg (.atom ['1']))).print).toks.map (·.kind)) =
      [.rune '-', .rune '-', .integer, .eof] ∧
    ((scan asciiClasses ⟨false, false⟩ (UExpr.bang (.bang (.atom ['a']))).print).toks.map (·.kind)) =
      [.rune '!', .rune '!', .identifier, .eof] := by decide

/-! ### facts about the printer BEFORE the repairs (`printOld`; pre-findings F19 / F34, now fixed) -/

theorem unary_printOld_counterexample :
    (UExpr.neg (.neg (.atom ['1']))).atomsClean = true ∧
    (UExpr.neg (.neg (.atom ['1']))).printOld = ['-', '-', '1'] ∧
    hasCommentOpener (UExpr.neg (.neg (.atom ['1']))).printOld = true ∧
    ((scan asciiClasses ⟨false, false⟩ (UExpr.neg (.neg (.atom ['1']))).printOld).toks.map (·.kind)) = [.eof] := by
  decide

theorem unary_printOld_not_fusion_counterexample :
    ((scan asciiClasses ⟨false, false⟩ (UExpr.bang (.bang (.atom ['a']))).printOld).toks.map (·.kind)) =
      [.uncategorized, .identifier, .eof] := by decide

/-- the old printer produced a comment opener exactly when a unary minus met an operand text beginning with `-` -/
theorem unary_printOld_comment_iff (e : UExpr) (h : e.atomsClean = true) :
    hasCommentOpener e.printOld = !e.noMinusMinus := by
  induction e with
  | atom t => simpa [UExpr.atomsClean, UExpr.printOld, UExpr.noMinusMinus] using h
  | neg e ih =>
    have := ih h
    simp [UExpr.printOld, UExpr.noMinusMinus, hco_cons_minus, this]
  | pos e ih =>
    simpa [UExpr.printOld, UExpr.noMinusMinus, hco_cons_other '+' _ (by decide) (by decide)] using ih h
  | bang e ih =>
    simpa [UExpr.printOld, UExpr.noMinusMinus, hco_cons_other '!' _ (by decide) (by decide)] using ih h
  | paren e ih =>
    simpa [UExpr.printOld, UExpr.noMinusMinus, hco_cons_other '(' _ (by decide) (by decide), hco_append_close] using ih h

/-! ## GRAMMAR LAYER, operator-expression fragment (lib/parser/parser.y, table regenerated into Csvq/Gen/Precedence.lean)

  Binary operators (OR, AND, = and the COMPARISON_OP spellings, LIKE, ||, + - * / %), prefix operators (NOT, !, unary
  - +), the postfix test IS [NOT] NULL/TRUE/FALSE/UNKNOWN, written parentheses, atoms — and, since wave 17, the forms whose
  shift/reduce decisions are NOT those of a binary operator: `value NOT LIKE value` (decided with the level of NOT, the
  right operand read with the level of LIKE), `value [NOT] BETWEEN value AND value` (the rule has the level of its last
  terminal AND; the lower bound ends at the first AND its own loop meets), `value [NOT] IN (values)`, function calls
  `f(values)` / `f()`, `CURSOR c IS [NOT] OPEN | IN RANGE`, `CURSOR c COUNT`.  `OpExpr.parse` is precedence
  climbing whose every decision is yacc's resolution rule `act` on the levels of the table; the theorems hold for
  EVERY table, in particular for `genTable`, and for trees of any depth.

  Full statement for the whole `value` grammar (NOT proved here; CASE, sub-queries (scalar, IN, EXISTS, ANY / ALL),
  row values, aggregate / analytic / list functions are validated by correspondence only — laws print_parse_fixpoint:*,
  print_parse_tree_differs, stream op c18.opx covers exactly the proved fragment):
      theorem value_print_parse (e : Value) (h : ParserBuilt e) : parseValue (printValue e) = some e
  `op_print_parse` below is its partial form: the same statement for the operator fragment.
-/

open Csvq.OpExpr in
/-- `parse (print e) = some e` for every tree the parser can build: operands that bind weaker than (or equal to, on
    the side that does not associate) the operator applied to them are `paren` nodes — `WellFormed`. -/
theorem op_print_parse {α : Type} [DecidableEq α] (tbl : Table α) (e : Expr α) (h : WellFormed tbl e) :
    parse tbl (print tbl e) = some e := by
  have hc := cost_le tbl e
  have := parseE_print tbl e h.1 0 false [] 1 (e, []) h.2 (by simp [Stop]) (by simp [NoLpar]) (loop_return tbl 0 e [] (by simp [Stop]) 0)
    (fuelFor (print tbl e)) (by simp [fuelFor]; omega)
  unfold parse
  simp only [List.append_nil] at this
  rw [this]

open Csvq.OpExpr in
/-- and `WellFormed` is exact: every tree `parse` returns is well formed -/
theorem op_parse_wellformed {α : Type} [DecidableEq α] (tbl : Table α) (ts : List (Tok α)) (e : Expr α)
    (h : parse tbl ts = some e) : WellFormed tbl e := by
  unfold parse at h
  cases hp : parseE tbl (fuelFor ts) 0 false ts with
  | none => simp [hp] at h
  | some q =>
    obtain ⟨e', rest⟩ := q
    simp only [hp] at h
    cases rest with
    | nil =>
      simp only [Option.some.injEq] at h
      subst h
      obtain ⟨hw, hf, _⟩ := (parse_inv tbl _).1 _ _ _ _ _ hp
      exact ⟨hw, hf⟩
    | cons t ts' => simp at h

open Csvq.OpExpr in
/-- so printing and parsing are mutually inverse on what the parser builds: a parsed text prints to a text that
    parses to the same tree -/
theorem op_parse_print_parse {α : Type} [DecidableEq α] (tbl : Table α) (ts : List (Tok α)) (e : Expr α)
    (h : parse tbl ts = some e) : parse tbl (print tbl e) = some e :=
  op_print_parse tbl e (op_parse_wellformed tbl ts e h)

open Csvq.OpExpr Csvq.Gen.Precedence in
/-- the regenerated table: no token has two levels, and the levels of the fragment's operators are the ones the
    model was reviewed against — totally ordered OR < AND < NOT < comparison (non-associative) < || < + - < * / % <
    unary.  A change of the %left / %right / %nonassoc lines of parser.y changes Gen/Precedence and breaks this. -/
theorem gen_precedence_order :
    (levels.flatMap (·.2)).Nodup ∧
    genTable.bin .OR = some (5, .left) ∧ genTable.bin .AND = some (6, .left) ∧ genTable.pre .NOT = some 7 ∧
    genTable.bin .c_eq = some (8, .nonassoc) ∧ genTable.bin .COMPARISON_OP = some (8, .nonassoc) ∧
    genTable.bin .LIKE = some (8, .nonassoc) ∧ genTable.post .IS = some (8, .nonassoc) ∧
    genTable.bin .STRING_OP = some (9, .left) ∧
    genTable.bin .c_plus = some (10, .left) ∧ genTable.bin .c_minus = some (10, .left) ∧
    genTable.bin .c_star = some (11, .left) ∧ genTable.bin .c_slash = some (11, .left) ∧ genTable.bin .c_percent = some (11, .left) ∧
    genTable.pre .c_minus = some 12 ∧ genTable.pre .c_plus = some 12 ∧ genTable.pre .c_bang = some 12 ∧
    genTable.neg = .NOT ∧ genTable.bin .NOT = none ∧ genTable.bin .IS = none ∧ genTable.bin .c_bang = none := by
  decide

open Csvq.OpExpr Csvq.Gen.Precedence in
/-- the NOT forms, BETWEEN and IN, regenerated from parser.y: the productions exist (with and without NOT), none has a
    %prec (so `value [NOT] BETWEEN value AND value` has the level of its last terminal, AND), and their tokens have the
    levels the model decides with: NOT is shifted or not by ITS level 7 (`a = b NOT LIKE c` is `(a = b) NOT LIKE c`),
    BETWEEN / IN by the non-associative level 8.  The model's special tokens are these terminals. -/
theorem gen_not_forms_levels :
    negatedOps = [.LIKE] ∧ betweenOps = [(.BETWEEN, .AND, false), (.BETWEEN, .AND, true)] ∧ inOps = [(.IN, false), (.IN, true)] ∧
    genTable.lvl .NOT = some (7, .right) ∧ genTable.lvl .BETWEEN = some (8, .nonassoc) ∧ genTable.lvl .IN = some (8, .nonassoc) ∧
    genTable.btw = .BETWEEN ∧ genTable.and_ = .AND ∧ genTable.inn = .IN ∧ genTable.is_ = .IS ∧
    genTable.bin .BETWEEN = none ∧ genTable.bin .IN = none ∧ genTable.post .NOT = none ∧ genTable.post .BETWEEN = none ∧
    genTable.post .IN = none ∧ genTable.negable .LIKE = true ∧ genTable.negable .c_eq = false := by
  refine ⟨by decide, by decide, by decide, by decide, by decide, by decide, rfl, rfl, rfl, rfl, by decide, by decide, by decide,
    by decide, by decide, by decide, by decide⟩

open Csvq.OpExpr Csvq.Gen.Precedence in
/-- the round trip for the grammar csvq has today -/
theorem gen_print_parse (e : Expr Term) (h : WellFormed genTable e) : parse genTable (print genTable e) = some e :=
  op_print_parse genTable e h

open Csvq.OpExpr Csvq.Gen.Precedence in
/-- the hypothesis is needed: `(a + b) * c` built WITHOUT a Parentheses node prints `a + b * c`, another tree -/
theorem gen_print_parse_needs_wellformed :
    parse genTable (print genTable (.bin (.bin (.atom 0) .c_plus 0 (.atom 1)) .c_star 0 (.atom 2))) =
      some (.bin (.atom 0) .c_plus 0 (.bin (.atom 1) .c_star 0 (.atom 2))) := by decide

/-! ## GRAMMAR LAYER, the printers themselves: facts REGENERATED from lib/parser/ast.go and parser.y on every run
   (extract/astprint -> Csvq/Gen/AstPrint.lean): for each of the 68 node types with a String() method its fields, the
   fields the method reads, and the ordered parts of the method body with their conditions; for each production of
   parser.y that builds such a node, the fields it sets. -/

open Csvq.AstPrint Csvq.Gen.AstPrint in
/-- every field of every printable node is read by its printer, except the reviewed exemptions
    (`Csvq.AstPrint.exemptFields`: the embedded position record BaseExpr).  A printer that stops printing a field, or
    a node that gains a field its printer ignores, breaks this. -/
theorem gen_printers_read_every_field : nodes.all readsEveryField = true := by decide +kernel

/-- the print sequence of every printable node (conditions, order, values, fields read) is the reviewed one
    (Csvq/Ref/AstPrint.lean): SelectQuery, SelectEntity, SelectClause, OrderItem, LimitClause, OffsetClause,
    AnalyticFunction (DISTINCT / IGNORE NULLS), AnalyticClause, WindowingClause, WindowFramePosition, Table, Join,
    JoinCondition, Field, CaseExpr, Function, AggregateFunction, ListFunction, PrimitiveType, FieldReference,
    Parentheses, … — all 68. -/
theorem gen_print_sequences_eq_ref : Csvq.Gen.AstPrint.nodes = Csvq.Ref.AstPrint.nodes := by
  rfl

open Csvq.AstPrint Csvq.Gen.AstPrint in
/-- a field that some production of parser.y sets to a non-zero value is printed by String() under a condition that
    holds for that value: unconditionally, under a test of that field alone, in both branches of a test, or under one
    of the reviewed cross-field conditions (`Csvq.AstPrint.crossGuards`, each justified there). -/
theorem gen_every_field_settable_is_printed : settable.all settableOK = true := by decide +kernel

open Csvq.AstPrint Csvq.Gen.AstPrint in
/-- non-vacuity of the above: the grammar sets 156 (node, field) pairs, among them the ones the seeds removed -/
theorem gen_settable_nonvacuous :
    settable.length = 156 ∧ ("OrderItem", "NullsPosition") ∈ settable ∧ ("OrderItem", "Direction") ∈ settable ∧
    ("Table", "Alias") ∈ settable ∧ ("LimitClause", "Restriction") ∈ settable ∧ ("AnalyticFunction", "IgnoreType") ∈ settable ∧
    ("SelectQuery", "Context") ∈ settable := by decide +kernel

open Csvq.AstPrint Csvq.Gen.AstPrint Csvq.OpExpr in
/-- the operator printers of ast.go emit exactly what `OpExpr.print` / `UPrint.print` model:
    binary nodes LHS, operator, RHS joined by spaces; IS / LIKE with the negation where the grammar has it; Parentheses
    the operand in parentheses; Concat the items joined by ` || `; the unary printers operator then operand, with the
    separating space exactly in the cases of `UPrint.UExpr.print` — and on the model side the corresponding equations. -/
theorem gen_operator_printers_match_model :
    (∀ k ∈ ["Arithmetic", "Comparison", "Logic"], (nodes.find? (·.name = k)).map (·.parts) = some [
      ⟨"", "s+", "e.LHS.String()", ["LHS"], []⟩, ⟨"", "s+", "e.Operator.String()", ["Operator"], []⟩,
      ⟨"", "s+", "e.RHS.String()", ["RHS"], []⟩, ⟨"", "return", "joinWithSpace(s)", [], []⟩]) ∧
    node_Is.parts = [⟨"", "s+", "e.LHS.String()", ["LHS"], []⟩, ⟨"", "s+", "keyword(IS)", [], []⟩,
      ⟨"e.IsNegated()", "s+", "e.Negation.String()", ["Negation"], ["Negation"]⟩,
      ⟨"", "s+", "e.RHS.String()", ["RHS"], []⟩, ⟨"", "return", "joinWithSpace(s)", [], []⟩] ∧
    node_Like.parts = [⟨"", "s+", "e.LHS.String()", ["LHS"], []⟩,
      ⟨"e.IsNegated()", "s+", "e.Negation.String()", ["Negation"], ["Negation"]⟩, ⟨"", "s+", "keyword(LIKE)", [], []⟩,
      ⟨"", "s+", "e.Pattern.String()", ["Pattern"], []⟩, ⟨"", "return", "joinWithSpace(s)", [], []⟩] ∧
    node_Parentheses.parts = [⟨"", "return", "putParentheses(e.Expr.String())", ["Expr"], []⟩] ∧
    node_Concat.parts = [⟨"", "s", "make([]string, len(e.Items))", ["Items"], []⟩,
      ⟨"range e.Items", "s[i]", "v.String()", [], ["Items"]⟩, ⟨"", "return", "strings.Join(s, \" || \")", [], []⟩] ∧
    node_UnaryArithmetic.parts = [⟨"", "operand", "e.Operand.String()", ["Operand"], []⟩,
      ⟨"e.Operator.Token == '-' && strings.HasPrefix(operand, \"-\")", "return", "e.Operator.String() + \" \" + operand", ["Operator"], ["Operator"]⟩,
      ⟨"", "return", "e.Operator.String() + operand", ["Operator"], []⟩] ∧
    node_UnaryLogic.parts.drop 3 = [⟨"", "operand", "e.Operand.String()", ["Operand"], []⟩,
      ⟨"strings.HasPrefix(operand, \"!\") || strings.HasPrefix(operand, \":\")", "return", "e.Operator.String() + \" \" + operand", ["Operator"], []⟩,
      ⟨"", "return", "e.Operator.String() + operand", ["Operator"], []⟩] ∧
    -- the model's printers, equation by equation
    (∀ (tbl : Table Csvq.Gen.Precedence.Term) l t v r, print tbl (.bin l t v r) = print tbl l ++ .sym t v :: print tbl r) ∧
    (∀ (tbl : Table Csvq.Gen.Precedence.Term) e, print tbl (.paren e) = .lpar :: (print tbl e ++ [.rpar])) ∧
    (∀ (tbl : Table Csvq.Gen.Precedence.Term) e t neg w, print tbl (.post e t neg w) =
      print tbl e ++ .sym t 0 :: ((if neg then [.sym tbl.neg 0] else []) ++ [.lit w])) ∧
    (∀ e : UExpr, (UExpr.neg e).print = if startsWith '-' e.print then '-' :: ' ' :: e.print else '-' :: e.print) ∧
    (∀ e : UExpr, (UExpr.bang e).print =
      if startsWith '!' e.print || startsWith ':' e.print then '!' :: ' ' :: e.print else '!' :: e.print) := by
  refine ⟨by decide, by decide, by decide, by decide, by decide, by decide, by decide, ?_, ?_, ?_, ?_, ?_⟩
  · intros; rfl
  · intros; rfl
  · intros; rfl
  · intro e; rfl
  · intro e; rfl

open Csvq.OpExpr in
/-- print ∘ parse ∘ print = print, for every tree the parser can build (of any depth, with every form of the fragment) -/
theorem op_print_idempotent {α : Type} [DecidableEq α] (tbl : Table α) (e : Expr α) (h : WellFormed tbl e) :
    (parse tbl (print tbl e)).map (print tbl) = some (print tbl e) := by
  rw [op_print_parse tbl e h]; rfl

open Csvq.OpExpr in
/-- a non-empty argument list (of a function call or an IN list) in front of its closing parenthesis is read back,
    whatever its length and the depth of its elements -/
theorem args_print_parse {α : Type} [DecidableEq α] (tbl : Table α) (as : Args α) (hne : as ≠ .nil) (hw : WFArgs tbl as)
    (rest : List (Tok α)) : parseArgs tbl (costArgs as + 1) (printArgs tbl as ++ .rpar :: rest) = some (as, .rpar :: rest) :=
  parseArgs_print tbl as hne hw rest _ (Nat.le_refl _)

open Csvq.AstPrint Csvq.Gen.AstPrint Csvq.OpExpr in
/-- the printers of the expression forms added in wave 17 emit their parts in the order, under the conditions and with
    the keywords of the String() methods as regenerated from ast.go: Between (LHS [NOT] BETWEEN Low AND High), In
    (LHS [NOT] IN Values), Like (LHS [NOT] LIKE Pattern), RowValue / ValueList (`(` list `)`), Function (NAME `(` list `)`),
    CursorStatus (CURSOR c IS [NOT] [IN] type — the negation is printed for BOTH types, IN only for RANGE),
    CursorAttrebute; right, the model's equation for the same node. -/
theorem gen_expression_printers_match_model :
    emitted node_Between = [("", "e.LHS.String()"), ("e.IsNegated()", "e.Negation.String()"), ("", "keyword(BETWEEN)"),
      ("", "e.Low.String()"), ("", "keyword(AND)"), ("", "e.High.String()")] ∧
    emitted node_In = [("", "e.LHS.String()"), ("e.IsNegated()", "e.Negation.String()"), ("", "keyword(IN)"), ("", "e.Values.String()")] ∧
    emitted node_Like = [("", "e.LHS.String()"), ("e.IsNegated()", "e.Negation.String()"), ("", "keyword(LIKE)"), ("", "e.Pattern.String()")] ∧
    node_RowValue.parts = [⟨"", "return", "e.Value.String()", ["Value"], []⟩] ∧
    node_ValueList.parts = [⟨"", "return", "putParentheses(listQueryExpressions(e.Values))", ["Values"], []⟩] ∧
    node_Function.parts.drop 7 = [
      ⟨"!(strings.EqualFold(e.Name, keyword(SUBSTRING)) && !e.From.IsEmpty())", "args", "listQueryExpressions(e.Args)", ["Args"], ["From", "Name"]⟩,
      ⟨"", "return", "strings.ToUpper(e.Name) + \"(\" + args + \")\"", ["Name"], []⟩] ∧
    emitted node_CursorStatus = [("", "keyword(CURSOR)"), ("", "e.Cursor.String()"), ("", "keyword(IS)"),
      ("!e.Negation.IsEmpty()", "e.Negation.String()"), ("e.Type.Token == RANGE", "keyword(IN)"), ("", "e.Type.String()")] ∧
    emitted node_CursorAttrebute = [("", "keyword(CURSOR)"), ("", "e.Cursor.String()"), ("", "e.Attrebute.String()")] ∧
    -- the model's printers, equation by equation
    (∀ (tbl : Table Csvq.Gen.Precedence.Term) e neg lo hi, print tbl (.between e neg lo hi) =
      print tbl e ++ ((if neg then [.sym tbl.neg 0] else []) ++ .sym tbl.btw 0 :: (print tbl lo ++ .sym tbl.and_ 0 :: print tbl hi))) ∧
    (∀ (tbl : Table Csvq.Gen.Precedence.Term) e neg vs, print tbl (.inl e neg vs) =
      print tbl e ++ ((if neg then [.sym tbl.neg 0] else []) ++ .sym tbl.inn 0 :: .lpar :: (printArgs tbl vs ++ [.rpar]))) ∧
    (∀ (tbl : Table Csvq.Gen.Precedence.Term) l t v r, print tbl (.nbin l t v r) = print tbl l ++ .sym tbl.neg 0 :: .sym t v :: print tbl r) ∧
    (∀ (tbl : Table Csvq.Gen.Precedence.Term) f as, print tbl (.call f as) = .atom f :: .lpar :: (printArgs tbl as ++ [.rpar])) ∧
    (∀ (tbl : Table Csvq.Gen.Precedence.Term) e e2 r, printArgs tbl (.cons e (.cons e2 r)) = print tbl e ++ .kw .comma :: printArgs tbl (.cons e2 r)) ∧
    (∀ (tbl : Table Csvq.Gen.Precedence.Term) c neg range, print tbl (.cstat c neg range) =
      .lit 9 :: .atom c :: .sym tbl.is_ 0 :: ((if neg then [.sym tbl.neg 0] else []) ++ (if range then [.sym tbl.inn 0, .lit 11] else [.lit 10]))) ∧
    (∀ (tbl : Table Csvq.Gen.Precedence.Term) c, print tbl (.cattr c) = [.lit 9, .atom c, .lit 12]) := by
  refine ⟨by decide, by decide, by decide, by decide, by decide, by decide, by decide, by decide, ?_, ?_, ?_, ?_, ?_, ?_, ?_⟩ <;>
    intros <;> simp [print, printArgs, negToks]

open Csvq.OpExpr Csvq.Gen.Precedence in
/-- the hypothesis of the round trip is needed for BETWEEN too: a lower bound that is a logical AND built WITHOUT a
    Parentheses node prints `a BETWEEN b AND c AND d`, which is another tree — `(a BETWEEN b AND c) AND d` (the parser
    itself never builds such a Between: `a BETWEEN (b AND c) AND d` keeps its Parentheses node and round-trips) -/
theorem between_low_and_needs_parentheses :
    parse genTable (print genTable (.between (.atom 0) false (.bin (.atom 2) .AND 0 (.atom 4)) (.atom 6))) =
      some (.bin (.between (.atom 0) false (.atom 2) (.atom 4)) .AND 0 (.atom 6)) ∧
    parse genTable (print genTable (.between (.atom 0) false (.paren (.bin (.atom 2) .AND 0 (.atom 4))) (.atom 6))) =
      some (.between (.atom 0) false (.paren (.bin (.atom 2) .AND 0 (.atom 4))) (.atom 6)) := by decide

/-! ## GRAMMAR LAYER, the clause skeleton of SELECT (Csvq/Model/Clause.lean)

  SELECT [DISTINCT] items (expression [AS alias] | * | t.*) [FROM table [, table]] with table = name [[AS] alias] followed by
  joins ([INNER] | LEFT / RIGHT / FULL [OUTER] | CROSS | NATURAL …, ON expr | USING (cols)) [WHERE expr] [GROUP BY exprs]
  [HAVING expr] [ORDER BY expr [ASC|DESC] [NULLS FIRST|LAST], …] [LIMIT n [PERCENT|ROW|ROWS] [ONLY | WITH TIES]] [OFFSET n [ROW|ROWS]],
  expressions being the `OpExpr` trees.  For EVERY table of precedences, every well-formed query of any size.
  Not in the model yet (by correspondence only): INTO, WITH, FOR UPDATE, FETCH, LATERAL, sub-selects and parenthesised
  tables in FROM, table functions, set operators, function calls / CASE / BETWEEN / IN / sub-select expressions. -/

open Csvq.OpExpr Csvq.Clause in
/-- `parseSelect (printSelect s ++ rest) = some (s, rest)` for every well-formed query `s` and every rest that cannot
    continue it (nothing, a closing parenthesis, or a set operator) -/
theorem select_print_parse {α : Type} [DecidableEq α] (tbl : Table α) (s : Select α) (hw : WFSelect tbl s)
    (rest : List (Tok α)) (hr : After 8 rest) : parseSelect tbl (printSelect tbl s ++ rest) = some (s, rest) :=
  parseSelect_print tbl s hw rest hr

open Csvq.OpExpr Csvq.Clause in
/-- `parseSelect` is a total function (recursive descent, structural / fuelled by the number of tokens), and whenever it
    succeeds it has consumed tokens: the rest is strictly shorter than the input -/
theorem parse_total {α : Type} [DecidableEq α] (tbl : Table α) (ts : List (Tok α)) (s : Select α) (r : List (Tok α))
    (h : parseSelect tbl ts = some (s, r)) : r.length < ts.length := by
  have := parseSelect_len tbl h; omega

open Csvq.OpExpr Csvq.Clause in
/-- print ∘ parse ∘ print = print -/
theorem select_print_idempotent {α : Type} [DecidableEq α] (tbl : Table α) (s : Select α) (hw : WFSelect tbl s) :
    (parseSelect tbl (printSelect tbl s)).map (fun x => printSelect tbl x.1) = some (printSelect tbl s) := by
  have := parseSelect_print tbl s hw [] (by simp [After])
  simp only [List.append_nil] at this
  simp [this]

open Csvq.AstPrint Csvq.Gen.AstPrint Csvq.OpExpr Csvq.Clause in
/-- `printSelect` writes its parts in the order, under the conditions and with the keywords of the String() methods
    as regenerated from ast.go: left, the appended parts of each clause node (condition, value); right, the model's
    equation for the same clause. -/
theorem gen_clause_printers_match_model :
    emitted node_SelectClause = [("", "keyword(SELECT)"), ("e.IsDistinct()", "e.Distinct.String()"), ("", "listQueryExpressions(e.Fields)")] ∧
    emitted node_Field = [("", "e.Object.String()"), ("!e.As.IsEmpty()", "e.As.String()"), ("e.Alias != nil", "e.Alias.String()")] ∧
    emitted node_SelectEntity = [("", "e.SelectClause.String()"), ("e.IntoClause != nil", "e.IntoClause.String()"),
      ("e.FromClause != nil", "e.FromClause.String()"), ("e.WhereClause != nil", "e.WhereClause.String()"),
      ("e.GroupByClause != nil", "e.GroupByClause.String()"), ("e.HavingClause != nil", "e.HavingClause.String()")] ∧
    emitted node_SelectQuery = [("e.WithClause != nil", "e.WithClause.String()"), ("", "e.SelectEntity.String()"),
      ("e.OrderByClause != nil", "e.OrderByClause.String()"), ("e.LimitClause != nil", "e.LimitClause.String()"),
      ("e.IsForUpdate()", "keyword(FOR)"), ("e.IsForUpdate()", "e.Context.String()")] ∧
    emitted node_FromClause = [("", "keyword(FROM)"), ("", "listQueryExpressions(e.Tables)")] ∧
    emitted node_WhereClause = [("", "keyword(WHERE)"), ("", "e.Filter.String()")] ∧
    emitted node_GroupByClause = [("", "keyword(GROUP)"), ("", "keyword(BY)"), ("", "listQueryExpressions(e.Items)")] ∧
    emitted node_HavingClause = [("", "keyword(HAVING)"), ("", "e.Filter.String()")] ∧
    emitted node_OrderByClause = [("", "keyword(ORDER)"), ("", "keyword(BY)"), ("", "listQueryExpressions(e.Items)")] ∧
    emitted node_OrderItem = [("", "e.Value.String()"), ("!e.Direction.IsEmpty()", "e.Direction.String()"),
      ("!e.NullsPosition.IsEmpty()", "keyword(NULLS)"), ("!e.NullsPosition.IsEmpty()", "e.NullsPosition.String()")] ∧
    (emitted node_LimitClause).take 5 = [("e.Type.Token == LIMIT", "e.Type.String()"), ("e.Type.Token == LIMIT", "e.Value.String()"),
      ("e.Type.Token == LIMIT && !e.Unit.IsEmpty()", "e.Unit.String()"),
      ("e.Type.Token == LIMIT && !e.Restriction.IsEmpty()", "e.restrictionString()"),
      ("e.Type.Token == LIMIT && e.OffsetClause != nil", "e.OffsetClause.String()")] ∧
    (emitted node_LimitClause).getLast? = some ("!(e.Type.Token == LIMIT) && !(e.Type.Token == FETCH) && e.OffsetClause != nil", "e.OffsetClause.String()") ∧
    emitted node_OffsetClause = [("", "keyword(OFFSET)"), ("", "e.Value.String()"), ("!e.Unit.IsEmpty()", "e.Unit.String()")] ∧
    emitted node_Table = [("!e.Lateral.IsEmpty()", "e.Lateral.String()"), ("", "e.Object.String()"), ("!e.As.IsEmpty()", "e.As.String()"),
      ("e.Alias != nil", "e.Alias.String()")] ∧
    emitted node_Join = [("", "e.Table.String()"), ("!e.Natural.IsEmpty()", "e.Natural.String()"), ("!e.Direction.IsEmpty()", "e.Direction.String()"),
      ("!e.JoinType.IsEmpty()", "e.JoinType.String()"), ("", "keyword(JOIN)"), ("", "e.JoinTable.String()"),
      ("e.Condition != nil", "e.Condition.String()")] ∧
    emitted node_JoinCondition = [("e.On != nil", "keyword(ON)"), ("e.On != nil", "e.On.String()"), ("!(e.On != nil)", "keyword(USING)"),
      ("!(e.On != nil)", "putParentheses(listQueryExpressions(e.Using))")] ∧
    -- the model's printers, clause by clause
    (∀ (tbl : Table Csvq.Gen.Precedence.Term) (s : Select Csvq.Gen.Precedence.Term), printSelect tbl s =
      .kw .select :: ((if s.distinct then [.kw .distinct] else []) ++ (printSep (printItem tbl) s.items ++
      (printListClause [.kw .from] (printTableRef tbl) s.tables ++ (printOptClause [.kw .where] tbl s.where_ ++
      (printListClause [.kw .group, .kw .by] (print tbl) s.groupBy ++ (printOptClause [.kw .having] tbl s.having ++
      (printListClause [.kw .order, .kw .by] (printOrderItem tbl) s.orderBy ++ (printOptLimit s.limit ++ printOptOffset s.offset))))))))) ∧
    (∀ (tbl : Table Csvq.Gen.Precedence.Term) e x, printItem tbl (.expr e (some x)) = print tbl e ++ [.kw .as, .atom x]) ∧
    (∀ (tbl : Table Csvq.Gen.Precedence.Term) o, printOrderItem tbl o = print tbl o.e ++ (printDir o.dir ++ printNulls o.nulls)) ∧
    (printNulls (α := Csvq.Gen.Precedence.Term) .last = [.kw .nulls, .kw .last]) ∧
    (∀ l : Limit, printLimit (α := Csvq.Gen.Precedence.Term) l = .kw .limit :: .atom l.value :: (printLimUnit l.unit ++ printLimRestr l.restr)) ∧
    (printLimRestr (α := Csvq.Gen.Precedence.Term) .ties = [.kw .with, .kw .ties]) ∧
    (∀ o : Offset, printOffset (α := Csvq.Gen.Precedence.Term) o = .kw .offset :: .atom o.value :: printOffUnit o.unit) ∧
    (∀ a : TableAtom, printTableAtom (α := Csvq.Gen.Precedence.Term) a = .atom a.name :: ((if a.as then [.kw .as] else []) ++ printOptAtom a.alias)) ∧
    (∀ (tbl : Table Csvq.Gen.Precedence.Term) j, printJoinStep tbl j = (if j.natural then [.kw .natural] else []) ++ (printJDir j.dir ++
      (printJTyp j.typ ++ (.kw .join :: (printTableAtom j.table ++ printJoinCond tbl j.cond))))) ∧
    (∀ (tbl : Table Csvq.Gen.Precedence.Term) cs, printJoinCond tbl (.cols cs) = .kw .using :: .lpar :: (printSep (fun c => [Tok.atom c]) cs ++ [.rpar])) := by
  refine ⟨by decide, by decide, by decide, by decide, by decide, by decide, by decide, by decide, by decide, by decide,
    by decide, by decide, by decide, by decide, by decide, by decide, ?_, ?_, ?_, rfl, ?_, rfl, ?_, ?_, ?_, ?_⟩ <;> intros <;> rfl

/-! ## non-vacuity -/

example : escapeString ['a', '\'', '\n', '\\', '"'] = ['a', '\\', '\'', '\\', 'n', '\\', '\\', '"'] := by decide
example : unescapeString ['a', '\'', '\'', 'b', '\\', 't', '\\', 'x'] '\'' = ['a', '\'', 'b', '\t', '\\', 'x'] := by decide
example : quoteIdentifier ['a', '`', 'b'] = ['`', 'a', '\\', '`', 'b', '`'] := by decide
-- the hypotheses of scan_quoted_string are satisfiable (and satisfied by the ASCII tables)
example : isIdentRune asciiClasses '\'' = false ∧ isIdentRune asciiClasses '`' = false := by decide
example : (scan asciiClasses ⟨false, false⟩ ['\'', 'i', 't', '\\', '\'', 's', '\'', ' ', 'x']).toks.map (fun t => (t.kind, t.lit, t.line, t.col)) =
    [(.string, ['i', 't', '\'', 's'], 1, 1), (.identifier, ['x'], 1, 9), (.eof, ['�'], 1, 9)] := by decide
-- an unterminated literal is an error reported with a token inside the input
example : (scan asciiClasses ⟨false, false⟩ ['\'', 'a']).err = some .literalNotTerminated := by decide
-- positions over CR LF
example : (scan asciiClasses ⟨false, true⟩ ['a', '\r', '\n', ' ', '"', 'b', '"']).toks.map (fun t => (t.kind, t.quoted, t.line, t.col)) =
    [(.identifier, false, 1, 1), (.identifier, true, 2, 2), (.eof, false, 2, 4)] := by decide
-- trees that satisfy the hypotheses of unary_print_no_comment / unary_print_no_bang_fusion, and what they print
example : (UExpr.neg (.neg (.bang (.bang (.atom ['a']))))).atomsClean = true ∧
    (UExpr.neg (.neg (.bang (.bang (.atom ['a']))))).atomsNoOp = true ∧
    (UExpr.neg (.neg (.bang (.bang (.atom ['a']))))).print = ['-', ' ', '-', '!', ' ', '!', 'a'] := by decide
example : (UExpr.neg (.neg (.atom ['1']))).print = ['-', ' ', '-', '1'] ∧ (UExpr.neg (.paren (.neg (.atom ['2'])))).print = ['-', '(', '-', '2', ')'] ∧
    (UExpr.neg (.atom ['1'])).print = ['-', '1'] ∧ (UExpr.bang (.bang (.atom ['T']))).print = ['!', ' ', '!', 'T'] := by decide

-- the operator fragment: what the regenerated table makes of some texts (these trees are WellFormed by op_parse_wellformed)
open Csvq.OpExpr Csvq.Gen.Precedence in
example : parse genTable [.sym .NOT 0, .atom 0, .sym .c_eq 0, .atom 1, .sym .AND 0, .atom 2] =
    some (.bin (.pre .NOT 0 (.bin (.atom 0) .c_eq 0 (.atom 1))) .AND 0 (.atom 2)) := by decide
open Csvq.OpExpr Csvq.Gen.Precedence in
example : parse genTable [.sym .c_minus 0, .atom 0, .sym .c_star 0, .lpar, .atom 1, .sym .c_minus 0, .atom 2, .rpar, .sym .IS 0, .sym .NOT 0, .lit 0] =
    some (.post (.bin (.pre .c_minus 0 (.atom 0)) .c_star 0 (.paren (.bin (.atom 1) .c_minus 0 (.atom 2)))) .IS true 0) := by decide
-- non-associative comparison: a = b = c is a syntax error; a IS NULL = b is not
open Csvq.OpExpr Csvq.Gen.Precedence in
example : parse genTable [.atom 0, .sym .c_eq 0, .atom 1, .sym .c_eq 0, .atom 2] = none ∧
    parse genTable [.atom 0, .sym .IS 0, .lit 0, .sym .c_eq 0, .atom 1] = some (.bin (.post (.atom 0) .IS false 0) .c_eq 0 (.atom 1)) := by decide

-- the forms added in wave 17, parsed with the regenerated table (these trees are WellFormed by op_parse_wellformed, so
-- op_print_parse / op_print_idempotent apply to them): the AND of BETWEEN against the logical AND, the upper bound
-- taking tighter operators, NOT decided with its own level, IN lists, calls, cursor status
open Csvq.OpExpr Csvq.Gen.Precedence in
example : parse genTable [.atom 0, .sym .BETWEEN 0, .atom 2, .sym .AND 0, .atom 4, .sym .AND 0, .atom 6] =
    some (.bin (.between (.atom 0) false (.atom 2) (.atom 4)) .AND 0 (.atom 6)) ∧
    parse genTable [.atom 0, .sym .BETWEEN 0, .atom 2, .sym .AND 0, .atom 4, .sym .c_eq 0, .atom 6] =
    some (.between (.atom 0) false (.atom 2) (.bin (.atom 4) .c_eq 0 (.atom 6))) ∧
    parse genTable [.atom 0, .sym .BETWEEN 0, .atom 2, .sym .OR 0, .atom 4, .sym .AND 0, .atom 6] = none ∧
    parse genTable [.atom 0, .sym .c_eq 0, .atom 2, .sym .BETWEEN 0, .atom 4, .sym .AND 0, .atom 6] = none := by decide
open Csvq.OpExpr Csvq.Gen.Precedence in
example : parse genTable [.atom 0, .sym .c_eq 0, .atom 2, .sym .NOT 0, .sym .LIKE 0, .atom 4] =
    some (.nbin (.bin (.atom 0) .c_eq 0 (.atom 2)) .LIKE 0 (.atom 4)) ∧
    parse genTable [.atom 0, .sym .c_eq 0, .atom 2, .sym .LIKE 0, .atom 4] = none ∧
    parse genTable [.sym .NOT 0, .atom 0, .sym .NOT 0, .sym .BETWEEN 0, .atom 2, .sym .AND 0, .atom 4] =
    some (.pre .NOT 0 (.between (.atom 0) true (.atom 2) (.atom 4))) := by decide
open Csvq.OpExpr Csvq.Gen.Precedence in
example : parse genTable [.lit 9, .atom 0, .sym .IS 0, .sym .NOT 0, .lit 10, .sym .AND 0, .atom 2, .sym .NOT 0, .sym .IN 0, .lpar,
      .atom 4, .lpar, .atom 1, .kw .comma, .atom 6, .sym .c_plus 0, .atom 3, .rpar, .kw .comma, .atom 8, .lpar, .rpar, .rpar] =
    some (.bin (.cstat 0 true false) .AND 0 (.inl (.atom 2) true
      (.cons (.call 4 (.cons (.atom 1) (.cons (.bin (.atom 6) .c_plus 0 (.atom 3)) .nil))) (.cons (.call 8 .nil) .nil)))) := by decide
open Csvq.OpExpr Csvq.Gen.Precedence in
example : WellFormed genTable (.bin (.cstat 0 true true) .AND 0 (.inl (.atom 2) false (.cons (.call 4 (.cons (.atom 1) .nil)) .nil))) :=
  op_parse_wellformed genTable [.lit 9, .atom 0, .sym .IS 0, .sym .NOT 0, .sym .IN 0, .lit 11, .sym .AND 0, .atom 2, .sym .IN 0, .lpar,
    .atom 4, .lpar, .atom 1, .rpar, .rpar] _ (by decide)
-- a number is not a function name, `IN ()` is not a list
open Csvq.OpExpr Csvq.Gen.Precedence in
example : parse genTable [.atom 1, .lpar, .atom 0, .rpar] = none ∧ parse genTable [.atom 0, .sym .IN 0, .lpar, .rpar] = none := by decide

-- the clause skeleton: a query that uses every clause, parsed from its tokens with the regenerated table; printing it gives the tokens back
open Csvq.OpExpr Csvq.Clause Csvq.Gen.Precedence in
example : (parseSelect genTable [.kw .select, .kw .distinct, .atom 0, .kw .as, .atom 2, .kw .comma, .sym .c_star 0, .kw .from, .atom 4, .atom 6,
      .kw .left, .kw .join, .atom 8, .kw .on, .atom 0, .sym .c_eq 0, .atom 2, .kw .where, .sym .NOT 0, .atom 0, .kw .order, .kw .by, .atom 0,
      .kw .desc, .kw .nulls, .kw .last, .kw .limit, .atom 3, .kw .with, .kw .ties, .kw .offset, .atom 1, .kw .rows]).map (fun x => (x.1.orderBy.length, x.1.limit, x.2)) =
    some (1, some ⟨3, .none, .ties⟩, []) := by decide
-- a third table in FROM is not part of the grammar (csvq rejects `select 1 from t, u, v`)
open Csvq.OpExpr Csvq.Clause Csvq.Gen.Precedence in
example : (parseSelect genTable [.kw .select, .atom 1, .kw .from, .atom 0, .kw .comma, .atom 2, .kw .comma, .atom 4]).map (·.2) =
    some [.kw .comma, .atom 4] := by decide

end Csvq.C18
