/-
  C05 over join TREES: a multi-table UPDATE / DELETE whose FROM clause chains or nests joins of three and more sources —
  comma, CROSS, [INNER] JOIN … ON, LEFT / RIGHT / FULL, USING, NATURAL, mixed; updatable tables (loaded with an internal-id
  column) and sources without internal id (sub-queries, inline tables, table functions) at every position — changes exactly
  what it says.  Property theorems only.  Model: Csvq.Model.JoinTree (lib/query/load_view.go loadView / joinViews,
  lib/query/join.go ParseJoinCondition, lib/query/header.go FieldIndex, lib/query/query.go Update / Delete); helper lemmas:
  Csvq.Lemmas.JoinTree; the NATURAL loop of ParseJoinCondition is REGENERATED (extract/joinfacts → Gen/JoinFacts.lean).

  All theorems hold for ALL tables, trees, ON / WHERE conditions and SET expressions (arbitrary functions of the header of
  the joined view and its record).
-/
import Csvq.Lemmas.JoinTree
import Csvq.Props.C05
namespace Csvq.C05
open Csvq Csvq.Dml

/-! ## NATURAL: the internal-id columns are never join keys -/

/-- WHATEVER THE LEFT OPERAND — a table, a join of any depth (one internal-id column per updatable table, anywhere in its
    header: first, in the middle, behind merged columns), a source without id —: no key of a NATURAL join is the internal-id
    column.  (Seed C05-m24 dropped only a FIRST internal-id field.) -/
theorem natural_keys_never_internal_id (lh rh : List HField) (U : List String) (h : naturalUsing rh lh = .ok U) :
    idColumn ∉ U :=
  naturalUsing_no_id rh lh U h

/-- the keys of a NATURAL join are exactly the columns of the left fields that are no internal-id column and that are found
    in the right header, in the order of the left header -/
theorem natural_keys_spec (lh rh : List HField) (U : List String) (h : naturalUsing rh lh = .ok U) :
    U = (lh.filter fun f => decide (f.col ≠ idColumn) && okB (searchIdx rh "" f.col)).map (·.col) :=
  naturalUsing_eq_filter rh lh U h

/-- non-vacuity: the left operand `f1 JOIN m2 USING (id)` (merged column in front, f1's id second, m2's id fourth) NATURAL
    JOIN a table with columns w, z: the only key is `w` -/
example :
    (naturalUsing
      [⟨"f3", idColumn, false, .id 0⟩, ⟨"f3", "w", false, .col 0 0⟩, ⟨"f3", "z", false, .col 0 1⟩]
      [⟨"", "id", true, .merge (.col 0 0) (.col 1 0)⟩, ⟨"f1", idColumn, false, .id 0⟩, ⟨"f1", "a", false, .col 0 1⟩,
       ⟨"m2", idColumn, false, .id 1⟩, ⟨"m2", "w", false, .col 1 1⟩]).toOption = some ["w"] := by decide

/-- the REGENERATED loop (Gen.JoinFacts.naturalLoop, translated from join.go on every run) computes, for all headers, what
    the model's `naturalUsing` computes: it ranges over the WHOLE left header and passes over a field iff it is an
    internal-id column (or the right header does not have its column) -/
theorem gen_natural_skips_every_internal_id (lh rh : List HField) :
    interpNatural Csvq.Gen.JoinFacts.naturalLoop lh rh = naturalUsing rh lh ∧
    Csvq.Gen.JoinFacts.internalIdColumn = idColumn := by
  refine ⟨?_, rfl⟩
  have hloop : ∀ l : List HField,
      runNatLoop Csvq.Gen.JoinFacts.naturalLoop.body rh l = naturalUsing rh l := by
    intro l
    induction l with
    | nil => rfl
    | cons f fs ih =>
      unfold runNatLoop naturalUsing
      rw [ih]
      simp only [Csvq.Gen.JoinFacts.naturalLoop, runNatBody]
      by_cases hc : f.col = idColumn
      · have hc' : f.col = "@__internal_id" := hc
        simp only [hc', if_true]
        simp [idColumn]
      · have hc' : ¬ f.col = "@__internal_id" := hc
        simp only [hc', hc, if_false]
        cases hs : searchIdx rh "" f.col with
        | error e => cases e <;> rfl
        | ok k => rfl
  simp only [interpNatural]
  rw [if_pos (by decide)]
  exact hloop lh

/-- consequently no key computed by the regenerated loop is the internal-id column -/
theorem gen_natural_keys_never_internal_id (lh rh : List HField) (U : List String)
    (h : interpNatural Csvq.Gen.JoinFacts.naturalLoop lh rh = .ok U) : idColumn ∉ U := by
  rw [(gen_natural_skips_every_internal_id lh rh).1] at h
  exact naturalUsing_no_id rh lh U h

/-- non-vacuity: a loop that only drops a FIRST internal-id field (the shape of C05-m24: the range is a local slice) is
    refused by the interpreter, and a body without the per-field test makes the second table's id a key -/
example : okB (interpNatural { pre := ["fields := view.Header"], range := "fields", body := [.bindRef, .searchRight, .appendKey], post := [] }
    [] []) = false := by decide

example : (runNatLoop [.bindRef, .searchRight, .appendKey]
    [⟨"k", idColumn, false, .id 0⟩, ⟨"k", "w", false, .col 0 0⟩]
    [⟨"", "id", true, .merge (.col 0 0) (.col 1 0)⟩, ⟨"t", idColumn, false, .id 0⟩, ⟨"u", "w", false, .col 1 1⟩]).toOption =
    some [idColumn, "w"] := by decide

/-! ## the internal ids survive any chain of joins -/

/-- After ANY tree of joins (USING lists cannot name the internal-id column; the updatable tables of the FROM clause have
    different names), for the updatable table `n` at leaf `p`: its internal-id column is found in the header of the joined
    view by the view name, exactly once (`Header.ContainsInternalId`), its accessor reads the id of leaf `p`, and
    `View.InternalRecordId(n, ·)` is that leaf's id in every joined record — `none` exactly where the leaf is NULL-padded. -/
theorem internal_ids_survive_tree (ts : Tables) (eqv : Cell → Cell → Tern) (hn : NoIdCols ts) (tree : Tree) (v : TView)
    (hc : tree.usingClean) (hd : (tree.leaves.filterMap id).Nodup) (h : treeView ts eqv tree = .ok v)
    (p : Nat) (n : String) (hne : n ≠ "") (hp : tree.leaves[p]? = some (some n)) :
    (∃ k f, searchIdx v.header n idColumn = .ok k ∧ v.header[k]? = some f ∧ f.get = .id p) ∧
    ∀ jr, idOfRef v.header n jr = jid p jr :=
  idOfRef_tree ts eqv hn tree v hc hd h p n hne hp

/-- the internal-id fields of the joined view are, in order, those of the updatable leaves: none is lost, merged or
    duplicated by any join of the tree -/
theorem internal_id_fields_of_tree (ts : Tables) (eqv : Cell → Cell → Tern) (hn : NoIdCols ts) (tree : Tree) (v : TView)
    (hc : tree.usingClean) (h : treeView ts eqv tree = .ok v) :
    idFields v.header = leafIds tree.leaves 0 :=
  (treeView_ids ts eqv hn tree v hc h).1

/-- the tables and the tree of the non-vacuity examples: `(SELECT * FROM k) s NATURAL JOIN u NATURAL JOIN t` — an id-less
    source first, then two updatable tables -/
def exTables : Tables :=
  [("t", { header := ["id", "w"], rows := [[nullCell, nullCell]] }), ("u", { header := ["w", "z"], rows := [[nullCell, nullCell]] }),
   ("k", { header := ["z"], rows := [] })]

def exTree : Tree :=
  .join (.join (.leaf (.inline "s" "k")) (.leaf (.table "u")) (.using none none)) (.leaf (.table "t")) (.using none none)

/-- non-vacuity: the header of the example tree — merged `w`, merged `z`, u's id, t's id, t.id — and both ids are addressable -/
example :
    ((treeView exTables (fun _ _ => .T) exTree).toOption.map fun v => v.header.map fun f => (f.view, f.col)) =
      some [("", "w"), ("", "z"), ("u", idColumn), ("t", idColumn), ("t", "id")] ∧
    ((treeView exTables (fun _ _ => .T) exTree).toOption.map fun v => (searchIdx v.header "u" idColumn).toOption) = some (some 2) ∧
    ((treeView exTables (fun _ _ => .T) exTree).toOption.map fun v => (searchIdx v.header "t" idColumn).toOption) = some (some 3) ∧
    exTree.leaves = [none, some "u", some "t"] := by decide

/-! ## DELETE over a tree -/

theorem deleteTargetsT_mem (ts : Tables) (h : List HField) (view : List JRow) : ∀ (targets : List String) (outs : List Out),
    deleteTargetsT ts h view targets = .ok outs →
    ∀ o ∈ outs, o.name ∈ targets ∧ ∃ t, lookupT ts o.name = some t ∧
      o.table = (deleteCore (view.map (idOfRef h o.name)) t).1 ∧ o.count = (deleteCore (view.map (idOfRef h o.name)) t).2 := by
  intro targets
  induction targets with
  | nil => intro outs hk o ho; simp [deleteTargetsT] at hk; subst hk; cases ho
  | cons tn rest ih =>
    intro outs hk o ho
    unfold deleteTargetsT at hk
    cases hg : getCopy ts tn with
    | error e => simp [hg] at hk
    | ok t =>
      simp only [hg] at hk
      cases hr : deleteTargetsT ts h view rest with
      | error e => simp [hr] at hk
      | ok outs' =>
        simp only [hr] at hk
        cases hk
        cases ho with
        | head => exact ⟨List.mem_cons_self, t, getCopy_lookup' ts tn t hg, rfl, rfl⟩
        | tail _ hm =>
          obtain ⟨a, b⟩ := ih outs' hr o hm
          exact ⟨List.mem_cons_of_mem _ a, b⟩

/-- DELETE OVER ANY JOIN TREE: every target keeps its header; record `j` of the target at leaf `p` is removed iff some record
    of the filtered joined view carries `j` as the id of leaf `p` (records in which that leaf is NULL-padded, and all sources
    without internal id, contribute nothing); the others keep their order; the reported count is the number of distinct ids. -/
theorem delete_view_spec_tree (ts : Tables) (eqv : Cell → Cell → Tern) (targets : List String) (tree : Tree)
    (cond : List HField → JRow → Except Err Tern) (outs : List Out)
    (hn : NoIdCols ts) (hc : tree.usingClean) (hd : (tree.leaves.filterMap id).Nodup)
    (hk : deleteTreeBody ts eqv targets tree cond = .ok outs) :
    ∃ h view, treeFiltered ts eqv tree cond = .ok (h, view) ∧
    ∀ o ∈ outs, o.name ∈ targets ∧ ∃ t, lookupT ts o.name = some t ∧
      ∀ p, o.name ≠ "" → tree.leaves[p]? = some (some o.name) →
        o.table.header = t.header ∧
        o.table.rows = ((t.rows.zip (List.range t.rows.length)).filter
          (fun q => !decide (some q.2 ∈ view.map (jid p)))).map Prod.fst ∧
        o.count = (collectIds (view.map (jid p)) []).length ∧ (collectIds (view.map (jid p)) []).Nodup ∧
        ∀ x, x ∈ collectIds (view.map (jid p)) [] ↔ some x ∈ view.map (jid p) := by
  unfold deleteTreeBody at hk
  cases hf : treeFiltered ts eqv tree cond with
  | error e => simp [hf] at hk
  | ok hv =>
    obtain ⟨h, view⟩ := hv
    simp only [hf] at hk
    refine ⟨h, view, rfl, ?_⟩
    intro o ho
    obtain ⟨hm, t, hl, htab, hcnt⟩ := deleteTargetsT_mem ts h view targets outs hk o ho
    refine ⟨hm, t, hl, ?_⟩
    intro p hne hp
    -- the header of the filtered view is the header of the tree's view
    unfold treeFiltered at hf
    cases htv : treeView ts eqv tree with
    | error e => simp [htv] at hf
    | ok v =>
      simp only [htv] at hf
      split at hf
      · cases hf
      · cases hf
        have hid := (idOfRef_tree ts eqv hn tree v hc hd htv p o.name hne hp).2
        rename_i fv hfv
        have hmap' : List.map (idOfRef v.header o.name) (List.map Prod.snd fv) = List.map (jid p) (List.map Prod.snd fv) := by
          apply List.map_congr_left; intro jr _; exact hid jr
        rw [htab, hcnt, hmap']
        obtain ⟨s1, s2, s3, s4, s5⟩ := delete_view_spec (List.map (jid p) (List.map Prod.snd fv)) t
        exact ⟨s1, s2, s5, s4, s3⟩

/-! ## UPDATE over a tree -/

theorem updateTargetsT_frame (ts : Tables) (h : List HField) (view : List JRow) (sets : List TSet) :
    ∀ (targets : List String) (outs : List Out), updateTargetsT ts h view sets targets = .ok outs →
    ∀ o ∈ outs, o.name ∈ targets ∧ ∃ t, lookupT ts o.name = some t ∧ o.table.header = t.header ∧
      o.table.rows.length = t.rows.length ∧
      ∀ i j, cellAt o.table.rows i j ≠ cellAt t.rows i j →
        (∃ jr ∈ view, idOfRef h o.name jr = some i) ∧
        ∃ s ∈ sets, s.target h = some o.name ∧ colIndex t.header s.field = .ok j := by
  intro targets
  induction targets with
  | nil => intro outs hk o ho; simp [updateTargetsT] at hk; subst hk; cases ho
  | cons tn rest ih =>
    intro outs hk o ho
    unfold updateTargetsT at hk
    cases hg : getCopy ts tn with
    | error e => simp [hg] at hk
    | ok t =>
      simp only [hg] at hk
      split at hk
      · cases hk
      · rename_i t' n hu
        cases hrest : updateTargetsT ts h view sets rest with
        | error e => simp [hrest] at hk
        | ok outs' =>
          simp only [hrest] at hk
          cases hk
          cases ho with
          | tail _ hm =>
            obtain ⟨a, b⟩ := ih outs' hrest o hm
            exact ⟨List.mem_cons_of_mem _ a, b⟩
          | head =>
            obtain ⟨u1, u2, _, _⟩ := updateCore_ok _ _ t t' n hu
            obtain ⟨hl, hf⟩ := update_view_frame t.header
              ((sets.filter fun s => s.target h = some tn).map fun s => ({ field := s.field, expr := s.expr h } : SetItem JRow))
              (view.map fun jr => (idOfRef h tn jr, jr)) t.rows
            refine ⟨List.mem_cons_self, t, getCopy_lookup' ts tn t hg, u1, by simp only; rw [u2]; exact hl, ?_⟩
            intro i j hne
            simp only at hne
            rw [u2] at hne
            obtain ⟨⟨x, hx, hxi⟩, s, hs, hcol⟩ := hf i j hne
            obtain ⟨jr, hjr, rfl⟩ := List.mem_map.mp hx
            obtain ⟨s0, hs0, rfl⟩ := List.mem_map.mp hs
            have hmem := List.mem_filter.mp hs0
            exact ⟨⟨jr, hjr, hxi⟩, s0, hmem.1, by simpa using hmem.2, hcol⟩

/-- UPDATE OVER ANY JOIN TREE — whatever the joins, their nesting, the layout of the joined view (merged columns in front,
    originals dropped, ids anywhere) and the position of the targets: a successful statement keeps every target's header and
    number of records, and a cell (record i, column j) of a target differs from before only if
    * j is the position IN THAT TABLE'S HEADER of a column named by a SET item that the joined view resolves to that table, and
    * some record of the filtered joined view carries `i` as the id of the target's leaf. -/
theorem update_writes_named_column_any_tree (ts : Tables) (eqv : Cell → Cell → Tern) (targets : List String) (tree : Tree)
    (cond : List HField → JRow → Except Err Tern) (sets : List TSet) (outs : List Out)
    (hn : NoIdCols ts) (hc : tree.usingClean) (hd : (tree.leaves.filterMap id).Nodup)
    (hk : updateTreeBody ts eqv targets tree cond sets = .ok outs) :
    ∃ h view, treeFiltered ts eqv tree cond = .ok (h, view) ∧
    ∀ o ∈ outs, o.name ∈ targets ∧ ∃ t, lookupT ts o.name = some t ∧ o.table.header = t.header ∧
      o.table.rows.length = t.rows.length ∧
      ∀ i j, cellAt o.table.rows i j ≠ cellAt t.rows i j →
        (∃ s ∈ sets, s.target h = some o.name ∧ colIndex t.header s.field = .ok j) ∧
        ∀ p, o.name ≠ "" → tree.leaves[p]? = some (some o.name) → ∃ jr ∈ view, jid p jr = some i := by
  unfold updateTreeBody at hk
  cases hf : treeFiltered ts eqv tree cond with
  | error e => simp [hf] at hk
  | ok hv =>
    obtain ⟨h, view⟩ := hv
    simp only [hf] at hk
    refine ⟨h, view, rfl, ?_⟩
    split at hk
    · cases hk
    · intro o ho
      obtain ⟨hm, t, hl, hh, hlen, hcell⟩ := updateTargetsT_frame ts h view sets targets outs hk o ho
      refine ⟨hm, t, hl, hh, hlen, ?_⟩
      intro i j hne
      obtain ⟨⟨jr, hjr, hid⟩, hs⟩ := hcell i j hne
      refine ⟨hs, ?_⟩
      intro p hne' hp
      unfold treeFiltered at hf
      cases htv : treeView ts eqv tree with
      | error e => simp [htv] at hf
      | ok v =>
        simp only [htv] at hf
        split at hf
        · cases hf
        · cases hf
          exact ⟨jr, hjr, by rw [← (idOfRef_tree ts eqv hn tree v hc hd htv p o.name hne' hp).2 jr]; exact hid⟩

/-- a SET item of a target that is NULL-padded in a joined record (an outer join anywhere in the tree below it) is refused:
    `View.InternalRecordId` finds no id — "value … is ambiguous", nothing is published (C08) -/
theorem update_refuses_padded_target_tree (ts : Tables) (targets : List String) (h : List HField) (jr : JRow)
    (s : TSet) (rest : List TSet) (touched : List (String × Nat × Nat)) (v : Cell) (tn : String)
    (hv : s.expr h jr = .ok v) (hf : fieldViewName h s.view s.field = .ok tn) (ht : tn ∈ targets)
    (hid : idOfRef h tn jr = none) :
    scanSetsT ts targets h jr (s :: rest) touched = .error .ambiguous := by
  simp [scanSetsT, hv, hf, ht, hid]

/-- non-vacuity: over the example tree DELETE u, t removes the record of `u` and of `t` the joined record carries (the cells are
    NULL: no NATURAL key is TRUE — nothing is joined, nothing removed; with a join that accepts every pair both go) -/
example :
    (deleteTreeBody exTables (fun _ _ => .T) ["u", "t"] exTree (fun _ _ => .ok .T)).toOption.map
      (fun outs => outs.map fun o => (o.name, o.count, o.table.rows.length)) = some [("u", 0, 1), ("t", 0, 1)] ∧
    (deleteTreeBody exTables (fun _ _ => .T) ["u", "t"]
      (.join (.join (.leaf (.inline "s" "k")) (.leaf (.table "u")) (.on (some .right) fun _ _ => .ok .T)) (.leaf (.table "t")) .cross)
      (fun _ _ => .ok .T)).toOption.map
      (fun outs => outs.map fun o => (o.name, o.count, o.table.rows.length)) = some [("u", 1, 0), ("t", 1, 0)] := by decide

/-- non-vacuity: UPDATE t SET t.id = … over `s RIGHT JOIN u ON TRUE, t` writes column 0 of t's only record -/
example :
    (updateTreeBody exTables (fun _ _ => .T) ["t"]
      (.join (.join (.leaf (.inline "s" "k")) (.leaf (.table "u")) (.on (some .right) fun _ _ => .ok .T)) (.leaf (.table "t")) .cross)
      (fun _ _ => .ok .T) [{ view := "t", field := "id", expr := fun _ _ => .ok (idCell (some 7)) }]).toOption.map
      (fun outs => outs.map fun o => (o.name, o.count, o.table.rows.map fun r => r.map fun c => decide (c = nullCell))) =
      some [("t", 1, [[false, true]])] := by decide

end Csvq.C05
