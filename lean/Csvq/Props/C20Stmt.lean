/-
  C20 — the statements that are not data statements leave the view cache alone.

  Model/SessionStmt.lean adds SET @@flag (every flag), SHOW, variables, cursors, functions, prepared statements,
  PRINT, CHDIR, … to the session machine: they change the session's environment and may evaluate sub-queries (plain
  loads), nothing else.  The theorems of Props/C20 are extended over histories that contain them.  That the CODE has
  no other access is a regenerated obligation: extract/cachefacts lists EVERY call of a mutating ViewMap method on
  Transaction.CachedViews in the tree, their callers, and the cases of Processor.ExecuteStatement that reach one.
-/
import Csvq.Props.C20
import Csvq.Model.SessionStmt
namespace Csvq.C20
open Csvq.Session

variable {C : Type}

/-- a plain load never removes or replaces an entry of the cache (the reload needs `forUpdate`) -/
theorem plain_load_keeps_entries (s s' : State C) (q p : Path) (c : Cached C) (d : C)
    (hl : load s q false = some (s', d)) (h : s.cache p = some c) : s'.cache p = some c := by
  by_cases hq : q = p
  · subst hq
    have : load s q false = some (s, c.content) := by simp [load, h]
    rw [this] at hl; cases hl; exact h
  · rw [load_cache_other s s' q p false d hl hq]; exact h

theorem loadAll_keeps_entries (p : Path) (c : Cached C) : ∀ (reads : List Path) (s : State C),
    s.cache p = some c → (loadAll s reads).1.cache p = some c := by
  intro reads
  induction reads with
  | nil => intro s h; exact h
  | cons q qs ih =>
    intro s h
    simp only [loadAll]
    cases hl : load s q false with
    | none => exact h
    | some r =>
      obtain ⟨s', d⟩ := r
      exact ih s' (plain_load_keeps_entries s s' q p c d hl h)

/-- **A statement that is not a data statement keeps the cache.**  Whatever its kind — SET of ANY flag, the import
    options included, CHDIR, SHOW, declarations, PREPARE, PRINT … — and whatever tables its expressions read: every
    table the transaction has loaded stays loaded, with the same contents and the same lock state. -/
theorem non_data_statement_keeps_cache (s : StateS C) (k : NonData) (reads : List Path) (p : Path) (c : Cached C)
    (h : s.tx.cache p = some c) : (stepS s (.nonData k reads)).1.tx.cache p = some c := by
  have := loadAll_keeps_entries p c reads s.tx h
  simp only [stepS]
  split <;> rename_i tx' heq <;> (rw [heq] at this; exact this)

/-- without a table expression it changes nothing but the environment: disk, cache, uncommitted sets and temporary
    tables are the same -/
theorem non_data_statement_without_tables (s : StateS C) (k : NonData) :
    (stepS s (.nonData k [])).1.tx = s.tx ∧ (stepS s (.nonData k [])).2 = .ok := by
  simp [stepS, loadAll]

/-- … and it does not touch the files -/
theorem non_data_statement_keeps_disk (s : StateS C) (k : NonData) (reads : List Path) :
    (stepS s (.nonData k reads)).1.tx.disk = s.tx.disk := by
  have key : ∀ (reads : List Path) (t : State C), (loadAll t reads).1.disk = t.disk := by
    intro reads
    induction reads with
    | nil => intro t; rfl
    | cons q qs ih =>
      intro t
      simp only [loadAll]
      cases hl : load t q false with
      | none => rfl
      | some r =>
        obtain ⟨t', d⟩ := r
        rw [ih t']
        unfold load at hl
        split at hl
        · split at hl
          · split at hl <;> cases hl; rfl
          · cases hl; rfl
        · split at hl <;> cases hl; rfl
  have := key reads s.tx
  simp only [stepS]
  split <;> rename_i tx' heq <;> (rw [heq] at this; exact this)

/-- a statement of a history: another process's commit or a non-data statement -/
def IsOtherOrNonData : Stmt C → Prop
  | .data op => IsOther op
  | .nonData _ _ => True

/-- **Stable reads, with non-data statements in between.**  Once the transaction has loaded table p, a later plain
    read shows exactly the loaded data, whatever other processes commit AND whatever non-data statements the
    transaction itself executes in between (SET @@DELIMITER …, CHDIR, SHOW, DECLARE, PREPARE, …). -/
theorem read_stable_stmts (p : Path) (c : Cached C) (hist : List (Stmt C))
    (hh : ∀ st ∈ hist, IsOtherOrNonData st) :
    ∀ (s : StateS C), s.tx.cache p = some c →
      (stepS (runS s hist) (.data (.select p))).2 = .rows c.content := by
  induction hist with
  | nil => intro s h; exact C01.select_shows_view _ p c h
  | cons st sts ih =>
    intro s h
    have h1 : (stepS s st).1.tx.cache p = some c := by
      cases st with
      | nonData k reads => exact non_data_statement_keeps_cache s k reads p c h
      | data op =>
        have := (other_keeps_cache s.tx op (hh _ List.mem_cons_self)).1
        show (step s.tx op).1.cache p = some c
        rw [this]; exact h
    have := ih (fun x hx => hh x (List.mem_cons_of_mem _ hx)) (stepS s st).1 h1
    simpa only [runS, List.foldl_cons] using this

/-- a statement that keeps an unlocked view of p: a data statement that does (`KeepsUnlocked`) or any non-data
    statement -/
def KeepsUnlockedS (p : Path) : Stmt C → Prop
  | .data op => KeepsUnlocked p op
  | .nonData _ _ => True

/-- **Full history form, table loaded by a plain SELECT, with non-data statements.**  Whatever this transaction does
    to other tables, however often it re-reads p, whatever non-data statements it executes (with sub-queries over
    any tables, p included) and whatever other processes commit, every plain read of p keeps showing the contents
    first loaded — until the transaction asks for p under the lock or ends. -/
theorem unlocked_view_stable_stmts (p : Path) (hist : List (Stmt C)) (hk : ∀ st ∈ hist, KeepsUnlockedS p st) :
    ∀ (s : StateS C) (c : C), s.tx.cache p = some ⟨c, false⟩ →
      (stepS (runS s hist) (.data (.select p))).2 = .rows c := by
  induction hist with
  | nil => intro s c h; exact C01.select_shows_view _ p ⟨c, false⟩ h
  | cons st sts ih =>
    intro s c h
    have h1 : (stepS s st).1.tx.cache p = some ⟨c, false⟩ := by
      cases st with
      | nonData k reads => exact non_data_statement_keeps_cache s k reads p _ h
      | data op => exact step_unlocked s.tx p c op (hk _ List.mem_cons_self) h
    have := ih (fun x hx => hk x (List.mem_cons_of_mem _ hx)) (stepS s st).1 c h1
    simpa only [runS, List.foldl_cons] using this

/-- a table held for update: non-data statements in the history change neither its contents nor its lock -/
theorem locked_view_kept_by_non_data (p : Path) (c : C) (hist : List (Stmt C))
    (hh : ∀ st ∈ hist, IsOtherOrNonData st) (s : StateS C) (h : s.tx.cache p = some ⟨c, true⟩) :
    (stepS (runS s hist) (.data (.select p))).2 = .rows c :=
  read_stable_stmts p ⟨c, true⟩ hist hh s h

/-! ## the regenerated obligation: who touches the cache in the code -/

/-- **The eviction sites are the reviewed ones.**  EVERY call of a mutating ViewMap method on
    Transaction.CachedViews in the tree (extract/cachefacts, evict.go; fail closed on any other use of the field) is
    one of: the own change of a data-changing statement, the release at the end of the transaction, the documented
    reload / its failure restore / the load in cacheViewFromFile (reasons: Ref/CacheFacts.lean); the mutating methods
    are the reviewed ones; and one level up the callers are the statement dispatcher, COMMIT / ROLLBACK / the end of
    the run, and the table loader.  A new site — a statement that drops "stale" views — breaks this. -/
theorem gen_cache_evictions_are_the_reviewed_ones :
    Csvq.Gen.cacheMutationSites = Csvq.Ref.cacheMutationSites ∧
    Csvq.Gen.viewMapMutators = Csvq.Ref.viewMapMutators ∧
    Csvq.Gen.cacheMutatorCallers = Csvq.Ref.cacheMutatorCallers := by decide

/-- the cases of Processor.ExecuteStatement that reach a site other than a load are the data-changing statements
    and COMMIT / ROLLBACK — none of the kinds the model treats as non-data -/
theorem gen_cache_stmt_kinds_are_data_statements :
    Csvq.Gen.cacheStmtKinds = Csvq.Ref.cacheStmtKinds ∧
    (Csvq.Gen.cacheStmtKinds.all fun kc => kc.1 ∈ Csvq.Ref.dataStmtCases) = true ∧
    (NonData.all.all fun k => !(Csvq.Gen.cacheStmtKinds.any fun kc => kc.1 == k.caseName)) = true := by decide

/-- every statement type the dispatcher knows is a data statement of Model/Session.lean, a container of other
    statements, or one of the non-data kinds of Model/SessionStmt.lean — a new statement type has to be classified -/
theorem gen_every_statement_kind_classified :
    (Csvq.Gen.stmtCases.all fun c =>
      c ∈ Csvq.Ref.dataStmtCases || c ∈ Csvq.Ref.containerStmtCases || NonData.all.any fun k => k.caseName == c) = true ∧
    (NonData.all.all fun k => k.caseName ∈ Csvq.Gen.stmtCases) = true := by decide

/-! non-vacuity -/
example :
    let s0 : StateS (List Nat) := { tx := fresh (fun _ => some [1]), env := default }
    (stepS (runS s0 [.data (.select 0), .data (.other 0 [7]), .nonData (.setFlag "DELIMITER") [],
      .nonData (.chdir ".") [], .nonData .print [1, 0], .data (.other 0 [8]), .nonData .statementPreparation []])
      (.data (.select 0))).2 = .rows [1] := by
  have hc : (runS ({ tx := fresh (fun _ => some [1]), env := default } : StateS (List Nat))
      [.data (.select 0)]).tx.cache 0 = some ⟨[1], false⟩ := by
    simp [runS, stepS, step, load, fresh, setFn]
  have := unlocked_view_stable_stmts (C := List Nat) 0
    [.data (.other 0 [7]), .nonData (.setFlag "DELIMITER") [], .nonData (.chdir ".") [], .nonData .print [1, 0],
     .data (.other 0 [8]), .nonData .statementPreparation []]
    (by intro st h; simp at h; rcases h with rfl | rfl | rfl | rfl | rfl | rfl <;> trivial)
    (runS { tx := fresh (fun _ => some [1]), env := default } [.data (.select 0)]) [1] hc
  simpa [runS] using this

example : ((stepS ({ tx := fresh (fun _ => some [1]), env := default } : StateS (List Nat))
    (.nonData (.setFlag "DELIMITER") [])).1.env.flags "DELIMITER") = some "set" := by
  simp [stepS, loadAll, envStep]

end Csvq.C20
