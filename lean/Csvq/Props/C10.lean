/-
  C10 — a crash at any instant of COMMIT leaves each existing table complete: old or new.
  Property theorems only, stated over the operation sequence REGENERATED from
  lib/file/handler.go (Csvq.Gen.commitUpdateOps) and lib/query/transaction.go.
-/
import Csvq.Lemmas.Commit
import Csvq.Gen.FsProto
import Csvq.Ref.FsProto
import Csvq.Lemmas.FileBytes
namespace Csvq.C10
open Csvq.Commit

/-- the file-system operations Handler.commit performs for an updated table, as the code has them now -/
def genCommit : List FsOp := Csvq.Gen.commitUpdateOps.map parseOp

/-- every operation of the generated sequence is one the model knows, and at every prefix the data
    file holds the old or the new contents (checked on symbolic contents; lifted below) -/
theorem gen_crash_safe : oldOrNewAllPrefixes genCommit = true := by decide

/-- run to the end, the commit leaves the new contents and no control file -/
theorem gen_commit_completes : completesClean genCommit = true := by decide

/-- Transaction.Commit encodes every table before it swaps the first one:
    no `handler_commit` precedes an `encode` -/
theorem encode_before_swap :
    (Csvq.Gen.fxTransactionCommit.dropWhile (· ≠ "handler_commit")).all (· ≠ "encode") = true := by decide

/-- scanning a loop body of Transaction.Commit: is every `encode` preceded, inside its own loop iteration,
    by a `truncate` of the file it writes into AND a `seek` back to its start (truncating does not move the
    write position)? -/
def encodeAfterReset : List String → Bool → Bool → Bool
  | [], _, _ => true
  | "loop{" :: rest, _, _ => encodeAfterReset rest false false
  | "truncate" :: rest, _, k => encodeAfterReset rest true k
  | "seek" :: rest, t, _ => encodeAfterReset rest t true
  | "encode" :: rest, t, k => t && k && encodeAfterReset rest t k
  | _ :: rest, t, k => encodeAfterReset rest t k

/-- each table is encoded into an EMPTIED file from its START: a temporary file that still holds the bytes of
    an earlier, failed COMMIT of the same session is cut to length 0 and the write position is put back to 0
    first, so the file swapped in is exactly the new encoding — never "new records followed by stale ones",
    never a block of NUL bytes in front of them -/
theorem gen_encode_into_emptied_file :
    encodeAfterReset Csvq.Gen.fxTransactionCommit false false = true ∧
    (Csvq.Gen.fxTransactionCommit.filter (· = "encode")).length = 2 := by decide

/-! ### the same at byte level (Model/FileBytes.lean: contents + write position, ftruncate / lseek / write) -/

open Csvq.FileBytes in
/-- truncate, rewind, write the pieces of the encoding, write the ending line break: the file then holds
    EXACTLY the new encoding — for every earlier content of the file (the stale bytes of a failed earlier
    COMMIT), every earlier write position, every way the encoder cuts its output into writes -/
theorem reset_then_encode_exact (f : F) (enc : List (List Byte)) (lb : List Byte) :
    (write (writes (seek0 (truncate0 f)) enc) lb).bytes = enc.flatten ++ lb := by
  have h := scan_sound enc lb ["truncate", "seek", "encode", "write"] .none .written f trivial (by decide)
  simpa [interp] using h.1

open Csvq.FileBytes in
/-- the loops of Transaction.Commit as regenerated from transaction.go on this run: two encode loops
    (created, updated tables) whose bodies the byte-level scanner accepts, then the two swap loops, which
    do not write into the file at all -/
theorem gen_commit_loop_shape :
    (loopBodies Csvq.Gen.fxTransactionCommit 1000).map (scan .none)
      = [some .written, some .written, some .none, some .none] := by decide

open Csvq.FileBytes in
/-- hence each table's new file, as the regenerated loop body produces it, is byte for byte the new
    encoding followed by the ending line break — whatever the file held before and wherever its
    position was (the not-taken `if` around the line break is the case `lb = []`) -/
theorem gen_encode_loops_write_exact_bytes :
    ∀ body ∈ (loopBodies Csvq.Gen.fxTransactionCommit 1000).take 2,
      ∀ (f : F) (enc : List (List Byte)) (lb : List Byte), (interp enc lb body f).bytes = enc.flatten ++ lb := by
  intro body hb f enc lb
  have hs : ∀ b ∈ (loopBodies Csvq.Gen.fxTransactionCommit 1000).take 2, scan .none b = some .written := by decide
  exact (scan_sound enc lb body .none .written f trivial (hs body hb)).1

open Csvq.FileBytes in
/-- the discipline is necessary: without the truncation a shorter new encoding keeps a stale tail … -/
theorem stale_tail_without_truncate :
    (writes (seek0 ⟨[1, 2, 3, 4, 5], 5⟩) [[9]]).bytes = [9, 2, 3, 4, 5] := by decide

open Csvq.FileBytes in
/-- … and without the rewind the new encoding sits behind a block of NUL bytes -/
theorem nul_block_without_seek :
    (writes (truncate0 ⟨[1, 2, 3], 3⟩) [[9]]).bytes = [0, 0, 0, 9] := by decide

/-- the structured effect list of Transaction.Commit is the reviewed one -/
theorem gen_txcommit_eq_ref : Csvq.Gen.fxTransactionCommit = Csvq.Ref.fxTransactionCommit := by decide

/-- updated tables are written through the temp file: NewHandlerForUpdate creates it, after the lock -/
theorem update_takes_lock_then_temp :
    Csvq.Gen.fxNewHandlerForUpdate.filter
        (fun s => s ∈ ["control_file(Lock)", "control_file(RLock)", "control_file(Temporary)", "open_exclusive(path)", "open_shared(h.path)"])
      = ["control_file(Lock)", "open_exclusive(path)", "control_file(Temporary)"] := by decide

/-- **Crash safety.**  For any number of tables, any contents, and ANY interleaving `l` of the
    tables' commit operations in which table `i` performs the generated sequence: after every
    prefix of `l` (a crash at any instant) the file of table `i` holds its complete old or its
    complete new contents — never missing, never mixed. -/
theorem crash_old_or_new {α} (l : List (Nat × FsOp)) (i : Nat) (hi : proj i l = genCommit)
    (old new : Nat → α) (k : Nat) :
    let s := runTagged (l.take k) (fun j => startUpdate (old j) (new j))
    (s i).data = some (old i) ∨ (s i).data = some (new i) := by
  intro s
  show (runTagged (l.take k) _ i).data = _ ∨ (runTagged (l.take k) _ i).data = _
  rw [runTagged_proj]
  obtain ⟨k', hk'⟩ := proj_take i l k
  rw [hk', hi]
  exact old_or_new_of_check genCommit gen_crash_safe k' (old i) (new i)

/-- after a crash the table file exists, so once the leftover control files are deleted (as the
    manual instructs) the table can be opened again -/
theorem recoverable {α} (l : List (Nat × FsOp)) (i : Nat) (hi : proj i l = genCommit)
    (old new : Nat → α) (k : Nat) :
    ((runTagged (l.take k) (fun j => startUpdate (old j) (new j))) i).data ≠ none := by
  have := crash_old_or_new l i hi old new k
  rcases this with h | h <;> simp [h]

/-- other tables' operations never touch this table's files -/
theorem frame {α} (l : List (Nat × FsOp)) (i : Nat) (hi : proj i l = []) (s : Nat → TState α) :
    (runTagged l s) i = s i := by
  rw [runTagged_proj, hi]; rfl

/-! non-vacuity: three tables committed one after the other -/
example : proj 1 ((genCommit.map (0, ·)) ++ (genCommit.map (1, ·)) ++ (genCommit.map (2, ·))) = genCommit := by decide

end Csvq.C10
