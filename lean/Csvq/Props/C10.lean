/-
  C10 — a crash at any instant of COMMIT leaves each existing table complete: old or new.
  Property theorems only, stated over the operation sequence REGENERATED from
  lib/file/handler.go (Csvq.Gen.commitUpdateOps) and lib/query/transaction.go.
-/
import Csvq.Lemmas.Commit
import Csvq.Gen.FsProto
import Csvq.Ref.FsProto
import Csvq.Lemmas.FileBytes
import Csvq.Lemmas.TxCommit
namespace Csvq.C10
open Csvq.Commit

/-- the file-system operations Handler.commit performs for an updated table, as the code has them now -/
def genCommit : List FsOp := Csvq.Gen.commitUpdateOps.map parseOp

/-- every operation of the generated sequence is one the model knows, and at every prefix the data
    file holds the old or the new contents (checked on symbolic contents; lifted below) -/
theorem gen_crash_safe : oldOrNewAllPrefixes genCommit = true := by decide

/-- run to the end, the commit leaves the new contents and no control file -/
theorem gen_commit_completes : completesClean genCommit = true := by decide

/-- Transaction.Commit encodes every table before it swaps the first one:
    no `handler_commit` precedes an `encode` -/
theorem encode_before_swap :
    (Csvq.Gen.fxTransactionCommit.dropWhile (· ≠ "handler_commit")).all (· ≠ "encode") = true := by decide

/-- scanning a loop body of Transaction.Commit: is every `encode` preceded, inside its own loop iteration,
    by a `truncate` of the file it writes into AND a `seek` back to its start (truncating does not move the
    write position)? -/
def encodeAfterReset : List String → Bool → Bool → Bool
  | [], _, _ => true
  | "loop{" :: rest, _, _ => encodeAfterReset rest false false
  | "truncate" :: rest, _, k => encodeAfterReset rest true k
  | "seek" :: rest, t, _ => encodeAfterReset rest t true
  | "encode" :: rest, t, k => t && k && encodeAfterReset rest t k
  | _ :: rest, t, k => encodeAfterReset rest t k

/-- each table is encoded into an EMPTIED file from its START: a temporary file that still holds the bytes of
    an earlier, failed COMMIT of the same session is cut to length 0 and the write position is put back to 0
    first, so the file swapped in is exactly the new encoding — never "new records followed by stale ones",
    never a block of NUL bytes in front of them -/
theorem gen_encode_into_emptied_file :
    encodeAfterReset Csvq.Gen.fxTransactionCommit false false = true ∧
    (Csvq.Gen.fxTransactionCommit.filter (· = "encode")).length = 2 := by decide

/-! ### the same at byte level (Model/FileBytes.lean: contents + write position, ftruncate / lseek / write) -/

open Csvq.FileBytes in
/-- truncate, rewind, write the pieces of the encoding, write the ending line break: the file then holds
    EXACTLY the new encoding — for every earlier content of the file (the stale bytes of a failed earlier
    COMMIT), every earlier write position, every way the encoder cuts its output into writes -/
theorem reset_then_encode_exact (f : F) (enc : List (List Byte)) (lb : List Byte) :
    (write (writes (seek0 (truncate0 f)) enc) lb).bytes = enc.flatten ++ lb := by
  have h := scan_sound enc lb ["truncate", "seek", "encode", "write"] .none .written f trivial (by decide)
  simpa [interp] using h.1

open Csvq.FileBytes in
/-- the loops of Transaction.Commit as regenerated from transaction.go on this run: two encode loops
    (created, updated tables) whose bodies the byte-level scanner accepts, then the two swap loops, which
    do not write into the file at all -/
theorem gen_commit_loop_shape :
    (loopBodies Csvq.Gen.fxTransactionCommit 1000).map (scan .none)
      = [some .written, some .written, some .none, some .none] := by decide

open Csvq.FileBytes in
/-- hence each table's new file, as the regenerated loop body produces it, is byte for byte the new
    encoding followed by the ending line break — whatever the file held before and wherever its
    position was (the not-taken `if` around the line break is the case `lb = []`) -/
theorem gen_encode_loops_write_exact_bytes :
    ∀ body ∈ (loopBodies Csvq.Gen.fxTransactionCommit 1000).take 2,
      ∀ (f : F) (enc : List (List Byte)) (lb : List Byte), (interp enc lb body f).bytes = enc.flatten ++ lb := by
  intro body hb f enc lb
  have hs : ∀ b ∈ (loopBodies Csvq.Gen.fxTransactionCommit 1000).take 2, scan .none b = some .written := by decide
  exact (scan_sound enc lb body .none .written f trivial (hs body hb)).1

open Csvq.FileBytes in
/-- the discipline is necessary: without the truncation a shorter new encoding keeps a stale tail … -/
theorem stale_tail_without_truncate :
    (writes (seek0 ⟨[1, 2, 3, 4, 5], 5⟩) [[9]]).bytes = [9, 2, 3, 4, 5] := by decide

open Csvq.FileBytes in
/-- … and without the rewind the new encoding sits behind a block of NUL bytes -/
theorem nul_block_without_seek :
    (writes (truncate0 ⟨[1, 2, 3], 3⟩) [[9]]).bytes = [0, 0, 0, 9] := by decide

/-! ### a COMMIT whose encoder refuses a table (Model/TxCommit.lean: Transaction.Commit over the regenerated loop
    bodies, with failing steps) -/

/-- the four loops of Transaction.Commit as regenerated on this run -/
def genBodies : List (List String) := Csvq.FileBytes.loopBodies Csvq.Gen.fxTransactionCommit 1000

/-- both encode loops pass the check for every combination of failing steps: no swap inside them, and the error of
    `encode` is looked at directly behind it and returns -/
theorem gen_encode_loops_return_on_error :
    Csvq.TxCommit.encodeBodyOk (genBodies.getD 0 []) = true ∧ Csvq.TxCommit.encodeBodyOk (genBodies.getD 1 []) = true ∧
    genBodies.length = 4 := by decide

open Csvq.TxCommit in
/-- **An encoder error aborts the commit before any swap** — over the regenerated Transaction.Commit, for any
    number of created and updated tables and whatever else fails: if the encoder refuses ONE table (a value too long
    for its fixed-length field, a character the table's encoding cannot spell, a tab inside an LTSV value …) then
    Transaction.Commit returns without having swapped in ANY table.  Every existing table still holds its complete
    old contents, and the half-written temporary files are left to the rollback (C11: close removes them). -/
theorem encode_error_aborts_before_swap (created updated : List Nat) (fail : Nat → Fail)
    (h : ∃ t ∈ created ++ updated, (fail t).encode = true) :
    (commitRun genBodies created updated fail).2 = false ∧
    (∀ ev ∈ (commitRun genBodies created updated fail).1, ev.2 ≠ "handler_commit") ∧
    ∀ t, swapped (commitRun genBodies created updated fail).1 fail t = false :=
  have h12 := gen_encode_loops_return_on_error
  ⟨(commit_aborts_of_encode_failure genBodies h12.1 h12.2.1 created updated fail h).1,
   (commit_aborts_of_encode_failure genBodies h12.1 h12.2.1 created updated fail h).2,
   nothing_swapped_of_encode_failure genBodies h12.1 h12.2.1 created updated fail h⟩

/-- … and the half-written temporary file of such a COMMIT is DISCARDED: the forced close of the handler (the
    regenerated Handler.closeWithErrors, run by the rollback that follows the failed COMMIT) removes it together
    with the lock, and the table keeps its old contents — whatever the encoder had already flushed into the
    temporary file (`half`: any contents) -/
theorem aborted_commit_discards_temp {α} (old half : α) :
    let s := runOps ((Csvq.Gen.closeWithErrorsOps.filter (· ≠ "remove(h.path)")).map parseOp) (startUpdate old half)
    s.data = some old ∧ s.temp = none ∧ s.lock = false ∧ s.stuck = false := by
  intro s
  have h : let t := runOps ((Csvq.Gen.closeWithErrorsOps.filter (· ≠ "remove(h.path)")).map parseOp) symStart
      t.data = some false ∧ t.temp = none ∧ t.lock = false ∧ t.stuck = false := by decide
  have e : s = (runOps ((Csvq.Gen.closeWithErrorsOps.filter (· ≠ "remove(h.path)")).map parseOp) symStart).map
      (fun b => if b then half else old) := by
    show runOps _ (startUpdate old half) = _
    rw [map_run, sym_start]
  obtain ⟨h1, h2, h3, h4⟩ := h
  rw [e]
  simp only [TState.map, h1, h2, h3, h4, Option.map]
  simp

open Csvq.TxCommit in
/-- and when nothing fails every table is swapped in (the model is not the constant "nothing happens") -/
theorem commit_without_failure_swaps_all :
    let r := commitRun genBodies [0, 1] [2, 3, 4] (fun _ => {})
    r.2 = true ∧ ([0, 1, 2, 3, 4].all fun t => swapped r.1 (fun _ => {}) t) = true := by decide

open Csvq.TxCommit in
/-- the check is not vacuous: a loop body that goes on after a failed encode (its error only looked at after the
    ending line break was written, or not at all) is rejected -/
theorem encode_body_check_rejects_ignored_error :
    encodeBodyOk ["truncate", "if{", "return", "}", "seek", "if{", "return", "}", "encode", "write", "if{", "return", "}"] = false ∧
    encodeBodyOk ["truncate", "seek", "encode", "if{", "return", "}", "handler_commit"] = false := by decide

open Csvq.TxCommit in
/-- the ending line break is written in the encoding OF THE FILE IT ENDS: two tables of one transaction with the same
    line break and different encodings end differently -/
theorem ending_line_break_follows_the_encoding :
    endingLineBreak "csv" "UTF8" "LF" = [10] ∧ endingLineBreak "csv" "UTF16LE" "LF" = [10, 0] ∧
    endingLineBreak "csv" "UTF16BEM" "CRLF" = [0, 13, 0, 10] ∧ endingLineBreak "jsonl" "UTF16LE" "LF" = [10] := by decide

/-- the structured effect list of Transaction.Commit is the reviewed one -/
theorem gen_txcommit_eq_ref : Csvq.Gen.fxTransactionCommit = Csvq.Ref.fxTransactionCommit := by decide

/-- updated tables are written through the temp file: NewHandlerForUpdate creates it, after the lock -/
theorem update_takes_lock_then_temp :
    Csvq.Gen.fxNewHandlerForUpdate.filter
        (fun s => s ∈ ["control_file(Lock)", "control_file(RLock)", "control_file(Temporary)", "open_exclusive(path)", "open_shared(h.path)"])
      = ["control_file(Lock)", "open_exclusive(path)", "control_file(Temporary)"] := by decide

/-- **Crash safety.**  For any number of tables, any contents, and ANY interleaving `l` of the
    tables' commit operations in which table `i` performs the generated sequence: after every
    prefix of `l` (a crash at any instant) the file of table `i` holds its complete old or its
    complete new contents — never missing, never mixed. -/
theorem crash_old_or_new {α} (l : List (Nat × FsOp)) (i : Nat) (hi : proj i l = genCommit)
    (old new : Nat → α) (k : Nat) :
    let s := runTagged (l.take k) (fun j => startUpdate (old j) (new j))
    (s i).data = some (old i) ∨ (s i).data = some (new i) := by
  intro s
  show (runTagged (l.take k) _ i).data = _ ∨ (runTagged (l.take k) _ i).data = _
  rw [runTagged_proj]
  obtain ⟨k', hk'⟩ := proj_take i l k
  rw [hk', hi]
  exact old_or_new_of_check genCommit gen_crash_safe k' (old i) (new i)

/-- after a crash the table file exists, so once the leftover control files are deleted (as the
    manual instructs) the table can be opened again -/
theorem recoverable {α} (l : List (Nat × FsOp)) (i : Nat) (hi : proj i l = genCommit)
    (old new : Nat → α) (k : Nat) :
    ((runTagged (l.take k) (fun j => startUpdate (old j) (new j))) i).data ≠ none := by
  have := crash_old_or_new l i hi old new k
  rcases this with h | h <;> simp [h]

/-- other tables' operations never touch this table's files -/
theorem frame {α} (l : List (Nat × FsOp)) (i : Nat) (hi : proj i l = []) (s : Nat → TState α) :
    (runTagged l s) i = s i := by
  rw [runTagged_proj, hi]; rfl

/-! non-vacuity: three tables committed one after the other -/
example : proj 1 ((genCommit.map (0, ·)) ++ (genCommit.map (1, ·)) ++ (genCommit.map (2, ·))) = genCommit := by decide

end Csvq.C10
