/-
  C03 — chains of set operators inside a recursive table's definition.  Property theorems only (Model/RecChain.lean).
-/
import Csvq.Props.C03
import Csvq.Model.RecChain
namespace Csvq.C03
open Csvq Csvq.Rel

/-- one member with UNION ALL is the recursion of Model/Rel.lean (`recursive_cte_spec`: the generations up to the
    first empty one) -/
theorem rec_loop_fuel_all (step : List Row → List Row) (fuel : Nat) (acc g : List Row) :
    (recLoopF mergeAll step fuel acc g).map (fun p => p.1) = recLoop step fuel acc g := by
  induction fuel generalizing acc g with
  | zero => rfl
  | succ n ih =>
    simp only [recLoopF, recLoop]
    split
    · rfl
    · exact ih _ _

/-- … and with UNION the de-duplicating recursion (`recursive_union_spec`) -/
theorem rec_loop_fuel_distinct {κ : Type} [DecidableEq κ] (key : Row → κ) (step : List Row → List Row) (fuel : Nat)
    (acc g : List Row) :
    (recLoopF (mergeDistinct key) step fuel acc g).map (fun p => p.1) = recLoopU key step fuel acc g := by
  induction fuel generalizing acc g with
  | zero => rfl
  | succ n ih =>
    simp only [recLoopF, recLoopU]
    split
    · rfl
    · exact ih _ _

theorem rec_chain_single (step : List Row → List Row) (fuel : Nat) (a : List Row) :
    (recChainImpl [⟨mergeAll, step⟩] fuel a).map (fun p => p.1) = recursiveImpl step fuel a := by
  unfold recursiveImpl
  rw [← rec_loop_fuel_all]
  simp only [recChainImpl]
  cases recLoopF mergeAll step fuel a a with
  | none => rfl
  | some p => rfl

/-- the chain is the left-nested recursion: the finished result of the members so far is the anchor of the next
    member, and the calls left are handed on -/
theorem rec_chain_append (ms1 ms2 : List RecMember) (fuel : Nat) (a : List Row) :
    recChainImpl (ms1 ++ ms2) fuel a =
      match recChainImpl ms1 fuel a with
      | none => none
      | some (out, fuel') => recChainImpl ms2 fuel' out := by
  induction ms1 generalizing fuel a with
  | nil => rfl
  | cons m ms ih =>
    simp only [List.cons_append, recChainImpl]
    cases recLoopF m.merge m.step fuel a a with
    | none => rfl
    | some p => exact ih _ _

/-- every call counts once: a member that ends with `f` calls left used `fuel - f` of them, at least one (the step
    that came back empty) -/
theorem rec_loop_fuel_used (merge : List Row → List Row → List Row) (step : List Row → List Row) (fuel : Nat)
    (acc g out : List Row) (f : Nat) (h : recLoopF merge step fuel acc g = some (out, f)) : f < fuel := by
  induction fuel generalizing acc g with
  | zero => simp [recLoopF] at h
  | succ n ih =>
    simp only [recLoopF] at h
    split at h
    · simp only [Option.some.injEq, Prod.mk.injEq] at h; omega
    · have := ih _ _ h; omega

/-- only the TOTAL number of calls matters: with `d` more calls allowed the same result, `d` more left -/
theorem rec_loop_fuel_mono (merge : List Row → List Row → List Row) (step : List Row → List Row) (fuel d : Nat)
    (acc g out : List Row) (f : Nat) (h : recLoopF merge step fuel acc g = some (out, f)) :
    recLoopF merge step (fuel + d) acc g = some (out, f + d) := by
  induction fuel generalizing acc g with
  | zero => simp [recLoopF] at h
  | succ n ih =>
    rw [Nat.add_right_comm]
    simp only [recLoopF] at h ⊢
    split at h
    · rename_i he
      simp only [he, if_true]
      simp only [Option.some.injEq, Prod.mk.injEq] at h
      simp [h.1, h.2]
    · rename_i he
      simp only [he, if_false]
      exact ih _ _ h

theorem rec_chain_fuel_mono (ms : List RecMember) (fuel d : Nat) (a out : List Row) (f : Nat)
    (h : recChainImpl ms fuel a = some (out, f)) : recChainImpl ms (fuel + d) a = some (out, f + d) := by
  induction ms generalizing fuel a with
  | nil => simp only [recChainImpl, Option.some.injEq, Prod.mk.injEq] at h ⊢; exact ⟨h.1, by omega⟩
  | cons m ms ih =>
    simp only [recChainImpl] at h ⊢
    cases h1 : recLoopF m.merge m.step fuel a a with
    | none => rw [h1] at h; cases h
    | some p =>
      obtain ⟨o1, f1⟩ := p
      rw [h1] at h
      rw [rec_loop_fuel_mono m.merge m.step fuel d a a o1 f1 h1]
      exact ih _ _ h

/-- the chain needs at least one call per member: `--limit-recursion` below the number of members is the limit
    error whatever the tables hold -/
theorem rec_chain_needs_call_per_member (ms : List RecMember) (fuel : Nat) (a out : List Row) (f : Nat)
    (h : recChainImpl ms fuel a = some (out, f)) : f + ms.length ≤ fuel := by
  induction ms generalizing fuel a with
  | nil => simp only [recChainImpl, Option.some.injEq, Prod.mk.injEq] at h; simp; omega
  | cons m ms ih =>
    simp only [recChainImpl] at h
    cases h1 : recLoopF m.merge m.step fuel a a with
    | none => rw [h1] at h; cases h
    | some p =>
      obtain ⟨o1, f1⟩ := p
      rw [h1] at h
      have := ih _ _ h
      have := rec_loop_fuel_used _ _ _ _ _ _ _ h1
      simp only [List.length_cons]
      omega

/-! ## non-vacuity -/

-- a UNION ALL b UNION ALL c over n ↦ n + 1 below 3 (member b) and n ↦ 10 for n = 3 (member c): 1; 2, 3; 10
example : recChainImpl
      [⟨mergeAll, fun g => (g.filter (fun r => r == [cI 1] || r == [cI 2])).map (fun r => if r == [cI 1] then [cI 2] else [cI 3])⟩,
       ⟨mergeAll, fun g => (g.filter (fun r => r == [cI 3])).map (fun _ => [cI 10])⟩] 5 [[cI 1]]
    = some ([[cI 1], [cI 2], [cI 3], [cI 10]], 0) := by decide
-- the same with --limit-recursion 4: five calls are needed (3 for b, 2 for c)
example : recChainImpl
      [⟨mergeAll, fun g => (g.filter (fun r => r == [cI 1] || r == [cI 2])).map (fun r => if r == [cI 1] then [cI 2] else [cI 3])⟩,
       ⟨mergeAll, fun g => (g.filter (fun r => r == [cI 3])).map (fun _ => [cI 10])⟩] 4 [[cI 1]]
    = none := by decide

end Csvq.C03
