/-
  C17 — what a PEER is.  Property theorems only.
  Code: lib/query/analytic_function.go (Rank, DenseRank, CumeDist, PercentRank, perseCumulativeGroups),
  lib/query/sort_value.go (SortValue.Less, SortValue.EquivalentTo).  Model: Csvq/Model/Analytic.lean, Model/Sort.lean.

  RANK, DENSE_RANK, CUME_DIST and PERCENT_RANK are defined through the peers of a row: the rows of its partition
  that carry an equal ORDER BY key.  "Equal" is `SortValues.EquivalentTo` — NOT "the ORDER BY comparison puts
  neither row before the other".  The two part ways on keys the comparison cannot order although they differ
  (`incomparable_not_equivalent`): TRUE and FALSE, a datetime next to a number or a text, a boolean next to a
  text.  On such keys the sorted partition may even interleave non-equivalent rows, and the textbook forms of
  Props/C17.lean (`Peers`: symmetric, transitive, peers adjacent) do not apply.  The statements here need no
  hypothesis on the ORDER BY comparison and hold for EVERY partition in EVERY order:

  * `rank_and_cume_dist_agree_on_groups` — the four functions are four readings of ONE division of the partition
    into groups (`perseCumulativeGroups`; RANK and DENSE_RANK run their own loops in the code): a group that
    follows c rows, has l rows and is the k-th gives RANK c + 1, DENSE_RANK k, CUME_DIST (c + l) / n,
    PERCENT_RANK c / (n - 1).  (Harness law analytic:rank_family_groups_disagree checks exactly this on the
    implementation's outputs.)
  * `peer_groups_are_runs_from_the_head` — that division: maximal runs of rows EquivalentTo the run's first row.
  * `peers_are_equivalence_classes` — for a symmetric and transitive `EquivalentTo` (keys of one class) these are
    the maximal runs of ADJACENT equivalent rows: two neighbours share a group iff they are EquivalentTo.

  Specification-side definitions used in the statements (Csvq/Lemmas/AnalyticPeers.lean):
    groupCols G c k   for every record of every group of G: (record, rows in the groups before it, rows of its
                      group, 0-based number of its group)
    adjacentRuns e p  p cut between two adjacent rows iff the later one is not `e`-equivalent to the earlier one
    openLoop          (Csvq/Lemmas/Analytic.lean) perseCumulativeGroups with the open group kept apart
-/
import Csvq.Lemmas.AnalyticPeers
import Csvq.Model.AnalyticFull
namespace Csvq.C17
open Csvq Csvq.Analytic

/-! ## one division into groups, four readings -/

/-- **The groups RANK uses, the groups DENSE_RANK uses and the groups CUME_DIST / PERCENT_RANK use coincide**, for
    every peer relation `eqv` (no symmetry, transitivity or adjacency assumed) and every partition: with
    `G = perseCumulativeGroups(partition)` every record of a group that follows `c` rows, has `l` rows and is
    group number `k` (0-based) receives RANK `c + 1`, DENSE_RANK `k + 1`, CUME_DIST `(c + l) / n` and
    PERCENT_RANK `c / (n - 1)` (1 for a single-row partition).  RANK and DENSE_RANK do not call
    perseCumulativeGroups — their own loops compare with the first record of the current run all the same. -/
theorem rank_and_cume_dist_agree_on_groups (eqv : Nat → Nat → Bool) (p : List Nat) :
    rank eqv p = (groupCols (cumGroups eqv p none []) 0 0).map (fun r => (r.1, r.2.1 + 1)) ∧
    denseRank eqv p = (groupCols (cumGroups eqv p none []) 0 0).map (fun r => (r.1, r.2.2.2 + 1)) ∧
    cumeDist eqv p = (groupCols (cumGroups eqv p none []) 0 0).map (fun r => (r.1, (r.2.1 + r.2.2.1, p.length))) ∧
    percentRank eqv p = (groupCols (cumGroups eqv p none []) 0 0).map
      (fun r => (r.1, if 1 < p.length then (r.2.1, p.length - 1) else (1, 1))) := by
  refine ⟨?_, ?_, cumeLoop_groups p.length _ 0 0, percentLoop_groups p.length _ 0 0⟩
  · cases p with
    | nil => rfl
    | cons x rest =>
      rw [cumGroups_eq]
      have := rankLoop_groups eqv rest x [x] 0 0
      simp only [List.map_cons, List.map_nil, List.length_cons, List.length_nil, Nat.zero_add,
        List.singleton_append] at this
      rw [← this]
      simp [rank, rankLoop, sameRank]
  · cases p with
    | nil => rfl
    | cons x rest =>
      rw [cumGroups_eq]
      have := denseLoop_groups eqv rest x [x] 0 0
      simp only [List.map_cons, List.map_nil, Nat.zero_add, List.singleton_append] at this
      rw [← this]
      simp [denseRank, denseLoop, sameRank]

/-- the records of `groupCols` are the records of the groups, in order: nothing lost, nothing twice -/
theorem groupCols_records : ∀ (G : List (List Nat)) (c k : Nat), (groupCols G c k).map Prod.fst = G.flatten
  | [], _, _ => rfl
  | g :: gs, c, k => by
    simp only [groupCols, List.map_append, List.map_map, Function.comp_def, List.flatten_cons,
      groupCols_records gs, List.map_id']

/-! ## the division itself -/

/-- perseCumulativeGroups, for EVERY `eqv`: a record joins the current group iff it is EquivalentTo the group's
    FIRST record (`openLoop`: the loop with the open group kept apart), else it opens the next group -/
theorem peer_groups_are_runs_from_the_head (eqv : Nat → Nat → Bool) (x : Nat) (rest : List Nat) :
    cumGroups eqv (x :: rest) none [] = openLoop eqv rest x [x] ∧
    (∀ idx tl h g, openLoop eqv (idx :: tl) h g
      = if eqv idx h then openLoop eqv tl h (g ++ [idx]) else g :: openLoop eqv tl idx [idx]) ∧
    (∀ h g, openLoop eqv [] h g = [g]) :=
  ⟨cumGroups_eq eqv x rest, fun _ _ _ _ => rfl, fun _ _ => rfl⟩

/-- the adjacent runs concatenate to the partition -/
theorem adjacentRuns_flatten (eqv : Nat → Nat → Bool) (p : List Nat) : (adjacentRuns eqv p).flatten = p := by
  cases p with
  | nil => rfl
  | cons x rest => simp [adjacentRuns, adjLoop_flatten]

/-- **The peer groups of CUME_DIST / PERCENT_RANK (and, `rank_and_cume_dist_agree_on_groups`, of RANK and
    DENSE_RANK) are exactly the maximal runs of EquivalentTo rows**: for a symmetric and transitive `EquivalentTo`
    perseCumulativeGroups cuts between two adjacent rows iff they are not equivalent — whatever the ORDER BY
    comparison makes of them, and whether or not equivalent rows ended up next to each other. -/
theorem peers_are_equivalence_classes (eqv : Nat → Nat → Bool)
    (symm : ∀ a b, eqv a b = true → eqv b a = true)
    (trans : ∀ a b c, eqv a b = true → eqv b c = true → eqv a c = true) (p : List Nat) :
    cumGroups eqv p none [] = adjacentRuns eqv p := by
  cases p with
  | nil => rfl
  | cons x rest =>
    rw [cumGroups_eq]
    exact openLoop_eq_adjLoop eqv symm trans rest x x [x] (Or.inl rfl)

/-! ## where "the comparison cannot separate them" and "equivalent" part ways -/

/-- `SortValue.Less` is UNKNOWN in both directions — and neither value is NULL, so `SortValues.Less` goes on to the
    next ORDER BY item and, with none left, leaves the rows tied — while `EquivalentTo` is false: TRUE / FALSE, a
    datetime next to an integer, a float or a text, a boolean next to a text or a datetime -/
theorem incomparable_not_equivalent :
    ((SortVal.bool true).less (.bool false) = .U ∧ (SortVal.bool false).less (.bool true) = .U ∧
      (SortVal.bool true).equiv (.bool false) = false ∧ (SortVal.bool false).equiv (.bool true) = false) ∧
    (∀ ns i f s, (SortVal.dt ns).less (.int i f s) = .U ∧ (SortVal.int i f s).less (.dt ns) = .U ∧
      (SortVal.dt ns).equiv (.int i f s) = false ∧ (SortVal.int i f s).equiv (.dt ns) = false) ∧
    (∀ ns f s, (SortVal.dt ns).less (.flt f s) = .U ∧ (SortVal.flt f s).less (.dt ns) = .U ∧
      (SortVal.dt ns).equiv (.flt f s) = false ∧ (SortVal.flt f s).equiv (.dt ns) = false) ∧
    (∀ ns s, (SortVal.dt ns).less (.str s) = .U ∧ (SortVal.str s).less (.dt ns) = .U ∧
      (SortVal.dt ns).equiv (.str s) = false ∧ (SortVal.str s).equiv (.dt ns) = false) ∧
    (∀ b s, (SortVal.bool b).less (.str s) = .U ∧ (SortVal.str s).less (.bool b) = .U ∧
      (SortVal.bool b).equiv (.str s) = false ∧ (SortVal.str s).equiv (.bool b) = false) ∧
    (∀ b ns, (SortVal.bool b).less (.dt ns) = .U ∧ (SortVal.dt ns).less (.bool b) = .U ∧
      (SortVal.bool b).equiv (.dt ns) = false ∧ (SortVal.dt ns).equiv (.bool b) = false) :=
  ⟨⟨rfl, rfl, rfl, rfl⟩, fun _ _ _ _ => ⟨rfl, rfl, rfl, rfl⟩, fun _ _ _ => ⟨rfl, rfl, rfl, rfl⟩,
   fun _ _ => ⟨rfl, rfl, rfl, rfl⟩, fun _ _ => ⟨rfl, rfl, rfl, rfl⟩, fun _ _ => ⟨rfl, rfl, rfl, rfl⟩⟩

/-- none of these values is NULL: the NULLS FIRST / LAST rule does not order them either -/
theorem incomparable_not_null (b : Bool) (ns : Int) (s : Bytes) :
    (SortVal.bool b).isNull = false ∧ (SortVal.dt ns).isNull = false ∧ (SortVal.str s).isNull = false :=
  ⟨rfl, rfl, rfl⟩

/-! ## non-vacuity: a partition ordered by a boolean key -/

/-- ORDER BY flag over the rows (TRUE, TRUE, FALSE, FALSE) -/
def exKey : Nat → List SortVal
  | 0 => [.bool true]
  | 1 => [.bool true]
  | _ => [.bool false]

def exPeers (i j : Nat) : Bool := rowsEquiv (exKey i) (exKey j)

/-- what a grouping by "neither sorts before the other" would use instead -/
def exTied (i j : Nat) : Bool :=
  !rowsLess [⟨.asc, .first⟩] (exKey i) (exKey j) && !rowsLess [⟨.asc, .first⟩] (exKey j) (exKey i)

example : cumGroups exPeers [0, 1, 2, 3] none [] = [[0, 1], [2, 3]] := by decide
example : cumeDist exPeers [0, 1, 2, 3] = [(0, (2, 4)), (1, (2, 4)), (2, (4, 4)), (3, (4, 4))] := by decide
example : percentRank exPeers [0, 1, 2, 3] = [(0, (0, 3)), (1, (0, 3)), (2, (2, 3)), (3, (2, 3))] := by decide
example : rank exPeers [0, 1, 2, 3] = [(0, 1), (1, 1), (2, 3), (3, 3)] := by decide
/-- the comparison ties all four rows: grouping by its ties would give CUME_DIST = 1 to every row -/
example : cumeDist exTied [0, 1, 2, 3] = [(0, (4, 4)), (1, (4, 4)), (2, (4, 4)), (3, (4, 4))] := by decide
/-- interleaved (the sort leaves tied rows where they were): runs, not classes -/
example : cumGroups exPeers [0, 2, 1, 3] none [] = [[0], [2], [1], [3]] := by decide
example : adjacentRuns exPeers [0, 2, 1, 3] = [[0], [2], [1], [3]] := by decide
example : groupCols [[0, 1], [2, 3]] 0 0 = [(0, 0, 2, 0), (1, 0, 2, 0), (2, 2, 2, 1), (3, 2, 2, 1)] := by decide

end Csvq.C17
