/-
  C17, fourth part — the session flags as a dimension of analytic evaluation (Model/AnalyticFlags.lean):

    * DISTINCT of every aggregate with OVER in BOTH equality modes (utils.go Distinguish behind windowValues /
      AnalyticListAgg / AnalyticJsonAgg / user-defined aggregates): the values handed to the aggregate are, in frame
      order, the first occurrence of every key class of the frame's cells — loosely equal values (C04's `norm`)
      without --strict-equal, identical values (SerializeIdenticalKey) with it;
    * the strict mode keeps at least what the loose mode keeps, and exactly the same iff no two cells are loosely
      equal without being identical;
    * VAR / VARP / STDEV / STDEVP as analytic functions (C04's exact binary64 model of variance / math.Pow(x, 2) /
      math.Sqrt) over exactly the cells of the row's frame;
    * partitions and peers under --strict-equal are classes of identical values;
    * the CALL inside Distinguish and the mode dispatch inside SerializeComparisonKeys are regenerated from
      lib/query/utils.go on every run (extract/analyticfacts) and pinned here.
-/
import Csvq.Model.AnalyticFlags
import Csvq.Lemmas.AnalyticFlags
import Csvq.Lemmas.Analytic
import Csvq.Props.C04Agg
import Csvq.Props.C17
import Csvq.Gen.AnalyticFacts
import Csvq.Gen.SortFacts
namespace Csvq.C17
open Csvq Csvq.Analytic

/-! ## 1. the tie to the source -/

set_option maxRecDepth 16384 in
/-- REGENERATED from lib/query/utils.go and analytic_function.go: for every value of its list Distinguish calls
    SerializeComparisonKeys (and no other key writer) with the one-element slice and the session flags;
    SerializeComparisonKeys decides on `flags.StrictEqual` between SerializeIdenticalKey and SerializeKey;
    windowValues, AnalyticListAgg and AnalyticJsonAgg pass the values through Distinguish with `scope.Tx.Flags`
    exactly when the call carries DISTINCT, after all values have been collected and before anything else is done
    with them; Analyze hands the values of windowValues unchanged to the built-in or the user-defined aggregate -/
theorem gen_distinguish_dispatches_on_strict_equal :
    Gen.An.distinguishKeyCalls = [("SerializeComparisonKeys", ["buf", "[]value.Primary{v}", "flags"])] ∧
    Gen.An.comparisonKeysDispatch
      = [("flags.StrictEqual", ["SerializeIdenticalKey(buf, val)"], ["SerializeKey(buf, val, flags)"])] ∧
    Gen.An.comparisonKeysLoop
      = ("for i, val := range values", ["if 0 < i {buf.WriteByte(58)}", "if flags.StrictEqual {SerializeIdenticalKey(buf, val)} else {SerializeKey(buf, val, flags)}"]) ∧
    Gen.An.comparisonKeyWriters
      = [("SerializeKey", ["buf *bytes.Buffer", "val value.Primary", "flags *option.Flags"]), ("SerializeIdenticalKey", ["buf *bytes.Buffer", "val value.Primary"])] ∧
    Gen.An.distinguishStatements
      = ["values := make(map[string]int, 40)", "valueKeys := make([]string, 0, 40)", "buf := GetComparisonKeysBuf()", "for i, v := range list {buf.Reset() SerializeComparisonKeys(buf, []value.Primary{v}, flags) key := buf.String() if _, ok := values[key]; !ok {values[key] = i valueKeys = append(valueKeys, key)}}", "PutComparisonkeysBuf(buf)", "distinguished := make([]value.Primary, len(valueKeys))", "for i, key := range valueKeys {distinguished[i] = list[values[key]]}", "return distinguished"] ∧
    Gen.An.distinctGates
      = [("windowValues", ["if expr.IsDistinct() {values = Distinguish(values, scope.Tx.Flags)}", "return values, nil"]),
         ("AnalyticListAgg.Execute", ["if expr.IsDistinct() {values = Distinguish(values, scope.Tx.Flags)}", "val := ListAgg(values, separator)", "list := make(map[int]value.Primary, len(partition))", "for _, idx := range partition {list[idx] = val}", "return list, nil"]),
         ("AnalyticJsonAgg.Execute", ["if expr.IsDistinct() {values = Distinguish(values, scope.Tx.Flags)}", "val := JsonAgg(values)", "list := make(map[int]value.Primary, len(partition))", "for _, idx := range partition {list[idx] = val}", "return list, nil"])] ∧
    Gen.An.frameValueCalls
      = [("WindowFrameSet", ["partition", "fn.AnalyticClause"]), ("windowValues", ["ctx", "seqScope", "frame", "partition", "fn", "valueCache"]), ("aggfn", ["values", "scope.Tx.Flags"]), ("udfn.ExecuteAggregate", ["ctx", "seqScope", "values", "udfnArgs"])] := by
  decide

/-- the model's comparison key has exactly the two branches of that dispatch: SerializeIdenticalKey (`normStrict`
    of the raw value, a text trimmed but not upper-cased) under the flag, SerializeKey (`norm`) otherwise — the
    writers behind the two names are tied to `normStrict` / `norm` by Csvq.C04.gen_strict_ladder_eq_model /
    gen_ladder_eq_model -/
theorem distinct_key_is_mode_dispatch (p : Profile) :
    cmpKey Flags.strict p = normStrict p.raw (trimOf p.raw) ∧ cmpKey Flags.loose p = norm p := ⟨rfl, rfl⟩

set_option maxRecDepth 16384 in
/-- REGENERATED: under the flag NewSortValue stores SerializeIdenticalKey of the cell, SortValues.Serialize (the
    partition key) writes that stored key instead of the typed one, and SortValue.EquivalentTo (the peers) is
    bytes.Equal of the stored keys -/
theorem gen_strict_equal_reaches_partitions_and_peers :
    Gen.An.newSortValueStatements.getLast? = some "return sortValue" ∧
    Gen.An.newSortValueStatements.dropLast.getLast?
      = some "if flags.StrictEqual {sortValue.SerializedKey = &bytes.Buffer{} SerializeIdenticalKey(sortValue.SerializedKey, val)}" ∧
    Gen.An.serializePrologue = ["if 0 < i {buf.WriteByte(58)}", "if val.SerializedKey != nil {buf.Write(val.SerializedKey.Bytes()) continue}"] ∧
    Gen.strictPrefixEquiv = ["{", "return", "bytes.Equal(v.SerializedKey.Bytes(),", "compareValue.SerializedKey.Bytes())", "}"] := by
  decide

/-! ## 2. DISTINCT inside the analytic path, both modes -/

/-- Distinguish under either mode: the kept cells are exactly the first occurrence of every key class, in list
    order (a cell is kept iff no cell before it has its key); one cell per class, every class represented -/
theorem distinguish_is_first_of_every_class (fl : Flags) (cells : List Profile) :
    distinguishF fl cells = firstsFrom (cmpKey fl) [] cells ∧
    (distinguishF fl cells).Sublist cells ∧
    ((distinguishF fl cells).map (cmpKey fl)).Nodup ∧
    (∀ p ∈ cells, cmpKey fl p ∈ (distinguishF fl cells).map (cmpKey fl)) := by
  have h := Csvq.Agg.keepFirstBy_spec (cmpKey fl) cells
  refine ⟨keepFirst_firstsFrom (cmpKey fl) cells, h.1, ?_, ?_⟩
  · unfold distinguishF; rw [h.2]; exact firstOcc_nodup _
  · intro p hp
    unfold distinguishF; rw [h.2, mem_firstOcc]; exact List.mem_map_of_mem hp

/-- WINDOW DISTINCT, for every flag setting, every aggregate (built-in or user-defined: `A idx values`), every
    ROWS frame and every partition: the record `x` receives the aggregate of — in frame order — the first
    occurrence of every key class among the cells of ITS frame (`frameRows`: the positions [lo, hi] ∩ [0, len) of its
    partition); without DISTINCT, of all the frame's cells -/
theorem window_distinct_spec {β : Type} (fl : Flags) (distinct : Bool) (prof : Nat → Profile)
    (A : Nat → List Profile → β) (w : Window) (p : List Nat) :
    aggOverF fl distinct prof A w p
      = perRow (fun pre x post => A x (frameCellsSpec fl distinct prof w pre x post)) [] p := by
  unfold aggOverF
  have h := frames_spec (fun idx rows => A idx (if distinct then distinguishF fl (rows.map prof) else rows.map prof)) w p
  simp only [windowCells]
  rw [h]
  apply perRow_congr
  intro a x b _
  unfold frameCellsSpec
  cases distinct with
  | false => rfl
  | true => simp only [if_true]; rw [(distinguish_is_first_of_every_class fl _).1]

/-- the same for LISTAGG / JSON_AGG with OVER: the whole partition is the frame of every record -/
theorem listagg_distinct_spec {β : Type} (fl : Flags) (distinct : Bool) (prof : Nat → Profile)
    (agg : List Profile → β) (p : List Nat) :
    listAggOverF fl distinct prof agg p
      = perRow (fun pre x post => agg (if distinct then firstsFrom (cmpKey fl) [] ((pre ++ x :: post).map prof)
                                        else (pre ++ x :: post).map prof)) [] p := by
  unfold listAggOverF
  rw [perRow_const _ (fun _ => agg (if distinct then distinguishF fl (p.map prof) else p.map prof)) p []]
  intro a x b e
  simp only [List.nil_append]
  rw [← e]
  cases distinct with
  | false => rfl
  | true => simp only [if_true]; rw [(distinguish_is_first_of_every_class fl _).1]

/-- `aggOverF` IS the aggregate branch of the code model (Model/Analytic.lean `aggOverAt repoState`: windowValues
    hands the frame's cells to the aggregate), with the DISTINCT gate in front of the aggregate -/
theorem agg_over_flags_is_code {β : Type} (fl : Flags) (distinct : Bool) (cells : Nat → Val)
    (A : Nat → List Profile → β) (w : Window) (p : List Nat) :
    aggOverAt repoState cells
        (fun i vs => A i (if distinct then distinguishF fl (vs.map cellProfile) else vs.map cellProfile)) w p
      = some (aggOverF fl distinct (fun i => cellProfile (cells i)) A w p) := by
  simp only [aggOverAt, repoState, Bool.false_eq_true, if_false, aggOverFixed, aggOverF, windowCells, List.map_map]
  rfl

/-- without the flag this is the DISTINCT the analytic model had before (C04's `norm` classes) -/
theorem loose_distinct_is_c04_distinct (cells : List Profile) :
    distinguishF Flags.loose cells = distinctProfiles cells ∧ distinguishF Flags.loose cells = Agg.distinguish cells :=
  ⟨rfl, rfl⟩

/-! ## 3. strict refines loose -/

theorem cellProfile_raw (v : Val) : (cellProfile v).raw = v := by
  cases v <;> rfl

/-- identical values are loosely equal: every conversion of a text (integer, float, datetime, boolean, the
    upper-cased text) reads the TRIMMED text, and SerializeIdenticalKey of a text is its trimmed text -/
theorem identical_is_loosely_equal (a b : Val) (h : strictKey (cellProfile a) = strictKey (cellProfile b)) :
    norm (cellProfile a) = norm (cellProfile b) := by
  unfold strictKey at h
  rw [cellProfile_raw, cellProfile_raw] at h
  cases a <;> cases b <;> simp only [normStrict, trimOf, reduceCtorEq, NKey.int.injEq, NKey.flt.injEq, NKey.dt.injEq,
    NKey.str.injEq, NKey.bool.injEq, NKey.tern.injEq] at h
  all_goals first
    | rfl
    | (subst h; rfl)
    | skip
  case dt.dt x y =>
    -- two datetimes with the same int64 image
    simp [cellProfile, profileOf, norm, Profile.isNull, h]
  case str.str s t =>
    -- two texts with the same trimmed text
    simp [cellProfile, profileOfText, norm, Profile.isNull, PF.strToIntStrictB, PF.strToFloat, PT.strToTime,
      PF.strTernaryB, h]

/-- STRICT REFINES LOOSE, for cells whose coercion profiles are the conversions of their values: everything DISTINCT
    keeps without --strict-equal it keeps with it (in the same order), and the two modes hand the aggregate the SAME
    values iff no two cells of the frame are loosely equal without being identical -/
theorem strict_distinct_refines_loose (cells : List Profile) (hwf : ∀ p ∈ cells, p = cellProfile p.raw) :
    (distinguishF Flags.loose cells).Sublist (distinguishF Flags.strict cells) ∧
    (distinguishF Flags.loose cells = distinguishF Flags.strict cells ↔
      ∀ a ∈ cells, ∀ b ∈ cells, norm a = norm b → strictKey a = strictKey b) := by
  have R : ∀ a ∈ ([] : List Profile) ++ cells, ∀ b ∈ ([] : List Profile) ++ cells,
      cmpKey Flags.strict a = cmpKey Flags.strict b → cmpKey Flags.loose a = cmpKey Flags.loose b := by
    intro a ha b hb e
    have ha' : a ∈ cells := by simpa using ha
    have hb' : b ∈ cells := by simpa using hb
    show norm a = norm b
    rw [hwf a ha', hwf b hb']
    apply identical_is_loosely_equal
    rw [← hwf a ha', ← hwf b hb']; exact e
  rw [(distinguish_is_first_of_every_class Flags.loose cells).1, (distinguish_is_first_of_every_class Flags.strict cells).1]
  refine ⟨firstsFrom_sublist_of_refines _ _ cells [] R, ?_⟩
  have := firstsFrom_eq_iff (cmpKey Flags.loose) (cmpKey Flags.strict) cells [] R (by simp)
  simpa [cmpKey, Flags.loose, Flags.strict] using this

/-- hence COUNT(DISTINCT x) OVER (…) under --strict-equal is never smaller than without it -/
theorem strict_count_distinct_ge (cells : List Profile) (hwf : ∀ p ∈ cells, p = cellProfile p.raw) :
    Agg.count (distinguishF Flags.loose cells) ≤ Agg.count (distinguishF Flags.strict cells) := by
  have hs := ((strict_distinct_refines_loose cells hwf).1.filter fun p => !p.isNull).length_le
  rw [Csvq.C04.count_spec, Csvq.C04.count_spec]
  exact Int.ofNat_le.mpr hs

def twinCells : List Profile :=
  [cellProfile (.str [120]), cellProfile (.str [88]), cellProfile (.str [48, 49]), cellProfile (.int 1), cellProfile (.str [120, 32])]

/-- the witness that the two modes differ: the cells 'x', 'X', '01', 1, 'x ' — loosely two classes ('x' = 'X' = 'x ',
    '01' = 1), four classes of identical values ('x' and 'x ' are identical: the key of a text is trimmed) -/
theorem strict_distinct_differs_witness :
    (distinguishF Flags.loose twinCells).map Profile.raw = [.str [120], .str [48, 49]] ∧
    (distinguishF Flags.strict twinCells).map Profile.raw = [.str [120], .str [88], .str [48, 49], .int 1] ∧
    Agg.count (distinguishF Flags.loose twinCells) = 2 ∧ Agg.count (distinguishF Flags.strict twinCells) = 4 := by
  decide +kernel

/-! ## 4. VAR / VARP / STDEV / STDEVP over the frame -/

/-- the float cells of the row's frame (after DISTINCT), in frame order -/
def frameFloats (fl : Flags) (distinct : Bool) (prof : Nat → Profile) (w : Window)
    (pre : List Nat) (x : Nat) (post : List Nat) : List FVal :=
  Agg.floatList (frameCellsSpec fl distinct prof w pre x post)

/-- VAR / VARP with OVER: the value of the record `x` is the variance — average by a left fold in frame order, squared
    deviations by math.Pow(·, 2), divided by n − 1 (VAR) or n (VARP), all in exact binary64 — of exactly the cells of
    x's frame that convert to a float, DISTINCT (either mode) applied first; NULL when fewer than 2 (VAR) / 1 (VARP) -/
theorem var_over_frame_spec (fl : Flags) (distinct isP : Bool) (prof : Nat → Profile) (w : Window) (p : List Nat) :
    varOver fl distinct isP prof w p
      = perRow (fun pre x post =>
          if (frameFloats fl distinct prof w pre x post).length < (if isP then 1 else 2) then Agg.Res.null
          else .flt (Agg.variance (frameFloats fl distinct prof w pre x post) isP)) [] p := by
  unfold varOver
  rw [window_distinct_spec]
  apply perRow_congr
  intro a x b _
  unfold frameFloats
  cases isP <;> simp [Agg.var, Agg.varp]

/-- STDEV / STDEVP with OVER: the correctly rounded square root of that variance -/
theorem stdev_over_frame_spec (fl : Flags) (distinct isP : Bool) (prof : Nat → Profile) (w : Window) (p : List Nat) :
    stdevOver fl distinct isP prof w p
      = perRow (fun pre x post =>
          if (frameFloats fl distinct prof w pre x post).length < (if isP then 1 else 2) then Agg.Res.null
          else .flt (FVal.sqrt (Agg.variance (frameFloats fl distinct prof w pre x post) isP))) [] p := by
  unfold stdevOver
  rw [window_distinct_spec]
  apply perRow_congr
  intro a x b _
  unfold frameFloats
  cases isP <;> simp [Agg.stdev, Agg.stdevp, Agg.standardDeviation]

/-- … and every other built-in aggregate of C04's model, by name -/
theorem builtin_over_frame_spec (fl : Flags) (distinct : Bool) (prof : Nat → Profile) (kt : KeyText) (sep : Bytes)
    (name : String) (F : List Profile → Agg.Res) (_h : builtinAgg kt sep name = some F) (w : Window) (p : List Nat) :
    aggOverF fl distinct prof (fun _ l => F l) w p
      = perRow (fun pre x post => F (frameCellsSpec fl distinct prof w pre x post)) [] p :=
  window_distinct_spec fl distinct prof (fun _ l => F l) w p

/-! ## 5. partitions and peers under --strict-equal -/

/-- PARTITION BY under the flags: two records of the view are in the same partition iff their PARTITION BY values
    have pairwise the same comparison key of the mode … -/
theorem partition_spec_flags (fl : Flags) (view : List FRow) (r : FRow) (j : Nat) :
    j ∈ members (partKeyF fl r) (view.map (partKeyF fl)).zipIdx
      ↔ ∃ r', view[j]? = some r' ∧ r'.part.map (cmpKey fl) = r.part.map (cmpKey fl) := by
  rw [mem_members_zipIdx, List.getElem?_map]
  cases view[j]? with
  | none =>
    constructor
    · intro h; cases h
    · rintro ⟨_, e, _⟩; cases e
  | some r' =>
    simp only [Option.map_some, Option.some.injEq, partKeyF]
    constructor
    · intro h; exact ⟨r', rfl, h⟩
    · rintro ⟨r'', e, h⟩; cases e; exact h

/-- … under --strict-equal: iff they are pairwise IDENTICAL (same type, same trimmed text: 'x' and 'X', '01' and 1,
    TRUE and 'true' are different partitions) -/
theorem partition_spec_strict (view : List FRow) (r : FRow) (j : Nat) :
    j ∈ members (partKeyF Flags.strict r) (view.map (partKeyF Flags.strict)).zipIdx
      ↔ ∃ r', view[j]? = some r' ∧ r'.part.map strictKey = r.part.map strictKey :=
  partition_spec_flags Flags.strict view r j

/-- the strict partitions refine the loose ones -/
theorem strict_partitions_refine_loose (a b : FRow) (ha : ∀ p ∈ a.part, p = cellProfile p.raw)
    (hb : ∀ p ∈ b.part, p = cellProfile p.raw) (h : partKeyF Flags.strict a = partKeyF Flags.strict b) :
    partKeyF Flags.loose a = partKeyF Flags.loose b := by
  unfold partKeyF at h ⊢
  have gen : ∀ (xs ys : List Profile), (∀ p ∈ xs, p = cellProfile p.raw) → (∀ p ∈ ys, p = cellProfile p.raw) →
      xs.map (cmpKey Flags.strict) = ys.map (cmpKey Flags.strict) → xs.map (cmpKey Flags.loose) = ys.map (cmpKey Flags.loose) := by
    intro xs
    induction xs with
    | nil => intro ys _ _ e; cases ys with | nil => rfl | cons _ _ => cases e
    | cons x xs ih =>
      intro ys hx hy e
      cases ys with
      | nil => cases e
      | cons y ys =>
        simp only [List.map_cons, List.cons.injEq] at e ⊢
        refine ⟨?_, ih ys (fun p hp => hx p (List.mem_cons_of_mem _ hp)) (fun p hp => hy p (List.mem_cons_of_mem _ hp)) e.2⟩
        show norm x = norm y
        rw [hx x (by simp), hy y (by simp)]
        apply identical_is_loosely_equal
        rw [← hx x (by simp), ← hy y (by simp)]; exact e.1
  exact gen a.part b.part ha hb h

/-- the peers of RANK / DENSE_RANK / CUME_DIST / PERCENT_RANK under --strict-equal: rows whose ORDER BY values are
    pairwise identical — an equivalence relation (whatever the comparison does), so the peer groups of
    `cumGroups` are runs of identical ORDER BY values -/
theorem peers_strict_iff_identical (a b : FRow) :
    rowPeersF Flags.strict a b = true ↔ a.sortRaw.map strictKey = b.sortRaw.map strictKey := by
  simp [rowPeersF, Flags.strict]

theorem peers_strict_equivalence (a b c : FRow) :
    rowPeersF Flags.strict a a = true ∧
    (rowPeersF Flags.strict a b = true → rowPeersF Flags.strict b a = true) ∧
    (rowPeersF Flags.strict a b = true → rowPeersF Flags.strict b c = true → rowPeersF Flags.strict a c = true) := by
  refine ⟨(peers_strict_iff_identical a a).2 rfl, fun h => (peers_strict_iff_identical b a).2 ((peers_strict_iff_identical a b).1 h).symm, fun h1 h2 => ?_⟩
  exact (peers_strict_iff_identical a c).2 (((peers_strict_iff_identical a b).1 h1).trans ((peers_strict_iff_identical b c).1 h2))

/-- without the flag nothing changes: partition keys and peers are the ones of Model/AnalyticFull.lean -/
theorem loose_flags_are_the_old_model (r : FRow) (a b : FRow) :
    partKeyF Flags.loose r = r.part.map norm ∧ rowPeersF Flags.loose a b = rowsEquiv a.sort b.sort := ⟨rfl, rfl⟩

/-! ## non-vacuity -/

-- the key dispatch is observable: 'x' and 'X' share the loose key, not the strict one; 'x' and 'x ' share both
example : cmpKey Flags.loose (cellProfile (.str [120])) = cmpKey Flags.loose (cellProfile (.str [88])) := by decide +kernel
example : cmpKey Flags.strict (cellProfile (.str [120])) ≠ cmpKey Flags.strict (cellProfile (.str [88])) := by decide +kernel
example : cmpKey Flags.strict (cellProfile (.str [120])) = cmpKey Flags.strict (cellProfile (.str [120, 32])) := by decide +kernel
-- TRUE and 'true', 1 and '1' and 1.0: loosely equal, not identical
example : cmpKey Flags.loose (cellProfile (.bool true)) = cmpKey Flags.loose (cellProfile (.str [116, 114, 117, 101])) := by decide +kernel
example : cmpKey Flags.strict (cellProfile (.bool true)) ≠ cmpKey Flags.strict (cellProfile (.str [116, 114, 117, 101])) := by decide +kernel
-- COUNT(DISTINCT x) OVER (ORDER BY … ROWS BETWEEN 1 PRECEDING AND CURRENT ROW) over 'x', 'X', '01', 1, 'x ':
-- per row 1, 1, 2, 1, 2 loosely and 1, 2, 2, 2, 2 strictly
example : (aggOverF Flags.loose true (fun i => twinCells.getD i default) (fun _ l => Agg.count l)
    (.between (.preceding 1) .currentRow) [0, 1, 2, 3, 4]).map Prod.snd = [1, 1, 2, 1, 2] := by decide +kernel
example : (aggOverF Flags.strict true (fun i => twinCells.getD i default) (fun _ l => Agg.count l)
    (.between (.preceding 1) .currentRow) [0, 1, 2, 3, 4]).map Prod.snd = [1, 2, 2, 2, 2] := by decide +kernel
-- the hypothesis of strict_distinct_refines_loose is satisfiable and its right-hand side can fail
example : ∀ p ∈ twinCells, p = cellProfile p.raw := by decide +kernel
example : ¬ ∀ a ∈ twinCells, ∀ b ∈ twinCells, norm a = norm b → strictKey a = strictKey b := by decide +kernel
-- VARP of the frame {1, 2} is 1/4, STDEVP 1/2 (exact binary64)
example : (varOver Flags.loose false true (fun i => profileOf (.int i)) .noOrder [1, 2]).map Prod.snd
    = [.flt (FVal.div (FVal.ofInt 1) (FVal.ofInt 4)), .flt (FVal.div (FVal.ofInt 1) (FVal.ofInt 4))] := by decide +kernel
example : (stdevOver Flags.loose false true (fun i => profileOf (.int i)) .noOrder [1, 2]).map Prod.snd
    = [.flt (FVal.div (FVal.ofInt 1) (FVal.ofInt 2)), .flt (FVal.div (FVal.ofInt 1) (FVal.ofInt 2))] := by decide +kernel
-- two records with PARTITION BY values 'x' / 'X': one partition loosely, two strictly
example : partKeyF Flags.loose ⟨0, [cellProfile (.str [120])], [], [], default⟩ = partKeyF Flags.loose ⟨1, [cellProfile (.str [88])], [], [], default⟩ := by decide +kernel
example : partKeyF Flags.strict ⟨0, [cellProfile (.str [120])], [], [], default⟩ ≠ partKeyF Flags.strict ⟨1, [cellProfile (.str [88])], [], [], default⟩ := by decide +kernel
example : builtinAgg ⟨decText, FF.fmtF⟩ [] "VAR" = some Agg.var := rfl

end Csvq.C17
