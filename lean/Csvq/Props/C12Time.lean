/-
  Csvq.Props.C12Time — property C12 for the string → datetime conversion every worker goroutine calls per record
  (value.StrToTime behind DATETIME(), DATETIME_FORMAT(), comparison, sort keys, GROUP BY / DISTINCT keys): its
  result is a function of (text, format list) only — whatever the process-wide format cache holds, whatever was
  converted before, by whichever goroutine — so a row's value does not depend on the other rows, on their order,
  on --cpu or on the schedule; and the format list is read in the given order, first match wins.  The shape of the
  loop and the state it can touch are regenerated from lib/value/conv.go (extract/timefacts).
  Property theorems only.
-/
import Csvq.Model.ParseTimeUser
import Csvq.Gen.TimeFacts
namespace Csvq.C12
open Csvq Csvq.PT

/-! ## the memo cache never changes an answer -/

theorem cache_get_layout (c : Cache) (hv : c.Valid) (f : Bytes) : (c.get f).1 = layoutOf f := by
  unfold Cache.get
  cases h : c.find f with
  | some l => exact hv f l h
  | none => rfl

theorem cache_get_valid (c : Cache) (hv : c.Valid) (f : Bytes) : (c.get f).2.Valid := by
  unfold Cache.get
  cases h : c.find f with
  | some l => exact hv
  | none =>
    intro g l hg
    simp only [Cache.find] at hg
    split at hg
    · next heq => cases hg; rw [heq]
    · exact hv g l hg

theorem user_formats_cache_indep (c : Cache) (hv : c.Valid) (fmts : List Bytes) (t : Bytes) :
    (userFormatsS c fmts t).1 = userFormats fmts t ∧ (userFormatsS c fmts t).2.Valid := by
  induction fmts generalizing c with
  | nil => exact ⟨rfl, hv⟩
  | cons f fs ih =>
    simp only [userFormatsS, userFormats, cache_get_layout c hv f]
    cases timeParse (layoutOf f) t with
    | some x => exact ⟨rfl, cache_get_valid c hv f⟩
    | none => exact ih _ (cache_get_valid c hv f)

/-- THE CONVERSION IS A FUNCTION OF (text, formats): with any reachable content of the process-wide cache the
    stateful StrToTime returns what the cache-free one returns, and leaves a reachable cache -/
theorem strToTime_state_indep (c : Cache) (hv : c.Valid) (fmts : List Bytes) (s : Bytes) :
    (strToTimeS c fmts s).1 = strToTimeUser fmts s ∧ (strToTimeS c fmts s).2.Valid := by
  have h := user_formats_cache_indep c hv fmts (PF.trimSpace s)
  simp only [strToTimeS, strToTimeUser]
  rw [← h.1]
  rcases hr : userFormatsS c fmts (PF.trimSpace s) with ⟨r1, r2⟩
  rw [hr] at h
  cases r1 <;> exact ⟨rfl, h.2⟩

/-- a whole column converted in one process, starting from any reachable cache: every row gets the value it would
    get alone — `value_depends_on_other_rows` cannot fire -/
theorem column_is_map (c : Cache) (hv : c.Valid) (fmts : List Bytes) (col : List Bytes) :
    (convertAll c fmts col).1 = col.map (strToTimeUser fmts) := by
  induction col generalizing c with
  | nil => rfl
  | cons s rest ih =>
    simp only [convertAll, List.map_cons]
    rw [(strToTime_state_indep c hv fmts s).1, ih _ (strToTime_state_indep c hv fmts s).2]

/-- the value of one row inside a table equals its value in a table of that row alone, whatever stands before and
    after it and whatever the process converted earlier -/
theorem row_value_indep_of_other_rows (c₁ c₂ : Cache) (h₁ : c₁.Valid) (h₂ : c₂.Valid) (fmts : List Bytes)
    (before after : List Bytes) (s : Bytes) :
    (convertAll c₁ fmts (before ++ s :: after)).1[before.length]? = (convertAll c₂ fmts [s]).1[0]? := by
  rw [column_is_map c₁ h₁, column_is_map c₂ h₂]
  simp

/-- … hence the rows may be converted in any order (any cut into worker chunks, any interleaving): a permutation of
    the column gives the permuted values -/
theorem column_order_irrelevant (c₁ c₂ : Cache) (h₁ : c₁.Valid) (h₂ : c₂.Valid) (fmts : List Bytes)
    (col col' : List Bytes) (hp : col.Perm col') :
    ((convertAll c₁ fmts col).1).Perm ((convertAll c₂ fmts col').1) := by
  rw [column_is_map c₁ h₁, column_is_map c₂ h₂]
  exact hp.map _

theorem empty_cache_valid : Cache.Valid [] := by intro f l h; cases h

/-! ## the formats are tried in the given order, the first one that fits wins -/

theorem user_formats_first_fit (pre post : List Bytes) (f t : Bytes) (x : Int)
    (hpre : ∀ g ∈ pre, timeParse (layoutOf g) t = none) (hf : timeParse (layoutOf f) t = some x) :
    userFormats (pre ++ f :: post) t = some x := by
  induction pre with
  | nil => simp [userFormats, hf]
  | cons g gs ih =>
    have hg := hpre g (by simp)
    simp only [List.cons_append, userFormats, hg]
    exact ih fun g' hg' => hpre g' (by simp [hg'])

theorem first_fitting_format_wins (pre post : List Bytes) (f s : Bytes) (x : Int)
    (hpre : ∀ g ∈ pre, timeParse (layoutOf g) (PF.trimSpace s) = none)
    (hf : timeParse (layoutOf f) (PF.trimSpace s) = some x) :
    strToTimeUser (pre ++ f :: post) s = some x := by
  unfold strToTimeUser
  simp only [user_formats_first_fit pre post f _ x hpre hf]

/-- the built-in spellings are reached only when no user format fits -/
theorem builtin_only_after_user_formats (fmts : List Bytes) (s : Bytes)
    (h : ∀ g ∈ fmts, timeParse (layoutOf g) (PF.trimSpace s) = none) :
    strToTimeUser fmts s = strToTimeTrimmed (PF.trimSpace s) := by
  unfold strToTimeUser
  have : userFormats fmts (PF.trimSpace s) = none := by
    induction fmts with
    | nil => rfl
    | cons g gs ih =>
      simp only [userFormats, h g (by simp)]
      exact ih fun g' hg' => h g' (by simp [hg'])
  simp only [this]

/-! ## the source: one stateless loop, one memo cache — regenerated on every run -/

/-- StrToTime starts with the trim and ONE loop over the formats whose body is the parse-and-return; nothing else
    precedes the built-in dispatch -/
theorem gen_user_format_loop :
    Gen.strToTimeHead =
      ["s = option.TrimSpace(s)",
       "for _, format := range formats { if t, e := time.ParseInLocation(DatetimeFormats.Get(format), s, location); e == nil { return t, true } }"] := by
  rfl

/-- the only package-level state StrToTime touches is the memo cache, and only through Get; it assigns nothing but
    its own parameter `s` -/
theorem gen_strtotime_state :
    Gen.strToTimeGlobals = ["DatetimeFormats.Get"] ∧ Gen.strToTimeAssigns = ["s"] := by decide

/-- the cache is a map and its mutex, nothing that remembers a previous call; Get is load / lock / load / convert /
    store — an entry is written once, with the conversion of its key (Cache.Valid) -/
theorem gen_format_cache_is_memo :
    Gen.formatMapFields = ["m *sync.Map", "mtx *sync.Mutex"]
    ∧ Gen.formatMapMethods = ["store", "load", "Get"]
    ∧ Gen.formatMapGet =
        ["if f, ok := dfmap.load(s); ok { return f }", "dfmap.mtx.Lock()", "defer dfmap.mtx.Unlock()",
         "if f, ok := dfmap.load(s); ok { return f }", "f := ConvertDatetimeFormat(s)", "dfmap.store(s, f)", "return f"] := by
  refine ⟨by decide, by decide, ?_⟩
  rfl

/-! ## non-vacuity: an ambiguous text under two mutually ambiguous formats -/

-- "%d/%m/%Y", "%m/%d/%Y"
private def dmy : Bytes := [37, 100, 47, 37, 109, 47, 37, 89]
private def mdy : Bytes := [37, 109, 47, 37, 100, 47, 37, 89]
-- "03/04/2020", "13/02/2020", "02/13/2020"
private def t0304 : Bytes := [48, 51, 47, 48, 52, 47, 50, 48, 50, 48]
private def t1302 : Bytes := [49, 51, 47, 48, 50, 47, 50, 48, 50, 48]
private def t0213 : Bytes := [48, 50, 47, 49, 51, 47, 50, 48, 50, 48]

/-- 03/04/2020 is the 3rd of April under [d/m, m/d] and the 4th of March under [m/d, d/m]; 13/02 and 02/13 are the
    13th of February under both; with a warm cache, after any other rows, the same -/
example :
    strToTimeUser [dmy, mdy] t0304 = some 1585872000000000000
    ∧ strToTimeUser [mdy, dmy] t0304 = some 1583280000000000000
    ∧ strToTimeUser [dmy, mdy] t1302 = some 1581552000000000000
    ∧ strToTimeUser [dmy, mdy] t0213 = some 1581552000000000000
    ∧ (convertAll [] [dmy, mdy] [t0213, t0304, t1302, t0304]).1
        = [some 1581552000000000000, some 1585872000000000000, some 1581552000000000000, some 1585872000000000000]
    ∧ strToTimeUser [] t0304 = none := by decide +kernel

end Csvq.C12
