/-
  C06 (also used by C04 and C02) — floats written as text: strconv.FormatFloat(x, fmt, -1, 64) inside the model
  (Model/FormatFloat.lean: value.Float64ToStr, the float payload of the GROUP BY / DISTINCT key, STRING(float),
  the encoders, ENOTATION).  Property theorems only; lemmas in Lemmas/FormatFloat.lean.

  `FVal.fin n` stands for n·2^-1074 for EVERY integer n, also for those that are no binary64 value (more than
  53 significant bits, or ≥ 2^1024).  `FVal.IsDouble` picks the binary64 values; the round trips are stated for
  them — a text can only read back as a binary64 value.  Injectivity and the byte repertoire hold on the whole
  type (for a non-binary64 `fin n` the model's text is '+' and the exact decimal expansion, a shape no binary64
  value has), so the key theorems of C04 need no side condition.
-/
import Csvq.Lemmas.FormatFloat
import Csvq.Lemmas.Keys
import Csvq.Props.C06
namespace Csvq.C06
open Csvq

/-! ## the text of a float reads back as that float -/

/-- **value.Float64ToStr(x, false) read by strconv.ParseFloat gives x back** — for every binary64 value:
    NaN ("NaN"), ±Inf, ±0, subnormal and normal numbers.  The proof does not go through the shortest-digits
    search: whatever the search proposes is checked by the model's ParseFloat, and the exact decimal
    expansion n·5^1074 / 10^1074 — which always reads back (`FF.parseFloat_exact`) — stands behind it. -/
theorem fmt_parse_roundtrip (x : FVal) (hx : x.IsDouble) : PF.parseFloat (FF.fmtF x) = some x := by
  cases x with
  | nan => decide
  | pinf => decide
  | ninf => decide
  | negz => decide
  | fin n =>
    show PF.parseFloat (FF.fmtWith FF.layF [48] (.fin n)) = _
    rw [FF.fmtWith_fin]
    by_cases h0 : n = 0
    · subst h0; decide
    · rw [if_neg h0]
      rcases hx with hx | hx
      · exact absurd hx h0
      · exact FF.render_roundtrip FF.layF n h0 hx

/-- the hypothesis is needed: `fin (2^53 + 1)` (54 significant bits — no binary64 value, Go cannot hold it) has a
    text, but no text reads back as it.  Full statement without the hypothesis, false for this reason:
    `∀ x, PF.parseFloat (FF.fmtF x) = some x`. -/
theorem fmt_parse_roundtrip_counterexample :
    ¬ FVal.IsDouble (.fin (2 ^ 53 + 1)) ∧ PF.parseFloat (FF.fmtF (.fin (2 ^ 53 + 1))) ≠ some (.fin (2 ^ 53 + 1)) := by
  decide +kernel

/-- the same for the scientific notation of value.Float64ToStr(x, true) (`%g`) -/
theorem fmtG_parse_roundtrip (x : FVal) (hx : x.IsDouble) : PF.parseFloat (FF.fmtG x) = some x := by
  cases x with
  | nan => decide
  | pinf => decide
  | ninf => decide
  | negz => decide
  | fin n =>
    show PF.parseFloat (FF.fmtWith FF.layG [48] (.fin n)) = _
    rw [FF.fmtWith_fin]
    by_cases h0 : n = 0
    · subst h0; decide
    · rw [if_neg h0]
      rcases hx with hx | hx
      · exact absurd hx h0
      · exact FF.render_roundtrip FF.layG n h0 hx

/-- and for ENOTATION's `%e` -/
theorem fmtE_parse_roundtrip (x : FVal) (hx : x.IsDouble) : PF.parseFloat (FF.fmtE x) = some x := by
  cases x with
  | nan => decide
  | pinf => decide
  | ninf => decide
  | negz => decide
  | fin n =>
    show PF.parseFloat (FF.fmtWith FF.layE [48, 101, 43, 48, 48] (.fin n)) = _
    rw [FF.fmtWith_fin]
    by_cases h0 : n = 0
    · subst h0; decide
    · rw [if_neg h0]
      rcases hx with hx | hx
      · exact absurd hx h0
      · exact FF.render_roundtrip FF.layE n h0 hx

/-- which `fin n` are binary64 values: exactly the ±m·2^e·2^-1074 with m < 2^53 and e ≤ 2045 (subnormal: e = 0,
    m < 2^52; the largest finite double: m = 2^53 − 1, e = 2045) -/
theorem isDouble_fin_iff (n : Int) :
    FVal.IsDouble (.fin n) ↔ ∃ m e, m < 2 ^ 53 ∧ e ≤ 2045 ∧ n.natAbs = m * 2 ^ e :=
  FVal.isDouble_fin_iff n

/-- float64(i) of an int64 below 2^53 in magnitude is one of them -/
theorem isDouble_ofInt (i : Int) (h : i.natAbs < 2 ^ 53) : (FVal.ofInt i).IsDouble := by
  rw [FVal.ofInt_exact i h]
  by_cases h0 : i = 0
  · subst h0; left; simp
  · right
    rw [Int.natAbs_mul, Int.natAbs_natCast]
    exact FVal.roundMag_int_unit _ (Int.natAbs_pos.mpr h0) h

/-! ## different floats have different texts; the texts contain neither ':' nor '\\' -/

/-- **value.Float64ToStr is injective** — on the whole of `FVal` (no side condition) -/
theorem fmt_injective (x y : FVal) (h : FF.fmtF x = FF.fmtF y) : x = y :=
  FF.fmtWith_injective FF.layF [48] FF.goodLay_F (by decide) (by decide) (by decide) x y h

theorem fmtG_injective (x y : FVal) (h : FF.fmtG x = FF.fmtG y) : x = y :=
  FF.fmtWith_injective FF.layG [48] FF.goodLay_G (by decide) (by decide) (by decide) x y h

theorem fmtE_injective (x y : FVal) (h : FF.fmtE x = FF.fmtE y) : x = y :=
  FF.fmtWith_injective FF.layE [48, 101, 43, 48, 48] FF.goodLay_E (by decide) (by decide) (by decide) x y h

/-- the bytes of a float text: digits, '-', '+', '.', 'e', and the letters of NaN / Inf -/
theorem fmt_bytes (x : FVal) : ∀ b ∈ FF.fmtF x,
    (48 ≤ b ∧ b ≤ 57) ∨ b = 45 ∨ b = 43 ∨ b = 46 ∨ b = 101 ∨ b = 78 ∨ b = 97 ∨ b = 73 ∨ b = 110 ∨ b = 102 :=
  FF.fmtWith_bytes FF.layF [48] FF.goodLay_F (by intro b hb; simp at hb; subst hb; left; exact ⟨by omega, by omega⟩) x

theorem fmtG_bytes (x : FVal) : ∀ b ∈ FF.fmtG x,
    (48 ≤ b ∧ b ≤ 57) ∨ b = 45 ∨ b = 43 ∨ b = 46 ∨ b = 101 ∨ b = 78 ∨ b = 97 ∨ b = 73 ∨ b = 110 ∨ b = 102 :=
  FF.fmtWith_bytes FF.layG [48] FF.goodLay_G (by intro b hb; simp at hb; subst hb; left; exact ⟨by omega, by omega⟩) x

theorem fmtE_bytes (x : FVal) : ∀ b ∈ FF.fmtE x,
    (48 ≤ b ∧ b ≤ 57) ∨ b = 45 ∨ b = 43 ∨ b = 46 ∨ b = 101 ∨ b = 78 ∨ b = 97 ∨ b = 73 ∨ b = 110 ∨ b = 102 :=
  FF.fmtWith_bytes FF.layE [48, 101, 43, 48, 48] FF.goodLay_E (by
    intro b hb
    simp only [List.mem_cons, List.not_mem_nil, or_false] at hb
    unfold FF.FmtByte FF.IsDig; omega) x

/-- **the float text contains neither the key separator ':' nor the escape byte '\\'** (`Clean` of the key
    serialisation, Lemmas/Keys.lean) -/
theorem fmt_clean (x : FVal) : Clean (FF.fmtF x) := by
  intro b hb
  have := fmt_bytes x b hb
  unfold sepByte escByte
  omega

/-! ## the float text of an integral float is the integer's text -/

/-- **FormatFloat(float64(i), 'f') = FormatInt(i)** for |i| < 2^53: an integer and the float equal to it are
    written with the same digits (no point, no exponent), so value.Float64ToStr never disagrees with
    value.Int64ToStr about a number both types hold exactly -/
theorem fmt_int_agrees (i : Int) (h : i.natAbs < 2 ^ 53) : FF.fmtF (FVal.ofInt i) = decText i := by
  rw [FVal.ofInt_exact i h]
  exact FF.fmtF_int i h (by
    have hin : inI64 i := by unfold inI64 minI64 maxI64; omega
    have := int_text_float_agrees (decText i) i (parseIntStrict_decText i hin)
    rw [this]
    by_cases h0 : i = 0
    · subst h0; rw [Int.zero_mul]; rfl
    · rw [if_neg h0, FVal.ofInt_exact i h])

/-! ## non-vacuity: concrete values -/

-- 0.1, 5e-324 (the smallest subnormal), the largest finite double, 1e21, 123456789012345680000, -0
example : FF.fmtF (.fin (3602879701896397 * 2 ^ 1019)) = [48, 46, 49] := by decide +kernel
example : FF.fmtE (.fin (3602879701896397 * 2 ^ 1019)) = [49, 101, 45, 48, 49] := by decide +kernel
example : FF.fmtG (.fin 1) = [53, 101, 45, 51, 50, 52] := by decide +kernel
example : FF.fmtF (.fin 1) = 48 :: 46 :: (FF.zeros 323 ++ [53]) := by decide +kernel
example : FF.fmtE (.fin ((2 ^ 53 - 1) * 2 ^ 2045))
    = [49, 46, 55, 57, 55, 54, 57, 51, 49, 51, 52, 56, 54, 50, 51, 49, 53, 55, 101, 43, 51, 48, 56] := by decide +kernel
example : FF.fmtF (.fin ((2 ^ 53 - 1) * 2 ^ 2045)) = FF.decNat 17976931348623157 ++ FF.zeros 292 := by decide +kernel
example : FF.fmtF (.fin (476837158203125 * 2 ^ 1095)) = FF.decNat 1000000000000000000000 := by decide +kernel
example : FF.fmtG (.fin (476837158203125 * 2 ^ 1095)) = [49, 101, 43, 50, 49] := by decide +kernel
example : FF.fmtF (.fin (3767602203745901 * 2 ^ 1089)) = FF.decNat 123456789012345680000 := by decide +kernel
example : FF.fmtG (.fin (-(3767602203745901 * 2 ^ 1089)))
    = [45, 49, 46, 50, 51, 52, 53, 54, 55, 56, 57, 48, 49, 50, 51, 52, 53, 54, 56, 101, 43, 50, 48] := by decide +kernel
example : FF.fmtF .negz = [45, 48] ∧ FF.fmtE .negz = [45, 48, 101, 43, 48, 48] ∧ FF.fmtF .nan = [78, 97, 78] := by decide
example : PF.parseFloat (FF.fmtF (.fin (3602879701896397 * 2 ^ 1019))) = some (.fin (3602879701896397 * 2 ^ 1019)) := by
  decide +kernel
-- a `fin n` that is no binary64 value (2^53 + 1 units: 54 significant bits) reads back as a neighbour, not as itself
example : ¬ FVal.IsDouble (.fin (2 ^ 53 + 1)) := by decide +kernel
example : FVal.IsDouble (.fin (3602879701896397 * 2 ^ 1019)) := by decide +kernel
example : FVal.IsDouble (.fin ((2 ^ 53 - 1) * 2 ^ 2045)) ∧ ¬ FVal.IsDouble (.fin (2 ^ 2098)) := by decide +kernel

end Csvq.C06
