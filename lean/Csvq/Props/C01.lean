/-
  C01 — a transaction reaches the files all-or-nothing, according to how it ended.
  C20's theorems live in Props/C20.lean over the same machine (Model/Session.lean).
  Property theorems only (with the small invariants they need).
-/
import Csvq.Model.Session
import Csvq.Lemmas.SessionHist
namespace Csvq.C01
open Csvq.Session

variable {C : Type}

/-- a state right after start / COMMIT / ROLLBACK: nothing cached, nothing uncommitted -/
structure Clean (s : State C) : Prop where
  cache : ∀ p, s.cache p = none
  created : ∀ p, s.created p = false
  updated : ∀ p, s.updated p = false
  dirty : ∀ t, s.tempDirty t = false
  temps : ∀ t x, s.temps t = some x → x.cur = x.restore

/-- statements of the transaction itself that do not end it -/
def OwnOp : Op C → Prop
  | .commit | .rollback | .other _ _ => False
  | _ => True

theorem clean_after_commit (s : State C) : Clean (doCommit s) := by
  refine ⟨fun _ => rfl, fun _ => rfl, fun _ => rfl, fun _ => rfl, ?_⟩
  intro t x h
  simp only [doCommit] at h
  cases ht : s.temps t <;> simp [ht] at h
  rw [← h]

theorem clean_fresh (d : Path → Option C) : Clean (fresh d) :=
  ⟨fun _ => rfl, fun _ => rfl, fun _ => rfl, fun _ => rfl, fun _ _ h => by simp [fresh] at h⟩

/-- invariant relating the running state to the files as they were at the last commit point `d0`
    and the temporary tables `t0` of that moment -/
structure Rel (d0 : Path → Option C) (t0 : Path → Option (Temp C)) (s : State C) : Prop where
  disk : ∀ p, s.created p = false → s.disk p = d0 p
  newfile : ∀ p, s.created p = true → d0 p = none
  temp_old : ∀ t x0, t0 t = some x0 → ∃ x, s.temps t = some x ∧ x.restore = x0.cur ∧ (s.tempDirty t = false → x.cur = x0.cur)
  temp_new : ∀ t, t0 t = none → ∀ x, s.temps t = some x → s.tempDirty t = false → x.cur = x.restore

theorem load_disk (s s' : State C) (p : Path) (fu : Bool) (c : C) (h : load s p fu = some (s', c)) :
    s'.disk = s.disk ∧ s'.created = s.created ∧ s'.updated = s.updated ∧ s'.temps = s.temps ∧ s'.tempDirty = s.tempDirty := by
  unfold load at h
  cases hc : s.cache p with
  | some cc =>
    simp only [hc] at h
    by_cases hb : (fu && !cc.forUpdate) = true
    · simp only [hb, if_true] at h
      cases hd : s.disk p <;> simp [hd] at h
      obtain ⟨rfl, _⟩ := h; exact ⟨rfl, rfl, rfl, rfl, rfl⟩
    · simp only [hb] at h
      simp at h; obtain ⟨rfl, _⟩ := h; exact ⟨rfl, rfl, rfl, rfl, rfl⟩
  | none =>
    simp only [hc] at h
    cases hd : s.disk p <;> simp [hd] at h
    obtain ⟨rfl, _⟩ := h; exact ⟨rfl, rfl, rfl, rfl, rfl⟩

theorem rel_step (d0 : Path → Option C) (t0) (s : State C) (op : Op C) (ho : OwnOp op) (h : Rel d0 t0 s) :
    Rel d0 t0 (step s op).1 := by
  cases op with
  | commit => exact absurd ho id
  | rollback => exact absurd ho id
  | other _ _ => exact absurd ho id
  | select p =>
    simp only [step]
    cases hl : load s p false with
    | none => exact h
    | some r =>
      obtain ⟨s', c⟩ := r
      obtain ⟨e1, e2, _, e4, e5⟩ := load_disk s s' p false c hl
      exact ⟨by rw [e1, e2]; exact h.disk, by rw [e2]; exact h.newfile, by rw [e4, e5]; exact h.temp_old, by rw [e4, e5]; exact h.temp_new⟩
  | selectForUpdate p =>
    simp only [step]
    cases hl : load s p true with
    | none => exact h
    | some r =>
      obtain ⟨s', c⟩ := r
      obtain ⟨e1, e2, _, e4, e5⟩ := load_disk s s' p true c hl
      exact ⟨by rw [e1, e2]; exact h.disk, by rw [e2]; exact h.newfile, by rw [e4, e5]; exact h.temp_old, by rw [e4, e5]; exact h.temp_new⟩
  | dml p f =>
    simp only [step]
    cases hl : load s p true with
    | none => exact h
    | some r =>
      obtain ⟨s', c⟩ := r
      obtain ⟨e1, e2, _, e4, e5⟩ := load_disk s s' p true c hl
      have h' : Rel d0 t0 s' :=
        ⟨by rw [e1, e2]; exact h.disk, by rw [e2]; exact h.newfile, by rw [e4, e5]; exact h.temp_old, by rw [e4, e5]; exact h.temp_new⟩
      cases hf : f c with
      | none => simp only [hf]; exact h'
      | some c' => simp only [hf]; exact ⟨h'.disk, h'.newfile, h'.temp_old, h'.temp_new⟩
  | create p c =>
    simp only [step]
    by_cases hb : ((s.disk p).isSome || (s.cache p).isSome) = true
    · simp only [hb, if_true]; exact h
    · simp only [hb]
      have hd : s.disk p = none := by
        cases hx : s.disk p <;> simp [hx] at hb ⊢
      refine ⟨?_, ?_, h.temp_old, h.temp_new⟩
      · intro q hq
        by_cases e : q = p
        · subst e; simp [setFn] at hq
        · have : s.created q = false := by simpa [setFn, e] using hq
          simp [setFn, e]; exact h.disk q this
      · intro q hq
        by_cases e : q = p
        · subst e
          by_cases hc : s.created q = true
          · exact h.newfile q hc
          · have := h.disk q (by simpa using hc); rw [← this]; exact hd
        · exact h.newfile q (by simpa [setFn, e] using hq)
  | declareTemp t c =>
    simp only [step]
    by_cases hb : (s.temps t).isSome = true
    · simp only [hb, if_true]; exact h
    · simp only [hb]
      have hn : s.temps t = none := by cases hx : s.temps t <;> simp [hx] at hb ⊢
      refine ⟨h.disk, h.newfile, ?_, ?_⟩
      · intro u x0 hu
        obtain ⟨x, hx, r1, r2⟩ := h.temp_old u x0 hu
        have : u ≠ t := by intro e; subst e; rw [hn] at hx; exact absurd hx (by simp)
        exact ⟨x, by simp [setFn, this, hx], r1, r2⟩
      · intro u hu x hx hdirty
        by_cases e : u = t
        · subst e; simp [setFn] at hx; rw [← hx]
        · exact h.temp_new u hu x (by simpa [setFn, e] using hx) hdirty
  | dmlTemp t f =>
    simp only [step]
    cases ht : s.temps t with
    | none => exact h
    | some x =>
      cases hf : f x.cur with
      | none => simp only [hf]; exact h
      | some c' =>
        simp only [hf]
        refine ⟨h.disk, h.newfile, ?_, ?_⟩
        · intro u x0 hu
          obtain ⟨y, hy, r1, r2⟩ := h.temp_old u x0 hu
          by_cases e : u = t
          · subst e
            rw [ht] at hy; injection hy with hy; subst hy
            exact ⟨⟨c', x.restore⟩, by simp [setFn], r1, by simp [setFn]⟩
          · exact ⟨y, by simp [setFn, e, hy], r1, by simpa [setFn, e] using r2⟩
        · intro u hu y hy hdirty
          by_cases e : u = t
          · subst e; simp [setFn] at hdirty
          · exact h.temp_new u hu y (by simpa [setFn, e] using hy) (by simpa [setFn, e] using hdirty)

theorem rel_run (d0 : Path → Option C) (t0) (ops : List (Op C)) (ho : ∀ op ∈ ops, OwnOp op) :
    ∀ (s : State C), Rel d0 t0 s → Rel d0 t0 (runOps s ops) := by
  induction ops with
  | nil => intro s h; exact h
  | cons op ops ih =>
    intro s h
    simp only [runOps, List.foldl_cons]
    exact ih (fun o hmem => ho o (List.mem_cons_of_mem _ hmem)) _ (rel_step d0 t0 s op (ho op (List.mem_cons_self ..)) h)

theorem rel_clean (s : State C) (h : Clean s) : Rel s.disk s.temps s := by
  refine ⟨fun _ _ => rfl, ?_, ?_, ?_⟩
  · intro p hp; rw [h.created p] at hp; exact absurd hp (by simp)
  · intro t x0 ht; exact ⟨x0, ht, (h.temps t x0 ht).symm, fun _ => rfl⟩
  · intro t ht x hx; rw [ht] at hx; exact absurd hx (by simp)

/-- **All-or-nothing, the "nothing" half.**  From the most recent commit point (a clean state) run
    ANY statements of the transaction; if the run then ends by an error, EXIT, an interrupt or
    ROLLBACK, every table file is exactly as it was at that commit point, files created since then
    do not exist, and every temporary table that existed then has its contents of that moment. -/
theorem abort_restores (s : State C) (hs : Clean s) (ops : List (Op C)) (ho : ∀ op ∈ ops, OwnOp op)
    (e : Ending) (he : e ≠ .normal) :
    (∀ p, (finish (runOps s ops) e).disk p = s.disk p) ∧
    (∀ t x0, s.temps t = some x0 → ∃ x, (finish (runOps s ops) e).temps t = some x ∧ x.cur = x0.cur) := by
  have r := rel_run s.disk s.temps ops ho s (rel_clean s hs)
  have hf : finish (runOps s ops) e = doRollback (runOps s ops) := by cases e <;> first | rfl | exact absurd rfl he
  rw [hf]
  constructor
  · intro p
    simp only [doRollback]
    by_cases hc : (runOps s ops).created p = true
    · simp [hc, r.newfile p hc]
    · have hc' : (runOps s ops).created p = false := by simpa using hc
      simp [hc', r.disk p hc']
  · intro t x0 ht
    obtain ⟨x, hx, r1, r2⟩ := r.temp_old t x0 ht
    simp only [doRollback, hx, Option.map_some]
    by_cases hd : (runOps s ops).tempDirty t = true
    · exact ⟨⟨x.restore, x.restore⟩, by simp [hd], r1⟩
    · exact ⟨x, by simp [hd], r2 (by simpa using hd)⟩

theorem rollback_restores (s : State C) (hs : Clean s) (ops : List (Op C)) (ho : ∀ op ∈ ops, OwnOp op) :
    ∀ p, (runOps s (ops ++ [.rollback])).disk p = s.disk p := by
  intro p
  have := (abort_restores s hs ops ho .error (by decide)).1 p
  simpa [runOps, List.foldl_append, finish, step] using this

/-- **The "all" half.**  A normal end (or COMMIT) writes, for every table the transaction created or
    changed, exactly the contents the transaction last saw (its cached view), and leaves every
    other file as it is. -/
theorem normal_end_publishes (s : State C) (p : Path) :
    (finish s .normal).disk p =
      if s.created p || s.updated p then (s.cache p).map (·.content) else s.disk p := rfl

/-- the "all" half over a whole history: a table the transaction holds for update with contents `c`, after
    ANY statements (its own, on this and other tables, interleaved with other processes' commits) and a
    normal end, is on disk as `c` with the transaction's own successful changes applied in order — when it
    is marked changed or created; otherwise the file is left alone (`commit_writes_only_marked`) -/
theorem normal_end_writes_own_changes (s : State C) (p : Path) (c : C) (h : s.cache p = some ⟨c, true⟩)
    (ops : List (Op C)) (hne : ∀ op ∈ ops, ¬ IsEnd op)
    (hm : ((runOps s ops).created p || (runOps s ops).updated p) = true) :
    (finish (runOps s ops) .normal).disk p = some (ownEffect p ops c) := by
  have hc := locked_view_hist p ops hne s c h
  show (doCommit (runOps s ops)).disk p = _
  simp only [doCommit, hm, if_true, hc, Option.map_some]

/-- what the transaction "last saw" is what a final SELECT would show -/
theorem select_shows_view (s : State C) (p : Path) (c : Cached C) (h : s.cache p = some c) :
    (step s (.select p)).2 = .rows c.content := by
  simp [step, load, h]

/-- files the transaction never created or changed stay byte-identical through any of its
    statements, commits and rollbacks included -/
def Touches (p : Path) : Op C → Prop
  | .dml q _ => q = p
  | .create q _ => q = p
  | .other q _ => q = p
  | _ => False

theorem untouched_step (s : State C) (op : Op C) (p : Path) (hn : ¬ Touches p op)
    (hm : s.created p = false ∧ s.updated p = false) :
    (step s op).1.disk p = s.disk p ∧ ((step s op).1.created p = false ∧ (step s op).1.updated p = false) := by
  cases op with
  | select q =>
    simp only [step]
    cases hl : load s q false with
    | none => exact ⟨rfl, hm⟩
    | some r => obtain ⟨s', c⟩ := r; obtain ⟨e1, e2, e3, _, _⟩ := load_disk s s' q false c hl; simp [e1, e2, e3, hm]
  | selectForUpdate q =>
    simp only [step]
    cases hl : load s q true with
    | none => exact ⟨rfl, hm⟩
    | some r => obtain ⟨s', c⟩ := r; obtain ⟨e1, e2, e3, _, _⟩ := load_disk s s' q true c hl; simp [e1, e2, e3, hm]
  | dml q f =>
    have hq : q ≠ p := fun e => hn e
    have hq' : ¬ p = q := fun e => hq e.symm
    simp only [step]
    cases hl : load s q true with
    | none => exact ⟨rfl, hm⟩
    | some r =>
      obtain ⟨s', c⟩ := r; obtain ⟨e1, e2, e3, _, _⟩ := load_disk s s' q true c hl
      cases hf : f c with
      | none => simp [hf, e1, e2, e3, hm]
      | some c' =>
        by_cases hcq : s'.created q = true <;> simp [hf, e1, e2, e3, hm, hcq, setFn, hq']
  | create q c =>
    have hq' : ¬ p = q := fun e => hn e.symm
    simp only [step]
    by_cases hb : ((s.disk q).isSome || (s.cache q).isSome) = true
    · simp only [hb, if_true]; exact ⟨trivial, hm⟩
    · simp [hb, setFn, hq', hm]
  | declareTemp t c => simp only [step]; split <;> simp [hm]
  | dmlTemp t f =>
    simp only [step]
    cases ht : s.temps t with
    | none => simp [hm]
    | some x => cases hf : f x.cur <;> simp [hf, hm]
  | commit => simp [step, doCommit, hm]
  | rollback => simp [step, doRollback, hm]
  | other q c =>
    have hq' : ¬ p = q := fun e => hn e.symm
    simp only [step]; split <;> simp [hm, setFn, hq']

theorem untouched_identical (ops : List (Op C)) (p : Path) (hn : ∀ op ∈ ops, ¬ Touches p op) :
    ∀ (s : State C), s.created p = false ∧ s.updated p = false → (runOps s ops).disk p = s.disk p := by
  induction ops with
  | nil => intro s _; rfl
  | cons op ops ih =>
    intro s hm
    simp only [runOps, List.foldl_cons]
    have h1 := untouched_step s op p (hn op (List.mem_cons_self ..)) hm
    have := ih (fun o ho => hn o (List.mem_cons_of_mem _ ho)) (step s op).1 h1.2
    simp only [runOps] at this
    rw [this, h1.1]

/-- … and are never even marked for writing: after any statements that did not touch `p` the file is in
    neither the created nor the updated set, so COMMIT (which writes exactly those sets, `normal_end_publishes`)
    does not rewrite it.  (The implementation-side counterpart is the law `untouched_file_rewritten`, which watches
    the inode of every file.) -/
theorem untouched_never_marked (ops : List (Op C)) (p : Path) (hn : ∀ op ∈ ops, ¬ Touches p op) :
    ∀ (s : State C), s.created p = false ∧ s.updated p = false →
      (runOps s ops).created p = false ∧ (runOps s ops).updated p = false := by
  induction ops with
  | nil => intro s h; exact h
  | cons op ops ih =>
    intro s hm
    simp only [runOps, List.foldl_cons]
    have h1 := untouched_step s op p (hn op (List.mem_cons_self ..)) hm
    have := ih (fun o ho => hn o (List.mem_cons_of_mem _ ho)) (step s op).1 h1.2
    simpa [runOps] using this

/-- COMMIT writes no file outside the created / updated sets -/
theorem commit_writes_only_marked (s : State C) (p : Path) (h : s.created p = false ∧ s.updated p = false) :
    (doCommit s).disk p = s.disk p := by
  simp [doCommit, h.1, h.2]

/-! non-vacuity: a transaction that updates file 0, creates file 1, then fails -/
example : (∀ p, (finish (runOps (fresh (fun p => if p = 0 then some [1, 2] else none))
      [.dml 0 (fun c => some (c ++ [3])), .create 1 [9]]) .error).disk p
    = (fresh (fun p => if p = 0 then some [1, 2] else none)).disk p) :=
  (abort_restores _ (clean_fresh _) _ (by intro op h; simp at h; rcases h with rfl | rfl <;> trivial) .error (by decide)).1

end Csvq.C01
