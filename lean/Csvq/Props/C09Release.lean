/-
  C09 — the RELEASE side: Handler.close / closeWithErrors / commit give the table back in several system calls;
  any of them may fail, other processes run in between, the process may be killed between two of them.
  Property theorems only.  The step lists (`Csvq.Gen.Retry.release*`, `cfClose*`) are REGENERATED from
  lib/file/handler.go and control_file.go in source order, each step with what the function does with its error.

  What other processes can do is what Model/Lock.lean proves of the protocol (`mutex_inv`, `lock_file_owned`):
  nobody else holds the table for update or for read before an instant at which the releaser's `.lock` file is gone
  (Model/Release.lean, event `otherEnter`).
-/
import Csvq.Lemmas.Release
import Csvq.Gen.RetryLoop
namespace Csvq.C09
open Csvq.Retry Csvq.Release Csvq.Gen.Retry

def releaseFns : List (List RStep) :=
  [releaseClose, releaseCloseWithErrors, releaseCommitUpdate, releaseCommitOther]

/-- in every regenerated release function nothing changes the table's file and nothing disposes of the `.temp`
    file behind the removal of `.lock`; every one disposes of the `.temp` file; none drops an error -/
theorem gen_release_order : releaseFns.all (fun p => safeOrder p && disposesTemp p && noIgnore p && releasesAll p) = true := by
  decide

/-- only Handler.commit of an update handler replaces the table's file -/
theorem gen_only_commit_update_renames :
    [releaseClose, releaseCloseWithErrors, releaseCommitOther].all (fun p => p.all (fun r => !touchesData false r.op)) = true := by
  decide

/-- **The order of the releases is safe.**  For every regenerated release function, every handler the constructors
    can leave behind (a `.temp` file or a created table only together with the `.lock`), and EVERY schedule — steps
    of the releaser that succeed or fail, other processes taking the table as soon as the protocol lets them, a
    kill at any point:
    * the releaser never removes or replaces the table's file after another process could hold the table,
    * no process that takes the table meets a `.temp` file of the releaser (unless its removal was tried and failed),
    * nobody else gets in while the releaser's `.lock` exists, and once it is gone no `.temp` file of the releaser
      is left whose removal has not failed. -/
theorem release_order_safe (prog : List RStep) (hp : prog ∈ releaseFns) (mine : Mine) (created : Bool)
    (hwf : wellFormed mine created = true) (hu : prog = releaseCommitUpdate → mine.lock = true) (evs : List Ev) :
    let s := run (start mine created prog) evs
    s.touchedUnlocked = false ∧ s.inTheWay = false ∧ (s.otherSince = true → s.mine.lock = false) ∧
      (s.mine.lock = false → s.mine.temp = true → s.tempFailed = true) := by
  have hg := List.all_eq_true.mp gen_release_order prog hp
  simp only [Bool.and_eq_true] at hg
  have hs : mine.lock = true ∨ prog.all (fun r => !touchesData created r.op) = true := by
    cases hl : mine.lock with
    | true => left; rfl
    | false =>
      right
      have hc : created = false := by
        simp only [wellFormed, hl, Bool.and_eq_true, Bool.or_eq_true, Bool.not_eq_true'] at hwf
        rcases hwf.2 with h | h
        · exact h
        · cases h
      subst hc
      simp only [releaseFns, List.mem_cons, List.not_mem_nil, or_false] at hp
      rcases hp with h | h | h | h
      · subst h; decide
      · subst h; decide
      · have := hu h; rw [hl] at this; cases this
      · subst h; decide
  have inv := inv_run evs _ (inv_start mine created prog hwf hg.1.1.1 (fun _ => hg.1.1.2) hs)
  exact ⟨inv.untouched, inv.free, inv.since, inv.noStale⟩

/-- **A remove that fails is reported.**  No regenerated release function drops a failure; when it has returned
    without reporting an error (and the process was not killed) no control file of the handler is left. -/
theorem failed_remove_reported (prog : List RStep) (hp : prog ∈ releaseFns) (mine : Mine) (created : Bool)
    (evs : List Ev) (hk : noKill evs = true) :
    let s := run (start mine created prog) evs
    s.dropped = 0 ∧ (s.pending = [] → s.errs = 0 → s.mine = .none) := by
  have hg := List.all_eq_true.mp gen_release_order prog hp
  simp only [Bool.and_eq_true] at hg
  have rep := rep_run evs _ hk (rep_start mine created prog hg.1.2 hg.2)
  refine ⟨rep.heard, ?_⟩
  intro hpend herr
  have h1 : (run (start mine created prog) evs).mine.lock = false := by
    cases h : (run (start mine created prog) evs).mine.lock with
    | false => rfl
    | true => rcases rep.lock h with a | ⟨r, hr, _⟩
              · omega
              · rw [hpend] at hr; cases hr
  have h2 : (run (start mine created prog) evs).mine.rlock = false := by
    cases h : (run (start mine created prog) evs).mine.rlock with
    | false => rfl
    | true => rcases rep.rlock h with a | ⟨r, hr, _⟩
              · omega
              · rw [hpend] at hr; cases hr
  have h3 : (run (start mine created prog) evs).mine.temp = false := by
    cases h : (run (start mine created prog) evs).mine.temp with
    | false => rfl
    | true => rcases rep.temp h with a | ⟨r, hr, _⟩
              · omega
              · rw [hpend] at hr; cases hr
  cases hm : (run (start mine created prog) evs).mine with
  | mk a b c => simp only [hm] at h1 h2 h3; subst h1; subst h2; subst h3; rfl

/-- **…and the others still run**: closeWithErrors (what a process runs for every handler when it ends, and what a
    failed constructor runs) goes through ALL its steps whatever fails -/
theorem close_with_errors_runs_all_steps (mine : Mine) (created : Bool) (evs : List Ev) (hk : noKill evs = true) :
    (run (start mine created releaseCloseWithErrors) evs).pending = releaseCloseWithErrors.drop (countA evs) :=
  collect_pending evs (start mine created releaseCloseWithErrors) (by simp only [start]; decide) hk

/-- one level below: ControlFile.Close removes the file or reports an error (never neither); CloseWithErrors still
    tries to remove the file when closing the descriptor has failed; neither drops a failure -/
theorem gen_control_file_close_reports :
    (∀ a b : Bool, let r := cfRun cfClose [a, b]; (r.1 = true ∨ 0 < r.2.1) ∧ r.2.2 = 0 ∧ (r.1 = true → r.2.1 = 0)) ∧
    (∀ a b : Bool, let r := cfRun cfCloseWithErrors [a, b]; (r.1 = true ∨ 0 < r.2.1) ∧ r.2.2 = 0 ∧ (b = false → r.1 = true)) := by
  decide

/-! non-vacuity.  The rollback of a CREATE TABLE with the regenerated order: another process gets in only after
    everything is done.  The same steps with the removal of the created file moved behind the release of the lock:
    another process takes the table in between — and the releaser then removes the table under it. -/

def ok : Ev := .stepA false

example : let s := run (start ⟨true, false, false⟩ true releaseClose) [ok, ok, ok, .otherEnter, ok, .otherEnter, ok]
    s.otherSince = true ∧ s.touchedUnlocked = false ∧ s.created = false ∧ s.pending = [] := by decide

def lateRemove : List RStep :=
  [⟨.closeFp, .stop⟩, ⟨.closeCF .temp, .stop⟩, ⟨.closeCF .lock, .stop⟩, ⟨.closeCF .rlock, .stop⟩, ⟨.removeCreated, .stop⟩]

example : let s := run (start ⟨true, false, false⟩ true lateRemove) [ok, ok, ok, .otherEnter, .otherLeave, ok, ok]
    s.touchedUnlocked = true := by decide

-- a failing removal of `.temp` in closeWithErrors: reported, the lock is still released, the stale file is known to have failed
example : let s := run (start ⟨true, false, true⟩ false releaseCloseWithErrors) [ok, ok, .stepA true, ok, .otherEnter, ok]
    s.errs = 1 ∧ s.mine = ⟨false, false, true⟩ ∧ s.tempFailed = true ∧ s.inTheWay = false ∧ s.pending = [] := by decide

-- a failing removal of `.temp` in close: reported, and the table stays locked
example : let s := run (start ⟨true, false, true⟩ false releaseClose) [ok, ok, .stepA true, ok, .otherEnter, ok]
    s.errs = 1 ∧ s.mine = ⟨true, false, true⟩ ∧ s.otherSince = false := by decide

end Csvq.C09
