/-
  C20 — the CONCURRENT loaders of one transaction.

  The records of one statement are evaluated by k worker goroutines; each calls loadObjectFromFile →
  cacheViewFromFile for the tables of its sub-queries.  Model/ParLoad.lean runs the step list of one call as
  extract/cachefacts REGENERATES it from lib/query/load_view.go (`Gen.loaderSteps`: where
  `viewLoadingMutex.Lock()` stands relative to the cache lookup, the load and the store; `Gen.loaderCaller`: the
  `CachedViews.Get` of the caller), for any number of workers, one step of one worker at a time, interleaved
  arbitrarily with each other and with commits by other processes (`Ev.other`).  Every event list is a schedule
  (an event that is not enabled — a worker waiting for the mutex — leaves the state alone).

  Theorems, for ALL schedules and ALL numbers of workers (workers of later statements are further workers):
  the file is read at most once; everybody is handed the same contents, namely what the file held at the moment
  of that one read; which is exactly the atomic `load` step of Model/Session.lean performed at that moment — the
  sequential theorems of Props/C20 (`read_stable`, `unlocked_view_stable`) continue from there.
  With the lookup outside the critical section all of this fails (`lookup_outside_lock_*`).
-/
import Csvq.Props.C20
import Csvq.Lemmas.ParLoad
namespace Csvq.C20
open Csvq.Session Csvq.ParLoad

variable {C : Type}

/-- the regenerated step list of one call IS the reviewed one: Lock, lookup, load, store, (deferred) Unlock, and the
    caller's Get afterwards.  Moving the Lock below the lookup, a second lookup, an Unlock before the store, an
    unrecognised step: this fails, and with it every theorem below (they are stated over `genProg`). -/
theorem gen_loader_eq_ref : genProg = refProg := by decide

/-- the invariant of Lemmas/ParLoad holds after any schedule of the REGENERATED program -/
theorem gen_loader_inv (d : C) (evs : List (Ev C)) : Inv (runEvs genProg (ParLoad.init d) evs) := by
  rw [gen_loader_eq_ref]; exact inv_run evs _ (inv_init d)

/-- **Read once.**  However the workers of a statement (and of later statements) and the commits of other
    processes interleave, the transaction reads the table's file at most once (until COMMIT / ROLLBACK clear the
    cache — `gen_cache_cleared_at_end` — or the documented reload for update, which is not a plain access). -/
theorem concurrent_loads_read_once (d : C) (evs : List (Ev C)) :
    (runEvs genProg (ParLoad.init d) evs).readLog.length ≤ 1 := by
  have h := gen_loader_inv d evs
  cases hc : (runEvs genProg (ParLoad.init d) evs).cache with
  | some c => rw [(h.cache_some c hc).2]; exact Nat.le_refl 1
  | none =>
    rcases h.cache_none hc with h0 | ⟨_, _, _, _, _, h1⟩
    · rw [h0]; exact Nat.zero_le 1
    · rw [h1]; exact Nat.le_refl 1

/-- **Agreement.**  Any two workers — of the same statement or of a later one — that were handed the table were
    handed the same contents, whatever other processes committed in between; it is the cached view, and it is the
    one thing the transaction ever read from the file. -/
theorem concurrent_loads_agree (d : C) (evs : List (Ev C)) (i j : Nat) (ri rj : C)
    (hi : ((runEvs genProg (ParLoad.init d) evs).w i).result = some ri)
    (hj : ((runEvs genProg (ParLoad.init d) evs).w j).result = some rj) :
    ri = rj ∧ (runEvs genProg (ParLoad.init d) evs).cache = some ⟨ri, false⟩ ∧
      (runEvs genProg (ParLoad.init d) evs).readLog = [ri] := by
  have h := gen_loader_inv d evs
  obtain ⟨ci, hci, rfl⟩ := h.res i ri hi
  obtain ⟨cj, hcj, rfl⟩ := h.res j rj hj
  rw [hci] at hcj; cases hcj
  obtain ⟨hf, hl⟩ := h.cache_some ci hci
  refine ⟨rfl, ?_, hl⟩
  rw [hci]; cases ci; simp_all

/-- a worker that came back from the call finds the table in the cache (CachedViews.Get cannot fail) -/
theorem loaded_when_call_returns (d : C) (evs : List (Ev C)) (i : Nat)
    (h5 : 5 ≤ ((runEvs genProg (ParLoad.init d) evs).w i).pc) :
    (runEvs genProg (ParLoad.init d) evs).cache ≠ none :=
  (gen_loader_inv d evs).at4 i (by omega)

/-- only the holder of the loading mutex is between its lookup and its store -/
theorem one_loader_at_a_time (d : C) (evs : List (Ev C)) (i j : Nat)
    (hi : 1 ≤ ((runEvs genProg (ParLoad.init d) evs).w i).pc ∧ ((runEvs genProg (ParLoad.init d) evs).w i).pc ≤ 4)
    (hj : 1 ≤ ((runEvs genProg (ParLoad.init d) evs).w j).pc ∧ ((runEvs genProg (ParLoad.init d) evs).w j).pc ≤ 4) :
    j = i :=
  holder_unique (gen_loader_inv d evs).mutex_iff hi hj

/-- **The atomic load step of Model/Session.lean is justified.**  What the concurrent workers of a transaction end
    up with is what ONE atomic `Session.load` gives, performed at one moment of the history: the contents `r`
    everybody is handed are what the file held after some prefix of the schedule; a session that has not loaded
    the table and sees `r` on disk loads exactly `r`, caches it as a plain (unlocked) view — the very cache entry
    the concurrent machine ends with — and from there the sequential theorem `unlocked_view_stable` takes over:
    every later plain read, through any statements that keep the table unlocked and any foreign commits, shows `r`. -/
theorem atomic_load_justified (d : C) (evs : List (Ev C)) (i : Nat) (r : C)
    (hres : ((runEvs genProg (ParLoad.init d) evs).w i).result = some r) :
    (∃ pre, pre <+: evs ∧ (runEvs genProg (ParLoad.init d) pre).disk = r) ∧
    ∀ (sess : State C) (p : Path), sess.cache p = none → sess.disk p = some r →
      ∃ sess', load sess p false = some (sess', r) ∧
        sess'.cache p = (runEvs genProg (ParLoad.init d) evs).cache ∧
        ∀ ops : List (Op C), (∀ op ∈ ops, KeepsUnlocked p op) →
          (step (runOps sess' ops) (.select p)).2 = .rows r := by
  obtain ⟨_, hcache, hlog⟩ := concurrent_loads_agree d evs i i r r hres hres
  constructor
  · have hm : r ∈ (runEvs genProg (ParLoad.init d) evs).readLog := by rw [hlog]; exact List.mem_singleton.2 rfl
    rcases readLog_hist genProg evs (ParLoad.init d) r hm with h | h
    · simp [ParLoad.init] at h
    · exact h
  · intro sess p hc hd
    refine ⟨{ sess with cache := setFn sess.cache p (some ⟨r, false⟩) }, ?_, ?_, ?_⟩
    · simp [load, hc, hd]
    · rw [hcache]; simp [setFn]
    · intro ops hk
      exact unlocked_view_stable p ops hk _ r (by simp [setFn])

/-! ## the lookup outside the critical section -/

/-- `cacheViewFromFile` with `viewLoadingMutex.Lock()` below the cache lookup ("the cache is a sync.Map, only the
    loading is serialised"): the decision "not cached, so load" is taken outside the lock and never re-checked -/
def lookupOutsideLock : List Instr := [.lookup, .lock, .load, .store, .unlock, .get]

/-- two workers pass the lookup together, load one after the other, another process commits in between -/
def lookupOutsideLockSchedule : List (Ev Nat) :=
  [.work 0, .work 1, .work 0, .work 0, .work 0, .work 0, .work 0, .other 1,
   .work 1, .work 1, .work 1, .work 1, .work 1]

/-- … then the file is read twice and two records of ONE statement see different contents of the table: the
    theorems above do not hold for that order (the statement with `lookupOutsideLock` for `genProg` is false) -/
theorem lookup_outside_lock_counterexample :
    (runEvs lookupOutsideLock (ParLoad.init 0) lookupOutsideLockSchedule).readLog = [1, 0] ∧
    ((runEvs lookupOutsideLock (ParLoad.init 0) lookupOutsideLockSchedule).w 0).result = some 0 ∧
    ((runEvs lookupOutsideLock (ParLoad.init 0) lookupOutsideLockSchedule).w 1).result = some 1 := by
  decide

/-- the model search (BFS over the executable machine, as the check runs it on the regenerated program when
    `gen_loader_eq_ref` breaks) finds a violating interleaving for that order and none for the reviewed one -/
theorem search_finds_lookup_outside_lock :
    (search lookupOutsideLock 2 1).isSome = true ∧ (search refProg 2 1).isSome = false := by
  decide

/-! non-vacuity: both workers of a statement and a worker of a later statement are handed the contents loaded
    first, although another process committed twice meanwhile -/
example :
    let s := runEvs genProg (ParLoad.init 7)
      [.work 0, .work 1, .work 0, .work 0, .other 8, .work 0, .work 0, .work 1, .work 1, .work 0, .work 1, .work 1,
       .work 1, .other 9, .work 1, .work 2, .work 2, .work 2, .work 2, .work 2, .work 2]
    s.readLog = [7] ∧ (s.w 0).result = some 7 ∧ (s.w 1).result = some 7 ∧ (s.w 2).result = some 7 ∧ s.disk = 9 := by
  decide

example : (runEvs genProg (ParLoad.init 7) [.work 0, .work 1, .work 0, .work 0]).readLog.length ≤ 1 :=
  concurrent_loads_read_once 7 _

example : ∃ pre, pre <+: [Ev.work 0, .work 0, .other 8, .work 0, .work 0, .work 0, .work 0] ∧
    (runEvs genProg (ParLoad.init 7) pre).disk = 8 :=
  (atomic_load_justified 7 [.work 0, .work 0, .other 8, .work 0, .work 0, .work 0, .work 0] 0 8 (by decide)).1

end Csvq.C20
