/-
  Csvq.Props.C18LalrActions — property C18, "the parser never panics", for the semantic actions of the grammar.

  The driver theorems (Props/C18Lalr.lean) cover the loop and its tables; the actions were the gap: 25 of them assert
  the dynamic type of a `yyDollar[k]` value without `ok`, one calls a method on one, two index a string / slice.  They
  rely on the grammar for what they are handed.  Here that reliance is a theorem:

    a TYPING of the semantic values — for every grammar symbol the set of dynamic Go types its value can have
    (`nil` included), regenerated from parser.y and the type-checked lib/parser on every run
    (extract/lalr actions → Csvq/Gen/LalrActions.lean) and re-checked by Lean: closed under every source of every
    action, and every assertion is satisfied by every type of its operand's symbol (`lalr_action_assertions_typed`);

    `typed_stack_invariant`: in every run of the driver the value at a stack position has one of the types of the
    symbol its state was entered on — because a reduction by `p` pops states entered on exactly the symbols of `p`
    (checked against `yyChk` for every state that can lie there) and the goto pushes a state entered on `p`'s
    nonterminal (table facts inside `lalr_tables_wf`);

    `lalr_actions_never_panic`, and with `lalr_no_index_panic`: `parse_never_panics`.

  Model: Csvq/Model/LalrTypes.lean (`runV`): the driver loop with a dynamic-type tag beside every stack entry; which of
  its possible results an action produces is left to an oracle (any function), so the theorems hold for every way the
  actions can choose.  What an action CAN produce is read off its Go code by the extractor with go/types (trusted:
  "the static type of a composite literal / constructor call is its dynamic type").

  Outside: the reviewed index site and the callee lists (pinned, Props/C18LalrSites.lean), the scanner (modelled total, Props/C18),
  `yyErrorMessage` formatting (yyErrorVerbose is off), memory.
-/
import Csvq.Props.C18Lalr
import Csvq.Lemmas.LalrTypes
import Csvq.Model.LalrGrammar
import Csvq.Lemmas.ScannerPlaceholder
namespace Csvq.C18
open Csvq.Lalr

/-- the regenerated typing is a typing of the tables' grammar: production by production the left-hand side is yyR1,
    the right-hand side is the one the states spell (certificate of `lalr_tables_wf`); the symbol types are closed
    under every source of every action; every type assertion without `ok` and every method call on a `yyDollar[k]`
    value is satisfied by every type of that symbol (`nil` only where the action has excluded it) -/
theorem lalr_action_assertions_typed : typingOK genP genC genG = true := by decide +kernel

/-- in every run of the driver, for every choice the actions make: the stack's values keep the types of their symbols
    — so the run accepts, reports a syntax error inside the input, runs out of fuel (only when given less than the
    loop needs), or the oracle left the program (`impossibleAction`); it never hits an index panic or an assertion -/
theorem typed_stack_invariant (orc : Nat → Nat) (toks : List Int) (fuel : Nat) :
    SafeV toks.length fuel (loopMeasure genC (init toks) [0]) (runV genT genG orc fuel (init toks) [unknownTag]) :=
  runV_safe gen_facts lalr_action_assertions_typed orc fuel (init toks) [0] [unknownTag]
    (init_inv gen_facts toks) (init_tagInv lalr_action_assertions_typed)

/-- no type assertion of any semantic action fails, in any run -/
theorem lalr_actions_never_panic (orc : Nat → Nat) (toks : List Int) (fuel p j : Nat) :
    runV genT genG orc fuel (init toks) [unknownTag] ≠ .assertPanic p j := by
  intro h
  rcases typed_stack_invariant orc toks fuel with h1 | ⟨i, h1, _⟩ | ⟨q, h1⟩ | ⟨h1, _⟩ <;>
    · rw [h] at h1; exact absurd h1 (by simp)

/-- driver + actions: for every input and every behaviour of the actions the typing allows, the parse ends (no fuel
    needed beyond `lalrFuel`) with `accept` or a syntax error inside the input — no index out of range in a table or
    on the stack, no failed type assertion, no method call on a nil node -/
theorem parse_never_panics (orc : Nat → Nat) (toks : List Int) :
    let r := runV genT genG orc (lalrFuel toks.length) (init toks) [unknownTag]
    r = .accept ∨ (∃ i, r = .syntaxError i ∧ i ≤ toks.length) ∨ ∃ p, r = .impossibleAction p := by
  intro r
  rcases typed_stack_invariant orc toks (lalrFuel toks.length) with h | h | h | ⟨_, hf⟩
  · exact Or.inl h
  · exact Or.inr (Or.inl h)
  · exact Or.inr (Or.inr h)
  · rw [lalrFuel_eq] at hf; omega

/-- the typed run is the plain run (the one the correspondence stream compares with the real parser, op c18.lalr) with
    more to watch: it ends the same way whenever it ends without an oracle verdict -/
theorem lalr_typed_run_erases (orc : Nat → Nat) (toks : List Int) (fuel : Nat) :
    Erases (runV genT genG orc fuel (init toks) [unknownTag]) (run genT fuel (init toks)) :=
  runV_erases genT genG orc fuel (init toks) [unknownTag]

/-- the typing is not vacuous: an assertion meets a tag it does not accept ⇒ the typed run reports it (here: the
    check itself, on an operand `nil` of an unguarded assertion on tag 5) -/
example : assertFails [0] (1, [5], false) = true ∧ assertFails [5] (1, [5], false) = false ∧
    assertFails [0] (1, [5], true) = false := by decide

/-- the one index expression of the actions without a length guard, `yyDollar[1].token.Literal[0]` of
    `placeholder: PLACEHOLDER` (pinned in Ref/LalrActions.lean), is in range: every call of `Scan()` that returns a
    PLACEHOLDER token gives it a non-empty literal (scanner model, all rune strings, all letter / digit classes) -/
theorem scan_placeholder_literal_nonempty (cls : Scan.Classes) (m : Scan.Mode) (src : List Char) :
    ∀ t ∈ (Scan.scan cls m src).toks, t.kind = .placeholder → t.lit ≠ [] :=
  Scan.scanAll_placeholder_nonempty cls m _ _ _

end Csvq.C18
