/-
  C06 (also C03, C04, C18) — Unicode classes and case mapping inside the model (Model/Unicode.lean, from the tables
  of the toolchain's package unicode regenerated on every run): strings.EqualFold (Header.FieldIndex, table and
  cursor names), strings.ToUpper ∘ option.TrimSpace (the string rung of the comparison ladder, the GROUP BY key),
  unicode.IsLetter / IsDigit / IsSpace (the scanner, option.TrimSpace).  Property theorems only; lemmas in
  Lemmas/Unicode.lean.

  `Uni.tablesOK` is a decidable fact about the ≈ 3000 runes the case tables mention (fold orbits are cycles of at
  most four runes accepted pairwise by EqualFold's walk; ToUpper is idempotent; the upper case of a rune folds with
  it, ı excepted; the members of an orbit share their upper case, the listed orbits excepted); outside those runes
  the mappings change nothing (`case_mappings_fix_outside_tables`).  It is proved by kernel evaluation on the
  regenerated tables (`unicode_tables_ok`, Lemmas/UnicodeTables.lean: SimpleFold four times and ToUpper five times
  per rune, ≈ 1 minute), evaluated again by the compiled driver on every run (op `c06.utables`), and checked on
  package unicode itself for ALL runes by the harness.  All theorems hold for all runes and all byte strings.
-/
import Csvq.Lemmas.UnicodeTables
import Csvq.Model.ParseFloat
import Csvq.Model.Scanner
namespace Csvq.C06
open Csvq Csvq.Uni

/-- the table facts hold for the tables of this toolchain (kernel evaluation over `foldDom`) -/
theorem unicode_tables_ok : tablesOK = true := tables_ok

/-! ## strings.EqualFold is an equivalence relation — on ALL byte strings -/

theorem equalFold_refl (s : Bytes) : equalFold s s = true := runesFoldEq_refl _

theorem equalFold_symm (s t : Bytes) : equalFold s t = equalFold t s := runesFoldEq_comm _ _

theorem equalFold_trans (s t u : Bytes) (h1 : equalFold s t = true) (h2 : equalFold t u = true) :
    equalFold s u = true := runesFoldEq_trans tables_ok _ _ _ h1 h2

/-- two runes are EqualFold-equal exactly when one is among the other's SimpleFold iterates: the orbits are cycles -/
theorem rune_fold_eq_iff_orbit (a b : Nat) : runeFoldEq a b = true ↔ b ∈ orbit4 a :=
  runeFoldEq_iff tables_ok a b

/-- invalid UTF-8: every invalid byte is read as U+FFFD, so the theorems above hold for invalid texts too — and any
    two invalid bytes, and an invalid byte and a real U+FFFD, are "equal": EqualFold("\xff", "\xfe") is true -/
theorem equalFold_invalid_bytes :
    equalFold [0xFF] [0xFE] = true ∧ equalFold [0xFF] [0xEF, 0xBF, 0xBD] = true ∧ equalFold [0xC0, 0x80] [0xFF, 0xFE] = true
      ∧ equalFold [0xED, 0xA0, 0x80] [0xFF, 0xFF, 0xFF] = true := by decide

/-! ## strings.ToUpper -/

/-- unicode.ToUpper is idempotent: there is no rune whose upper case has a different upper case (the titlecase
    digraphs ǅ ǈ ǋ ǲ map to Ǆ Ǉ Ǌ Ǳ, which are their own upper case) -/
theorem toUpper_idempotent (r : Nat) : toUpper (toUpper r) = toUpper r := toUpper_idem tables_ok r

/-- … hence upper-casing the runes of a text twice is upper-casing them once -/
theorem toUpper_runes_idempotent (l : List Nat) : (l.map toUpper).map toUpper = l.map toUpper := by
  induction l with
  | nil => rfl
  | cons r rs ih => simp only [List.map_cons, toUpper_idem tables_ok r, ih]

/-- outside the case tables nothing changes: SimpleFold, ToUpper, ToLower fix every rune that is not in `foldDom` -/
theorem case_mappings_fix_outside_tables (r : Nat) (h : r ∉ foldDom) :
    simpleFold r = r ∧ toUpper r = r ∧ toLower r = r := by
  refine ⟨?_, ?_, ?_⟩
  · exact Classical.byContradiction fun e => h (simpleFold_ne_mem r e)
  · exact Classical.byContradiction fun e => h (toUpper_ne_mem r e)
  · exact Classical.byContradiction fun e => h (toLower_ne_mem r e)

/-! ## EqualFold against equality of upper cases (the header look-up against the string rung of `=`) -/

/-- runes that EqualFold identifies have the same upper case — unless they belong to one of five orbits:
    K k K(elvin sign), ß ẞ, Å å Å(ngström sign), Ω ω Ω(ohm sign), Θ θ ϑ ϴ -/
theorem fold_eq_upper_eq_partial (a b : Nat) (h : runeFoldEq a b = true) (ha : a ∉ foldUpperExc) :
    toUpper a = toUpper b :=
  (upper_of_orbit tables_ok a ha b ((runeFoldEq_iff tables_ok a b).mp h)).symm

/-- runes with the same upper case are identified by EqualFold — unless one of them is ı (U+0131) -/
theorem upper_eq_fold_eq_partial (a b : Nat) (h : toUpper a = toUpper b) (ha : a ≠ 305) (hb : b ≠ 305) :
    runeFoldEq a b = true := by
  have h1 : runeFoldEq a (toUpper a) = true := (runeFoldEq_iff tables_ok a _).mpr (upper_in_orbit tables_ok a ha)
  have h2 : runeFoldEq b (toUpper a) = true := by rw [h]; exact (runeFoldEq_iff tables_ok b _).mpr (upper_in_orbit tables_ok b hb)
  rw [runeFoldEq_comm] at h2
  exact runeFoldEq_trans tables_ok a _ b h1 h2

/-- full statements, false: `runeFoldEq a b = true → toUpper a = toUpper b` and its converse.
    The Kelvin sign K (U+212A) folds with k, but its upper case is itself, not K: a column named `K` is found under
    the name `k`, while the text 'K' is not `=` to 'k'.  ı (U+0131) has the upper case I like i, but folds with
    neither: 'ı' `=` 'i' is TRUE while a column `ı` is not found under the name `i`. -/
theorem fold_eq_upper_eq_counterexample :
    runeFoldEq 8490 107 = true ∧ toUpper 8490 ≠ toUpper 107
      ∧ toUpper 305 = toUpper 105 ∧ runeFoldEq 305 105 = false ∧ runeFoldEq 305 73 = false := by decide +kernel

/-- on texts: EqualFold-equal texts free of the listed runes have the same upper-cased text -/
theorem equalFold_strToUpper_partial (s t : Bytes) (h : equalFold s t = true)
    (hs : ∀ r ∈ decodeRunes s, r ∉ foldUpperExc) : strToUpper s = strToUpper t := by
  unfold strToUpper
  apply congrArg encodeRunes
  unfold equalFold at h
  generalize decodeRunes s = l at *
  generalize decodeRunes t = m at *
  induction l generalizing m with
  | nil => cases m with
    | nil => rfl
    | cons _ _ => simp [runesFoldEq] at h
  | cons a as ih => cases m with
    | nil => simp [runesFoldEq] at h
    | cons b bs =>
      simp only [runesFoldEq, Bool.and_eq_true] at h
      simp only [List.map_cons]
      rw [fold_eq_upper_eq_partial a b h.1 (hs a (by simp)), ih (fun r hr => hs r (by simp [hr])) bs h.2]

/-- the text rung's equality — equal upper-cased trimmed texts — is an equivalence relation (it is an equality of
    keys); `upperKey` is the `strU` of every text profile (recomputed by `textProfileOK` in every stream) -/
def upperKey (s : Bytes) : Bytes := strToUpper (PF.trimSpace s)

theorem text_rung_equiv :
    (∀ a, upperKey a = upperKey a) ∧ (∀ a b, upperKey a = upperKey b → upperKey b = upperKey a)
      ∧ (∀ a b c, upperKey a = upperKey b → upperKey b = upperKey c → upperKey a = upperKey c) :=
  ⟨fun _ => rfl, fun _ _ h => h.symm, fun _ _ _ h1 h2 => h1.trans h2⟩

/-! ## the classes -/

/-- no rune is both a letter and a decimal digit (the scanner's identifier / number distinction is unambiguous) -/
theorem isLetter_isDigit_disjoint (r : Nat) : ¬ (isLetter r = true ∧ isDigit r = true) :=
  fun h => not_both_of_apart _ _ letter_digit_apart r h.1 h.2

/-- unicode.IsSpace is true of exactly 25 runes … -/
def spaceRunes : List Nat :=
  [9, 10, 11, 12, 13, 32, 133, 160, 5760, 8192, 8193, 8194, 8195, 8196, 8197, 8198, 8199, 8200, 8201, 8202,
   8232, 8233, 8239, 8287, 12288]

theorem isSpace_list (r : Nat) : isSpace r = true ↔ r ∈ spaceRunes := by
  constructor
  · intro h
    have := inRanges_expand _ r h
    rw [whiteSpace_expand] at this; exact this
  · intro h
    have hall : spaceRunes.all (fun r => isSpace r) = true := by decide
    rw [List.all_eq_true] at hall
    exact hall r h

/-- … and they are the runes option.TrimSpace's model (PF.spaceLenHead, hand-listed UTF-8 patterns) strips:
    in front of any rest, the encoding of each of them is recognised with its full length -/
theorem isSpace_tied_to_trimSpace (r : Nat) (h : isSpace r = true) (rest : Bytes) :
    PF.spaceLenHead (encodeRune r ++ rest) = (encodeRune r).length := by
  have hm := (isSpace_list r).mp h
  unfold spaceRunes at hm
  simp only [List.mem_cons, List.not_mem_nil, or_false] at hm
  rcases hm with h | h | h | h | h | h | h | h | h | h | h | h | h | h | h | h | h | h | h | h | h | h | h | h | h <;> subst h <;> rfl

/-- … and conversely: whatever that model strips from the head of a text is the encoding of one of the 25 runes -/
theorem trimSpace_strips_only_spaces (s : Bytes) (k : Nat) (h : PF.spaceLenHead s = k) (hk : 0 < k) :
    ∃ r, isSpace r = true ∧ s.take k = encodeRune r := by
  have mem : ∀ r, r ∈ spaceRunes → isSpace r = true := fun r hr => (isSpace_list r).mpr hr
  cases s with
  | nil => simp [PF.spaceLenHead] at h; omega
  | cons b rest =>
    simp only [PF.spaceLenHead] at h
    by_cases ha : isAsciiSpace b = true
    · rw [if_pos ha] at h
      subst h
      refine ⟨b, mem b ?_, ?_⟩
      · unfold isAsciiSpace at ha; simp at ha; unfold spaceRunes; simp; omega
      · have : b < 128 := by unfold isAsciiSpace at ha; simp at ha; omega
        simp [encodeRune, this]
    · rw [if_neg ha] at h
      split at h
      · rename_i c _
        split at h
        · rename_i hc
          subst h
          simp at hc
          rcases hc with rfl | rfl
          · exact ⟨133, mem _ (by decide), by rfl⟩
          · exact ⟨160, mem _ (by decide), by rfl⟩
        · omega
      · subst h; exact ⟨5760, mem _ (by decide), by rfl⟩
      · rename_i c _
        split at h
        · rename_i hc
          subst h
          simp at hc
          refine ⟨8192 + (c - 128), mem _ ?_, ?_⟩
          · unfold spaceRunes; simp; omega
          · have e1 : ¬ (8192 + (c - 128) < 128) := by omega
            have e2 : ¬ (8192 + (c - 128) < 2048) := by omega
            have e3 : 8192 + (c - 128) < 65536 := by omega
            simp only [encodeRune, Gen.Uni.maxRune, e1, e2, e3, if_false, if_true, List.take_succ_cons, List.take_zero]
            rw [if_neg (by omega)]
            have q1 : (8192 + (c - 128)) / 4096 = 2 := by omega
            have q2 : (8192 + (c - 128)) / 64 % 64 = 0 := by omega
            have q3 : (8192 + (c - 128)) % 64 = c - 128 := by omega
            have q4 : 128 + (c - 128) = c := by omega
            rw [q1, q2, q3, q4]
        · omega
      · subst h; exact ⟨8287, mem _ (by decide), by rfl⟩
      · subst h; exact ⟨12288, mem _ (by decide), by rfl⟩
      · omega

/-- the scanner's white space (Model/Scanner.lean `isSpace`, a hand-written list) is unicode.IsSpace of the tables -/
theorem scanner_isSpace_is_unicode (c : Char) : Scan.isSpace c = Uni.isSpace c.toNat := by
  have h : Scan.isSpace c = true ↔ c.toNat ∈ spaceRunes := by
    unfold Scan.isSpace spaceRunes
    simp only [Bool.or_eq_true, Bool.and_eq_true, decide_eq_true_eq, List.mem_cons, List.not_mem_nil, or_false]
    omega
  cases h1 : Scan.isSpace c <;> cases h2 : Uni.isSpace c.toNat <;> try rfl
  · exact absurd (h.mpr ((isSpace_list _).mp h2)) (by rw [h1]; simp)
  · exact absurd ((isSpace_list _).mpr (h.mp h1)) (by rw [h2]; simp)

/-! ## UTF-8 written and read; ToUpper on byte strings -/

/-- written, then read: scalar values come back as they are … -/
theorem utf8_roundtrip (l : List Nat) (h : ∀ r ∈ l, ValidScalar r) : decodeRunes (encodeRunes l) = l :=
  decodeRunes_encodeRunes_valid l h

/-- … and a surrogate or a value above MaxRune comes back as U+FFFD (utf8.AppendRune writes U+FFFD for it) -/
theorem utf8_roundtrip_sanitizes (l : List Nat) : decodeRunes (encodeRunes l) = l.map sanitize :=
  decodeRunes_encodeRunes l

/-- what is read from any byte string is a list of scalar values -/
theorem decoded_runes_are_scalars (s : Bytes) : ∀ r ∈ decodeRunes s, ValidScalar r := decodeRunes_valid s

/-- **strings.ToUpper is idempotent on EVERY byte string** — so is the text of the string rung and of the GROUP BY key -/
theorem strToUpper_idempotent (s : Bytes) : strToUpper (strToUpper s) = strToUpper s := strToUpper_idem s

/-! ## name resolution against value equality -/

/-- **Header names match (strings.EqualFold — Header.FieldIndex, table and cursor names) exactly when the texts are
    equal on the string rung of `=` (equal strings.ToUpper)** — for all byte strings a, b (already trimmed; invalid
    bytes count as U+FFFD on both sides) in which none of these runes occurs: K k K(elvin sign), ß ẞ,
    Å å Å(ngström sign), Ω ω Ω(ohm sign), Θ θ ϑ ϴ (`foldUpperExc`), and ı (U+0131). -/
theorem name_resolution_vs_value_equality (a b : Bytes)
    (hx : ∀ r ∈ decodeRunes a ++ decodeRunes b, r ∉ foldUpperExc ∧ r ≠ 305) :
    equalFold a b = true ↔ strToUpper a = strToUpper b := by
  constructor
  · intro h
    exact equalFold_strToUpper_partial a b h (fun r hr => (hx r (List.mem_append_left _ hr)).1)
  · intro h
    exact runesFoldEq_of_upper_eq _ _ (upper_runes_of_strToUpper_eq a b h)
      (fun r hr => (hx r (List.mem_append_left _ hr)).2) (fun r hr => (hx r (List.mem_append_right _ hr)).2)

/-- outside that condition, one way: a column named with the Kelvin sign (E2 84 AA) is found under the name `k`
    and under `K`, while as VALUES the Kelvin sign equals neither (its upper case is itself) -/
theorem name_resolution_counterexample_kelvin :
    equalFold [0xE2, 0x84, 0xAA] [107] = true ∧ equalFold [0xE2, 0x84, 0xAA] [75] = true
      ∧ strToUpper [0xE2, 0x84, 0xAA] ≠ strToUpper [107] ∧ strToUpper [0xE2, 0x84, 0xAA] ≠ strToUpper [75] := by decide +kernel

/-- … and the other way: a column named ı (C4 B1) is found neither as `i` nor as `I`, while the VALUE 'ı' equals
    'i' and 'I' (its upper case is I) -/
theorem name_resolution_counterexample_dotless_i :
    equalFold [0xC4, 0xB1] [105] = false ∧ equalFold [0xC4, 0xB1] [73] = false
      ∧ strToUpper [0xC4, 0xB1] = strToUpper [105] ∧ strToUpper [0xC4, 0xB1] = strToUpper [73] := by decide +kernel

/-! ## non-vacuity: the table facts on single runes, concrete texts -/

example : goodB 75 = true ∧ goodB 8490 = true ∧ goodB 223 = true ∧ goodB 453 = true ∧ goodB 962 = true := by decide +kernel
example : upperB 305 = true ∧ upperB 453 = true ∧ upperB 181 = true := by decide +kernel
example : orbit4 107 = [107, 8490, 75, 107] ∧ orbit4 453 = [453, 454, 452, 453] ∧ orbit4 304 = [304, 304, 304, 304] := by
  decide +kernel
-- "straße" / "STRASSE": ß has no single-rune upper case; "ǆ" → "Ǆ"; an invalid byte becomes U+FFFD
example : strToUpper [115, 116, 114, 97, 195, 159, 101] = [83, 84, 82, 65, 195, 159, 69] := by decide +kernel
example : strToUpper [199, 134] = [199, 132] ∧ strToUpper [97, 255] = [65, 239, 191, 189] := by decide +kernel
example : equalFold [197, 191] [83] = true ∧ equalFold [226, 132, 170] [107] = true ∧ equalFold [196, 177] [105] = false := by
  decide +kernel
example : isLetter 223 = true ∧ isDigit 1635 = true ∧ isLetter 1635 = false ∧ isSpace 12288 = true ∧ isSpace 8203 = false := by
  decide +kernel

end Csvq.C06
