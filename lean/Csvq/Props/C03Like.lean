/-
  Csvq.Props.C03Like — LIKE (property C03: a row is kept iff its condition is TRUE; the condition language of the
  model holds `a [NOT] LIKE pattern`).

  `Model/Like.lean` mirrors lib/query/comparison.go (`Like`, `matchCondition`, `matchTextTailOnce`: segments of
  wildcards + word, the word searched with strings.Index behind the runes its underscores stand for, floating
  segments retried on the text behind an occurrence) and states the textbook definition `likeSpec` (the pattern as
  a list of literal / any-one / any-many items).  Here:

    like_impl_eq_spec        matchText = likeSpec for ALL texts and ALL patterns (no side condition)
    likeText_eq_spec         … and so is the whole of `Like` on texts: the shortcut for equal texts (taken only when
                             the pattern holds no backslash) and the empty-pattern test agree with the specification
    like_percent_matches_all `%` matches every text;  like_literal_iff_eq: a pattern without `%`, `_`, `\` matches
                             exactly the texts equal to it after upper-casing;  like_null_unknown, like_not_like
    old shapes               the matcher before the repairs F111 (word searched from the start of the text; retry
                             that forgets the underscores; shortcut for equal texts also with escapes) - kept as
                             definitions with their counterexamples
-/
import Csvq.Lemmas.Like
namespace Csvq.C03
open Csvq Csvq.Like

/-! ## one call of `matchTextTailOnce`, spelled out -/

/-- the part of `matchTextTailOnce` behind the placement of the word -/
def finishF (fuel : Nat) (t : Runes) (k : Nat) (mx : Option Nat) (w rest : Runes) (anyLen : Nat) : Bool :=
  if anyLen < k then false
  else if (match mx with | some m => decide (m < anyLen) | none => false) then false
  else if rest.isEmpty then anyLen + w.length == t.length
  else matchTail fuel (t.drop (anyLen + w.length)) rest

theorem matchTail_unfold (fuel : Nat) (t p : Runes) (k : Nat) (mx : Option Nat) (w rest : Runes)
    (hc : matchCondition p = ⟨k, mx, w, rest⟩) :
    matchTail (fuel + 1) t p =
      (if w.isEmpty then finishF fuel t k mx w rest t.length
       else if t.length < k then false
       else match indexOf w (t.drop k) with
         | none => false
         | some j =>
           if mx.isNone && matchTail fuel (t.drop (k + j + 1 - k)) p then true
           else finishF fuel t k mx w rest (k + j)) := by
  rw [matchTail]
  simp only [hc, finishF]
  rfl

/-- the specification of a pattern, read segment by segment -/
theorem spec_by_segment (p : Runes) (t : Runes) :
    matchItems (itemsOf p) t =
      wildsSem (countOne (wildRun p).1) (hasMany (wildRun p).1)
        (fun s => hasPrefix (wordRun (wildRun p).2 false).1 s &&
          matchItems (itemsOf (wordRun (wildRun p).2 false).2) (s.drop (wordRun (wildRun p).2 false).1.length)) t := by
  unfold itemsOf
  rw [itemsOf_wild p, itemsOf_word (wildRun p).2 false, matchItems_wilds _ _ (wildRun_allWild p)]
  congr 1
  funext s
  exact matchItems_lits _ _ s

theorem matchItems_nil (t : Runes) : matchItems [] t = t.isEmpty := by
  cases t <;> rfl

theorem isEmpty_drop (t : Runes) (n : Nat) : (t.drop n).isEmpty = decide (t.length ≤ n) := by
  rw [Bool.eq_iff_iff]
  simp [List.isEmpty_iff]

theorem existsSuffix_isEmpty (s : Runes) : existsSuffix (fun s => s.isEmpty) s = true := by
  rw [existsSuffix_iff]
  exact ⟨s.length, Nat.le_refl _, by simp⟩

/-- **the matcher is the textbook definition** (any fuel that covers text and pattern) -/
theorem matchTail_eq_spec : ∀ (fuel : Nat) (t p : Runes), t.length + p.length < fuel →
    matchTail fuel t p = matchItems (itemsOf p) t := by
  intro fuel
  induction fuel with
  | zero => intro t p h; omega
  | succ fuel ih =>
    intro t p h
    have hc := matchCondition_eq p
    have hnw := wildRun_not_wild p
    have hle1 := wildRun_rest_le p
    have hnil := wordRun_nil (wildRun p).2 hnw
    have hlt := wordRun_rest_lt (wildRun p).2
    have hspec := spec_by_segment p
    rw [matchTail_unfold fuel t p _ _ _ _ hc, hspec t]
    generalize wildRun p = wr at *
    generalize hwd : wordRun wr.2 false = wd at *
    -- G: the word at the front, then the rest of the pattern
    generalize hG : (fun s => hasPrefix wd.1 s && matchItems (itemsOf wd.2) (s.drop wd.1.length)) = G at *
    have hGno : ∀ s, hasPrefix wd.1 s = false → G s = false := by
      intro s hs; rw [← hG]; simp [hs]
    by_cases hw : wd.1 = []
    · -- only wildcards are left: the pattern ends here
      have hp1 : wr.2 = [] := hnil hw
      have hwd2 : wd.2 = [] := by rw [← hwd, hp1]; simp [wordRun]
      have hGe : G = fun s => s.isEmpty := by
        rw [← hG]; funext s
        simp [hw, hwd2, hasPrefix, itemsOf, itemsOfE, matchItems]
      rw [hGe]
      simp only [hw, hwd2, List.isEmpty_nil, if_true, finishF, List.length_nil, Nat.add_zero, beq_self_eq_true]
      unfold wildsSem
      cases hunb : hasMany wr.1 with
      | true =>
        simp only [if_true, existsSuffix_isEmpty]
        by_cases hk : countOne wr.1 ≤ t.length
        · have : ¬ t.length < countOne wr.1 := by omega
          simp [hk, this]
        · have : t.length < countOne wr.1 := by omega
          simp [hk, this]
      | false =>
        simp only [Bool.false_eq_true, if_false]
        by_cases hk : countOne wr.1 ≤ t.length
        · have h1 : ¬ t.length < countOne wr.1 := by omega
          by_cases h2 : countOne wr.1 < t.length
          · have : ¬ t.length ≤ countOne wr.1 := by omega
            simp [hk, h1, h2, this]
          · have : t.length ≤ countOne wr.1 := by omega
            simp [hk, h1, h2, this]
        · have : t.length < countOne wr.1 := by omega
          simp [hk, this]
    · -- a word
      have hwe : wd.1.isEmpty = false := by
        cases hh : wd.1 with
        | nil => exact absurd hh hw
        | cons a b => rfl
      have hrest : wd.2.length < p.length := by
        have := hlt hw; omega
      rw [hwe]
      simp only [Bool.false_eq_true, if_false]
      by_cases hlen : t.length < countOne wr.1
      · have hk : ¬ countOne wr.1 ≤ t.length := by omega
        simp [hlen, wildsSem, hk]
      · have hk : countOne wr.1 ≤ t.length := by omega
        simp only [hlen, if_false]
        have hwl : 0 < wd.1.length := by
          cases hh : wd.1 with
          | nil => exact absurd hh hw
          | cons a b => simp
        -- the continuation behind an occurrence at `k + j`
        have hcont : ∀ j, hasPrefix wd.1 ((t.drop (countOne wr.1)).drop j) = true →
            (if wd.2.isEmpty then countOne wr.1 + j + wd.1.length == t.length
             else matchTail fuel (t.drop (countOne wr.1 + j + wd.1.length)) wd.2) =
              G ((t.drop (countOne wr.1)).drop j) := by
          intro j hpre
          have hl := hasPrefix_length _ _ hpre
          simp only [List.length_drop] at hl
          have hl2 : countOne wr.1 + j + wd.1.length ≤ t.length := by omega
          have hpre' : hasPrefix wd.1 (t.drop (countOne wr.1 + j)) = true := by
            rw [← drop_drop']; exact hpre
          rw [← hG]
          simp only [drop_drop', hpre', Bool.true_and]
          by_cases hr : wd.2 = []
          · simp only [hr, List.isEmpty_nil, if_true, itemsOf, itemsOfE, Bool.false_eq_true, if_false, matchItems_nil, isEmpty_drop]
            by_cases he : countOne wr.1 + j + wd.1.length = t.length
            · simp [he]
            · have : ¬ t.length ≤ countOne wr.1 + j + wd.1.length := by omega
              simp [he, this]
          · have hre : wd.2.isEmpty = false := by
              cases hh : wd.2 with
              | nil => exact absurd hh hr
              | cons a b => rfl
            simp only [hre, Bool.false_eq_true, if_false]
            rw [ih _ _ (by simp only [List.length_drop]; omega)]
        cases hidx : indexOf wd.1 (t.drop (countOne wr.1)) with
        | none =>
          simp only
          unfold wildsSem
          simp only [hk, if_true]
          cases hunb : hasMany wr.1 with
          | true => simp only [if_true]; exact (existsSuffix_no_occurrence _ G hGno _ hidx).symm
          | false =>
            simp only [Bool.false_eq_true, if_false]
            have := indexOf_none _ _ hidx 0
            exact (hGno _ (by simpa using this)).symm
        | some j =>
          simp only
          obtain ⟨hpre, hfirst, hjle⟩ := indexOf_some _ _ j hidx
          have hl := hasPrefix_length _ _ hpre
          simp only [List.length_drop] at hl hjle
          unfold wildsSem
          simp only [hk, if_true]
          have hnlt : ¬ countOne wr.1 + j < countOne wr.1 := by omega
          cases hunb : hasMany wr.1 with
          | false =>
            simp only [Bool.false_eq_true, if_false, Option.isNone_some, Bool.false_and, finishF, hnlt]
            by_cases hj : j = 0
            · subst hj
              have hnot : ¬ countOne wr.1 < countOne wr.1 + 0 := by omega
              simp only [hnot, decide_false, Bool.false_eq_true, if_false]
              have := hcont 0 hpre
              simpa using this
            · have hlt' : countOne wr.1 < countOne wr.1 + j := by omega
              simp only [hlt', decide_true, if_true]
              have := hfirst 0 (by omega)
              exact (hGno _ (by simpa using this)).symm
          | true =>
            simp only [if_true, Option.isNone_none, Bool.true_and, finishF, hnlt, if_false, Bool.false_eq_true]
            rw [existsSuffix_from_first _ G hGno _ j hidx, ← hcont j hpre]
            have e1 : countOne wr.1 + j + 1 - countOne wr.1 = j + 1 := by omega
            rw [e1, ih _ _ (by simp only [List.length_drop]; omega), hspec (t.drop (j + 1))]
            unfold wildsSem
            have hk2 : countOne wr.1 ≤ (t.drop (j + 1)).length := by simp only [List.length_drop]; omega
            simp only [hk2, hunb, if_true, drop_drop']
            have e2 : j + 1 + countOne wr.1 = countOne wr.1 + (j + 1) := by omega
            rw [e2]
            cases existsSuffix G (List.drop (countOne wr.1 + (j + 1)) t) <;> simp

/-- **like_impl_eq_spec**: on rune lists the implementation IS the textbook definition - every text, every pattern
    (wildcards anywhere, escapes, the empty pattern, patterns longer than the text) -/
theorem like_impl_eq_spec (text pattern : Runes) : matchText text pattern = likeSpec text pattern := by
  unfold matchText likeSpec
  exact matchTail_eq_spec _ _ _ (by omega)

/-! ## the whole of `Like` on two texts -/

/-- a pattern without backslash matches itself (`%` and `_` match the characters % and _ too) -/
theorem self_match (r : Runes) (h : bsl ∉ r) : matchItems (itemsOf r) r = true := by
  unfold itemsOf
  induction r with
  | nil => rfl
  | cons x rest ih =>
    have hx : x ≠ bsl := fun e => h (by simp [e])
    have ih := ih (fun hm => h (by simp [hm]))
    simp only [itemsOfE, hx, if_false]
    unfold itemOf
    by_cases h1 : x = pct
    · simp only [h1, if_true, matchItems, existsSuffix]
      rw [existsSuffix_self _ _ ih]; simp
    · by_cases h2 : x = und
      · subst h2
        simp only [und_ne_pct, if_true, if_false, matchItems, ih]
      · simp only [h1, h2, if_false, matchItems, ih, beq_self_eq_true, Bool.and_self]

/-- the byte 0x5C stands for a backslash and nothing else does: every other rune comes out of bytes that are not 0x5C -/
theorem decodeRune_ge (b : Nat) (bs : Bytes) (h : ¬ b < 0x80) : 128 ≤ (Uni.decodeRune (b :: bs)).1 := by
  unfold Uni.decodeRune
  simp only [h, if_false]
  repeat' split
  all_goals (simp only [Uni.isCont, Bool.and_eq_true, decide_eq_true_eq, Gen.Uni.replacementChar] at *; omega)

theorem decodeRune_bsl (b : Nat) (bs : Bytes) (h : (Uni.decodeRune (b :: bs)).1 = bsl) : b = bsl := by
  by_cases h80 : b < 0x80
  · simpa [Uni.decodeRune, h80] using h
  · have := decodeRune_ge b bs h80
    rw [h] at this
    unfold bsl at this
    omega

theorem decodeRunesF_bsl : ∀ (n : Nat) (s : Bytes), bsl ∈ Uni.decodeRunesF n s → bsl ∈ s := by
  intro n
  induction n with
  | zero => intro s h; simp [Uni.decodeRunesF] at h
  | succ n ih =>
    intro s h
    cases s with
    | nil => simp [Uni.decodeRunesF] at h
    | cons b bs =>
      simp only [Uni.decodeRunesF, List.mem_cons] at h
      cases h with
      | inl h => have := decodeRune_bsl b bs h.symm; simp [this]
      | inr h => exact List.mem_of_mem_drop (ih _ h)

theorem decodeRunes_bsl (s : Bytes) (h : bsl ∉ s) : bsl ∉ Uni.decodeRunes s :=
  fun hm => h (decodeRunesF_bsl _ _ hm)

theorem decodeRunes_ne_nil (s : Bytes) (h : s ≠ []) : Uni.decodeRunes s ≠ [] := by
  cases s with
  | nil => exact absurd rfl h
  | cons b bs => simp [Uni.decodeRunes, Uni.decodeRunesF]

/-- **`Like` on texts = the textbook definition on the runes of the upper-cased texts**: the shortcut for equal
    texts (only without a backslash in the pattern) and the empty-pattern test change nothing -/
theorem likeText_eq_spec (s1 s2 : Bytes) : likeText s1 s2 = likeTextSpec s1 s2 := by
  unfold likeText likeTextSpec
  simp only
  by_cases h1 : Uni.strToUpper s1 = Uni.strToUpper s2 ∧ bsl ∉ Uni.strToUpper s2
  · rw [if_pos h1, h1.1]
    exact (self_match _ (decodeRunes_bsl _ h1.2)).symm
  · rw [if_neg h1]
    by_cases h2 : (Uni.strToUpper s2).isEmpty = true
    · rw [if_pos h2]
      have hp : Uni.strToUpper s2 = [] := by simpa using h2
      have hs : Uni.strToUpper s1 ≠ [] := by
        intro e
        apply h1
        rw [e, hp]
        exact ⟨rfl, by simp⟩
      have hd := decodeRunes_ne_nil _ hs
      rw [hp]
      unfold likeSpec
      cases hh : Uni.decodeRunes (Uni.strToUpper s1) with
      | nil => exact absurd hh hd
      | cons a b => rfl
    · rw [if_neg h2]
      exact like_impl_eq_spec _ _

/-- `%` matches every text -/
theorem like_percent_matches_all (text : Runes) : matchText text [pct] = true := by
  rw [like_impl_eq_spec]
  unfold likeSpec itemsOf
  have : itemsOfE [pct] false = [Item.many] := by decide
  rw [this]
  simp only [matchItems]
  exact existsSuffix_isEmpty text

theorem like_percent_matches_all_texts (s : Bytes) : likeText s [pct] = true := by
  rw [likeText_eq_spec]
  unfold likeTextSpec
  have : Uni.decodeRunes (Uni.strToUpper [pct]) = [pct] := by decide
  rw [this, ← like_impl_eq_spec]
  exact like_percent_matches_all _

/-- a pattern without `%`, `_` and `\` is its own only match -/
theorem literal_pattern_items (p : Runes) (h : ∀ r ∈ p, r ≠ pct ∧ r ≠ und ∧ r ≠ bsl) :
    itemsOf p = p.map Item.lit := by
  unfold itemsOf
  induction p with
  | nil => rfl
  | cons x rest ih =>
    have hx := h x (by simp)
    have ih := ih (fun r hr => h r (by simp [hr]))
    simp only [itemsOfE, hx.2.2, if_false, itemOf, hx.1, hx.2.1, ih, List.map_cons]

theorem matchItems_literal (p : Runes) : ∀ t : Runes, matchItems (p.map Item.lit) t = true ↔ t = p := by
  induction p with
  | nil => intro t; cases t <;> simp [matchItems]
  | cons x rest ih =>
    intro t
    cases t with
    | nil => simp [matchItems]
    | cons y t' =>
      simp only [List.map_cons, matchItems, Bool.and_eq_true, beq_iff_eq, ih t', List.cons.injEq]

/-- **like_literal_iff_eq**: without wildcards and backslashes LIKE is equality of the (upper-cased) rune lists -/
theorem like_literal_iff_eq (text pattern : Runes) (h : ∀ r ∈ pattern, r ≠ pct ∧ r ≠ und ∧ r ≠ bsl) :
    matchText text pattern = true ↔ text = pattern := by
  rw [like_impl_eq_spec]
  unfold likeSpec
  rw [literal_pattern_items pattern h]
  exact matchItems_literal pattern text

/-- … on texts: case-insensitively as strings.ToUpper folds (ToUpper, not EqualFold: 'ß' is not 'SS', 'ſ' is 'S') -/
theorem likeText_literal_iff_eq (s1 s2 : Bytes)
    (h : ∀ r ∈ Uni.decodeRunes (Uni.strToUpper s2), r ≠ pct ∧ r ≠ und ∧ r ≠ bsl) :
    likeText s1 s2 = true ↔ Uni.decodeRunes (Uni.strToUpper s1) = Uni.decodeRunes (Uni.strToUpper s2) := by
  rw [likeText_eq_spec]
  unfold likeTextSpec
  rw [← like_impl_eq_spec]
  exact like_literal_iff_eq _ _ h

/-- **like_null_unknown**: a NULL on either side is UNKNOWN; so is an operand that is neither text nor number -/
theorem like_null_unknown (v : Val) : like .null v = .U ∧ like v .null = .U := by
  constructor
  · rfl
  · cases v <;> rfl

theorem like_non_text_unknown (v : Val) (b : Bool) (t : Tern) (ns : Int) :
    like (.bool b) v = .U ∧ like (.tern t) v = .U ∧ like (.dt ns) v = .U := by
  refine ⟨?_, ?_, ?_⟩ <;> cases v <;> rfl

/-- NOT LIKE is the ternary negation (UNKNOWN stays UNKNOWN) -/
theorem not_like_is_negation (a b : Profile) : evalLike true a b = (evalLike false a b).not := rfl

theorem like_unknown_not_like_unknown (a b : Profile) (h : evalLike false a b = .U) : evalLike true a b = .U := by
  rw [not_like_is_negation, h]; rfl

/-! ## the shapes before the repairs (F111), with the inputs they got wrong

  (A)/(B) before e581029 the word was searched from the START of the text and the retry handed on `text[idx+1:]`:
  an occurrence in front of the position fixed by the underscores hid the right one, and after `%_` the runes
  dropped by the retry no longer counted.  (C) before e406f76 equal texts were a match also when the pattern
  escapes a wildcard. -/

def matchTailOld : Nat → Runes → Runes → Bool
  | 0, _, _ => false
  | fuel + 1, text, pattern =>
    let c := matchCondition pattern
    let finish := fun (anyLen : Nat) =>
      if anyLen < c.minLen then false
      else if (match c.maxLen with | some m => decide (m < anyLen) | none => false) then false
      else if c.rest.isEmpty then anyLen + c.word.length == text.length
      else matchTailOld fuel (text.drop (anyLen + c.word.length)) c.rest
    if c.word.isEmpty then finish text.length
    else
      match indexOf c.word text with
      | none => false
      | some idx =>
        if c.maxLen.isNone && matchTailOld fuel (text.drop (idx + 1)) pattern then true
        else finish idx

def matchTextOld (text pattern : Runes) : Bool := matchTailOld (text.length + pattern.length + 1) text pattern

/-- 'AA' LIKE '_A', 'XAA' LIKE '__A', 'AA' LIKE '%_A': FALSE before the repair, TRUE by the definition (and now) -/
theorem like_old_shape_counterexamples :
    (matchTextOld [65, 65] [95, 65] = false ∧ likeSpec [65, 65] [95, 65] = true ∧ matchText [65, 65] [95, 65] = true) ∧
    (matchTextOld [88, 65, 65] [95, 95, 65] = false ∧ likeSpec [88, 65, 65] [95, 95, 65] = true) ∧
    (matchTextOld [65, 65] [37, 95, 65] = false ∧ likeSpec [65, 65] [37, 95, 65] = true ∧
      matchText [65, 65] [37, 95, 65] = true) := by decide

/-- the text `A\%` is not matched by the pattern `A\%` (= the two characters A%): the shortcut for equal texts may
    not be taken when the pattern holds a backslash -/
theorem like_old_shortcut_counterexample :
    likeSpec [65, 92, 37] [65, 92, 37] = false ∧ likeSpec [65, 37] [65, 92, 37] = true ∧
    matchText [65, 92, 37] [65, 92, 37] = false := by decide

/-! ## non-vacuity -/

example : likeSpec [233, 233, 65, 66, 67] [37, 65, 66, 67] = true ∧ matchText [233, 233, 65, 66, 67] [37, 65, 66, 67] = true ∧
    matchText [233, 65, 66, 67, 88] [37, 65, 66, 67] = false := by decide
example : matchText [65, 66, 67, 65, 66, 67] [37, 66, 95, 65, 37, 67] = true ∧ matchText [] [37] = true ∧
    matchText [] [95] = false ∧ matchText [65] [] = false ∧ matchText [] [] = true ∧
    matchText [65] [65, 66, 67] = false := by decide

end Csvq.C03
