/-
  C03 — which column a written reference denotes.  Property theorems only.

  Model/Rel.lean has `Header.FieldIndex` / `FieldNumberIndex` / `SearchIndex` (one header) with their
  characterisations in Props/C03.lean (`resolve_unique`, `resolve_ambiguous_iff`, `resolve_not_exist_iff`,
  `field_number_index_spec`).  Model/RelNames.lean adds the walk of eval.go `evalFieldReference` over the records of
  the nested queries; here it is specified: the reference denotes the cell of the INNERMOST scope that knows it —
  known there exactly once —, an innermost knowing scope that knows it twice is "ambiguous", no knowing scope is
  "does not exist".  All theorems hold for every stack of scopes, every header, every reference.
-/
import Csvq.Props.C03
import Csvq.Model.RelNames
import Csvq.Lemmas.Lateral
namespace Csvq.C03
open Csvq Csvq.Rel

/-! ## the errors a single header can raise -/

theorem field_index_errors (h : List HField) (view : Option String) (name : String) (e : ResErr)
    (he : fieldIndex h view name = .error e) : e = .ambiguous ∨ e = .notExist := by
  unfold fieldIndex at he
  generalize trimSpace name = nm at he
  generalize (0 : Nat) = i at he
  generalize (none : Option Nat) = idx at he
  induction h generalizing i idx with
  | nil =>
    cases idx with
    | none => simp only [fieldIndexGo, Except.error.injEq] at he; exact Or.inr he.symm
    | some k => simp [fieldIndexGo] at he
  | cons f fs ih =>
    simp only [fieldIndexGo] at he
    split at he
    · split at he
      · cases he
      · cases idx with
        | some k => simp only [Except.error.injEq] at he; exact Or.inl he.symm
        | none => exact ih _ _ he
    · exact ih _ _ he

theorem field_number_index_errors (h : List HField) (view : String) (number : Int) (e : ResErr)
    (he : fieldNumberIndex h view number = .error e) : e = .notExist := by
  unfold fieldNumberIndex at he
  split at he
  · simp only [Except.error.injEq] at he; exact he.symm
  · split at he
    · cases he
    · simp only [Except.error.injEq] at he; exact he.symm

/-- whatever the reference: a header answers with a column, "ambiguous" or "does not exist" -/
theorem search_index_errors (h : List HField) (ref : FieldRef) (e : ResErr) (he : searchIndex h ref = .error e) :
    e = .ambiguous ∨ e = .notExist := by
  cases ref with
  | byName v n => exact field_index_errors h v n e he
  | byNumber v k => exact Or.inr (field_number_index_errors h v k e he)

/-! ## the walk over the scopes -/

/-- a scope that neither resolves the reference nor is ambiguous about it says "does not exist" -/
theorem scope_silent_iff (ref : FieldRef) (s : List HField × Row) :
    scopeSilent ref s ↔ searchIndex s.1 ref = .error .notExist := by
  unfold scopeSilent
  constructor
  · intro h
    cases hs : searchIndex s.1 ref with
    | ok i => exact absurd hs (h i).1
    | error e =>
      rcases search_index_errors s.1 ref e hs with rfl | rfl
      · exact absurd hs (h 0).2
      · rfl
  · intro h i
    rw [h]
    exact ⟨(by intro h'; cases h'), (by intro h'; cases h')⟩

/-- the walk only ever fails with "ambiguous" or "does not exist" -/
theorem scope_walk_errors (ref : FieldRef) (scopes : List (List HField × Row)) (e : ResErr)
    (he : resolveRef ref scopes = .error e) : e = .ambiguous ∨ e = .notExist := by
  unfold resolveRef at he
  induction scopes with
  | nil => simp only [walkBy, Except.error.injEq] at he; exact Or.inr he.symm
  | cons s rest ih =>
    obtain ⟨h, r⟩ := s
    simp only [walkBy] at he
    cases hs : searchIndex h ref with
    | ok i => rw [hs] at he; simp [walkStep] at he
    | error e' =>
      rw [hs] at he
      rcases search_index_errors h ref e' hs with rfl | rfl
      · simp only [walkStep, Except.error.injEq] at he; exact Or.inl he.symm
      · simp only [walkStep] at he; exact ih he

/-- the reference denotes the cell `p` iff the innermost scope that is not silent about it resolves it, to that cell -/
theorem scope_walk_found_iff (ref : FieldRef) (scopes : List (List HField × Row)) (p : Profile) :
    resolveRef ref scopes = .ok p ↔
      ∃ pre h r post i, scopes = pre ++ (h, r) :: post ∧ (∀ s, s ∈ pre → scopeSilent ref s) ∧
        searchIndex h ref = .ok i ∧ p = (r[i]?).getD nullP := by
  unfold resolveRef
  induction scopes with
  | nil =>
    simp only [walkBy]
    constructor
    · intro h; cases h
    · rintro ⟨pre, h, r, post, i, hsplit, _⟩
      cases pre <;> simp at hsplit
  | cons s rest ih =>
    obtain ⟨h, r⟩ := s
    simp only [walkBy]
    cases hs : searchIndex h ref with
    | ok i =>
      simp only [walkStep, Except.ok.injEq]
      constructor
      · intro hp
        exact ⟨[], h, r, rest, i, rfl, by simp, hs, hp.symm⟩
      · rintro ⟨pre, h', r', post, j, hsplit, hpre, hj, hp⟩
        cases pre with
        | nil =>
          simp only [List.nil_append, List.cons.injEq, Prod.mk.injEq] at hsplit
          obtain ⟨⟨rfl, rfl⟩, _⟩ := hsplit
          rw [hs] at hj
          cases hj
          exact hp.symm
        | cons s' pre' =>
          simp only [List.cons_append, List.cons.injEq] at hsplit
          have := (hpre s' List.mem_cons_self)
          rw [← hsplit.1] at this
          exact absurd hs (this i).1
    | error e =>
      rcases search_index_errors h ref e hs with rfl | rfl
      · simp only [walkStep]
        constructor
        · intro hp; cases hp
        · rintro ⟨pre, h', r', post, j, hsplit, hpre, hj, _⟩
          cases pre with
          | nil =>
            simp only [List.nil_append, List.cons.injEq, Prod.mk.injEq] at hsplit
            obtain ⟨⟨rfl, rfl⟩, _⟩ := hsplit
            rw [hs] at hj; cases hj
          | cons s' pre' =>
            simp only [List.cons_append, List.cons.injEq] at hsplit
            have := (hpre s' List.mem_cons_self)
            rw [← hsplit.1] at this
            exact absurd hs (this 0).2
      · simp only [walkStep]
        rw [ih]
        constructor
        · rintro ⟨pre, h', r', post, j, hsplit, hpre, hj, hp⟩
          refine ⟨(h, r) :: pre, h', r', post, j, by simp [hsplit], ?_, hj, hp⟩
          intro s hsm
          rcases List.mem_cons.mp hsm with rfl | hsm
          · exact (scope_silent_iff ref _).mpr hs
          · exact hpre s hsm
        · rintro ⟨pre, h', r', post, j, hsplit, hpre, hj, hp⟩
          cases pre with
          | nil =>
            simp only [List.nil_append, List.cons.injEq, Prod.mk.injEq] at hsplit
            obtain ⟨⟨rfl, rfl⟩, _⟩ := hsplit
            rw [hs] at hj; cases hj
          | cons s' pre' =>
            simp only [List.cons_append, List.cons.injEq] at hsplit
            exact ⟨pre', h', r', post, j, hsplit.2, fun s hsm => hpre s (List.mem_cons_of_mem _ hsm), hj, hp⟩

/-- "does not exist" iff every scope is silent about the reference -/
theorem scope_walk_not_exist_iff (ref : FieldRef) (scopes : List (List HField × Row)) :
    resolveRef ref scopes = .error .notExist ↔ ∀ s, s ∈ scopes → scopeSilent ref s := by
  unfold resolveRef
  induction scopes with
  | nil => simp [walkBy]
  | cons s rest ih =>
    obtain ⟨h, r⟩ := s
    simp only [walkBy, List.mem_cons, forall_eq_or_imp]
    cases hs : searchIndex h ref with
    | ok i =>
      simp only [walkStep]
      constructor
      · intro h'; cases h'
      · rintro ⟨h1, _⟩; exact absurd hs (h1 i).1
    | error e =>
      rcases search_index_errors h ref e hs with rfl | rfl
      · simp only [walkStep]
        constructor
        · intro h'; cases h'
        · rintro ⟨h1, _⟩; exact absurd hs (h1 0).2
      · simp only [walkStep]
        rw [ih]
        constructor
        · intro h'; exact ⟨(scope_silent_iff ref _).mpr hs, h'⟩
        · rintro ⟨_, h'⟩; exact h'

/-- "ambiguous" iff the innermost scope that is not silent about the reference is ambiguous about it: a scope
    further out that knows the name exactly once does not help -/
theorem scope_walk_ambiguous_iff (ref : FieldRef) (scopes : List (List HField × Row)) :
    resolveRef ref scopes = .error .ambiguous ↔
      ∃ pre h r post, scopes = pre ++ (h, r) :: post ∧ (∀ s, s ∈ pre → scopeSilent ref s) ∧
        searchIndex h ref = .error .ambiguous := by
  constructor
  · intro he
    unfold resolveRef at he
    induction scopes with
    | nil => simp [walkBy] at he
    | cons s rest ih =>
      obtain ⟨h, r⟩ := s
      simp only [walkBy] at he
      cases hs : searchIndex h ref with
      | ok i => rw [hs] at he; simp [walkStep] at he
      | error e =>
        rw [hs] at he
        rcases search_index_errors h ref e hs with rfl | rfl
        · exact ⟨[], h, r, rest, rfl, by simp, hs⟩
        · simp only [walkStep] at he
          obtain ⟨pre, h', r', post, hsplit, hpre, ha⟩ := ih he
          refine ⟨(h, r) :: pre, h', r', post, by simp [hsplit], ?_, ha⟩
          intro s hsm
          rcases List.mem_cons.mp hsm with rfl | hsm
          · exact (scope_silent_iff ref _).mpr hs
          · exact hpre s hsm
  · rintro ⟨pre, h, r, post, rfl, hpre, ha⟩
    unfold resolveRef
    induction pre with
    | nil => simp [walkBy, ha, walkStep]
    | cons s pre' ih =>
      obtain ⟨h', r'⟩ := s
      have hs := (scope_silent_iff ref (h', r')).mp (hpre _ List.mem_cons_self)
      simp only [List.cons_append, walkBy]
      simp only at hs
      rw [hs]
      simp only [walkStep]
      exact ih (fun s hsm => hpre s (List.mem_cons_of_mem _ hsm))

/-- the three outcomes exclude each other and exhaust the possibilities -/
theorem scope_walk_total (ref : FieldRef) (scopes : List (List HField × Row)) :
    (∃ p, resolveRef ref scopes = .ok p) ∨ resolveRef ref scopes = .error .ambiguous ∨
      resolveRef ref scopes = .error .notExist := by
  cases h : resolveRef ref scopes with
  | ok p => exact Or.inl ⟨p, rfl⟩
  | error e => rcases scope_walk_errors ref scopes e h with rfl | rfl <;> simp

/-! ## names: "exactly one visible column matches" -/

/-- a reference by name denotes the cell `p` iff, in the innermost scope with a matching field, exactly one field
    matches (view qualifier and column name compared without regard to letter case, `AS` names of earlier select
    items counting as names), and `p` is its cell.
    (`hnj`: the reference is qualified, or no header carries a flagged join column — inside a USING / NATURAL join's own
    query the merged column wins at once: `join_column_wins`.) -/
theorem reference_denotes_iff_unique (view : Option String) (name : String) (scopes : List (List HField × Row))
    (p : Profile) (hnj : view.isSome = true ∨ ∀ s, s ∈ scopes → ∀ f, f ∈ s.1 → f.isJoin = false) :
    resolveRef (.byName view name) scopes = .ok p ↔
      ∃ (pre : List (List HField × Row)) (h : List HField) (r : Row) (post : List (List HField × Row)) (k : Nat),
        scopes = pre ++ (h, r) :: post ∧
        (∀ s, s ∈ pre → s.1.countP (fieldMatches view (trimSpace name)) = 0) ∧
        ((∃ f, h[k]? = some f ∧ fieldMatches view (trimSpace name) f = true) ∧
          ∀ j g, h[j]? = some g → fieldMatches view (trimSpace name) g = true → j = k) ∧
        p = (r[k]?).getD nullP := by
  have hloc : ∀ s, s ∈ scopes → (view.isSome = true ∨ ∀ f, f ∈ s.1 → f.isJoin = false) := by
    intro s hs
    rcases hnj with h | h
    · exact Or.inl h
    · exact Or.inr (h s hs)
  rw [scope_walk_found_iff]
  constructor
  · rintro ⟨pre, h, r, post, i, rfl, hpre, hi, hp⟩
    refine ⟨pre, h, r, post, i, rfl, ?_, ?_, hp⟩
    · intro s hs
      have := (scope_silent_iff _ s).mp (hpre s hs)
      exact (resolve_not_exist_iff s.1 view name (hloc s (by simp [hs]))).mp this
    · exact (resolve_unique h view name i (hloc (h, r) (by simp))).mp hi
  · rintro ⟨pre, h, r, post, k, rfl, hpre, hk, hp⟩
    refine ⟨pre, h, r, post, k, rfl, ?_, ?_, hp⟩
    · intro s hs
      exact (scope_silent_iff _ s).mpr ((resolve_not_exist_iff s.1 view name (hloc s (by simp [hs]))).mpr (hpre s hs))
    · exact (resolve_unique h view name k (hloc (h, r) (by simp))).mpr hk

/-- … and it is "ambiguous" iff the innermost scope with a matching field has two or more -/
theorem reference_ambiguous_iff_two (view : Option String) (name : String) (scopes : List (List HField × Row))
    (hnj : view.isSome = true ∨ ∀ s, s ∈ scopes → ∀ f, f ∈ s.1 → f.isJoin = false) :
    resolveRef (.byName view name) scopes = .error .ambiguous ↔
      ∃ pre h r post, scopes = pre ++ (h, r) :: post ∧
        (∀ s, s ∈ pre → s.1.countP (fieldMatches view (trimSpace name)) = 0) ∧
        2 ≤ h.countP (fieldMatches view (trimSpace name)) := by
  have hloc : ∀ s, s ∈ scopes → (view.isSome = true ∨ ∀ f, f ∈ s.1 → f.isJoin = false) := by
    intro s hs
    rcases hnj with h | h
    · exact Or.inl h
    · exact Or.inr (h s hs)
  rw [scope_walk_ambiguous_iff]
  constructor
  · rintro ⟨pre, h, r, post, rfl, hpre, ha⟩
    refine ⟨pre, h, r, post, rfl, ?_, (resolve_ambiguous_iff h view name (hloc (h, r) (by simp))).mp ha⟩
    intro s hs
    exact (resolve_not_exist_iff s.1 view name (hloc s (by simp [hs]))).mp ((scope_silent_iff _ s).mp (hpre s hs))
  · rintro ⟨pre, h, r, post, rfl, hpre, ha⟩
    refine ⟨pre, h, r, post, rfl, ?_, (resolve_ambiguous_iff h view name (hloc (h, r) (by simp))).mpr ha⟩
    intro s hs
    exact (scope_silent_iff _ s).mpr ((resolve_not_exist_iff s.1 view name (hloc s (by simp [hs]))).mpr (hpre s hs))

/-- the lookup by name of Model/Rel.lean (`resolveOuter`, used for correlated references) IS this walk -/
theorem resolve_outer_eq_walk (view : Option String) (name : String) (scopes : List (List HField × Row)) :
    resolveOuter view name scopes = resolveRef (.byName view name) scopes := by
  unfold resolveRef
  induction scopes with
  | nil => rfl
  | cons s rest ih =>
    obtain ⟨h, r⟩ := s
    simp only [resolveOuter, walkBy, searchIndex]
    cases hs : fieldIndex h view name with
    | ok i => rfl
    | error e =>
      rcases field_index_errors h view name e hs with rfl | rfl
      · rfl
      · simp only [walkStep]; exact ih

/-- resolving inside a query (own header first, then the enclosing records) and evaluating on a record of the query
    is ONE walk that starts at that record: names and column numbers alike -/
theorem own_then_outer_is_one_walk (subs : SubEnv) (h : List HField) (outer : List (List HField × Row)) (r : Row)
    (e : Expr) (ref : FieldRef) (he : refOfExpr e = some ref) :
    evalExprE subs 0 r (resolveExprN h outer e) = resolveRef ref ((h, r) :: outer) := by
  cases e with
  | ref v n =>
    simp only [refOfExpr, Option.some.injEq] at he
    subst he
    simp only [resolveExprN, resolveExprEnv, resolveRef, walkBy, searchIndex]
    cases hs : fieldIndex h v n with
    | ok i => simp [walkStep, evalExprE, evalExpr]
    | error e =>
      rcases field_index_errors h v n e hs with rfl | rfl
      · simp [walkStep, evalExprE]
      · simp only [walkStep]
        rw [resolve_outer_eq_walk]
        unfold resolveRef
        cases walkBy walkStep .notExist (.byName v n) outer with
        | ok p => simp [evalExprE, evalExpr]
        | error e => simp [evalExprE]
  | num v k =>
    simp only [refOfExpr, Option.some.injEq] at he
    subst he
    simp only [resolveExprN, resolveRef, walkBy, searchIndex]
    cases hs : fieldNumberIndex h v k with
    | ok i => simp [walkStep, evalExprE, evalExpr]
    | error e =>
      have := field_number_index_errors h v k e hs
      subst this
      simp only [walkStep]
      cases walkBy walkStep .notExist (.byNumber v k) outer with
      | ok p => simp [evalExprE, evalExpr]
      | error e => simp [evalExprE]
  | col s i => simp [refOfExpr] at he
  | lit p => simp [refOfExpr] at he
  | bad e => simp [refOfExpr] at he
  | scalar s => simp [refOfExpr] at he

/-- the own columns shadow the enclosing queries' columns of the same name; an enclosing query shadows those
    further out -/
theorem inner_scope_shadows (ref : FieldRef) (h : List HField) (r : Row) (rest : List (List HField × Row)) (i : Nat)
    (hi : searchIndex h ref = .ok i) : resolveRef ref ((h, r) :: rest) = .ok ((r[i]?).getD nullP) := by
  simp [resolveRef, walkBy, hi, walkStep]

/-- an ambiguous inner scope is an error even when an enclosing scope knows the name exactly once -/
theorem inner_ambiguity_not_rescued (ref : FieldRef) (h : List HField) (r : Row) (rest : List (List HField × Row))
    (ha : searchIndex h ref = .error .ambiguous) : resolveRef ref ((h, r) :: rest) = .error .ambiguous := by
  simp [resolveRef, walkBy, ha, walkStep]

/-! ## column numbers after `View.Fix` -/

/-- a query result is renumbered: the column at position i is number i + 1 (names, views, flags untouched) -/
theorem number_hdr_spec (h : List HField) :
    (numberHdr h).length = h.length ∧
    ∀ (i : Nat) (f : HField), h[i]? = some f →
      (numberHdr h)[i]? = some { f with number := i + 1, fromTable := true } := by
  constructor
  · simp [numberHdr]
  · intro i f hf
    simp [numberHdr, List.getElem?_map, List.getElem?_zipIdx, hf]

/-! ## the model against the source as it stands -/

/-- the loop of `evalFieldReference`, translated, is the model's walk: found → the cell, ambiguous → that error,
    anything else → the enclosing record; no scope → "does not exist" -/
theorem gen_scope_walk_eq_model (ref : FieldRef) (scopes : List (List HField × Row)) :
    walkBy Gen.scopeWalkStep Gen.scopeWalkEnd ref scopes = resolveRef ref scopes := by
  have : Gen.scopeWalkStep = walkStep := by
    funext x
    cases x with
    | ok i => rfl
    | error e => cases e <;> rfl
  unfold resolveRef
  rw [this]
  rfl

/-- `*` keeps the table columns, `view.*` those of them whose view is spelled exactly like the qualifier — the
    filters of the model's `starFields` / `viewStarFields` -/
theorem gen_wildcard_filters_eq_model (h : List HField) (v : String) :
    h.filter Gen.tableColumnKeeps = starFields h ∧
    (h.filter Gen.tableColumnKeeps).filter (fun f => Gen.viewStarKeeps f v) = viewStarFields h v := by
  constructor
  · unfold starFields
    congr 1
    funext f
    simp [Gen.tableColumnKeeps]
  · unfold viewStarFields
    rw [List.filter_filter]
    congr 1
    funext f
    simp only [Gen.tableColumnKeeps, Gen.viewStarKeeps, Bool.not_not]
    cases f.fromTable <;> simp [bne, Bool.and_comm]

theorem gen_names_bodies_eq_ref :
    Gen.evalFieldReferenceBody = Ref.evalFieldReferenceBody ∧ Gen.parseWildcardBody = Ref.parseWildcardBody ∧
    Gen.tableColumnsBody = Ref.tableColumnsBody := ⟨rfl, rfl, rfl⟩

/-! ## non-vacuity -/

/-- a one-column header `view.name` -/
def hf (v n : String) : HField := { view := v, name := n, isJoin := false }

-- the inner query knows k once: its cell, although the outer query knows k too
example (a b k : String) : resolveRef (.byName none k) [([hf b k], [cI 1]), ([hf a k], [cI 2])] = .ok (cI 1) := by
  simp [resolveRef, walkBy, searchIndex, fieldIndex, fieldIndexGo, fieldMatches, joinWins, colEq, walkStep, hf]
-- the inner query does not know v: the enclosing record answers
example (a b k v : String) (hkv : eqFold (trimSpace k) (trimSpace v) = false) :
    resolveRef (.byName none v) [([hf b k], [cI 1]), ([hf a v], [cI 2])] = .ok (cI 2) := by
  simp [resolveRef, walkBy, searchIndex, fieldIndex, fieldIndexGo, fieldMatches, joinWins, colEq, walkStep, hf, hkv]
-- the inner query knows k twice: ambiguous, although the outer query knows it once
example (a b c k : String) :
    resolveRef (.byName none k) [([hf b k, hf c k], [cI 1, cI 3]), ([hf a k], [cI 2])] = .error .ambiguous := by
  simp [resolveRef, walkBy, searchIndex, fieldIndex, fieldIndexGo, fieldMatches, joinWins, colEq, walkStep, hf]
-- a qualifier only the enclosing query has; a qualifier no scope has
example (a b k : String) (hba : eqFold b a = false) :
    resolveRef (.byName (some a) k) [([hf b k], [cI 1]), ([hf a k], [cI 2])] = .ok (cI 2) := by
  simp [resolveRef, walkBy, searchIndex, fieldIndex, fieldIndexGo, fieldMatches, joinWins, colEq, walkStep, hf, hba]
example (a b z k : String) (hbz : eqFold b z = false) (haz : eqFold a z = false) :
    resolveRef (.byName (some z) k) [([hf b k], [cI 1]), ([hf a k], [cI 2])] = .error .notExist := by
  simp [resolveRef, walkBy, searchIndex, fieldIndex, fieldIndexGo, fieldMatches, joinWins, colEq, walkStep, hf, hbz, haz]
-- column numbers: b.1 in the own scope, a.1 from the enclosing record, a.2 nowhere
example (a b k : String) :
    resolveRef (.byNumber b 1) [(numberHdr [hf b k], [cI 1]), (numberHdr [hf a k], [cI 2])] = .ok (cI 1) := by
  simp [resolveRef, walkBy, searchIndex, fieldNumberIndex, numberMatches, walkStep, hf, numberHdr, List.zipIdx]
example (a b k : String) (hba : eqFold b a = false) :
    resolveRef (.byNumber a 1) [(numberHdr [hf b k], [cI 1]), (numberHdr [hf a k], [cI 2])] = .ok (cI 2) := by
  simp [resolveRef, walkBy, searchIndex, fieldNumberIndex, numberMatches, walkStep, hf, numberHdr, List.zipIdx, hba]
example (a b k : String) (hba : eqFold b a = false) :
    resolveRef (.byNumber a 2) [(numberHdr [hf b k], [cI 1]), (numberHdr [hf a k], [cI 2])] = .error .notExist := by
  simp [resolveRef, walkBy, searchIndex, fieldNumberIndex, numberMatches, walkStep, hf, numberHdr, List.zipIdx, hba]
example : Gen.scopeWalkStep (.error .ambiguous) = .fail .ambiguous ∧ Gen.scopeWalkStep (.error .notExist) = .next ∧
    Gen.scopeWalkStep (.ok 3) = .found 3 := by decide

end Csvq.C03
