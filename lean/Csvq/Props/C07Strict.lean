/-
  C07 under --strict-equal — ORDER BY, LIMIT, OFFSET return a correctly sorted, correctly cut permutation also
  when the session compares identically.  Property theorems only.
  Code: lib/query/sort_value.go — NewSortValue's `if flags.StrictEqual { SerializeIdenticalKey(…) }`, the block
  `if v.SerializedKey != nil { … }` of SortValue.Less / SortValue.EquivalentTo (TRANSLATED on every run by
  extract/sortfacts: Gen.sortLessStrict / sortEquivStrict / sortLessK / sortEquivK), SortValues.Less.
  Model: Model/SortStrict.lean; the identical key is C04's (`normStrict`, `serKey`) with the texts csvq writes.

  The comparison BEFORE the repair of F116 (4d8b777) compared the upper-cased texts of two texts only: it is kept
  as `SSortVal.lessOld` with the proved counterexample `old_strict_less_not_asymmetric`.
-/
import Csvq.Props.C07
import Csvq.Props.C04KeyText
import Csvq.Lemmas.SortStrict
namespace Csvq.C07
open Csvq

/-! ## Tie to the source: the --strict-equal blocks as they stand in sort_value.go -/

theorem toSV_string (a : SortVal) : a.toSV.string = a.text := by cases a <;> rfl

/-- `SortValue.Less` as it stands in the source — block `if v.SerializedKey != nil { … }` included — IS the model's
    `SSortVal.less` for all pairs of sort values built under --strict-equal -/
theorem gen_sortLessStrict_eq_model (a b : SSortVal) (ha : a.val.WF) (hb : b.val.WF) :
    Gen.sortLessK a.toSVK b.toSVK = a.less b := by
  simp only [Gen.sortLessK, SSortVal.toSVK, Option.getD_some, Gen.sortLessStrict, SSortVal.less, SSortVal.isText,
    toSV_string, gen_sortLess_eq_model a.val b.val ha hb, beq_iff_eq, bne_iff_ne, ne_eq, Bool.and_eq_true]

/-- … and without the flag (`SerializedKey == nil`) it is the default mode's `SortVal.less` -/
theorem gen_sortLessK_default_eq_model (a b : SortVal) (ha : a.WF) (hb : b.WF) :
    Gen.sortLessK a.toSVK b.toSVK = a.less b := by
  simp only [Gen.sortLessK, SortVal.toSVK, gen_sortLess_eq_model a b ha hb]

/-- `SortValue.EquivalentTo` as it stands in the source, under --strict-equal: bytes.Equal of the identical keys -/
theorem gen_sortEquivStrict_eq_model (a b : SSortVal) : Gen.sortEquivK a.toSVK b.toSVK = a.equiv b := by
  simp only [Gen.sortEquivK, SSortVal.toSVK, Option.getD_some, Gen.sortEquivStrict, SSortVal.equiv]

theorem gen_sortEquivK_default_eq_model (a b : SortVal) : Gen.sortEquivK a.toSVK b.toSVK = a.equiv b := by
  simp only [Gen.sortEquivK, SortVal.toSVK, gen_sortEquiv_eq_model a b]

/-- one round of the loop of `SortValues.Less` as it stands in the source is one unfolding of `rowsLessS` -/
theorem gen_rowsLessS_step (it : OrdItem) (a b : SSortVal) (its : List OrdItem) (as bs : List SSortVal) :
    rowsLessS (it :: its) (a :: as) (b :: bs) =
      match Gen.rowsLessStep (a.less b) a.val.isNull b.val.isNull (it.dir == .asc) (it.np == .first) with
      | some r => r
      | none => rowsLessS its as bs := by
  obtain ⟨d, n⟩ := it
  simp only [rowsLessS, rowsLessWith, Gen.rowsLessStep]
  cases a.less b <;> cases d <;> cases n <;> cases a.val.isNull <;> cases b.val.isNull <;> simp

/-- the source text of EquivalentTo's block (also pinned by C17's peers) -/
theorem gen_strict_equiv_block_reviewed :
    Gen.strictPrefixEquiv =
      ["{", "return", "bytes.Equal(v.SerializedKey.Bytes(),", "compareValue.SerializedKey.Bytes())", "}"] := by
  decide

/-! ## The identical key: two values carry the same key iff they are the same value of the same type -/

/-- SerializeIdenticalKey is injective on (type, content): the key texts csvq writes are C04's (`keytext_ok`) -/
theorem identKey_eq_iff (v w : Val) :
    identKey v = identKey w ↔
      normStrict v (match v with | .str s => PF.trimSpace s | _ => [])
        = normStrict w (match w with | .str s => PF.trimSpace s | _ => []) := by
  constructor
  · intro h; exact serKey_injective sortKeyText C04.keytext_ok _ _ h
  · intro h; exact congrArg (serKey sortKeyText) h

/-- the tag byte tells a text's key from every other key -/
theorem identKey_isText_iff (p : Profile) (txt : Bytes) :
    (toSSortVal p txt).isText = true ↔ ∃ s, p.raw = .str s := by
  unfold toSSortVal SSortVal.isText identKey serKey
  cases h : p.raw <;> simp [normStrict, tagOf]

/-- NULL — and nothing else — carries the key `[N]` -/
theorem identKey_null_iff (v : Val) : identKey v = nullKey ↔ v = .null := by
  constructor
  · intro h
    have : identKey v = identKey .null := by rw [h]; rfl
    have := (identKey_eq_iff v .null).mp this
    cases v <;> simp [normStrict] at this ⊢
  · intro h; subst h; rfl

/-! ## What NewSortValue builds under the flag lies in the domain -/

theorem toSortVal_text_ne_null (p : Profile) (txt s : Bytes) (hp : p.raw = .str s) (hu : p.strU?.isSome = true) :
    toSortVal p txt ≠ .null := by
  unfold toSortVal Profile.isNull
  rw [hp]
  simp only [Bool.false_eq_true, if_false]
  cases p.int? <;> simp only [ne_eq, reduceCtorEq, not_false_eq_true]
  cases p.flt? <;> simp only [ne_eq, reduceCtorEq, not_false_eq_true]
  cases p.dt? <;> simp only [ne_eq, reduceCtorEq, not_false_eq_true]
  cases p.bool? <;> simp only [ne_eq, reduceCtorEq, not_false_eq_true]
  cases h : p.strU? with
  | none => rw [h] at hu; exact absurd hu (by simp)
  | some u => simp

/-- **any two texts are comparable under --strict-equal** — letter-case twins, padded twins, numbers, booleans and
    datetimes written as texts alike (`hdet`: identical keys come with identical sort values — every conversion
    of NewSortValue's ladder starts from the trimmed text the key holds) -/
theorem text_cells_comparable (p q : Profile) (tp tq s t : Bytes) (hp : p.raw = .str s) (hq : q.raw = .str t)
    (hpu : p.strU?.isSome = true) (hqu : q.strU?.isSome = true)
    (hdet : identKey p.raw = identKey q.raw → toSortVal p tp = toSortVal q tq) :
    CompatSI (toSSortVal p tp) (toSSortVal q tq) := by
  have ta : (toSSortVal p tp).isText = true := (identKey_isText_iff p tp).mpr ⟨s, hp⟩
  have tb : (toSSortVal q tq).isText = true := (identKey_isText_iff q tq).mpr ⟨t, hq⟩
  have wf : ∀ (r : Profile) (tr u : Bytes), r.raw = .str u → r.strU?.isSome = true → (toSSortVal r tr).WF := by
    intro r tr u hr hu
    constructor
    · intro h; exact absurd h (toSortVal_text_ne_null r tr u hr hu)
    · intro h
      have : r.raw = .null := (identKey_null_iff r.raw).mp h
      rw [hr] at this; cases this
  refine ⟨⟨wf p tp s hp hpu, wf q tq t hq hqu, hdet, Or.inr (Or.inr (Or.inl ⟨ta, tb⟩))⟩, ?_⟩
  intro h; rw [ta] at h; cases h

/-- **any two integers (as values; exactly representable as float64, as in the default mode's domain) are comparable
    under --strict-equal, and tie exactly when identical** -/
theorem int_cells_comparable (i j : Int) (ti tj : Bytes) (hdet : i = j → ti = tj)
    (hi : (SortVal.int i (FVal.ofInt i) ti).isNum) (hj : (SortVal.int j (FVal.ofInt j) tj).isNum) :
    CompatSI (toSSortVal (profileOf (.int i)) ti) (toSSortVal (profileOf (.int j)) tj) := by
  have nk : ∀ k : Int, identKey (.int k) ≠ nullKey := fun k h => by cases (identKey_null_iff _).mp h
  have nt : ∀ (k : Int) (tk : Bytes), (toSSortVal (profileOf (.int k)) tk).isText = false := by
    intro k tk
    cases h : (toSSortVal (profileOf (.int k)) tk).isText
    · rfl
    · obtain ⟨s, hs⟩ := (identKey_isText_iff _ tk).mp h; cases hs
  have ev : ∀ (k : Int) (tk : Bytes), toSSortVal (profileOf (.int k)) tk = ⟨.int k (FVal.ofInt k) tk, identKey (.int k)⟩ := by
    intro k tk; simp [toSSortVal, toSortVal, profileOf, Profile.isNull]
  have wf : ∀ (k : Int) (tk : Bytes), (toSSortVal (profileOf (.int k)) tk).WF := by
    intro k tk; rw [ev]; constructor
    · intro h; cases h
    · intro h; exact absurd h (nk k)
  have key_inj : identKey (.int i) = identKey (.int j) → i = j := by
    intro h
    have := (identKey_eq_iff _ _).mp h
    simpa [normStrict] using this
  refine ⟨⟨wf i ti, wf j tj, ?_, Or.inr (Or.inr (Or.inr ⟨nt i ti, nt j tj, ?_⟩))⟩, ?_⟩
  · rw [ev, ev]; intro h
    have e := key_inj h
    subst e; rw [hdet rfl]
  · rw [ev, ev]
    right; right; left
    exact ⟨hi, hj⟩
  · rw [ev, ev]; intro _ _ _ _ h
    simp only [SortVal.less] at h
    by_cases e : i = j
    · subst e; rfl
    · simp [e] at h; exact absurd h (ofB_ne_U _)

/-! ## On comparable key columns the strict row comparison is a strict weak order -/

/-- the table is in the property's domain under --strict-equal: one sort value per ORDER BY item in every row and
    any two rows column-wise comparable (per column: all texts, or all numbers, or all datetimes; plus NULLs) -/
def TableInDomainS (its : List OrdItem) (rows : List (List SSortVal)) : Prop :=
  (∀ r ∈ rows, r.length = its.length) ∧ (∀ r ∈ rows, ∀ s ∈ rows, RowsCompatS r s)

/-- … and numerically equal keys are identical (what WITH TIES needs) -/
def TableInDomainSI (its : List OrdItem) (rows : List (List SSortVal)) : Prop :=
  (∀ r ∈ rows, r.length = its.length) ∧ (∀ r ∈ rows, ∀ s ∈ rows, RowsCompatSI r s)

theorem TableInDomainSI.toS {its rows} (h : TableInDomainSI its rows) : TableInDomainS its rows :=
  ⟨h.1, fun r hr s hs => RowsCompatSI.toS r s (h.2 r hr s hs)⟩

/-- **--strict-equal: the row comparison handed to sort.Sort is a strict weak order on the property's domain** —
    irreflexive, transitive, and "neither sorts before the other" is transitive -/
theorem rowsLess_strict_mode_strict_weak_order (its : List OrdItem) (rows : List (List SSortVal))
    (h : TableInDomainS its rows) :
    (∀ r ∈ rows, rowsLessS its r r = false) ∧
    (∀ r ∈ rows, ∀ s ∈ rows, ∀ t ∈ rows,
      rowsLessS its r s = true → rowsLessS its s t = true → rowsLessS its r t = true) ∧
    (∀ r ∈ rows, ∀ s ∈ rows, ∀ t ∈ rows,
      rowsLessS its r s = false → rowsLessS its s r = false → rowsLessS its s t = false → rowsLessS its t s = false →
      rowsLessS its r t = false ∧ rowsLessS its t r = false) := by
  refine ⟨?_, ?_, ?_⟩
  · intro r hr
    rw [rowsLessS_eq_lex its r r (h.2 r hr r hr)]; exact lexLt_irrefl _ _
  · intro r hr s hs t ht a b
    rw [rowsLessS_eq_lex its _ _ (h.2 r hr s hs)] at a
    rw [rowsLessS_eq_lex its _ _ (h.2 s hs t ht)] at b
    rw [rowsLessS_eq_lex its _ _ (h.2 r hr t ht)]
    exact lexLt_trans its _ _ _ (keysOfS_length its r (h.1 r hr)) (keysOfS_length its s (h.1 s hs))
      (keysOfS_length its t (h.1 t ht)) a b
  · intro r hr s hs t ht a1 a2 b1 b2
    rw [rowsLessS_eq_lex its _ _ (h.2 r hr s hs)] at a1
    rw [rowsLessS_eq_lex its _ _ (h.2 s hs r hr)] at a2
    rw [rowsLessS_eq_lex its _ _ (h.2 s hs t ht)] at b1
    rw [rowsLessS_eq_lex its _ _ (h.2 t ht s hs)] at b2
    rw [rowsLessS_eq_lex its _ _ (h.2 r hr t ht), rowsLessS_eq_lex its _ _ (h.2 t ht r hr)]
    have e1 := lexLt_incomp_eq its _ _ (keysOfS_length its r (h.1 r hr)) (keysOfS_length its s (h.1 s hs)) a1 a2
    have e2 := lexLt_incomp_eq its _ _ (keysOfS_length its s (h.1 s hs)) (keysOfS_length its t (h.1 t ht)) b1 b2
    rw [e1, e2]; exact ⟨lexLt_irrefl _ _, lexLt_irrefl _ _⟩

/-- the same statement for the default mode, in the same form -/
theorem rowsLess_default_mode_strict_weak_order (its : List OrdItem) (rows : List (List SortVal))
    (h : TableInDomain its rows) :
    (∀ r ∈ rows, rowsLess its r r = false) ∧
    (∀ r ∈ rows, ∀ s ∈ rows, ∀ t ∈ rows,
      rowsLess its r s = true → rowsLess its s t = true → rowsLess its r t = true) ∧
    (∀ r ∈ rows, ∀ s ∈ rows, ∀ t ∈ rows,
      rowsLess its r s = false → rowsLess its s r = false → rowsLess its s t = false → rowsLess its t s = false →
      rowsLess its r t = false ∧ rowsLess its t r = false) := by
  refine ⟨?_, ?_, ?_⟩
  · intro r hr; exact less_irrefl its r (h.2 r hr r hr)
  · intro r hr s hs t ht a b
    exact less_trans its r s t (h.1 r hr) (h.1 s hs) (h.1 t ht) (h.2 r hr s hs) (h.2 s hs t ht) (h.2 r hr t ht) a b
  · intro r hr s hs t ht a1 a2 b1 b2
    exact incomparable_trans its r s t (h.1 r hr) (h.1 s hs) (h.1 t ht) (h.2 r hr s hs) (h.2 s hs r hr)
      (h.2 s hs t ht) (h.2 t ht s hs) (h.2 r hr t ht) (h.2 t ht r hr) a1 a2 b1 b2

/-- negative transitivity under --strict-equal (the adjacent-pairs check of a sorted output is enough) -/
theorem not_less_trans_strict (its : List OrdItem) (r s t : List SSortVal)
    (hr : r.length = its.length) (hs : s.length = its.length) (ht : t.length = its.length)
    (h1 : RowsCompatS s r) (h2 : RowsCompatS t s) (h3 : RowsCompatS t r)
    (a : rowsLessS its s r = false) (b : rowsLessS its t s = false) : rowsLessS its t r = false := by
  rw [rowsLessS_eq_lex its _ _ h1] at a
  rw [rowsLessS_eq_lex its _ _ h2] at b
  rw [rowsLessS_eq_lex its _ _ h3]
  have lr := keysOfS_length its r hr
  have ls := keysOfS_length its s hs
  have lt := keysOfS_length its t ht
  cases hc : lexLt its (keysOfS its t) (keysOfS its r)
  · rfl
  · cases hsr : lexLt its (keysOfS its r) (keysOfS its s)
    · have e := lexLt_incomp_eq its _ _ lr ls hsr a
      rw [e] at hc; rw [hc] at b; exact absurd b (by simp)
    · have := lexLt_trans its _ _ _ lt lr ls hc hsr
      rw [this] at b; exact absurd b (by simp)

/-! ## Ties are exactly the identical keys -/

/-- **--strict-equal: two (non-NULL) sort values tie under `Less` iff `EquivalentTo` holds** — what makes
    WITH TIES and the peers of RANK & co. agree with the sort.  (NULL against a non-NULL value is UNKNOWN for
    `Less`; SortValues.Less then places it by NULLS FIRST / LAST: see `strict_rows_tie_iff_equivalent`.) -/
theorem strict_ties_iff_identical (a b : SSortVal) (h : CompatSI a b) (ha : a.val ≠ .null) (hb : b.val ≠ .null) :
    a.less b = .U ↔ a.equiv b = true := by
  rw [equivS_iff_key .first a b h]
  exact (less_keyS .first a b h.1 ha hb).2.2

/-- two texts always do — whatever they look like (numbers, datetimes, booleans written as texts, letter-case and
    padded twins): no side condition on numerically equal readings is needed -/
theorem strict_text_ties_iff_identical (a b : SSortVal) (h : CompatS a b) (ta : a.isText = true) (tb : b.isText = true) :
    a.less b = .U ↔ a.equiv b = true := by
  simp only [SSortVal.less, SSortVal.equiv, ta, tb, Bool.and_self, if_true, beq_iff_eq]
  by_cases hk : a.key = b.key
  · simp [hk]
  · simp only [hk, if_false, iff_false]
    split <;> exact ofB_ne_U _

/-- row level: neither row sorts before the other iff SortValues.EquivalentTo holds -/
theorem strict_rows_tie_iff_equivalent (its : List OrdItem) (r s : List SSortVal)
    (hr : r.length = its.length) (hs : s.length = its.length)
    (h1 : RowsCompatSI r s) (h2 : RowsCompatSI s r) :
    (rowsLessS its r s = false ∧ rowsLessS its s r = false) ↔ rowsEquivS r s = true := by
  rw [rowsLessS_eq_lex its r s (RowsCompatSI.toS r s h1), rowsLessS_eq_lex its s r (RowsCompatSI.toS s r h2),
    rowsEquivS_iff_keys_eq its r s hr hs h1]
  constructor
  · intro ⟨a, b⟩
    exact lexLt_incomp_eq its _ _ (keysOfS_length its r hr) (keysOfS_length its s hs) a b
  · intro e; rw [e]; exact ⟨lexLt_irrefl _ _, lexLt_irrefl _ _⟩

/-! ## The comparison before the repair (F116): a proved counterexample -/

/-- 'x' and 'X' as NewSortValue builds them under --strict-equal: String = "X" for both, keys `[S]x` / `[S]X` -/
def exLower : SSortVal := ⟨.str [88], identKey (.str [120])⟩
def exUpper : SSortVal := ⟨.str [88], identKey (.str [88])⟩

/-- **the old shape is not a strict weak order**: 'x' / 'X' are "less" in neither direction yet not equivalent
    (so every following ORDER BY key was ignored), and under DESC each sorts before the other -/
theorem old_strict_less_not_asymmetric :
    exLower.lessOld exUpper = .F ∧ exUpper.lessOld exLower = .F ∧ exLower.equiv exUpper = false ∧
    rowsLessWith SSortVal.lessOld [⟨.desc, .last⟩] [exLower] [exUpper] = true ∧
    rowsLessWith SSortVal.lessOld [⟨.desc, .last⟩] [exUpper] [exLower] = true ∧
    -- a following key is never consulted: (x, 2) does not sort after (X, 1) under `k, id`
    rowsLessWith SSortVal.lessOld [⟨.asc, .first⟩, ⟨.asc, .first⟩]
      [exUpper, ⟨.int 1 (.fin 0) [], identKey (.int 1)⟩] [exLower, ⟨.int 2 (.fin 0) [], identKey (.int 2)⟩] = false ∧
    -- the repaired comparison keeps the two apart in a fixed order, consistently in both directions
    exUpper.less exLower = .T ∧ exLower.less exUpper = .F ∧
    rowsLessS [⟨.desc, .last⟩] [exLower] [exUpper] = true ∧ rowsLessS [⟨.desc, .last⟩] [exUpper] [exLower] = false := by
  decide

/-! ## ORDER BY / OFFSET / LIMIT / WITH TIES under --strict-equal -/

def SortedS (its : List OrdItem) (rows : List (List SSortVal)) : Prop := SortedBy (rowsLessS its) rows

theorem orderByS_perm (its : List OrdItem) (rows : List (List SSortVal)) : (orderByS its rows).Perm rows :=
  sortBy_perm _ _

theorem orderByS_sorted (its : List OrdItem) (rows : List (List SSortVal)) (h : TableInDomainS its rows) :
    SortedS its (orderByS its rows) := by
  obtain ⟨irr, tr, _⟩ := rowsLess_strict_mode_strict_weak_order its rows h
  refine sortBy_sorted (rowsLessS its) (· ∈ rows) ?_ ?_ rows (fun a ha => ha)
  · intro a b ha hb hab
    cases hba : rowsLessS its b a
    · rfl
    · have := tr a ha b hb a ha hab hba
      rw [irr a ha] at this; exact absurd this (by simp)
  · intro a b c ha hb hc h1 h2
    exact not_less_trans_strict its a b c (h.1 a ha) (h.1 b hb) (h.1 c hc) (h.2 b hb a ha) (h.2 c hc b hb) (h.2 c hc a ha) h1 h2

/-- any two sorted permutations of a table carry the same sequence of sort keys, under --strict-equal as well -/
theorem sorted_perm_keys_unique_strict (its : List OrdItem) (rows out₁ out₂ : List (List SSortVal))
    (h : TableInDomainS its rows) (p₁ : out₁.Perm rows) (p₂ : out₂.Perm rows)
    (s₁ : SortedS its out₁) (s₂ : SortedS its out₂) :
    out₁.map (keysOfS its) = out₂.map (keysOfS its) := by
  have m : ∀ a, a ∈ out₁ → a ∈ rows := fun a ha => p₁.subset ha
  refine sorted_perm_keys_eq (rowsLessS its) (lexLt its) (keysOfS its) out₁ out₂ (p₁.trans p₂.symm) ?_ ?_ s₁ s₂
  · intro a ha b hb
    exact rowsLessS_eq_lex its a b (h.2 a (m a ha) b (m b hb))
  · intro a ha b hb h1 h2
    exact lexLt_incomp_eq its _ _ (keysOfS_length its a (h.1 a (m a ha))) (keysOfS_length its b (h.1 b (m b hb))) h1 h2

/-- OFFSET, LIMIT and WITH TIES cut the same keys out of every sorted permutation under --strict-equal — on tables
    whose numerically equal keys are identical (a column of 1 and 1.0 ties in the sort but not in `EquivalentTo`:
    there the rows WITH TIES adds depend on the order sort.Sort left inside the tie; the correspondence stream
    compares such cuts against the implementation's own order) -/
theorem cut_keys_unique_strict (its : List OrdItem) (rows out₁ out₂ : List (List SSortVal))
    (h : TableInDomainSI its rows) (p₁ : out₁.Perm rows) (p₂ : out₂.Perm rows)
    (s₁ : SortedS its out₁) (s₂ : SortedS its out₂) (n : Int) (k : Nat) (wt : Bool) :
    (limitRows rowsEquivS wt k (offsetRows n out₁)).map (keysOfS its)
      = (limitRows rowsEquivS wt k (offsetRows n out₂)).map (keysOfS its) := by
  have e := sorted_perm_keys_unique_strict its rows out₁ out₂ h.toS p₁ p₂ s₁ s₂
  have eqv_ok : ∀ out : List (List SSortVal), out.Perm rows → ∀ a ∈ offsetRows n out, ∀ b ∈ offsetRows n out,
      rowsEquivS a b = decide (keysOfS its a = keysOfS its b) := by
    intro out p a ha b hb
    rw [offset_spec] at ha hb
    have ma : a ∈ rows := p.subset (List.mem_of_mem_drop ha)
    have mb : b ∈ rows := p.subset (List.mem_of_mem_drop hb)
    have := rowsEquivS_iff_keys_eq its a b (h.1 a ma) (h.1 b mb) (h.2 a ma b mb)
    cases hq : rowsEquivS a b
    · have : ¬ keysOfS its a = keysOfS its b := fun e' => by rw [this.mpr e'] at hq; exact absurd hq (by simp)
      simp [this]
    · simp [this.mp hq]
  rw [limitRows_map rowsEquivS (keysOfS its) wt k _ (eqv_ok out₁ p₁),
      limitRows_map rowsEquivS (keysOfS its) wt k _ (eqv_ok out₂ p₂),
      offset_spec, offset_spec, List.map_drop, List.map_drop, e]

/-! ## non-vacuity -/

-- the keys of 'x', ' X ' (trimmed, letter case kept), 1, NULL
example : identKey (.str [120]) = [91, 83, 93, 120] ∧ identKey (.str [32, 88, 32]) = [91, 83, 93, 88] ∧
    identKey (.int 1) = [91, 73, 93, 49] ∧ identKey .null = nullKey := by decide
-- 'x' and 'X' are in the domain (both texts), tie in neither mode of the repaired comparison, and are not equivalent
example : CompatSI exLower exUpper := by
  refine ⟨⟨by decide, by decide, by decide, ?_⟩, by decide⟩
  right; right; left; decide
example : exLower.less exUpper ≠ .U ∧ exLower.equiv exUpper = false := by decide
-- 1 and 1.0 under the flag: comparable (the order theorems apply), tied by `Less`, not identical
example : ((⟨.int 1 (FVal.ofInt 1) [49], identKey (.int 1)⟩ : SSortVal).less
      ⟨.flt (FVal.ofInt 1) [49], identKey (.flt (FVal.ofInt 1))⟩ = .U) ∧
    ((⟨.int 1 (FVal.ofInt 1) [49], identKey (.int 1)⟩ : SSortVal).equiv
      ⟨.flt (FVal.ofInt 1) [49], identKey (.flt (FVal.ofInt 1))⟩ = false) := by decide +kernel
-- the integers 1 and 2 as values lie in the domain of `int_cells_comparable`
example : CompatSI (toSSortVal (profileOf (.int 1)) [49]) (toSSortVal (profileOf (.int 2)) [50]) := by
  have h1 : FVal.ofInt 1 = .fin (1 * FVal.unit) := by decide +kernel
  have h2 : FVal.ofInt 2 = .fin (2 * FVal.unit) := by decide +kernel
  refine int_cells_comparable 1 2 [49] [50] (by decide) ⟨h1, ?_⟩ ⟨h2, ?_⟩
  · rw [h1]; exact ⟨by decide +kernel, by decide +kernel⟩
  · rw [h2]; exact ⟨by decide +kernel, by decide +kernel⟩
-- two texts built by the model's own profile of a text: 'x' and 'X'
example : CompatSI (toSSortVal (profileOf (.str [120])) []) (toSSortVal (profileOf (.str [88])) []) :=
  text_cells_comparable _ _ [] [] [120] [88] rfl rfl rfl rfl (by decide)
-- a following key decides between letter-case twins that are identical: ('x', 2) before ('x', 1) under `k, id DESC`
example : rowsLessS [⟨.asc, .first⟩, ⟨.desc, .last⟩]
    [exLower, ⟨.int 2 (.fin 0) [], identKey (.int 2)⟩] [exLower, ⟨.int 1 (.fin 0) [], identKey (.int 1)⟩] = true := by decide
example : TableInDomainS [⟨.asc, .last⟩] [[exLower], [exUpper]] ∧
    orderByS [⟨.asc, .last⟩] [[exLower], [exUpper]] = [[exUpper], [exLower]] := by
  refine ⟨⟨by decide, ?_⟩, by decide⟩
  intro r hr s hs
  simp only [List.mem_cons, List.mem_nil_iff, or_false] at hr hs
  rcases hr with rfl | rfl <;> rcases hs with rfl | rfl <;>
    exact ⟨⟨by decide, by decide, by decide, Or.inr (Or.inr (Or.inl (by decide)))⟩, trivial⟩

end Csvq.C07
