/-
  Csvq.Props.C12ScopeCopies — property C12: the scopes the workers of a fan-out evaluate in do not share the backing
  arrays of their field-index caches.  A module of its own because it reads Gen/CopyFacts.lean (extract/copyfacts, the
  generator of C08's copy-depth facts), whose names clash with the copy facts of C13 that Props/C12 imports.
  Property theorems only.
-/
import Csvq.Gen.ShapeFacts
import Csvq.Gen.CopyFacts
namespace Csvq.C12
open Csvq

/-! ### the scopes the workers evaluate in have field-index caches of their own

  Every worker that evaluates expressions makes itself a scope (`CreateScopeForSequentialEvaluation` /
  `…RecordEvaluation`); evaluating a field reference ADDS to the scope's `FieldIndexCache`.  Two workers appending to
  caches whose slices share a backing array overwrite each other's entries (C12-m22).  The chain is regenerated: which
  constructor every worker calls (shapefacts), where the constructors take the records of the new scope from
  (shapefacts), and how deep `copyForChildScope` / `FieldIndexCache.Copy` copy (extract/copyfacts, C08's generator). -/

/-- how a field of the value a copy function returns is obtained (first fact at that level) -/
def copyHow (fn : String) (path : List String) : Option Csvq.CopyDepth.How :=
  (Gen.copyFacts.find? fun f => f.fn == fn && f.path == path).map (·.how)

def isFresh : Csvq.CopyDepth.How → Bool
  | .fresh _ => true
  | _ => false

/-- every worker's scope comes from a constructor that builds its records from `NewReferenceRecord` (a new cache) and
    `copyForChildScope`; `copyForChildScope` replaces the cache by `FieldIndexCache.Copy()`; and in that copy the map and
    BOTH slices are newly made (no level of the copy below the struct is the original's, apart from the immutable
    expression values the slice elements point to) -/
theorem gen_worker_scopes_have_own_caches :
    Gen.Shape.workerScopeCalls.all (fun c => (Gen.Shape.scopeRecordSources.lookup c.2.2).isSome) = true
    ∧ Gen.Shape.scopeRecordSources.all (fun s => s.2.all fun src =>
        src == "NewReferenceRecord" || src == "copyForChildScope" || src == "delegates:CreateScopeForRecordEvaluation") = true
    ∧ copyHow "ReferenceRecord.copyForChildScope" [".cache"] = some (.call "FieldIndexCache.Copy")
    ∧ copyHow "NewReferenceRecord" [".cache"] = some (.other "NewFieldIndexCache(cacheLen,LimitToUseFieldIndexSliceChache)")
    ∧ (copyHow "FieldIndexCache.Copy" []).map isFresh = some true
    ∧ (copyHow "FieldIndexCache.Copy" [".exprs"]).map isFresh = some true
    ∧ (copyHow "FieldIndexCache.Copy" [".indices"]).map isFresh = some true
    ∧ (copyHow "FieldIndexCache.Copy" [".m"]).map isFresh = some true
    ∧ (Gen.copyFacts.filter fun f => f.fn == "FieldIndexCache.Copy" && f.path.length == 1).all
        (fun f => isFresh f.how || f.how == .scalar) = true := by decide

example : isFresh (.other "c.exprs[:len(c.exprs)]") = false := by decide

end Csvq.C12
