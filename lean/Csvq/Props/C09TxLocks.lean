/-
  C09 — "…holds a table for update from its first data-changing or FOR UPDATE statement UNTIL ITS TRANSACTION ENDS".
  Property theorems only.  `Csvq.Gen.Retry.txCommit` / `txRollback` are REGENERATED from lib/query/transaction.go
  (extract/fsproto -retry): every call of Transaction.Commit / Rollback that can release a held table (Dispose /
  DisposeExcept / Clean on tx.CachedViews, Close* on tx.FileContainer, ReleaseResources*) with its position relative
  to the encode steps, the publications and the error returns; any other call on tx.CachedViews / tx.FileContainer,
  and any call that is not on the reviewed list, ends the extraction.

  A transaction holds a SET of tables, each one an instance of the per-table protocol of Model/Lock.lean in `wHold`;
  while a table is held nobody else can read or write it (`mutex_inv`).  Which tables are still held at an instant of
  COMMIT is decided by which releasing calls have been executed before it — that is what the theorems are about, for
  every number of written tables (rounds of each loop) and every choice of error returns taken.
-/
import Csvq.Lemmas.TxLocks
import Csvq.Gen.RetryLoop
namespace Csvq.C09
open Csvq.TxLocks Csvq.Gen.Retry

/-- in the regenerated Commit and Rollback the first releasing call comes behind every loop, every encode, every
    publication and every error return to the caller; both end with ReleaseResources -/
theorem gen_tx_release_order :
    safeTx txCommit = true ∧ safeTx txRollback = true ∧ releasesAtEnd txCommit = true ∧ releasesAtEnd txRollback = true := by
  decide

/-- **Locks are held until the transaction ends.**  In every execution of the regenerated Transaction.Commit — any
    number of created and updated tables, any error return taken — no call that can release a held table has been
    executed before any encode step and before any publication: every table the transaction has taken for update
    (written or only locked: SELECT … FOR UPDATE, DML that matched nothing) is still held at that instant, except
    the tables it has itself published already (`commitTable` gives up exactly the table it has just renamed:
    `gen_commit_publishes_before_release`). -/
theorem locks_held_until_transaction_ends (its : List Nat) (fs : List Bool) (a b : List Ev) (e : Ev)
    (h : (runSegs txCommit its fs).1 = a ++ e :: b) (he : e = .encode ∨ e = .commitTable) :
    ∀ x ∈ a, isRelease x = false := by
  have hs := scan_of_safeTx txCommit its fs gen_tx_release_order.1
  rw [h] at hs
  exact scan_meaning a b e hs (by rcases he with h | h <;> subst h <;> rfl)

/-- **A failed COMMIT keeps the locks until the ROLLBACK.**  When Commit returns an error to its caller — the context,
    truncate / seek, the encoder, the ending line break, a failed publication — no releasing call has been executed:
    every table not yet published is still held; and the regenerated Rollback (like the successful Commit) ends with
    ReleaseResources, the only place where they are given up. -/
theorem failed_commit_keeps_locks_until_rollback (its : List Nat) (fs : List Bool) (a b : List Ev)
    (h : (runSegs txCommit its fs).1 = a ++ .errReturn :: b) :
    (∀ x ∈ a, isRelease x = false) ∧ releasesAtEnd txRollback = true := by
  have hs := scan_of_safeTx txCommit its fs gen_tx_release_order.1
  rw [h] at hs
  exact ⟨scan_meaning a b .errReturn hs rfl, gen_tx_release_order.2.2.2⟩

/-! non-vacuity: two updated tables, the second publication fails; a successful commit ends with the release; and the
    same function with a releasing call in front of the encode loops (what DisposeExcept at the top of Commit is)
    has an execution in which a table is released while another is still being encoded -/

example : (runSegs txCommit [0, 2, 0, 2] (List.replicate 12 false ++ [true])).1 =
    [.encode, .encode, .commitTable, .commitTable, .errReturn] := by decide

example : (runSegs txCommit [0, 1, 0, 1] []).1 = [.encode, .commitTable, .releaseAll, .returnNil] := by decide

def earlyDispose : List Seg :=
  [.one .errReturn, .one (.releaseViews "CachedViews.DisposeExcept"), .one .relErrReturn,
   .loop [.errReturn, .encode, .errReturn], .loop [.commitTable, .errReturn], .one .releaseAll, .one .relErrReturn, .one .returnNil]

example : safeTx earlyDispose = false ∧
    (runSegs earlyDispose [1, 1] []).1 = [.releaseViews "CachedViews.DisposeExcept", .encode, .commitTable, .releaseAll, .returnNil] := by
  decide

end Csvq.C09
