/-
  Property C02 — fixed-length SINGLE-LINE files (delimiter positions `S[…]`).

  Model: Csvq.Model.Fixed, section "single-line files" (`writeAllS`, `encodeFixedS`, `endingAfter`, `fileFixedS` =
  go-text fixedlen `Writer.Write` with `SingleLine`, lib/query `encodeFixedLengthFormat`, and the ending-line-break rule
  of `Transaction.Commit` / the processor's `--out`; `norm`, `stepS`, `runS`, `readAllS`, `decodeFixedS` = `Reader.parseRecord`
  with `SingleLine` + `loadViewFromFixedLengthTextFile`).  A single-line file has no header line and no line breaks: the
  records follow one another, each exactly as long as the last delimiter position; the loader names the columns c1…cn.
  Tied to the code by the ops c02.encs / c02.decs of the c02 stream and the laws single_line:* (written and committed
  files, tables CREATEd and then switched with ALTER TABLE … SET DELIMITER_POSITIONS TO 'S[…]', --out, UPDATE + COMMIT).

    `fixed_singleline_refuse_or_spell`   the file is written if and only if there is something to write (a record, or the
                                         header convention allows an empty file), the positions increase and every text fits
                                         its column; otherwise an error;
    `fixed_singleline_rectangular`       for ALL input texts and ALL positions: an error or header-many fields per record;
    `fixed_singleline_no_shift`, and the round trip:

      ∀ t, rectangular t → fileFixedS wd o P strip t = .ok b → decodeFixedS wd o P b = .ok (canonS o t)
                                                                                       (WANTED — does not hold)
    fails for a cell that contains a line break, which the writer does not refuse: the reader ends the record there
    (`fixed_singleline_linebreak_counterexample`, the single-line face of F16);
    `fixed_singleline_roundtrip_partial` is what holds: no CR / LF in the cell texts — for every byte-width function with
    width(' ') = 1, every alignment, every strip setting (a committed single-line file never gets an ending line break:
    `endingAfter`);
    `fixed_singleline_ending_counterexample`  why: a line break after the last record IS a record — the file reads back
    with one more record of NULLs (what seed C01-m21 does to a table created and then switched to `S[…]`).
-/
import Csvq.Lemmas.FixedSingle
import Csvq.Props.C02
namespace Csvq.C02
open Csvq.Csv

namespace FS
open Csvq.Fixed

/-- **Refuse or spell** (single-line): written iff not (without header and no record) and, for every record, the
    positions increase and every text fits its column. -/
theorem fixed_singleline_refuse_or_spell (wd : Char → Nat) (o : Fixed.Opts) (P : List Nat) (strip : Bool)
    (t : Fixed.Table) (hrect : ∀ r ∈ t.rows, r.length = P.length) :
    (∃ b, fileFixedS wd o P strip t = .ok b) ↔
      (¬ (o.withoutHeader = true ∧ t.rows = []) ∧ ∀ r ∈ t.rows, validFrom 0 P = true ∧ Fits wd 0 P r) := by
  have hrec : ∀ x ∈ t.rows, ((∃ s, Fixed.writeRecord wd false P x = .ok s) ↔ (validFrom 0 P = true ∧ Fits wd 0 P x)) :=
    fun x hx => writeFields_isOk wd false P x true 0 (hrect x hx)
  have hall := Fixed.writeAllS_isOk wd P t.rows
  unfold fileFixedS encodeFixedS
  by_cases hde : (o.withoutHeader && t.rows.isEmpty) = true
  · simp only [hde, if_true]
    simp only [Bool.and_eq_true, List.isEmpty_iff] at hde
    constructor
    · rintro ⟨_, h⟩; cases h
    · rintro ⟨h, _⟩; exact absurd hde h
  · simp only [hde, Bool.false_eq_true, if_false]
    have hde' : ¬ (o.withoutHeader = true ∧ t.rows = []) := by
      simpa [Bool.and_eq_true, List.isEmpty_iff] using hde
    constructor
    · rintro ⟨b, hb⟩
      cases hw : Fixed.writeAllS wd P t.rows with
      | error e => rw [hw] at hb; cases hb
      | ok txt =>
        have h := hall.mp ⟨txt, hw⟩
        exact ⟨hde', fun x hx => (hrec x hx).mp (h x hx)⟩
    · rintro ⟨_, hf⟩
      obtain ⟨txt, hw⟩ := hall.mpr (fun x hx => (hrec x hx).mpr (hf x hx))
      exact ⟨_, by rw [hw]⟩

/-- what a single-line file can carry back: increasing positions, one column per position, no line break in a cell -/
def SingleSpellable (P : List Nat) (t : Fixed.Table) : Prop :=
  validFrom 0 P = true ∧ P ≠ [] ∧ t.header.length = P.length ∧ (∀ r ∈ t.rows, r.length = P.length) ∧
  (∀ r ∈ t.rows, ∀ f ∈ r, ∀ c ∈ f.contents, c ≠ '\r' ∧ c ≠ '\n')

instance (P : List Nat) (t : Fixed.Table) : Decidable (SingleSpellable P t) := by
  unfold SingleSpellable; infer_instance

/-
  WANTED (does not hold for the code: the writer accepts a cell with a line break, see the counterexample):

  theorem fixed_singleline_roundtrip (wd : Char → Nat) (hwd : ∀ c, 1 ≤ wd c) (hw : wd ' ' = 1) (o : Fixed.Opts)
      (P : List Nat) (strip : Bool) (t : Fixed.Table) (hv : validFrom 0 P = true) (hP : P ≠ [])
      (hh : t.header.length = P.length) (hr : ∀ r ∈ t.rows, r.length = P.length)
      (b : List Char) (hb : fileFixedS wd o P strip t = .ok b) :
      decodeFixedS wd o P b = .ok (canonS o t)
-/

/-- **Round trip** (single-line, what holds): whatever is written for a table without CR / LF in its cell texts — with
    or without `strip-ending-line-break`, the file is the records and nothing else — reads back, with the same
    positions, as `canonS`: the columns c1…cn, the same records, every cell trimmed, empty = NULL. -/
theorem fixed_singleline_roundtrip_partial (wd : Char → Nat) (hwd : ∀ c, 1 ≤ wd c) (hw : wd ' ' = 1)
    (o : Fixed.Opts) (P : List Nat) (strip : Bool) (t : Fixed.Table)
    (hs : SingleSpellable P t) (b : List Char) (hb : fileFixedS wd o P strip t = .ok b) :
    decodeFixedS wd o P b = .ok (canonS o t) := by
  obtain ⟨hv, hP, hhl, hrl, hrnb⟩ := hs
  unfold fileFixedS encodeFixedS at hb
  split at hb
  · next txt htxt =>
    injection hb with hb
    subst hb
    split at htxt
    · cases htxt
    · have hend : endingChars (endingAfter true strip o.lb) = [] := by
        simp [endingAfter, endingChars]
      rw [hend, List.append_nil]
      obtain ⟨σ, h1, h2, h3⟩ := Fixed.runS_rows wd hwd hw P hv hP t.rows { cols := P } txt
        (fun x hx => ⟨hrl x hx, hrnb x hx⟩) htxt
      have hread : Fixed.readAllS wd P txt = .ok σ := by
        unfold Fixed.readAllS
        rw [if_neg (by simp [hv])]
        have : (Fixed.S { cols := P } P 0 [] [] : Fixed.St) = { cols := P } := rfl
        rw [this] at h1
        rw [h1]
        exact h2
      unfold decodeFixedS
      cases P with
      | nil => exact absurd rfl hP
      | cons e ps =>
        simp only [hread, h3]
        rw [List.append_nil, List.reverse_reverse]
        unfold Fixed.assemble Fixed.canonS
        simp only [if_true]
        rw [autofill_autoNames, hhl]
        simp [rowOf, Fixed.canonCell, List.map_map, Function.comp]
  · cases hb

/-- **Rectangular, for ALL inputs** (single-line). -/
theorem fixed_singleline_rectangular (wd : Char → Nat) (o : Fixed.Opts) (P : List Nat) (inp : List Char) (t : DTable)
    (h : decodeFixedS wd o P inp = .ok t) : ∀ row ∈ t.rows, row.length = t.header.length := by
  unfold decodeFixedS at h
  cases P with
  | nil => cases h
  | cons e ps =>
    simp only at h
    cases hr : Fixed.readAllS wd (e :: ps) inp with
    | error err => rw [hr] at h; cases h
    | ok σ =>
      rw [hr] at h
      injection h with h
      subst h
      apply Fixed.assemble_rectangular
      intro rec hrec
      exact recs_readAllS wd (e :: ps) inp σ hr rec (by simpa using hrec)

/-- **No shift** (single-line): position (i, j) of what is read back is the canonical form of the text at (i, j). -/
theorem fixed_singleline_no_shift (wd : Char → Nat) (hwd : ∀ c, 1 ≤ wd c) (hw : wd ' ' = 1)
    (o : Fixed.Opts) (P : List Nat) (strip : Bool) (t : Fixed.Table)
    (hs : SingleSpellable P t) (b : List Char) (hb : fileFixedS wd o P strip t = .ok b) :
    ∃ d, decodeFixedS wd o P b = .ok d ∧ d.rows.length = t.rows.length ∧
      ∀ i j : Nat, (d.rows[i]?.bind fun (r : List DCell) => r[j]?)
        = (t.rows[i]?.bind fun (r : List Fixed.Field) => r[j]?).map (Fixed.canonCell o) := by
  refine ⟨Fixed.canonS o t, fixed_singleline_roundtrip_partial wd hwd hw o P strip t hs b hb, by simp [Fixed.canonS], ?_⟩
  intro i j
  simp only [Fixed.canonS, List.getElem?_map]
  cases t.rows[i]? with
  | none => rfl
  | some r => simp [List.getElem?_map]

/-- a committed single-line file never gets an ending line break -/
theorem singleline_no_ending (strip : Bool) (lb : LB) : endingAfter true strip lb = none := by
  simp [endingAfter]

/-- the writer accepts a cell with a line break; the reader ends the record there: one record is read as two -/
theorem fixed_singleline_linebreak_counterexample :
    let t : Fixed.Table := ⟨[['h']], [[⟨['a', '\n', 'b'], .left⟩]]⟩
    fileFixedS (fun _ => 1) {} [3] false t = .ok ['a', '\n', 'b'] ∧
    decodeFixedS (fun _ => 1) {} [3] ['a', '\n', 'b'] = .ok ⟨[['c', '1']], [[some ['a']], [some ['b']]]⟩ ∧
    canonS {} t = ⟨[['c', '1']], [[some ['a', '\n', 'b']]]⟩ := by
  refine ⟨rfl, rfl, rfl⟩

/-- why there is no ending line break: with one, the file has one more record, all NULL -/
theorem fixed_singleline_ending_counterexample :
    let t : Fixed.Table := ⟨[['h'], ['k']], [[⟨['a', 'a'], .left⟩, ⟨['1'], .right⟩], [⟨['b'], .left⟩, ⟨['2', '2'], .right⟩]]⟩
    fileFixedS (fun _ => 1) {} [2, 5] false t = .ok ['a', 'a', ' ', ' ', '1', 'b', ' ', ' ', '2', '2'] ∧
    decodeFixedS (fun _ => 1) {} [2, 5] ['a', 'a', ' ', ' ', '1', 'b', ' ', ' ', '2', '2']
      = .ok ⟨[['c', '1'], ['c', '2']], [[some ['a', 'a'], some ['1']], [some ['b'], some ['2', '2']]]⟩ ∧
    decodeFixedS (fun _ => 1) {} [2, 5] (['a', 'a', ' ', ' ', '1', 'b', ' ', ' ', '2', '2'] ++ ['\n'])
      = .ok ⟨[['c', '1'], ['c', '2']], [[some ['a', 'a'], some ['1']], [some ['b'], some ['2', '2']], [none, none]]⟩ := by
  refine ⟨rfl, rfl, rfl⟩

-- non-vacuity: the partial round trip applies to the table above
example :
    SingleSpellable [2, 5] ⟨[['h'], ['k']], [[⟨['a', 'a'], .left⟩, ⟨['1'], .right⟩], [⟨['b'], .left⟩, ⟨['2', '2'], .right⟩]]⟩ := by
  decide

-- refusals: a text longer than its column, positions that do not increase, nothing to write
example : fileFixedS (fun _ => 1) {} [2] false ⟨[['h']], [[⟨['a', 'b', 'c'], .left⟩]]⟩ = .error .tooLong := rfl
example : fileFixedS (fun _ => 1) {} [2, 2] false ⟨[['h'], ['k']], [[⟨['a'], .left⟩, ⟨['b'], .left⟩]]⟩ = .error .position := rfl
example : fileFixedS (fun _ => 1) { withoutHeader := true } [2] false ⟨[['h']], []⟩ = .error .dataEmpty := rfl
example : fileFixedS (fun _ => 1) {} [2] false ⟨[['h']], []⟩ = .ok [] := rfl

end FS
end Csvq.C02
