/-
  C19 (index-guard fragment, second part) — the argument handling of EVERY built-in function cannot index out of range.

  extract/errfacts (argfacts.go) regenerates, on every run, one fact per index / slice expression on an ARGUMENT SLICE:

    family `args`   the slice parameters of every function value of the `Functions` and `AggregateFunctions` tables, of
                    ListAgg / JsonAgg, and of every function that receives such a slice unchanged (execMath1Arg, roundParams,
                    execStringsPadding, prepareRegExpMatch, StringFormatter.Format, UserDefinedFunction.execute, …);
    family `Args`   the unevaluated lists `<p>.Args` of every function of lib/query with a parameter of type
                    parser.Function / AggregateFunction / ListFunction / AnalyticFunction (evalFunction, evalAggregateFunction,
                    evalListFunction, checkArgsFor…, JsonObject, Analyze, windowValues, every AnalyticFunction's Execute with
                    what its own CheckArgsLen established, setNthValue, setLag, …) and the locals built from them
                    (`args := make([]value.Primary, len(expr.Args))`, `argsExprs := expr.Args[1:]`),

  each with the conditions on the slice's length that dominate it in the source: enclosing `if` / `switch len(args)` / `&&` / `||`,
  the NEGATION of every earlier `if … { return … }`, the loop condition.  The parser lets a program call any function with ANY
  number of arguments; the theorem below is for every length:

      arg_index_in_range : s ∈ Gen.argIndexSites → s.key ∉ exempt → (∀ c ∈ s.conds, c.holds len i) → s.idx.inRange len i

  The sites whose guard is NOT a condition on the length in the same function are listed in `reviewedArgIndexSites` with the
  argument that guards them; `knownArgIndexSites` (sites that CAN go out of range: defects) holds no argument slice (one site of the
  constant-index sweep, family `const`, in the network-only `check-update` sub-command); `pinnedConstIndexSites`: see there.  Uses of a tracked slice
  without a rule (`Gen.argUnknownSites`) are listed in `reviewedArgUnknownSites`.  `arg_facts_cover_function_table`: every name of
  the regenerated function tables has a count check (or is a reviewed name that takes any number of arguments), so a new built-in
  without facts breaks the obligation.  The count checks are tied to the running code by harness/cmd/c19 (stream ops `c19.arity`:
  every name × every argument count 0 … max+2 through SQL text; the driver answers from `Gen.argCountChecks`).
-/
import Csvq.Gen.ErrFacts
import Csvq.Lemmas.ErrFacts

namespace Csvq.C19
open Csvq.ErrFacts

/-! ## the sites -/

/-- a site named without its line number (file, function with call context, expression) and a number of occurrences;
    compared field by field (building the key string of every site again and again is what makes kernel evaluation slow) -/
structure SiteRef where
  file : String
  fn : String
  expr : String
  count : Nat
deriving DecidableEq, Repr

def SiteRef.is (r : SiteRef) (s : ArgIndexSite) : Bool := r.expr == s.expr && r.fn == s.fn && r.file == s.file

/-- sites that can go out of range (each would be a Go panic reachable by some input).  One, found by the constant-index sweep
    (family `const`), in the `check-update` sub-command (network; never driven by the harness):

    * lib/action/update.go GetLatestReleaseIncludingPreRelease: `release := []*GithubRelease{{}}; json.Unmarshal(body, &release);
      return release[0], err` — encoding/json resets a slice to length 0 before it appends, so the body `[]` (a repository without
      releases) leaves `release` EMPTY and `release[0]` panics (raw Go panic: the sub-command has no recover).  Input:
      `csvq check-update --include-pre-release` while https://api.github.com/repos/mithrandie/csvq/releases answers `[]`.
      Not reproducible offline; reported, not repaired. -/
def knownArgIndexSites : List SiteRef :=
  [⟨"lib/action/update.go", "action.Client.GetLatestReleaseIncludingPreRelease", "release[0]", 1⟩]

/-- sites that are in range for a reason that is not a condition on the length in the same function (site, occurrences).
    All five hang on the same two facts about code outside the vocabulary:

    (U) `UserDefinedFunction.CheckArgsLen(expr, name, n)` returns an error for every n < 0: it demands
        `n = len(fn.Parameters)` (no defaults) or `fn.RequiredArgs ≤ n ≤ len(fn.Parameters)`, and both bounds are lengths /
        counts (≥ 0).  evalAggregateFunction and Analyze call it with n = len(Args) - 1 and return its error first, so a
        user-defined aggregate never gets past it with an empty argument list.
    (P) the parser's rule `arguments : (empty) { $$ = nil } | values` — an argument list is nil or non-empty, so
        `expr.Args == nil` is "no argument".

    * evalAggregateFunction `expr.Args[0]`, `expr.Args[1:]`: built-in aggregate ⇒ `len(expr.Args) != 1` was refused in the
      else-branch of `if aggfn == nil`; user-defined ⇒ (U).  `expr.Args[1:]` is only reached with aggfn == nil.
    * Analyze `fn.Args[1:]` (inside the worker closure, branch anfn == nil): aggfn != nil ⇒ `len(fn.Args) != 1` refused;
      user-defined ⇒ (U).
    * windowValues `expr.Args[0]`: called from Analyze's worker only in the branch anfn == nil, same argument.
    * evalListFunction `expr.Args[0]`: checkArgsForListFunction refused `expr.Args == nil || 2 < len` (P) and
      checkArgsForJsonAgg refused `1 != len`; evalListFunction returns their error before it reads the list.

    Every one of them is driven with 0 … max+2 arguments on the running code by harness/cmd/c19 (arity grid: built-in and
    user-defined aggregates, plain / OVER (), LISTAGG / JSON_AGG with and without WITHIN GROUP). -/
def reviewedArgIndexSites : List SiteRef :=
  [⟨"lib/query/eval.go", "evalAggregateFunction", "expr.Args[0]", 1⟩,
   ⟨"lib/query/eval.go", "evalAggregateFunction", "expr.Args[1:]", 1⟩,
   ⟨"lib/query/analytic_function.go", "Analyze", "fn.Args[1:]", 1⟩,
   ⟨"lib/query/analytic_function.go", "windowValues", "expr.Args[0]", 1⟩,
   ⟨"lib/query/eval.go", "evalListFunction", "expr.Args[0]", 1⟩]

/-- family `const` — the constant-index sweep: every `X[k]` / `X[len(X)-k]` / `X[a:b]` with constant bounds on a variable or field
    path of slice or string type in lib/query, lib/action, lib/cli, lib/option, under the length conditions of the SAME function.
    154 sites; 64 are proved in range by `arg_index_in_range` (among them `prepared.Statements[0]` of Cursor.Open, `values[0]` after
    `len(values) != 1`, the `fields[k]` of option parsing …).  The others are guarded by something that is not a condition on
    `len(X)` in the same function; they are PINNED here with their number of occurrences — reviewed by class, not proved — so that a
    NEW unguarded constant index (or a guard that is weakened until it no longer implies the index) breaks the obligation:

    A  ReferenceScope invariants — `rs.Blocks[0]`, `rs.nodes[0]`, `rs.Blocks[len-1]`, `blocks[0]`, `nodes[0]`: a scope is built by
       NewReferenceScope (one block, one node) and by CreateChild / CreateNode, which prepend; `….Records[0]` (scope, seqScope,
       anScope, rs, `records[0]`): read only in scopes made by CreateScopeForRecordEvaluation / …SequentialEvaluation / …Analytics,
       which put the record in front.
    B  views — `view.RecordSet[0]` / `[:1]` behind a comparison of `view.RecordLen()` (= len(view.RecordSet)) or behind the
       assignment of a one-element literal (JsonObject); ExtendRecordCapacity: `0 < view.RecordLen() &&` in the same expression.
    C  results of strings.Split (never empty): `words[0]`, `parts[0]`, `contentItems[0]`; `s[1:]` behind strings.HasPrefix(s, "s[");
       `runes[0]` of `[]rune(s)` behind `len(s) == 0`.
    D  slices built a few lines above — `h[0]`, `record[0]` (make(…, n+1)), `fieldList[0]` (make(…, RecordLen()+1)), `cmdargs[0]`,
       `cmdargs[1:]` (one element appended per argument, `len(args) < 1` refused), `infoList[0]` (appended together with `pathes`,
       whose length is checked), `groups[len-1]` (else-branch: the first iteration always appends), `tables[0]` (replaced by a
       one-element literal when empty), `args[0]` (loadView: make of a constant length; ConvertTableFunction: make(len(Args)) behind
       `len(tableFunction.Args) != 1`), `comps[0]`, `comps[1]` (make(len(using)) behind `len(using) < 1`, then `len(comps) == 1`).
    E  contracts with the callers / the grammar — `length[0]`, `length[1]` (CheckArgsLen: every caller passes []int{n} or
       []int{a, b}; the extractor checks that for every analytic type), `argslen[0]` (every caller passes a non-empty literal),
       `createTableStatement.Fields[0]` (a non-nil column list of the grammar is non-empty), `query.Tables[0]` (UPDATE names at least
       one table), `program[0]` (Calc: behind `len(program) == 1` held in a bool), `cell[0]` (cells are built by NewCell / NewGroupCell
       from at least one value), `r[0]`, `record[0]` (records of a view with at least the internal-id column; views without fields are
       driven by the harness's field-less grid). -/
def pinnedConstIndexSites : List SiteRef :=
  [⟨"lib/action/calc.go", "action.Calc", "program[0]", 1⟩,
   ⟨"lib/action/update.go", "action.ParseVersion", "words[0]", 1⟩,
   ⟨"lib/option/utils.go", "option.MustBeEnclosed", "runes[0]", 2⟩,
   ⟨"lib/option/utils.go", "option.FormatNumber", "parts[0]", 1⟩,
   ⟨"lib/option/utils.go", "option.ParseDelimiterPositions", "s[1:]", 1⟩,
   ⟨"lib/query/analytic_function.go", "Analyze", "seqScope.Records[0]", 1⟩,
   ⟨"lib/query/analytic_function.go", "windowValues", "anScope.Records[0]", 1⟩,
   ⟨"lib/query/analytic_function.go", "CheckArgsLen", "length[0]", 2⟩,
   ⟨"lib/query/analytic_function.go", "CheckArgsLen", "length[1]", 2⟩,
   ⟨"lib/query/analytic_function.go", "Rank.Execute", "scope.Records[0]", 4⟩,
   ⟨"lib/query/analytic_function.go", "DenseRank.Execute", "scope.Records[0]", 4⟩,
   ⟨"lib/query/analytic_function.go", "CumeDist.Execute", "scope.Records[0]", 1⟩,
   ⟨"lib/query/analytic_function.go", "PercentRank.Execute", "scope.Records[0]", 1⟩,
   ⟨"lib/query/analytic_function.go", "perseCumulativeGroups", "groups[len(groups) - 1]", 2⟩,
   ⟨"lib/query/analytic_function.go", "setNthValue", "anScope.Records[0]", 1⟩,
   ⟨"lib/query/analytic_function.go", "setLag", "anScope.Records[0]", 1⟩,
   ⟨"lib/query/analytic_function.go", "AnalyticListAgg.Execute", "anScope.Records[0]", 1⟩,
   ⟨"lib/query/analytic_function.go", "AnalyticJsonAgg.Execute", "anScope.Records[0]", 1⟩,
   ⟨"lib/query/built_in_command.go", "ShowObjects", "words[0]", 1⟩,
   ⟨"lib/query/encode.go", "encodeFixedLengthFormat", "fieldList[0]", 1⟩,
   ⟨"lib/query/error.go", "NewFunctionArgumentLengthError", "argslen[0]", 2⟩,
   ⟨"lib/query/eval.go", "evaluateSequentialRoutine", "seqScope.Records[0]", 1⟩,
   ⟨"lib/query/eval.go", "evalSubqueryForValue", "view.RecordSet[0]", 1⟩,
   ⟨"lib/query/eval.go", "evalSubqueryForRowValue", "view.RecordSet[0]", 2⟩,
   ⟨"lib/query/file_info.go", "SearchFilePathWithExtType", "infoList[0]", 1⟩,
   ⟨"lib/query/function.go", "Call", "cmdargs[0]", 1⟩,
   ⟨"lib/query/function.go", "Call", "cmdargs[1:]", 1⟩,
   ⟨"lib/query/function.go", "JsonObject", "view.RecordSet[0]", 2⟩,
   ⟨"lib/query/header.go", "NewHeaderWithId", "h[0]", 2⟩,
   ⟨"lib/query/join.go", "ParseJoinCondition", "comps[0]", 1⟩,
   ⟨"lib/query/join.go", "ParseJoinCondition", "comps[1]", 1⟩,
   ⟨"lib/query/join.go", "InnerJoin", "seqScope.Records[0]", 1⟩,
   ⟨"lib/query/join.go", "OuterJoin", "seqScope.Records[0]", 1⟩,
   ⟨"lib/query/load_view.go", "LoadView", "tables[0]", 1⟩,
   ⟨"lib/query/load_view.go", "loadView", "s[1:]", 1⟩,
   ⟨"lib/query/load_view.go", "loadView", "args[0]", 1⟩,
   ⟨"lib/query/processor.go", "Processor.ExecuteStatement", "createTableStatement.Fields[0]", 1⟩,
   ⟨"lib/query/query.go", "selectQuery", "view.RecordSet[0]", 1⟩,
   ⟨"lib/query/query.go", "Update", "query.Tables[0]", 1⟩,
   ⟨"lib/query/query.go", "Update", "seqScope.Records[0]", 1⟩,
   ⟨"lib/query/record.go", "NewRecordWithId", "record[0]", 1⟩,
   ⟨"lib/query/record.go", "Record.GroupLen", "r[0]", 1⟩,
   ⟨"lib/query/reference_scope.go", "ReferenceScope.CreateScopeForRecordEvaluation", "records[0]", 1⟩,
   ⟨"lib/query/reference_scope.go", "ReferenceScope.CreateScopeForAnalytics", "records[0]", 1⟩,
   ⟨"lib/query/reference_scope.go", "ReferenceScope.CreateScopeForAnalytics", "rs.Records[0]", 2⟩,
   ⟨"lib/query/reference_scope.go", "ReferenceScope.CreateChild", "blocks[0]", 1⟩,
   ⟨"lib/query/reference_scope.go", "ReferenceScope.CreateNode", "nodes[0]", 1⟩,
   ⟨"lib/query/reference_scope.go", "ReferenceScope.Global", "rs.Blocks[len(rs.Blocks) - 1]", 1⟩,
   ⟨"lib/query/reference_scope.go", "ReferenceScope.CurrentBlock", "rs.Blocks[0]", 1⟩,
   ⟨"lib/query/reference_scope.go", "ReferenceScope.CloseCurrentNode", "rs.nodes[0]", 1⟩,
   ⟨"lib/query/reference_scope.go", "ReferenceScope.NextRecord", "rs.Records[0]", 3⟩,
   ⟨"lib/query/reference_scope.go", "ReferenceScope.DeclareVariable", "rs.Blocks[0]", 1⟩,
   ⟨"lib/query/reference_scope.go", "ReferenceScope.DeclareVariableDirectly", "rs.Blocks[0]", 1⟩,
   ⟨"lib/query/reference_scope.go", "ReferenceScope.SetTemporaryTable", "rs.Blocks[0]", 1⟩,
   ⟨"lib/query/reference_scope.go", "ReferenceScope.DeclareCursor", "rs.Blocks[0]", 1⟩,
   ⟨"lib/query/reference_scope.go", "ReferenceScope.AddPseudoCursor", "rs.Blocks[0]", 1⟩,
   ⟨"lib/query/reference_scope.go", "ReferenceScope.DeclareFunction", "rs.Blocks[0]", 1⟩,
   ⟨"lib/query/reference_scope.go", "ReferenceScope.DeclareAggregateFunction", "rs.Blocks[0]", 1⟩,
   ⟨"lib/query/reference_scope.go", "ReferenceScope.SetInlineTable", "rs.nodes[0]", 1⟩,
   ⟨"lib/query/reference_scope.go", "ReferenceScope.StoreInlineTable", "rs.nodes[0]", 1⟩,
   ⟨"lib/query/reference_scope.go", "ReferenceScope.AddAlias", "rs.nodes[0]", 1⟩,
   ⟨"lib/query/table_path.go", "ConvertTableFunction", "args[0]", 3⟩,
   ⟨"lib/query/transaction.go", "NewUrlResource", "contentItems[0]", 1⟩,
   ⟨"lib/query/user_defined_function.go", "UserDefinedFunction.execute", "scope.Blocks[0]", 1⟩,
   ⟨"lib/query/view.go", "View.group", "seqScope.Records[0]", 1⟩,
   ⟨"lib/query/view.go", "View.groupAll", "view.RecordSet[:1]", 1⟩,
   ⟨"lib/query/view.go", "View.groupAll", "view.RecordSet[0]", 1⟩,
   ⟨"lib/query/view.go", "View.ExtendRecordCapacity", "view.RecordSet[0]", 1⟩,
   ⟨"lib/query/view.go", "View.convertResultSetToRecordValues", "cell[0]", 1⟩,
   ⟨"lib/query/view_map.go", "ViewMap.GetWithInternalId", "record[0]", 1⟩]

def exemptArgIndexSites : List SiteRef := knownArgIndexSites ++ reviewedArgIndexSites ++ pinnedConstIndexSites

/-- the sites the checker does not accept -/
def unprovedArgIndexSites : List ArgIndexSite := Gen.argIndexSites.filter (fun s => !s.ok)

set_option maxRecDepth 100000 in
/-- **arg_index_sites_ok.**  Every index / slice expression on an argument slice (regenerated) is accepted by the checker,
    except the exempt sites — and of those no more occurrences than were reviewed. -/
theorem arg_index_sites_ok :
    Gen.argIndexSites.all (fun s => s.ok ||
      exemptArgIndexSites.any (fun r => r.is s && decide (unprovedArgIndexSites.countP (r.is ·) ≤ r.count))) = true := by
  decide +kernel

/-- **arg_index_in_range.**  For every site that is not exempt: whatever the number of arguments (`len`) and the value of the
    index variable (`i`), if the conditions that dominate the expression in the source hold, the expression is in range —
    Go's run-time check cannot fail there. -/
theorem arg_index_in_range (s : ArgIndexSite) (hs : s ∈ Gen.argIndexSites)
    (hk : ∀ r ∈ exemptArgIndexSites, r.is s = false) (len i : Nat)
    (hconds : ∀ c ∈ s.conds, c.holds len i) : s.idx.inRange len i := by
  have h := List.all_eq_true.mp arg_index_sites_ok s hs
  rw [Bool.or_eq_true] at h
  cases h with
  | inl hok => exact ArgIndexSite.ok_sound s hok len i hconds
  | inr hex =>
    rw [List.any_eq_true] at hex
    obtain ⟨r, hr, hrk⟩ := hex
    rw [Bool.and_eq_true] at hrk
    rw [hk r hr] at hrk
    exact absurd hrk.1 (by decide)

/-- with no exempt site left this is the statement for ALL sites -/
theorem arg_index_in_range_of_no_exempt (h : exemptArgIndexSites = []) (s : ArgIndexSite) (hs : s ∈ Gen.argIndexSites)
    (len i : Nat) (hconds : ∀ c ∈ s.conds, c.holds len i) : s.idx.inRange len i :=
  arg_index_in_range s hs (by rw [h]; intro r hr; cases hr) len i hconds

/-- no ARGUMENT slice (families `args`, `Args`: what a query can reach by calling a function with some number of arguments)
    is known to go out of range: the known list only holds sites of the constant-index sweep -/
theorem no_known_arg_index_defect :
    Gen.argIndexSites.all (fun s => s.family == "const" || !knownArgIndexSites.any (·.is s)) = true := by
  decide +kernel

/-- the exemptions are all used: no stale entry hides behind the lists (every exempt key names a regenerated site the checker
    does not accept) -/
theorem exempt_sites_exist :
    exemptArgIndexSites.all (fun r => unprovedArgIndexSites.any (r.is ·)) = true := by
  decide +kernel

/-! ## uses without a rule -/

/-- uses of a tracked slice the extractor has no rule for (site, occurrences), each reviewed:

    * Analyze `args` (line `fn.Args = args`): the copy made by `make(…, len(fn.Args))` + `copy` replaces the list it was copied
      from — same length; the extractor accepts the assignment for `fn.Args` for that reason and reports the value use of `args`.
    * evalFunction `expr.Args` (`Args: expr.Args` in the AggregateFunction literal handed to evalAggregateFunction): that function
      is analysed on its own as a root, for every argument list.
    * evalFunction `fn(expr, args, scope.Tx.Flags)` (twice: the struct and the evaluated list): the dispatch into the `Functions`
      table — every function value of the table is a root of family `args`.
    * JsonObject `fields` (the copy of fn.Args with plain arguments wrapped in a Field, `Fields: fields` of a SelectClause): handed to
      View.Select as the field list; no index by position.
    * StringFormatter.Format `values` (`f.values = values`): stored in the formatter, never read again through the field
      (grep: `f.values` has no other occurrence); the parameter itself is the tracked slice of the sites of that function. -/
def reviewedArgUnknownSites : List (String × Nat) :=
  [("argunknown:lib/query/analytic_function.go:Analyze/args:args", 1),
   ("argunknown:lib/query/eval.go:evalFunction:expr.Args", 1),
   ("argunknown:lib/query/eval.go:evalFunction:fn(expr, args, scope.Tx.Flags)", 1),
   ("argunknown:lib/query/eval.go:evalFunction/args:fn(expr, args, scope.Tx.Flags)", 1),
   ("argunknown:lib/query/function.go:JsonObject/fields:fields", 1),
   ("argunknown:lib/query/string_formatter.go:StringFormatter.Format:values", 1)]

/-- **arg_unknown_sites_reviewed.**  Every use of a tracked slice without a rule is a reviewed one. -/
theorem arg_unknown_sites_reviewed :
    Gen.argUnknownSites.all (fun s =>
      reviewedArgUnknownSites.any (fun r => r.1 == s.key && decide (Gen.argUnknownSites.countP (·.key == s.key) ≤ r.2))) = true := by
  decide +kernel

/-! ## the function tables are covered -/

/-- names that take ANY number of arguments (no count check to find): JSON_OBJECT([field, …]) — no arguments means every
    column (reference manual, "JSON_OBJECT"). -/
def anyCountFunctions : List (String × String) := [("special", "JSON_OBJECT")]

def hasCountCheck (table name : String) : Bool :=
  Gen.argCountChecks.any (fun c => c.table == table && c.name == name &&
    (!c.rejects.isEmpty || anyCountFunctions.contains (table, name)))

set_option maxRecDepth 100000 in
/-- **arg_facts_cover_function_table.**  Every key of query.Functions, query.AggregateFunctions, query.AnalyticFunctions, every
    name evalFunction dispatches on before the table and every list function of the parser has its count-check fact. -/
theorem arg_facts_cover_function_table :
    Gen.builtinFunctions.all (hasCountCheck "scalar") = true ∧
    Gen.aggregateFunctions.all (hasCountCheck "aggregate") = true ∧
    Gen.analyticFunctions.all (hasCountCheck "analytic") = true ∧
    Gen.specialFunctions.all (hasCountCheck "special") = true ∧
    Gen.listAggregateFunctions.all (hasCountCheck "list") = true := by
  decide +kernel

set_option maxRecDepth 100000 in
/-- the count checks of the scalar and analytic functions are unconditional and exact: they stand under no condition that is not
    about the number of arguments (so the `rejects` of a name decide its answer to a wrong count) -/
theorem scalar_count_checks_unconditional :
    Gen.argCountChecks.all (fun c => !(c.table == "scalar" || c.table == "analytic" || c.table == "special") || c.ctx.isEmpty) = true := by
  decide +kernel

set_option maxRecDepth 100000 in
/-- every function rejects SOME argument count, and every function that has a check accepts some count up to 5
    (non-vacuity of the extracted conditions: none is `false` / `true` by accident) -/
theorem count_checks_nontrivial :
    Gen.argCountChecks.all (fun c => c.rejects.isEmpty ||
      ((List.range 8).any (fun n => c.rejectsCount n) && (List.range 8).any (fun n => !c.rejectsCount n))) = true := by
  decide +kernel

/-! ## non-vacuity of the checker -/

/-- without its guard the same index is rejected; a guard that is too weak is rejected; the disjunctive guard of RAND
    (`¬(0 < len ∧ len ≠ 2)`, then `len ≠ 0`) is needed in full -/
example : ArgIndexSite.ok ⟨"", "", "", 0, "args", "args[1]", [], .const 1⟩ = false := by decide
example : ArgIndexSite.ok ⟨"", "", "", 0, "args", "args[1]", [.atom (.notLt 1)], .const 1⟩ = false := by decide
example : ArgIndexSite.ok ⟨"", "", "", 0, "args", "args[1]", [.or (.atom (.lt 1)) (.atom (.eq 2)), .atom (.notEq 0)], .const 1⟩ = true := by decide
example : ArgIndexSite.ok ⟨"", "", "", 0, "args", "args[1]", [.or (.atom (.lt 1)) (.atom (.eq 2))], .const 1⟩ = false := by decide
example : ArgIndexSite.ok ⟨"", "", "", 0, "args", "args[1:]", [], .sliceFrom 1⟩ = false := by decide
example : ArgIndexSite.ok ⟨"", "", "", 0, "args", "args[i]", [], .var⟩ = false := by decide
example : ArgIndexSite.ok ⟨"", "", "", 0, "args", "args[i]", [.varLt], .var⟩ = true := by decide
example : ¬ ArgIdx.inRange 1 0 (.const 1) := by simp [ArgIdx.inRange]
example : ¬ ArgIdx.inRange 0 0 (.sliceFrom 1) := by simp [ArgIdx.inRange]

end Csvq.C19
