/-
  Csvq.Props.C18LalrSites — property C18: the panic sites of the semantic actions that are not type assertions, pinned.

  In a module of its own (it needs nothing but the regenerated facts and the reviewed lists), so that a change of an
  action is reported here by name even when it breaks other modules too.
-/
import Csvq.Gen.LalrActions
import Csvq.Ref.LalrActions
namespace Csvq.C18

/-- every index / slice expression in a semantic action stands under a length test of the same action
    (Gen.Lalr.indexSites lists them with their guards) — except the reviewed ones of Ref/LalrActions.lean.  A new
    unguarded `x[i]` in an action (a dropped `if i < len(x)`) breaks this theorem. -/
theorem gen_action_index_sites_reviewed : Gen.Lalr.unguardedIndexSites = Ref.Lalr.unguardedIndexSites := rfl

/-- what the actions call outside lib/parser's own helpers is the reviewed list (none of them panics) -/
theorem gen_action_callees_reviewed : Gen.Lalr.externalCallees = Ref.Lalr.externalCallees := rfl

/-- lib/parser's own helpers the actions call have no panic site in their bodies (index, slice, type assertion without
    ok, panic call, division, pointer dereference) -/
theorem gen_action_helpers_reviewed : Gen.Lalr.helperPanicSites = Ref.Lalr.helperPanicSites := rfl

end Csvq.C18
