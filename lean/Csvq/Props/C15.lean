/-
  C15 — blocks and function calls give declarations a local lifetime and safe shadowing;
        BREAK / CONTINUE / RETURN / EXIT transfer control as documented.

  Property theorems only (the inductions over the fuel live in Csvq/Lemmas/Scope.lean).  Every theorem
  quantifies over ALL programs (syntax trees of Csvq.Scope.Stmt, including the ones csvq's parser rejects),
  all block stacks and all fuel.  `…I` functions are the interpreter written in the shape of the Go code
  (processor.go / reference_scope.go / user_defined_function.go), `…S` the reference semantics.

  What csvq does and the theorems therefore say (see the assumptions in the evidence):
    * names are resolved dynamically — a function body runs in a child scope of the CALLER's scope;
    * EXIT inside a function body (the parser forbids it) would only end that function.
-/
import Csvq.Lemmas.ScopeGen
namespace Csvq.C15
open Csvq Csvq.Scope Csvq.ScopeGen

/-! ## refinement: the Go-shaped interpreter and the reference semantics agree -/

/-- same PRINT trace, same final block stack, same way of ending — for every program and every fuel -/
theorem exec_refines (fuel : Nat) (p : List Stmt) : execImpl fuel p = execSpec fuel p := by
  unfold execImpl execSpec
  have h := (refInv fuel).block p none St.init
  rcases hB : blockS fuel p St.init with ⟨o, s⟩
  rw [hB] at h
  simp only [h.st, h.out]

theorem eval_refines (fuel : Nat) (e : Expr) (st : St) : evalI fuel e st = evalS fuel e st :=
  (refInv fuel).eval e st

theorem call_refines (fuel : Nat) (d : FDecl) (args : List SVal) (st : St) :
    callI fuel d args st = callS fuel d args st :=
  (refInv fuel).call d args st

/-- one statement: same session afterwards, and (flow, err, returnVal) read as one outcome is the spec's outcome -/
theorem stmt_refines (fuel : Nat) (s : Stmt) (rv : Option SVal) (st : St) :
    (stmtI fuel s rv st).st = (stmtS fuel s st).2 ∧ (stmtI fuel s rv st).outcome = (stmtS fuel s st).1 :=
  ⟨((refInv fuel).stmt s rv st).st, ((refInv fuel).stmt s rv st).out⟩

theorem execute_refines (fuel : Nat) (ss : List Stmt) (rv : Option SVal) (st : St) :
    (executeI fuel ss rv st).st = (blockS fuel ss st).2 ∧ (executeI fuel ss rv st).outcome = (blockS fuel ss st).1 :=
  ⟨((refInv fuel).block ss rv st).st, ((refInv fuel).block ss rv st).out⟩

/-- the processor's `returnVal` field is set exactly by a RETURN that is being unwound -/
theorem returnVal_discipline (fuel : Nat) (s : Stmt) (rv : Option SVal) (st : St)
    (he : (stmtI fuel s rv st).err = none) :
    ((stmtI fuel s rv st).flow ≠ .ret → (stmtI fuel s rv st).rv = rv) ∧
    ((stmtI fuel s rv st).flow = .ret → (stmtI fuel s rv st).rv ≠ none) ∧
    (stmtI fuel s rv st).flow ≠ .terminateWithError :=
  let h := ((refInv fuel).stmt s rv st).rvok
  ⟨h.keep he, h.set he, h.twe he⟩

/-! ## the block stack is balanced: every CreateChild is matched by one CloseCurrentBlock, on every path -/

theorem block_stack_balanced (fuel : Nat) (s : Stmt) (rv : Option SVal) (st : St) :
    (stmtI fuel s rv st).st.blocks.length = st.blocks.length := by
  rw [(stmt_refines fuel s rv st).1]
  exact (lenInv fuel).stmt s st

theorem block_stack_balanced_list (fuel : Nat) (ss : List Stmt) (rv : Option SVal) (st : St) :
    (executeI fuel ss rv st).st.blocks.length = st.blocks.length := by
  rw [(execute_refines fuel ss rv st).1]
  exact (lenInv fuel).block ss st

theorem block_stack_balanced_eval (fuel : Nat) (e : Expr) (st : St) :
    (evalI fuel e st).2.blocks.length = st.blocks.length := by
  rw [eval_refines]
  exact (lenInv fuel).eval e st

/-- a whole procedure ends with exactly the one global block it started with, however it ends -/
theorem block_stack_balanced_program (fuel : Nat) (p : List Stmt) : (execImpl fuel p).globals.length = 1 := by
  unfold execImpl St.obs
  simp only [List.length_map]
  exact block_stack_balanced_list fuel p none St.init

/-! ## declarations are local -/

/-- IF: block by block, the stack after the statement declares no name (variable or function) it did not declare before -/
theorem decl_local_if_blockwise (fuel : Nat) (br : List (Expr × List Stmt)) (els : List Stmt) (rv : Option SVal) (st : St) :
    StackLE (stmtI fuel (.ifs br els) rv st).st.blocks st.blocks := by
  rw [(stmt_refines fuel _ rv st).1]
  cases fuel with
  | zero => simp only [stmtS]; exact StackLE.refl _
  | succ f => simp only [stmtS]; exact (leInv f).ifs br els st

/-- CASE <value> WHEN …: as IF -/
theorem decl_local_case_blockwise (fuel : Nat) (e : Expr) (br : List (Expr × List Stmt)) (els : List Stmt) (rv : Option SVal) (st : St) :
    StackLE (stmtI fuel (.caseOf e br els) rv st).st.blocks st.blocks := by
  rw [(stmt_refines fuel _ rv st).1]
  cases fuel with
  | zero => simp only [stmtS]; exact StackLE.refl _
  | succ f =>
    simp only [stmtS]
    have h1 := (leInv f).eval e st
    generalize evalS f e st = r at h1 ⊢
    rcases r with ⟨_ | v, st1⟩
    · exact h1
    · exact ((leInv f).cs v br els st1).trans h1

theorem decl_local_while_blockwise (fuel : Nat) (c : Expr) (body : List Stmt) (rv : Option SVal) (st : St) :
    StackLE (stmtI fuel (.while c body) rv st).st.blocks st.blocks := by
  rw [(stmt_refines fuel _ rv st).1]
  cases fuel with
  | zero => simp only [stmtS]; exact StackLE.refl _
  | succ f => simp only [stmtS]; exact (leInv f).whl c body st

/-- WHILE [VAR] @x IN cursor: the loop variable declared with VAR and everything the iterations declared are gone -/
theorem decl_local_while_in_blockwise (fuel x : Nat) (d : Bool) (vals : List SVal) (body : List Stmt) (rv : Option SVal) (st : St) :
    StackLE (stmtI fuel (.foreach x d vals body) rv st).st.blocks st.blocks := by
  rw [(stmt_refines fuel _ rv st).1]
  cases fuel with
  | zero => simp only [stmtS]; exact StackLE.refl _
  | succ f => simp only [stmtS]; exact (leInv f).fe x d vals body st

/-- evaluating an expression — in particular calling functions, to any depth — leaves no declaration behind -/
theorem decl_local_call_blockwise (fuel : Nat) (e : Expr) (st : St) :
    StackLE (evalI fuel e st).2.blocks st.blocks := by
  rw [eval_refines]
  exact (leInv fuel).eval e st

/-- a variable that is not visible before an IF statement is not visible after it (whatever its blocks declared) -/
theorem decl_local (fuel : Nat) (br : List (Expr × List Stmt)) (els : List Stmt) (rv : Option SVal) (st : St) (x : Nat)
    (h : getVar x st.blocks = none) : getVar x (stmtI fuel (.ifs br els) rv st).st.blocks = none := by
  have := StackLE.getVar (x := x) (decl_local_if_blockwise fuel br els rv st)
  cases hg : getVar x (stmtI fuel (.ifs br els) rv st).st.blocks with
  | none => rfl
  | some v => simp [hg, h] at this

theorem decl_local_while (fuel : Nat) (c : Expr) (body : List Stmt) (rv : Option SVal) (st : St) (x : Nat)
    (h : getVar x st.blocks = none) : getVar x (stmtI fuel (.while c body) rv st).st.blocks = none := by
  have := StackLE.getVar (x := x) (decl_local_while_blockwise fuel c body rv st)
  cases hg : getVar x (stmtI fuel (.while c body) rv st).st.blocks with
  | none => rfl
  | some v => simp [hg, h] at this

theorem decl_local_call (fuel : Nat) (e : Expr) (st : St) (x : Nat)
    (h : getVar x st.blocks = none) : getVar x (evalI fuel e st).2.blocks = none := by
  have := StackLE.getVar (x := x) (decl_local_call_blockwise fuel e st)
  cases hg : getVar x (evalI fuel e st).2.blocks with
  | none => rfl
  | some v => simp [hg, h] at this

/-- the same for functions declared inside blocks and function bodies -/
theorem decl_local_function (fuel : Nat) (br : List (Expr × List Stmt)) (els : List Stmt) (rv : Option SVal) (st : St) (f : Nat)
    (h : (getFn f st.blocks).isSome = false) : (getFn f (stmtI fuel (.ifs br els) rv st).st.blocks).isSome = false := by
  have := StackLE.getFn (x := f) (decl_local_if_blockwise fuel br els rv st)
  cases hg : (getFn f (stmtI fuel (.ifs br els) rv st).st.blocks).isSome with
  | false => rfl
  | true => simp [hg, h] at this

/-- SOURCE / EXECUTE 'text' / EXECUTE prepared run their statements as if written in place: on the same processor
    (same returnVal), in the CURRENT block, the flow handed on — so whatever they declare is as local as a direct
    declaration (decl_local…, decl_only_in_current_block and shadowing cover `inline` like every other statement) -/
theorem inline_runs_in_current_block (fuel : Nat) (ss : List Stmt) (rv : Option SVal) (st : St) :
    stmtI (fuel + 1) (.inline ss) rv st = executeI fuel ss rv st ∧ stmtS (fuel + 1) (.inline ss) st = blockS fuel ss st :=
  ⟨by simp only [stmtI], by simp only [stmtS]⟩

/-- a declaration made through SOURCE / EXECUTE inside an IF branch that declares nothing itself is gone after END IF,
    and an outer variable of the same name is shadowed, not "redeclared" -/
theorem inline_decl_is_local (x : Nat) (v w : SVal) (k : Nat) (rv : Option SVal) (b : Block) (bs : List Block) (out : List SVal)
    (hx : aget x b.vars = some w) :
    let r := stmtI (k + 7) (.ifs [(.lit (.tern .T), [.inline [.decl x (.lit v)]])] []) rv ⟨b :: bs, out⟩
    r.outcome = .normal ∧ r.st = ⟨b :: bs, out⟩ := by
  intro r
  have hr := stmt_refines (k + 7) (.ifs [(.lit (.tern .T), [.inline [.decl x (.lit v)]])] []) rv ⟨b :: bs, out⟩
  suffices h : stmtS (k + 7) (.ifs [(.lit (.tern .T), [.inline [.decl x (.lit v)]])] []) ⟨b :: bs, out⟩ = (.normal, ⟨b :: bs, out⟩) by
    rw [h] at hr
    exact ⟨hr.2, hr.1⟩
  simp [stmtS, ifS, evalS, SVal.ternary, inBlock, blockS, St.push, St.pop, declareVar, hx]

/-- temporary tables as csvq has them (known finding F37): a name that is visible in any block cannot be declared
    again, not even in an inner block — nothing is changed, the error is "redeclared" -/
theorem table_cannot_be_shadowed (x : Nat) (w : SVal) (k : Nat) (rv : Option SVal) (st : St)
    (h : getVar x st.blocks = some w) :
    (stmtI (k + 1) (.declT x) rv st).outcome = .err .redeclaredTable ∧ (stmtI (k + 1) (.declT x) rv st).st = st := by
  simp [stmtI, h, PRes.fail, PRes.outcome]

/-- cursors: the innermost declaration of the name decides, whatever its state.  A cursor declared in the current
    block and closed (never opened, or closed again) makes FETCH fail with "cursor is closed" and changes nothing —
    an open outer cursor of the same name is neither read nor advanced -/
theorem innermost_cursor_decides (c x : Nat) (s : Int) (hs : s < 0) (b : Block) (rest : List Block)
    (hc : aget c b.vars = some (.int s)) :
    cursorDo .fetch c x (b :: rest) = (some .cursorClosed, b :: rest) := by
  simp [cursorDo, getVar, hc, curStep, hs]

/-- … and every cursor operation on a name the current block declares leaves the cursor variables of all outer
    blocks as they were: only the current block's `c` and the target of the fetch can change -/
theorem cursor_op_touches_innermost_only (op : CurOp) (c x : Nat) (v : SVal) (b : Block) (rest : List Block)
    (hc : aget c b.vars = some v) (hx : x ≠ c) :
    getVar c (cursorDo op c x (b :: rest)).2.tail = getVar c rest := by
  unfold cursorDo
  simp only [getVar, hc]
  cases curStep op v with
  | error e => rfl
  | ok r =>
    obtain ⟨s', ov⟩ := r
    have h1 : setVar c s' (b :: rest) = some ({ b with vars := aset c s' b.vars } :: rest) :=
      setVar_current s' rest (by simp [hc])
    simp only [h1]
    cases ov with
    | none => rfl
    | some w =>
      simp only []
      cases h2 : setVar x w ({ b with vars := aset c s' b.vars } :: rest) with
      | none => rfl
      | some bs2 =>
        simp only []
        simp only [setVar] at h2
        split at h2
        · cases h2; rfl
        · split at h2
          · rename_i r' hr'
            cases h2
            exact getVar_setVar_other (Ne.symm hx) hr'
          · cases h2

/-- ExecuteAggregate: EVERY invocation of a user-defined aggregate — whatever it aggregates, also an empty group or a
    call outside any query (`emptyPseudo`) — runs in a block of its own that declares the aggregate's cursor `c`
    over ITS OWN values: the Go-shaped call is the reference call made in the block `{c ↦ s0}`, and a cursor
    operation on `c` there never reads or moves a cursor `c` of the caller -/
theorem aggregate_call_declares_own_cursor (fuel : Nat) (d : FDecl) (c : Nat) (s0 : Int) (args : List SVal) (st : St) :
    callAggI fuel d c s0 args st = callAggS fuel d c s0 args st ∧
    (∀ (op : CurOp) (x : Nat) (bs : List Block), x ≠ c →
      getVar c (cursorDo op c x (⟨[(c, .int s0)], []⟩ :: bs)).2.tail = getVar c bs) :=
  ⟨(refInv fuel).callAgg d c s0 args st,
   fun op x bs hx => cursor_op_touches_innermost_only op c x (.int s0) ⟨[(c, .int s0)], []⟩ bs (by simp [aget]) hx⟩

/-- an aggregate whose body fetches once from its cursor and returns what it got: with a non-empty group the first
    value of ITS group, with NOTHING to aggregate its own argument — never a row of the caller's cursor of the same
    name, which (like the whole stack of the caller) is exactly as before -/
theorem aggregate_fetches_own_values (c x : Nat) (s0 : Int) (a : SVal) (k : Nat) (st : St) (hx : x ≠ c) (h0 : 0 ≤ s0) :
    callAggI (k + 5) ⟨[⟨x, none⟩], [.cursor .fetch c x, .ret (.var x)], some c⟩ c s0 [a] st =
      (.ok (if s0 % 10 < (s0 / 10) % 10 then .int s0 else a), st) := by
  obtain ⟨blocks, out⟩ := st
  have hs : ¬ s0 < 0 := by omega
  have hxc : ¬ c = x := fun h => hx h.symm
  by_cases hc : s0 % 10 < (s0 / 10) % 10
  · simp [callAggI, bindParamsI, executeI, stmtI, evalI, checkArgsLen, numDefaults, St.push, St.pop,
      declareVar, setVar, getVar, aget, aset, PRes.ok, Block.empty, cursorDo, curStep, hs, hc, hx, hxc]
  · simp [callAggI, bindParamsI, executeI, stmtI, evalI, checkArgsLen, numDefaults, St.push, St.pop,
      declareVar, setVar, getVar, aget, aset, PRes.ok, Block.empty, cursorDo, curStep, hs, hc, hx, hxc]

/-- any statement: only the CURRENT block can gain names; all enclosing blocks keep or lose theirs -/
theorem decl_only_in_current_block (fuel : Nat) (s : Stmt) (rv : Option SVal) (st : St) :
    StackLE (stmtI fuel s rv st).st.blocks.tail st.blocks.tail := by
  rw [(stmt_refines fuel s rv st).1]
  exact (leInv fuel).stmt s st

/-- an empty block anywhere below the current one is transparent (this is why WHILE may evaluate its
    condition in the freshly cleared child scope) -/
theorem empty_block_transparent (fuel n : Nat) (s : Stmt) (st : St) (h : st.blocks ≠ []) :
    stmtS fuel s (st.ins (n + 1)) = ((stmtS fuel s st).1, (stmtS fuel s st).2.ins (n + 1)) :=
  (insInv fuel).stmt n s st h

/-! ## shadowing and assignment -/

/-- an assignment to a name the current block declares changes the current block only -/
theorem assign_hits_innermost (x : Nat) (v : SVal) (b : Block) (rest : List Block) (h : (aget x b.vars).isSome) :
    setVar x v (b :: rest) = some ({ b with vars := aset x v b.vars } :: rest) :=
  setVar_current v rest h

/-- an assignment changes the value of the assigned name and of no other name -/
theorem assign_sets_only_that_name (x y : Nat) (v : SVal) (bs bs' : List Block) (h : setVar x v bs = some bs') :
    getVar x bs' = some v ∧ (y ≠ x → getVar y bs' = getVar y bs) :=
  ⟨getVar_setVar_same h, fun hy => getVar_setVar_other hy h⟩

/-- at every nesting depth `n`: a block that declares `@x` and assigns it `n` blocks further in leaves the
    whole outer stack exactly as it was — an outer `@x` keeps its value -/
theorem shadow_preserves_outer (x : Nat) (v1 v2 : SVal) (n k : Nat) (rv : Option SVal) (st : St) (hne : st.blocks ≠ []) :
    let prog := [Stmt.ifs [(.lit (.tern .T), .decl x (.lit v1) :: nest n [.assign x (.lit v2)])] []]
    let r := executeI (k + 3 * n + 7) prog rv st
    r.outcome = .normal ∧ r.st = st := by
  intro prog r
  have hr := execute_refines (k + 3 * n + 7) prog rv st
  suffices h : blockS (k + 3 * n + 7) prog st = (.normal, st) by
    rw [h] at hr
    exact ⟨hr.2, hr.1⟩
  obtain ⟨blocks, out⟩ := st
  have e : k + 3 * n + 7 = (k + 3 * n + 3) + 1 + 1 + 1 + 1 := by omega
  rw [e]
  simp only [prog, blockS, stmtS, ifS]
  have e2 : k + 3 * n + 3 = (k + 3 * n + 2) + 1 := by omega
  rw [e2]
  simp only [evalS, SVal.ternary, inBlock, St.push, declareVar, aget_empty_vars]
  have hs : setVar x v2 ({ vars := [(x, v1)], funs := [] } :: blocks) = some ({ vars := [(x, v2)], funs := [] } :: blocks) := by
    simp [setVar, aget, aset]
  have := nest_assign x v2 n k ⟨{ vars := [(x, v1)], funs := [] } :: blocks, out⟩ _ hs
  rw [e2] at this
  simp only [Block.empty] at this ⊢
  rw [this]
  simp [St.pop]

/-- at every nesting depth `n`: an assignment to a visible outer variable made `n` blocks further in persists,
    and no other variable changes -/
theorem outer_assign_persists (x : Nat) (v w : SVal) (n k : Nat) (rv : Option SVal) (st : St)
    (hvis : getVar x st.blocks = some w) :
    let r := executeI (k + 3 * n + 3) (nest n [.assign x (.lit v)]) rv st
    r.outcome = .normal ∧ getVar x r.st.blocks = some v ∧ (∀ y, y ≠ x → getVar y r.st.blocks = getVar y st.blocks) ∧
      r.st.out = st.out := by
  intro r
  obtain ⟨bs', hbs⟩ := setVar_of_getVar v hvis
  have hr := execute_refines (k + 3 * n + 3) (nest n [.assign x (.lit v)]) rv st
  rw [nest_assign x v n k st bs' hbs] at hr
  refine ⟨hr.2, ?_, ?_, ?_⟩
  · show getVar x r.st.blocks = some v
    rw [hr.1]; exact getVar_setVar_same hbs
  · intro y hy
    show getVar y r.st.blocks = _
    rw [hr.1]; exact getVar_setVar_other hy hbs
  · show r.st.out = _
    rw [hr.1]

/-! ## call frames -/

/-- a call leaves the caller's stack as deep as it was and, block by block, without any new name:
    parameters and locals of the callee (and of everything it called) are gone -/
theorem call_frames_independent (fuel : Nat) (d : FDecl) (args : List SVal) (st : St) :
    (callI fuel d args st).2.blocks.length = st.blocks.length ∧ StackLE (callI fuel d args st).2.blocks st.blocks := by
  rw [call_refines]
  exact ⟨(lenInv fuel).call d args st, (leInv fuel).call d args st⟩

/-- arguments are bound in the new frame only: whatever the names of the parameters, the caller's blocks
    are untouched by the binding (also when it fails half-way) -/
theorem params_bound_in_fresh_frame : ∀ (fuel : Nat) (ps : List Param) (args : List SVal) (b : Block) (bs : List Block)
    (out : List SVal), ps.length ≤ args.length →
    (bindParamsI fuel ps args ⟨b :: bs, out⟩).2.blocks.tail = bs ∧ (bindParamsI fuel ps args ⟨b :: bs, out⟩).2.out = out
  | 0, _, _, _, _, _, _ => by simp [bindParamsI]
  | f + 1, [], _, _, _, _, _ => by simp [bindParamsI]
  | f + 1, p :: ps, [], _, _, _, h => by simp at h
  | f + 1, p :: ps, a :: as, b, bs, out, h => by
    simp only [bindParamsI, declareVar]
    cases aget p.name b.vars with
    | some _ => simp
    | none =>
      simp only []
      exact params_bound_in_fresh_frame f ps as _ bs out (by simpa using h)

/-- a parameter named like a variable of the caller is a different variable: the callee assigns its own -/
theorem callee_param_does_not_alias_caller (x : Nat) (a w : SVal) (k : Nat) (st : St) :
    callI (k + 5) ⟨[⟨x, none⟩], [.assign x (.lit w), .ret (.var x)], none⟩ [a] st = (.ok w, st) := by
  obtain ⟨blocks, out⟩ := st
  simp [callI, bindParamsI, executeI, stmtI, evalI, checkArgsLen, numDefaults, St.push, St.pop,
    declareVar, setVar, getVar, aget, aset, PRes.ok, Block.empty]

/-! ## control transfer -/

/-- Processor.execute: an error or any flow other than Terminate ends the statement list at that statement -/
theorem nonterminate_skips_rest (fuel : Nat) (s : Stmt) (rest : List Stmt) (rv : Option SVal) (st : St)
    (h : (stmtI fuel s rv st).err ≠ none ∨ (stmtI fuel s rv st).flow ≠ .terminate) :
    executeI (fuel + 1) (s :: rest) rv st = stmtI fuel s rv st := by
  simp only [executeI]
  cases he : (stmtI fuel s rv st).err with
  | some e => rfl
  | none =>
    cases hf : (stmtI fuel s rv st).flow <;> simp_all

/-- BREAK: the innermost WHILE ends normally — no further condition, no further iteration — with the state the
    body left (its block is closed by the caller) -/
theorem break_exits_innermost_loop (fuel : Nat) (c : Expr) (body : List Stmt) (rv crv : Option SVal) (st st1 : St) (v : SVal)
    (hc : evalI fuel c st.clearCurrent = (.ok v, st1)) (hT : v.ternary = .T)
    (he : (executeI fuel body crv st1).err = none) (hf : (executeI fuel body crv st1).flow = .brk) :
    whileI (fuel + 1) c body rv crv st = PRes.ok rv (executeI fuel body crv st1).st := by
  simp only [whileI, hc, hT, he, hf]

/-- CONTINUE: the rest of the body is skipped (nonterminate_skips_rest) and the loop goes on with the next
    iteration: block cleared, condition evaluated again -/
theorem continue_starts_next_iteration (fuel : Nat) (c : Expr) (body : List Stmt) (rv crv : Option SVal) (st st1 : St) (v : SVal)
    (hc : evalI fuel c st.clearCurrent = (.ok v, st1)) (hT : v.ternary = .T)
    (he : (executeI fuel body crv st1).err = none) (hf : (executeI fuel body crv st1).flow = .cont) :
    whileI (fuel + 1) c body rv crv st =
      whileI fuel c body rv (executeI fuel body crv st1).rv (executeI fuel body crv st1).st := by
  simp only [whileI, hc, hT, he, hf]

/-- RETURN inside a loop ends the loop at once and hands the value to the enclosing processor -/
theorem return_leaves_loop (fuel : Nat) (c : Expr) (body : List Stmt) (rv crv : Option SVal) (st st1 : St) (v : SVal)
    (hc : evalI fuel c st.clearCurrent = (.ok v, st1)) (hT : v.ternary = .T)
    (he : (executeI fuel body crv st1).err = none) (hf : (executeI fuel body crv st1).flow = .ret) :
    whileI (fuel + 1) c body rv crv st =
      ⟨.ret, none, (executeI fuel body crv st1).rv, (executeI fuel body crv st1).st⟩ := by
  simp only [whileI, hc, hT, he, hf]

/-- EXIT inside a loop ends the loop at once with flow Exit -/
theorem exit_leaves_loop (fuel : Nat) (c : Expr) (body : List Stmt) (rv crv : Option SVal) (st st1 : St) (v : SVal)
    (hc : evalI fuel c st.clearCurrent = (.ok v, st1)) (hT : v.ternary = .T)
    (he : (executeI fuel body crv st1).err = none) (hf : (executeI fuel body crv st1).flow = .exit) :
    whileI (fuel + 1) c body rv crv st = ⟨.exit, none, rv, (executeI fuel body crv st1).st⟩ := by
  simp only [whileI, hc, hT, he, hf]

/-- IF hands on whatever flow and error the chosen branch produced (so BREAK, CONTINUE, RETURN and EXIT inside
    an IF act on the enclosing loop / function / procedure) -/
theorem if_passes_flow_on (fuel : Nat) (c : Expr) (body : List Stmt) (more : List (Expr × List Stmt)) (els : List Stmt)
    (rv : Option SVal) (st st1 : St) (v : SVal)
    (hc : evalI fuel c st = (.ok v, st1)) (hT : v.ternary = .T) :
    (ifI (fuel + 1) ((c, body) :: more) els rv st).flow = (executeI fuel body none st1.push).flow ∧
    (ifI (fuel + 1) ((c, body) :: more) els rv st).err = (executeI fuel body none st1.push).err := by
  simp only [ifI, hc, hT, and_self]

/-- CASE with a value hands on whatever flow and error the chosen WHEN branch produced, like IF -/
theorem case_passes_flow_on (fuel : Nat) (v w : SVal) (c : Expr) (body : List Stmt) (more : List (Expr × List Stmt)) (els : List Stmt)
    (rv : Option SVal) (st st1 : St)
    (hc : evalI fuel c st = (.ok w, st1)) (hT : caseHit v w = .T) :
    (caseI (fuel + 1) v ((c, body) :: more) els rv st).flow = (executeI fuel body none st1.push).flow ∧
    (caseI (fuel + 1) v ((c, body) :: more) els rv st).err = (executeI fuel body none st1.push).err := by
  simp only [caseI, hc, hT, and_self]

/-- for ALL programs: neither BREAK nor CONTINUE ever gets past the innermost enclosing WHILE statement -/
theorem while_catches_break_continue (fuel : Nat) (c : Expr) (body : List Stmt) (rv : Option SVal) (st : St) :
    (stmtI fuel (.while c body) rv st).outcome ≠ .brk ∧ (stmtI fuel (.while c body) rv st).outcome ≠ .cont := by
  rw [(stmt_refines fuel _ rv st).2]
  cases fuel with
  | zero => simp [stmtS]
  | succ f => simp only [stmtS]; exact whileS_catches f c body st

/-- the same for the cursor loop WHILE @x IN cursor -/
theorem while_in_catches_break_continue (fuel x : Nat) (d : Bool) (vals : List SVal) (body : List Stmt) (rv : Option SVal) (st : St) :
    (stmtI fuel (.foreach x d vals body) rv st).outcome ≠ .brk ∧ (stmtI fuel (.foreach x d vals body) rv st).outcome ≠ .cont := by
  rw [(stmt_refines fuel _ rv st).2]
  cases fuel with
  | zero => simp [stmtS]
  | succ f => simp only [stmtS]; exact foreachS_catches f x d vals body st

/-- RETURN v anywhere in a function body (at any depth of IF / WHILE: the flow is handed outward by
    nonterminate_skips_rest, if_passes_flow_on, return_leaves_loop) makes the call yield v; the callee's block is dropped -/
theorem return_yields_call_value (fuel : Nat) (d : FDecl) (args : List SVal) (st s1 s2 : St) (v : SVal)
    (hchk : checkArgsLen d args.length = true)
    (hb : bindParamsS fuel d.params args st.push = (none, s1)) (hr : blockS fuel d.body s1 = (.ret v, s2)) :
    callI (fuel + 1) d args st = (.ok v, s2.pop) := by
  rw [call_refines]
  simp only [callS, inBlock, hchk, if_true, hb, hr]

/-- a body that ends without RETURN (normally, or — in syntax trees the parser rejects — by BREAK / CONTINUE / EXIT)
    makes the call yield NULL: no flow of the callee reaches the caller -/
theorem no_return_yields_null (fuel : Nat) (d : FDecl) (args : List SVal) (st s1 s2 : St) (o : Outcome)
    (hchk : checkArgsLen d args.length = true)
    (hb : bindParamsS fuel d.params args st.push = (none, s1)) (hr : blockS fuel d.body s1 = (o, s2))
    (hnr : ∀ v, o ≠ .ret v) (hne : ∀ e, o ≠ .err e) :
    callI (fuel + 1) d args st = (.ok .null, s2.pop) := by
  rw [call_refines]
  simp only [callS, inBlock, hchk, if_true, hb, hr]

/-- EXIT terminates everything around it: the statement list it is in, every enclosing IF and WHILE; the
    procedure ends with flow Exit -/
theorem exit_terminates_all :
    (∀ fuel rest rv st, executeI (fuel + 2) (.exit :: rest) rv st = ⟨.exit, none, rv, st⟩) ∧
    (∀ fuel s rest st st1, stmtS fuel s st = (.exit, st1) → blockS (fuel + 1) (s :: rest) st = (.exit, st1)) ∧
    (∀ fuel c body more els st st1 st2 v, evalS fuel c st = (.ok v, st1) → v.ternary = .T →
      inBlock (blockS fuel body) st1 = (.exit, st2) → ifS (fuel + 1) ((c, body) :: more) els st = (.exit, st2)) ∧
    (∀ fuel c body st st1 st2 v, evalS fuel c st = (.ok v, st1) → v.ternary = .T →
      inBlock (blockS fuel body) st1 = (.exit, st2) → whileS (fuel + 1) c body st = (.exit, st2)) ∧
    (∀ fuel p s, blockS fuel p St.init = (.exit, s) → (execImpl fuel p).flow = .exit) := by
  refine ⟨?_, ?_, ?_, ?_, ?_⟩
  · intro fuel rest rv st
    simp [executeI, stmtI]
  · intro fuel s rest st st1 h
    simp only [blockS, h]
  · intro fuel c body more els st st1 st2 v hc hT hb
    simp only [ifS, hc, hT, hb]
  · intro fuel c body st st1 st2 v hc hT hb
    simp only [whileS, hc, hT, hb]
  · intro fuel p s h
    rw [exec_refines]
    simp [execSpec, h, St.obs]

/-! ## the transaction outcome of each way of ending -/

/-- Processor.Execute commits exactly the procedures that ran to their end: the Go condition
    `err == nil && flow == Terminate` is "the outcome is normal" — for every program -/
theorem commit_iff_normal_end (fuel : Nat) (p : List Stmt) (rv : Option SVal) (st : St) :
    (executeI fuel p rv st).commits = (blockS fuel p st).1.commits := by
  have h := (refInv fuel).block p rv st
  rw [← h.out]
  have ht := h.rvok.twe
  generalize executeI fuel p rv st = r at ht ⊢
  obtain ⟨flow, err, rv', st'⟩ := r
  cases err with
  | some e => rfl
  | none =>
    cases flow with
    | terminateWithError => exact absurd rfl (ht rfl)
    | ret => cases rv' <;> rfl
    | _ => rfl

/-- EXIT — at any nesting depth, inside a function body or in a sourced file, wherever it finally ends the
    procedure —, an error, and (in syntax trees the parser rejects) a stray BREAK / CONTINUE / RETURN: no commit -/
theorem exit_and_error_do_not_commit (fuel : Nat) (p : List Stmt) (rv : Option SVal) (st : St)
    (h : (blockS fuel p st).1 ≠ .normal) : (executeI fuel p rv st).commits = false := by
  rw [commit_iff_normal_end]
  cases ho : (blockS fuel p st).1 <;> first | rfl | exact absurd ho h

/-! ## the tie to the source: walks over the block stack REGENERATED from reference_scope.go on every run
   (extract/scopefacts → Csvq/Gen/ScopeFacts.lean) are the model's lookups, for all block stacks -/


theorem gen_getVariable_eq_model (x : Nat) (v : SVal) : ∀ bs : List Block,
    Gen.Scope.getVariable (varCall x v) bs =
      match getVar x bs with
      | some w => .found bs (some w)
      | none => .raised bs "NewUndeclaredVariableError"
  | [] => rfl
  | b :: rest => by
    simp only [Gen.Scope.getVariable, varCall, getVar, gen_getVariable_eq_model x v rest]
    cases aget x b.vars with
    | some w => rfl
    | none =>
      simp only [Option.isSome]
      cases getVar x rest <;> rfl

theorem gen_substituteVariable_eq_model (x : Nat) (v : SVal) : ∀ bs : List Block,
    (Gen.Scope.substituteVariableDirectly (varCall x v) bs).toOption = setVar x v bs ∧
    (Gen.Scope.substituteVariable (varCall x v) bs).toOption = setVar x v bs
  | [] => ⟨rfl, rfl⟩
  | b :: rest => by
    have ih := gen_substituteVariable_eq_model x v rest
    simp only [Gen.Scope.substituteVariableDirectly, Gen.Scope.substituteVariable, varCall, setVar]
    cases aget x b.vars with
    | some w => exact ⟨rfl, rfl⟩
    | none =>
      simp only []
      rw [← ih.1]
      constructor
      · cases Gen.Scope.substituteVariableDirectly (varCall x v) rest <;> rfl
      · rw [ih.1, ← ih.2]
        cases Gen.Scope.substituteVariable (varCall x v) rest <;> rfl


theorem gen_disposeVariable_eq_model (x : Nat) (v : SVal) : ∀ bs : List Block,
    (Gen.Scope.disposeVariable (varCall x v) bs).toOption = disposeVar x bs
  | [] => rfl
  | b :: rest => by
    have ih := gen_disposeVariable_eq_model x v rest
    simp only [Gen.Scope.disposeVariable, varCall, disposeVar]
    cases aget x b.vars with
    | some w => rfl
    | none =>
      simp only []
      rw [← ih]
      cases Gen.Scope.disposeVariable (varCall x v) rest <;> rfl

theorem gen_declareVariable_eq_model (x : Nat) (v : SVal) (bs : List Block) :
    (Gen.Scope.declareVariableDirectly (varCall x v) bs).toOption = declareVar x v bs ∧
    (Gen.Scope.declareVariable (varCall x v) bs).toOption = declareVar x v bs := by
  cases bs with
  | nil => exact ⟨rfl, rfl⟩
  | cons b rest =>
    simp only [Gen.Scope.declareVariableDirectly, Gen.Scope.declareVariable, varCall, declareVar]
    cases aget x b.vars <;> exact ⟨rfl, rfl⟩

theorem gen_temporaryTableExists_eq_model (x : Nat) (v : SVal) : ∀ bs : List Block,
    (Gen.Scope.temporaryTableExists (varCall x v) bs).toOption.isSome = (getVar x bs).isSome
  | [] => rfl
  | b :: rest => by
    have ih := gen_temporaryTableExists_eq_model x v rest
    simp only [Gen.Scope.temporaryTableExists, varCall, getVar]
    cases aget x b.vars with
    | some w => rfl
    | none =>
      simp only [Option.isSome_none, Bool.false_eq_true, if_false]
      rw [← ih]
      cases Gen.Scope.temporaryTableExists (varCall x v) rest <;> rfl

theorem gen_replaceTemporaryTable_eq_model (x : Nat) (v : SVal) : ∀ bs : List Block,
    (Gen.Scope.replaceTemporaryTable (varCall x v) bs).toOption = setVar x v bs
  | [] => rfl
  | b :: rest => by
    have ih := gen_replaceTemporaryTable_eq_model x v rest
    simp only [Gen.Scope.replaceTemporaryTable, varCall, setVar]
    cases h : aget x b.vars with
    | some w => simp [Walk.toOption]
    | none =>
      simp only [Option.isSome]
      rw [← ih]
      cases Gen.Scope.replaceTemporaryTable (varCall x v) rest <;> rfl

theorem gen_disposeTemporaryTable_eq_model (x : Nat) (v : SVal) : ∀ bs : List Block,
    (Gen.Scope.disposeTemporaryTable (varCall x v) bs).toOption = disposeVar x bs
  | [] => rfl
  | b :: rest => by
    have ih := gen_disposeTemporaryTable_eq_model x v rest
    simp only [Gen.Scope.disposeTemporaryTable, varCall, disposeVar]
    cases aget x b.vars with
    | some w => rfl
    | none =>
      simp only []
      rw [← ih]
      cases Gen.Scope.disposeTemporaryTable (varCall x v) rest <;> rfl

theorem gen_setTemporaryTable_eq_model (x : Nat) (v : SVal) (bs : List Block) (h : getVar x bs = none) :
    (Gen.Scope.setTemporaryTable (varCall x v) bs).toOption = declareVar x v bs ∨ bs = [] := by
  cases bs with
  | nil => exact Or.inr rfl
  | cons b rest =>
    left
    simp only [getVar] at h
    simp only [Gen.Scope.setTemporaryTable, varCall, declareVar]
    cases hb : aget x b.vars with
    | some w => simp [hb] at h
    | none => rfl

theorem gen_getFunction_eq_model (f : Nat) (d : FDecl) : ∀ bs : List Block,
    (Gen.Scope.getFunction (fnCall f d) bs).value = (getFn f bs).map (fun g => some (.inl g))
  | [] => rfl
  | b :: rest => by
    have ih := gen_getFunction_eq_model f d rest
    simp only [Gen.Scope.getFunction, fnCall, getFn]
    cases aget f b.funs with
    | some w => rfl
    | none =>
      simp only [Option.isSome]
      rw [← ih]
      cases Gen.Scope.getFunction (fnCall f d) rest <;> rfl

theorem gen_disposeFunction_eq_model (f : Nat) (d : FDecl) : ∀ bs : List Block,
    (Gen.Scope.disposeFunction (fnCall f d) bs).toOption = Scope.disposeFn f bs
  | [] => rfl
  | b :: rest => by
    have ih := gen_disposeFunction_eq_model f d rest
    simp only [Gen.Scope.disposeFunction, fnCall, Scope.disposeFn]
    cases aget f b.funs with
    | some w => rfl
    | none =>
      simp only []
      rw [← ih]
      cases Gen.Scope.disposeFunction (fnCall f d) rest <;> rfl

theorem gen_declareFunction_eq_model (f : Nat) (d : FDecl) (bs : List Block) (h : bs ≠ []) :
    (Gen.Scope.declareFunction (fnCall f d) bs).toOption = (declareFn f d bs).toOption := by
  cases bs with
  | nil => exact absurd rfl h
  | cons b rest =>
    simp only [Gen.Scope.declareFunction, fnCall, declareFn]
    cases aget f b.funs with
    | some w => rfl
    | none =>
      simp only []
      cases dupParams d.params <;> rfl

theorem gen_cursorWalks_eq_find (c : Nat) : ∀ bs : List Block,
    Gen.Scope.openCursor (curCall c) bs = cursorFind .open c bs ∧
    Gen.Scope.closeCursor (curCall c) bs = cursorFind .close c bs ∧
    Gen.Scope.fetchCursor (curCall c) bs = cursorFind .fetch c bs
  | [] => ⟨rfl, rfl, rfl⟩
  | b :: rest => by
    obtain ⟨ih1, ih2, ih3⟩ := gen_cursorWalks_eq_find c rest
    simp only [Gen.Scope.openCursor, Gen.Scope.closeCursor, Gen.Scope.fetchCursor, curCall, cursorFind, getVar, setVar, ih1, ih2, ih3]
    cases hb : aget c b.vars with
    | some s =>
      simp only []
      refine ⟨?_, ?_, ?_⟩
      · rcases curStep .open s with _ | ⟨s', ov⟩ <;> rfl
      · rcases curStep .close s with _ | ⟨s', ov⟩ <;> rfl
      · rcases curStep .fetch s with _ | ⟨s', ov⟩ <;> rfl
    | none =>
      simp only []
      cases getVar c rest with
      | none => exact ⟨rfl, rfl, rfl⟩
      | some s =>
        simp only []
        refine ⟨?_, ?_, ?_⟩
        · rcases curStep .open s with _ | ⟨s', ov⟩
          · rfl
          · simp only []; cases setVar c s' rest <;> rfl
        · rcases curStep .close s with _ | ⟨s', ov⟩
          · rfl
          · simp only []; cases setVar c s' rest <;> rfl
        · rcases curStep .fetch s with _ | ⟨s', ov⟩
          · rfl
          · simp only []; cases setVar c s' rest <;> rfl

/-- OPEN / CLOSE / FETCH of the model ARE the walks of OpenCursor / CloseCursor / FetchCursor as they stand in
    reference_scope.go (run on the model's cursor variables), followed by the assignment of the fetched value -/
theorem gen_cursor_eq_model (c x : Nat) (bs : List Block) :
    cursorDo .open c x bs = cursorFinish x (Gen.Scope.openCursor (curCall c) bs) ∧
    cursorDo .close c x bs = cursorFinish x (Gen.Scope.closeCursor (curCall c) bs) ∧
    cursorDo .fetch c x bs = cursorFinish x (Gen.Scope.fetchCursor (curCall c) bs) := by
  obtain ⟨h1, h2, h3⟩ := gen_cursorWalks_eq_find c bs
  rw [h1, h2, h3]
  exact ⟨cursorDo_eq_find _ _ _ _, cursorDo_eq_find _ _ _ _, cursorDo_eq_find _ _ _ _⟩

/-- the statements in front of the loops, which the translator does not translate, are the reviewed ones: an
    evaluation of the assigned value, upper-casing of a table name, variable declarations — nothing that touches blocks -/
theorem gen_prefixes_reviewed : Gen.Scope.prefixes =
  [("GetVariable", []),
   ("SubstituteVariable", ["val, err = Evaluate(ctx, rs, expr.Value)", "if err != nil { return }"]),
   ("SubstituteVariableDirectly", []),
   ("DisposeVariable", []),
   ("TemporaryTableExists", ["identifier = strings.ToUpper(identifier)"]),
   ("GetTemporaryTable", ["fileIdentifier := strings.ToUpper(identifier.Literal)"]),
   ("ReplaceTemporaryTable", []),
   ("DisposeTemporaryTable", []),
   ("OpenCursor", ["var err error"]),
   ("CloseCursor", []),
   ("FetchCursor", ["var values []value.Primary", "var err error"]),
   ("DisposeCursor", []),
   ("CursorIsOpen", []),
   ("GetFunction", []),
   ("DisposeFunction", [])] := by decide

/-- the bookkeeping of blocks is the reviewed text: CreateChild puts ONE block from the pool in front of the parent's
    blocks (blocks[0] = GetBlockScope(), blocks[i+1] = rs.Blocks[i]) — St.push; CurrentBlock is Blocks[0];
    CloseCurrentBlock puts exactly that block back, cleared — St.pop; ClearCurrentBlock — St.clearCurrent -/
theorem gen_bookkeeping_reviewed : Gen.Scope.bookkeeping =
  [("ReferenceScope.CreateChild", ["{", "blocks", ":=", "make([]BlockScope,", "len(rs.Blocks)+1)", "blocks[0]", "=", "GetBlockScope()", "for", "i", ":=", "range", "rs.Blocks", "{", "blocks[i+1]", "=", "rs.Blocks[i]", "}", "return", "&ReferenceScope{", "Tx:", "rs.Tx,", "Blocks:", "blocks,", "nodes:", "nil,", "cachedFilePath:", "rs.cachedFilePath,", "now:", "rs.now,", "RecursiveTable:", "rs.RecursiveTable,", "RecursiveTmpView:", "rs.RecursiveTmpView,", "RecursiveCount:", "rs.RecursiveCount,", "}", "}"]),
   ("ReferenceScope.Global", ["{", "return", "rs.Blocks[len(rs.Blocks)-1]", "}"]),
   ("ReferenceScope.CurrentBlock", ["{", "return", "rs.Blocks[0]", "}"]),
   ("ReferenceScope.ClearCurrentBlock", ["{", "rs.CurrentBlock().Clear()", "}"]),
   ("ReferenceScope.CloseCurrentBlock", ["{", "PutBlockScope(rs.CurrentBlock())", "}"]),
   ("GetBlockScope", ["{", "scope", ":=", "blockScopePool.Get().(BlockScope)", "return", "scope", "}"]),
   ("PutBlockScope", ["{", "scope.Clear()", "blockScopePool.Put(scope)", "}"]),
   ("BlockScope.Clear", ["{", "scope.Variables.Clear()", "scope.TemporaryTables.Clear()", "scope.Cursors.Clear()", "scope.Functions.Clear()", "}"]),
   ("NewReferenceScope", ["{", "return", "NewReferenceScopeWithBlock(tx,", "GetBlockScope())", "}"]),
   ("NewReferenceScopeWithBlock", ["{", "return", "&ReferenceScope{", "Tx:", "tx,", "Blocks:", "[]BlockScope{scope},", "nodes:", "nil,", "}", "}"]),
   ("Processor.NewChildProcessor", ["{", "return", "&Processor{", "Tx:", "proc.Tx,", "ReferenceScope:", "proc.ReferenceScope.CreateChild(),", "}", "}"]),
   ("Processor.Close", ["{", "proc.ReferenceScope.CloseCurrentBlock()", "}"])] := by decide

/-- which statements run in a child block and how it is released, as the model has it: Execute commits under ONE
    condition after the run (`PRes.commits`); executeChild (IF / CASE
    bodies): NewChildProcessor … child.Close on the one path; While / WhileInCursor: NewChildProcessor, defer Close,
    ClearCurrentBlock at the head of every iteration; a function call: CreateChild, defer CloseCurrentBlock,
    parameters into Blocks[0] of the child -/
theorem gen_blockHandling_reviewed : Gen.Scope.blockHandling =
  [("Processor.Execute", ["ctx.Value", "if{", "if{", "}", "}", "proc.execute", "if{", "proc.AutoCommit", "}", "return flow,err"]),
   ("Processor.execute", ["defer func{", "if{", "recover", "if{", "NewFatalError", "}", "}", "}", "for{", "proc.ExecuteStatement", "if{", "return ", "}", "if{", "break", "}", "}", "return "]),
   ("Processor.executeChild", ["proc.NewChildProcessor", "child.execute", "if{", "}", "child.Close", "return flow,err"]),
   ("Processor.IfStmt", ["len", "make", "append", "for{", "append", "}", "for{", "Evaluate", "if{", "return TerminateWithError,err", "}", "p.Ternary", "if{", "proc.executeChild", "return call", "}", "}", "if{", "proc.executeChild", "return call", "}", "return Terminate,nil"]),
   ("Processor.Case", ["if{", "Evaluate", "if{", "return TerminateWithError,err", "}", "}", "for{", "Evaluate", "if{", "return TerminateWithError,err", "}", "if{", "cond.Ternary", "}", "else{", "proc.Tx.Flags.GetTimeLocation", "value.Equal", "}", "if{", "proc.executeChild", "return call", "}", "}", "if{", "return Terminate,nil", "}", "proc.executeChild", "return call"]),
   ("Processor.While", ["proc.NewChildProcessor", "defer childProc.Close", "for{", "childProc.ReferenceScope.ClearCurrentBlock", "Evaluate", "if{", "return TerminateWithError,err", "}", "p.Ternary", "if{", "break", "}", "childProc.execute", "if{", "return TerminateWithError,err", "}", "switch{", "case Break", "return Terminate,nil", "case Exit", "return Exit,nil", "case Return", "return Return,nil", "}", "}", "return Terminate,nil"]),
   ("Processor.WhileInCursor", ["proc.NewChildProcessor", "defer childProc.Close", "for{", "childProc.ReferenceScope.ClearCurrentBlock", "if{", "len", "make", "for{", "}", "childProc.ReferenceScope.DeclareVariable", "if{", "return TerminateWithError,err", "}", "}", "FetchCursor", "if{", "return TerminateWithError,err", "}", "if{", "break", "}", "childProc.execute", "if{", "return TerminateWithError,err", "}", "switch{", "case Break", "return Terminate,nil", "case Exit", "return Exit,nil", "case Return", "return Return,nil", "}", "}", "return Terminate,nil"]),
   ("UserDefinedFunction.Execute", ["scope.CreateChild", "defer childScope.CloseCurrentBlock", "fn.execute", "return call"]),
   ("UserDefinedFunction.ExecuteAggregate", ["scope.CreateChild", "defer childScope.CloseCurrentBlock", "childScope.AddPseudoCursor", "if{", "return nil,err", "}", "fn.execute", "return call"]),
   ("UserDefinedFunction.execute", ["len", "fn.CheckArgsLen", "if{", "return nil,err", "}", "for{", "len", "if{", "scope.Blocks[0].Variables.Add", "if{", "return nil,err", "}", "}", "else{", "Evaluate", "if{", "return nil,err", "}", "scope.DeclareVariableDirectly", "if{", "return nil,err", "}", "}", "}", "NewProcessorWithScope", "proc.execute", "if{", "return nil,err", "}", "if{", "value.NewNull", "}", "return ret,nil"]),
   ("evalFunction", ["strings.ToUpper", "if{", "scope.GetFunction", "if{", "NewFunctionNotExistError", "return nil,call", "}", "if{", "evalAggregateFunction", "return call", "}", "len", "udfn.CheckArgsLen", "if{", "return nil,err", "}", "}", "if{", "JsonObject", "return call", "}", "len", "make", "for{", "Evaluate", "if{", "return nil,err", "}", "}", "if{", "Call", "return call", "}", "else{", "if{", "Now", "return call", "}", "}", "if{", "fn", "return call", "}", "udfn.Execute", "return call"]),
   ("evalAggregateFunction", ["strings.ToUpper", "if{", "}", "else{", "scope.GetFunction", "if{", "NewFunctionNotExistError", "return nil,call", "}", "}", "if{", "len", "udfn.CheckArgsLen", "if{", "return nil,err", "}", "}", "else{", "len", "if{", "NewFunctionArgumentLengthError", "return nil,call", "}", "}", "len", "if{", "if{", "NewNotGroupingRecordsError", "return nil,call", "}", "if{", "parser.NewIntegerValue", "}", "expr.IsDistinct", "if{", "if{", "value.IsNull", "value.IsUnknown", "scope.Records[0].IsInRange", "if{", "scope.Records[0].view.RecordSet[scope.Records[0].recordIndex].GroupLen", "int64", "value.NewInteger", "return call,nil", "}", "else{", "value.NewInteger", "return call,nil", "}", "}", "}", "scope.Records[0].IsInRange", "if{", "NewViewFromGroupedRecord", "if{", "return nil,err", "}", "expr.IsDistinct", "view.ListValuesForAggregateFunctions", "if{", "return nil,err", "}", "}", "}", "if{", "len", "make", "for{", "Evaluate", "if{", "return nil,err", "}", "}", "udfn.ExecuteAggregate", "return call", "}", "aggfn", "return call,nil"])] := by decide

/-- ExecuteStatement hands IF / CASE / WHILE / WHILE IN to the block-opening handlers, SOURCE / EXECUTE / EXECUTE
    prepared to proc.execute (same processor, current block), and every declaration / disposal / cursor statement
    to the walk of the session scope that the theorems above are about -/
theorem gen_dispatch_reviewed :
    Gen.Scope.dispatch.filter (fun p => p.1 ∈ ["parser.Case", "parser.If", "parser.While", "parser.WhileInCursor", "parser.Source", "parser.Execute", "parser.ExecuteStatement", "parser.VariableDeclaration", "parser.VariableSubstitution", "parser.DisposeVariable", "parser.FunctionDeclaration", "parser.DisposeFunction", "parser.AggregateDeclaration", "parser.CursorDeclaration", "parser.OpenCursor", "parser.CloseCursor", "parser.DisposeCursor", "parser.FetchCursor", "parser.ViewDeclaration", "parser.DisposeView", "parser.FlowControl", "parser.Exit", "parser.Return"]) =
  [("parser.AggregateDeclaration", "proc.ReferenceScope.DeclareAggregateFunction"),
   ("parser.Case", "proc.Case"),
   ("parser.CloseCursor", "proc.ReferenceScope.CloseCursor"),
   ("parser.CursorDeclaration", "proc.ReferenceScope.DeclareCursor"),
   ("parser.DisposeCursor", "proc.ReferenceScope.DisposeCursor"),
   ("parser.DisposeFunction", "proc.ReferenceScope.DisposeFunction"),
   ("parser.DisposeVariable", "proc.ReferenceScope.DisposeVariable"),
   ("parser.DisposeView", "proc.ReferenceScope.DisposeTemporaryTable"),
   ("parser.Execute", "ParseExecuteStatements proc.execute"),
   ("parser.ExecuteStatement", "proc.Tx.PreparedStatements.Get proc.execute ContextForPreparedStatement NewReplaceValues"),
   ("parser.Exit", "int ex.Code.(*value.Integer).Raw NewForcedExit"),
   ("parser.FetchCursor", "FetchCursor"),
   ("parser.FlowControl", ""),
   ("parser.FunctionDeclaration", "proc.ReferenceScope.DeclareFunction"),
   ("parser.If", "proc.IfStmt"),
   ("parser.OpenCursor", "proc.ReferenceScope.OpenCursor"),
   ("parser.Return", "Evaluate"),
   ("parser.Source", "Source proc.execute"),
   ("parser.VariableDeclaration", "proc.ReferenceScope.DeclareVariable"),
   ("parser.VariableSubstitution", "proc.ReferenceScope.SubstituteVariable"),
   ("parser.ViewDeclaration", "DeclareView"),
   ("parser.While", "proc.While"),
   ("parser.WhileInCursor", "proc.WhileInCursor")] := by decide

/-! ## non-vacuity: concrete procedures (variables @v0…, functions fn0…), run by `decide` -/

private def i (n : Int) : Expr := .lit (.int n)
private def tt : Expr := .lit (.tern .T)

/-- VAR @v0 := 1; IF TRUE THEN VAR @v1 := 2; PRINT @v1; END IF; PRINT @v0; PRINT @v1;
    — the inner variable is gone after the block: 2, 1, then "undeclared variable" -/
example : execImpl 50 [.decl 0 (i 1), .ifs [(tt, [.decl 1 (i 2), .print (.var 1)])] [], .print (.var 0), .print (.var 1)]
    = ⟨[.int 2, .int 1], .err .undeclaredVar, [[(0, .int 1)]]⟩ := by decide

/-- shadowing: the inner @v0 takes the assignment, the outer @v0 is unchanged; an outer @v1 assigned inside persists -/
example : execImpl 50 [.decl 0 (i 1), .decl 1 (i 5),
      .ifs [(tt, [.decl 0 (i 2), .assign 0 (.bin .add (.var 0) (i 10)), .assign 1 (.var 0), .print (.var 0)])] [],
      .print (.var 0), .print (.var 1)]
    = ⟨[.int 12, .int 1, .int 12], .normal, [[(1, .int 12), (0, .int 1)]]⟩ := by decide

/-- redeclaration in the same block is an error, in an inner block it is not -/
example : (execImpl 50 [.decl 0 (i 1), .decl 0 (i 2)]).flow = .err .redeclaredVar := by decide
example : (execImpl 50 [.decl 0 (i 1), .ifs [(tt, [.decl 0 (i 2)])] []]).flow = .normal := by decide

/-- csvq is dynamically scoped: fn0 reads and assigns the @v0 visible at the call site.
    VAR @v0 := 1; DECLARE fn0 FUNCTION (@v1) AS BEGIN PRINT @v0; @v0 := @v0 + @v1; RETURN @v0; END;
    PRINT fn0(10); IF TRUE THEN VAR @v0 := 100; PRINT fn0(1); PRINT @v0; END IF; PRINT @v0; -/
example : execImpl 100 [.decl 0 (i 1),
      .declFn 0 [⟨1, none⟩] [.print (.var 0), .assign 0 (.bin .add (.var 0) (.var 1)), .ret (.var 0)],
      .print (.call 0 [i 10]),
      .ifs [(tt, [.decl 0 (i 100), .print (.call 0 [i 1]), .print (.var 0)])] [],
      .print (.var 0)]
    = ⟨[.int 1, .int 11, .int 100, .int 101, .int 101, .int 11], .normal, [[(0, .int 11)]]⟩ := by decide

/-- recursion: every invocation has its own parameter @v1 and local @v2.
    DECLARE fn0 FUNCTION (@v1) AS BEGIN IF @v1 < 1 THEN RETURN 0; END IF; VAR @v2 := @v1;
      VAR @v3 := fn0(@v1 - 1); RETURN @v2 + @v3; END;  PRINT fn0(4);   — 4+3+2+1 -/
example : execImpl 200 [
      .declFn 0 [⟨1, none⟩] [.ifs [(.bin .lt (.var 1) (i 1), [.ret (i 0)])] [], .decl 2 (.var 1),
        .decl 3 (.call 0 [.bin .sub (.var 1) (i 1)]), .ret (.bin .add (.var 2) (.var 3))],
      .print (.call 0 [i 4]), .print (.var 1)]
    = ⟨[.int 10], .err .undeclaredVar, [[]]⟩ := by decide

/-- optional parameters and argument counts -/
example : (execImpl 100 [.declFn 0 [⟨1, none⟩, ⟨2, some (.bin .add (.var 1) (i 1))⟩] [.ret (.bin .add (.var 1) (.var 2))],
      .print (.call 0 [i 5]), .print (.call 0 [i 5, i 7]), .print (.call 0 [])])
    = ⟨[.int 11, .int 12], .err .argCount, [[]]⟩ := by decide

/-- VAR @v0 := 0; WHILE @v0 < 6 DO @v0 := @v0 + 1; IF @v0 = 2 THEN CONTINUE; END IF;
      IF @v0 = 4 THEN BREAK; END IF; PRINT @v0; END WHILE; PRINT 9;      — prints 1, 3, 9 -/
example : execImpl 200 [.decl 0 (i 0),
      .while (.bin .lt (.var 0) (i 6)) [.assign 0 (.bin .add (.var 0) (i 1)),
        .ifs [(.bin .eq (.var 0) (i 2), [.cont])] [], .ifs [(.bin .eq (.var 0) (i 4), [.brk])] [], .print (.var 0)],
      .print (i 9)]
    = ⟨[.int 1, .int 3, .int 9], .normal, [[(0, .int 4)]]⟩ := by decide

/-- BREAK leaves the innermost loop only: the outer loop goes on (11, then 13) -/
example : (execImpl 300 [.decl 0 (i 0),
      .while (.bin .lt (.var 0) (i 2)) [.assign 0 (.bin .add (.var 0) (i 1)), .decl 1 (i 0),
        .while tt [.assign 1 (.bin .add (.var 1) (i 1)), .ifs [(.bin .eq (.var 1) (i 2), [.brk])] [],
          .print (.bin .add (.bin .add (.var 0) (.var 0)) (.bin .add (.var 1) (i 8)))]]]).out
    = [.int 11, .int 13] := by decide

/-- a variable declared in a loop body is fresh in every iteration (the child block is cleared) -/
example : (execImpl 200 [.decl 0 (i 0),
      .while (.bin .lt (.var 0) (i 3)) [.assign 0 (.bin .add (.var 0) (i 1)), .decl 1 (.var 0), .print (.var 1)]]).flow
    = .normal := by decide

/-- EXIT inside IF inside WHILE inside WHILE ends the whole procedure; nothing after it runs -/
example : execImpl 200 [.decl 0 (i 0),
      .while tt [.while tt [.assign 0 (.bin .add (.var 0) (i 1)), .print (.var 0),
        .ifs [(.bin .eq (.var 0) (i 2), [.exit])] []], .print (i 7)],
      .print (i 8)]
    = ⟨[.int 1, .int 2], .exit, [[(0, .int 2)]]⟩ := by decide

/-- RETURN from inside a loop inside an IF ends the function; the caller continues -/
example : (execImpl 200 [
      .declFn 0 [] [.decl 0 (i 0), .while tt [.assign 0 (.bin .add (.var 0) (i 1)),
        .ifs [(.bin .eq (.var 0) (i 3), [.ret (.var 0)])] []], .print (i 99)],
      .print (.call 0 []), .print (i 5)]).out = [.int 3, .int 5] := by decide

/-- WHILE VAR @v1 IN cur (rows 0,1,2): RETURN from inside the cursor loop ends the function; the loop variable is
    local to the loop; without VAR the rows are assigned to the visible variable, which keeps the last one -/
example : execImpl 200 [
      .declFn 0 [] [.foreach 1 true [.int 0, .int 1, .int 2] [.print (.var 1),
        .ifs [(.bin .eq (.var 1) (i 1), [.ret (.bin .add (.var 1) (i 10))])] []], .ret (i 9)],
      .print (.call 0 []), .decl 0 (i 7), .foreach 0 false [.int 3, .int 4] [.ifs [(.bin .eq (.var 0) (i 3), [.cont])] [], .print (.var 0)],
      .print (.var 0), .print (.var 1)]
    = ⟨[.int 0, .int 1, .int 11, .int 4, .int 4], .err .undeclaredVar, [[(0, .int 4)]]⟩ := by decide

/-- VAR @v0 := 1; IF TRUE THEN EXECUTE 'VAR @v0 := 5; PRINT @v0;'; END IF; PRINT @v0;
    IF TRUE THEN SOURCE file(VAR @v1 := 2; EXIT;); PRINT 9; END IF; PRINT @v1;   — 5, 1, then EXIT ends the procedure -/
example : execImpl 100 [.decl 0 (i 1), .ifs [(tt, [.inline [.decl 0 (i 5), .print (.var 0)]])] [], .print (.var 0),
      .ifs [(tt, [.inline [.decl 1 (i 2), .exit], .print (i 9)])] [], .print (.var 1)]
    = ⟨[.int 5, .int 1], .exit, [[(0, .int 1)]]⟩ := by decide

/-- a table (variable 100 = its number of rows) declared in a function body, INSERTed into two blocks deeper and
    from a function called there, read back in the declaring block: the changes reached it (3 rows); gone afterwards -/
example : execImpl 200 [
      .declFn 1 [] [.assign 100 (.bin .add (.var 100) (i 1))],
      .declFn 0 [] [.declT 100,
        .ifs [(tt, [.while (.bin .lt (.var 100) (i 2)) [.assign 100 (.bin .add (.var 100) (i 1))], .print (.call 1 [])])] [],
        .ret (.var 100)],
      .print (.call 0 []), .print (.var 100)]
    = ⟨[.null, .int 3], .err .undeclaredVar, [[]]⟩ := by decide

/-- cursor 200 over the rows 30,31,32 open in the outer block and one row fetched; an inner block declares its own
    cursor 200 (rows 130,131,132), fetches from it while it is still closed: "cursor is closed", the outer one untouched -/
example : execImpl 100 [.decl 0 (i 9), .decl 200 (i (-31)), .cursor .open 200 0, .cursor .fetch 200 0, .print (.var 0),
      .ifs [(tt, [.decl 200 (i (-131)), .cursor .fetch 200 0, .print (.var 0)])] []]
    = ⟨[.int 30], .err .cursorClosed, [[(200, .int 31), (0, .int 30)]]⟩ := by decide

/-- the inner cursor opened, two rows fetched, closed; after the block the outer cursor continues where it was -/
example : (execImpl 100 [.decl 0 (i 9), .decl 200 (i (-31)), .cursor .open 200 0, .cursor .fetch 200 0,
      .ifs [(tt, [.decl 200 (i (-131)), .cursor .open 200 0, .cursor .fetch 200 0, .cursor .fetch 200 0, .print (.var 0),
        .cursor .close 200 0])] [],
      .cursor .fetch 200 0, .print (.var 0), .cursor .fetch 200 0, .cursor .fetch 200 0, .cursor .fetch 200 0, .print (.var 0)]).out
    = [.int 131, .int 31, .int 32] := by decide

/-- DECLARE ag (10) AGGREGATE (cursor 200, @v1); the caller has its own open cursor 200 over 30,31,32.
    PRINT ag(0, 7) — outside any query: nothing to aggregate, the body's FETCH finds the invocation's own (empty)
    cursor and leaves @v0 as it was; (SELECT ag(…, 7) FROM …) over the two values 1020, 1021 fetches 1020;
    afterwards the caller's cursor still delivers its first row -/
example : (execImpl 200 [.decl 0 (i 5), .decl 200 (i (-31)), .cursor .open 200 0,
      .declAgg 10 200 [⟨1, none⟩] [.decl 0 (i (-1)), .cursor .fetch 200 0, .ret (.bin .add (.var 0) (.var 1))],
      .print (.call 10 [i 0, i 7]), .print (.acall 10 1020 [i 7]), .print (.acall 10 1000 [i 7]),
      .cursor .fetch 200 0, .print (.var 0)]).out
    = [.int 6, .int 1027, .int 6, .int 30] := by decide

/-- CASE @v0 WHEN 1 THEN … WHEN 2 THEN VAR @v1 := 7; PRINT @v1; ELSE … END CASE: the value once, the first equal
    branch in a block of its own (a NULL value equals nothing: ELSE); EXIT 1 and TRIGGER ERROR end the procedure
    with an error — nothing is committed -/
example : execImpl 100 [.decl 0 (i 2),
      .caseOf (.var 0) [(i 1, [.print (i 1)]), (i 2, [.decl 1 (i 7), .print (.var 1)])] [.print (i 9)],
      .caseOf (.lit .null) [(.lit .null, [.print (i 1)])] [.print (i 9)],
      .ifs [(tt, [.raise true])] [], .print (.var 1)]
    = ⟨[.int 7, .int 9], .err .forcedExit, [[(0, .int 2)]]⟩ := by decide
example : (executeI 100 [.raise false] none St.init).commits = false ∧ (executeI 100 [.exit] none St.init).commits = false ∧
    (executeI 100 [.print (i 1)] none St.init).commits = true := by decide

/-- a function declared in a block is gone after it -/
example : (execImpl 100 [.ifs [(tt, [.declFn 0 [] [.ret (i 1)], .print (.call 0 [])])] [], .print (.call 0 [])])
    = ⟨[.int 1], .err .undeclaredFn, [[]]⟩ := by decide

/-- a NULL left operand skips the right operand (no call, no PRINT inside it) -/
example : (execImpl 100 [.declFn 0 [] [.print (i 1), .ret (i 1)],
      .print (.bin .add (.lit .null) (.call 0 [])), .print (.bin .add (.call 0 []) (.lit .null))]).out
    = [.null, .int 1, .null] := by decide

/-- the hypotheses of the control-transfer theorems are satisfiable (BREAK in the first iteration) -/
example : ∃ v st1, evalI 10 tt (St.push St.init).clearCurrent = (.ok v, st1) ∧ v.ternary = .T ∧
    (executeI 10 [.brk] none st1).err = none ∧ (executeI 10 [.brk] none st1).flow = .brk :=
  ⟨.tern .T, _, rfl, rfl, rfl, rfl⟩

end Csvq.C15
