import Csvq.Lemmas.Scope
namespace Csvq.C15
open Csvq Csvq.Scope

theorem placeholder : True := trivial

end Csvq.C15
