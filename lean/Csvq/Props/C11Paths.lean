/-
  C11 — every PATH through the regenerated Handler.commit / Handler.close / ControlFile.Close
  (extract/fsproto -paths → Gen/CommitPaths.lean; Model/CommitPaths.lean): a run that reports success has
  renamed or removed the temporary file and removed the lock and the read lock — on every branch, every early
  return, every "nothing to do" shortcut, however the conditions of the function turn out.
  Property theorems only.
-/
import Csvq.Model.CommitPaths
import Csvq.Gen.CommitPaths
import Csvq.Lemmas.CommitPaths
namespace Csvq.C11
open Csvq.Commit Csvq.CommitPaths

/-- **for every kind of handler (opened for update, created, opened for read; already closed or not) and
    however the conditions inside Handler.commit turn out** (`cs`: the outcome of every test the model does not
    decide itself — `h.fp != nil`, every `err != nil`, and any test a later version adds): when commit reports
    success, no step has failed, the temporary file is gone (renamed onto the table or removed), the lock and the
    read lock are removed, and nothing was done that the model does not know.  (An error return leaves the handler
    registered — `gen_container_unregisters_after_success` — so the deferred CloseAllWithErrors still reaches it:
    `close_all_leaves_nothing`.) -/
theorem commit_leaves_no_temp_on_every_path (k : Kind) (closed : Bool) (cs : List Bool) :
    let r := (exec (known k closed) Csvq.Gen.handlerCommitTree cs).1
    r.ok = true →
      r.failed = false ∧ (finalState k closed r).temp = none ∧ (finalState k closed r).lock = false ∧
      (finalState k closed r).rlock = false ∧ (finalState k closed r).stuck = false :=
  clean_of_check Csvq.Gen.handlerCommitTree (by decide) k closed cs

/-- the same for Handler.close (ROLLBACK, the normal release) -/
theorem close_leaves_nothing_on_every_path (k : Kind) (closed : Bool) (cs : List Bool) :
    let r := (exec (known k closed) Csvq.Gen.handlerCloseTree cs).1
    r.ok = true →
      r.failed = false ∧ (finalState k closed r).temp = none ∧ (finalState k closed r).lock = false ∧
      (finalState k closed r).rlock = false ∧ (finalState k closed r).stuck = false :=
  clean_of_check Csvq.Gen.handlerCloseTree (by decide) k closed cs

/-- … for ALL contents: whatever the table held and whatever the transaction wrote into the temporary file, a
    successful commit of an update handler leaves the new contents in the table file and no temporary file -/
theorem commit_update_installs_new {α} (old new : α) (cs : List Bool)
    (hok : (exec (known .update false) Csvq.Gen.handlerCommitTree cs).1.ok = true) :
    (runOps ((exec (known .update false) Csvq.Gen.handlerCommitTree cs).1.effs.map parseOp) (startUpdate old new)).data = some new ∧
    (runOps ((exec (known .update false) Csvq.Gen.handlerCommitTree cs).1.effs.map parseOp) (startUpdate old new)).temp = none := by
  have hm := exec_mem_runs (known .update false) Csvq.Gen.handlerCommitTree cs
  have h1 : installsNew Csvq.Gen.handlerCommitTree = true := by decide
  have h2 := clean_of_check Csvq.Gen.handlerCommitTree (by decide) .update false cs hok
  simp only [installsNew, Bool.and_eq_true, List.all_eq_true] at h1
  have hd := h1.1 _ hm
  simp only [hok, Bool.not_true, Bool.false_or, beq_iff_eq] at hd
  have e : startUpdate old new = (start .update false).map (fun b => if b then new else old) := by
    simp [start, startUpdate, TState.map]
  rw [e, ← map_run]
  constructor
  · simp only [finalState] at hd; simp [TState.map, hd]
  · have := h2.2.1; simp only [finalState] at this; simp [TState.map, this]

/-- a successful commit / close marks the handler closed, and only at the very end: the container's later
    CloseAll skips exactly the handlers that hold nothing any more -/
theorem gen_success_marks_closed :
    marksClosed Csvq.Gen.handlerCommitTree = true ∧ marksClosed Csvq.Gen.handlerCloseTree = true := by decide

/-- ControlFile.Close (what `cf_close(…)` stands for) of a control file that exists: every path that reports
    success has removed it -/
theorem gen_control_file_close_removes : removesExisting Csvq.Gen.controlFileCloseTree = true := by decide

/-- the check is not vacuous: a commit that skips the rename when the table would come out the same and forgets
    the temporary file is rejected (the branch that used to consume the file no longer runs); with the removal in
    the skipping branch it is accepted; a swallowed error is rejected -/
example :
    cleanOnEveryPath (.seq (.ite "h.openType == ForUpdate" false
        (.ite "!sameContents" false (.eff "rename(h.tempFile.path,h.path)") .skip) (.eff "cf_close(h.tempFile)"))
      (.seq (.eff "cf_close(h.lockFile)") (.eff "cf_close(h.rlockFile)"))) = false ∧
    cleanOnEveryPath (.seq (.ite "h.openType == ForUpdate" false
        (.ite "!sameContents" false (.eff "rename(h.tempFile.path,h.path)") (.eff "cf_close(h.tempFile)")) (.eff "cf_close(h.tempFile)"))
      (.seq (.eff "cf_close(h.lockFile)") (.eff "cf_close(h.rlockFile)"))) = true ∧
    cleanOnEveryPath (.seq (.seq (.eff "cf_close(h.tempFile)") (.ite "err != nil" true .skip .skip))
      (.seq (.eff "cf_close(h.lockFile)") (.eff "cf_close(h.rlockFile)"))) = false ∧
    cleanOnEveryPath (.seq (.ite "nothing to do" false (.ret true) .skip)
      (.seq (.eff "cf_close(h.tempFile)") (.seq (.eff "cf_close(h.lockFile)") (.eff "cf_close(h.rlockFile)")))) = false := by
  decide

example : ∃ cs, (exec (known .update false) Csvq.Gen.handlerCommitTree cs).1.ok = true := ⟨[], by decide⟩
example : ∃ cs, (exec (known .update false) Csvq.Gen.handlerCommitTree cs).1.ok = false := ⟨[true, true], by decide⟩
example : removesExisting (.seq (.ite "m != nil" false (.ite "m.fp != nil" false (.ret true) (.eff "remove(m.path)")) .skip) (.ret true)) = false := by decide

end Csvq.C11
