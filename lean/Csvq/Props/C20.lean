/-
  C20 — within a transaction a loaded table is stable and shows its own changes.
  Same machine as C01 (Model/Session.lean); `Op.other p c` = another process commits `c` to file p,
  possible only while this transaction holds no lock on p.
-/
import Csvq.Props.C01
import Csvq.Lemmas.SessionHist
import Csvq.Gen.CacheFacts
import Csvq.Ref.CacheFacts
import Csvq.Gen.FsProto
namespace Csvq.C20
open Csvq.Session

variable {C : Type}

def IsOther : Op C → Prop
  | .other _ _ => True
  | _ => False

theorem other_keeps_cache (s : State C) (op : Op C) (h : IsOther op) :
    (step s op).1.cache = s.cache ∧ (step s op).1.created = s.created ∧ (step s op).1.updated = s.updated := by
  cases op <;> try exact absurd h id
  rename_i p c
  simp only [step]; split <;> simp

theorem others_keep_cache (ops : List (Op C)) (h : ∀ op ∈ ops, IsOther op) :
    ∀ (s : State C), (runOps s ops).cache = s.cache := by
  induction ops with
  | nil => intro s; rfl
  | cons op ops ih =>
    intro s
    simp only [runOps, List.foldl_cons]
    have := ih (fun o ho => h o (List.mem_cons_of_mem _ ho)) (step s op).1
    simp only [runOps] at this
    rw [this, (other_keeps_cache s op (h op (List.mem_cons_self ..))).1]

/-- **Stable reads.** Once the transaction has loaded table p, a later plain read shows exactly the
    loaded data (plus its own changes, which live in the same cached view), whatever other
    processes commit to any file in between. -/
theorem read_stable (s : State C) (p : Path) (c : Cached C) (h : s.cache p = some c)
    (others : List (Op C)) (ho : ∀ op ∈ others, IsOther op) :
    (step (runOps s others) (.select p)).2 = .rows c.content := by
  have hc : (runOps s others).cache p = some c := by rw [others_keep_cache others ho s]; exact h
  simp [step, load, hc]

/-- a table held for update cannot be changed by another process at all -/
theorem locked_file_protected (s : State C) (p : Path) (c : C) (h : locked s p = true) :
    (step s (.other p c)).1.disk p = s.disk p ∧ (step s (.other p c)).2 = .failed := by
  simp [step, h]

/-- own changes are visible to later reads of the same transaction -/
theorem own_changes_visible (s : State C) (p : Path) (f : C → Option C) (s1 : State C) (c c' : C)
    (hl : load s p true = some (s1, c)) (hf : f c = some c') :
    (step (step s (.dml p f)).1 (.select p)).2 = .rows c' := by
  have h1 : ((step s (.dml p f)).1).cache p = some ⟨c', true⟩ := by
    simp only [step, hl, hf]; simp [setFn]
  exact C01.select_shows_view _ p ⟨c', true⟩ h1

/-- the only documented exception: the first data-changing (or FOR UPDATE) access to a table that
    was loaded by a plain SELECT reloads the current file, under the lock -/
theorem reload_exception (s : State C) (p : Path) (c : Cached C) (d : C)
    (h : s.cache p = some c) (hnu : c.forUpdate = false) (hd : s.disk p = some d) :
    (step s (.selectForUpdate p)).2 = .rows d ∧ locked (step s (.selectForUpdate p)).1 p = true := by
  simp [step, load, h, hnu, hd, locked, setFn]

/-- … and never again afterwards: a view loaded for update is not reloaded -/
theorem no_second_reload (s : State C) (p : Path) (c : Cached C)
    (h : s.cache p = some c) (hu : c.forUpdate = true) (forUpdate : Bool) :
    load s p forUpdate = some (s, c.content) := by
  simp [load, h, hu]

theorem select_uncached (s : State C) (p : Path) (h : s.cache p = none) :
    (step s (.select p)).2 = (match s.disk p with | some d => .rows d | none => .failed) := by
  cases hd : s.disk p <;> simp [step, load, h, hd]

/-- after COMMIT or ROLLBACK the next read sees the current file -/
theorem fresh_after_commit (s : State C) (p : Path) :
    (step (doCommit s) (.select p)).2 = (match (doCommit s).disk p with | some d => .rows d | none => .failed) :=
  select_uncached (doCommit s) p rfl

theorem fresh_after_rollback (s : State C) (p : Path) :
    (step (doRollback s) (.select p)).2 = (match (doRollback s).disk p with | some d => .rows d | none => .failed) :=
  select_uncached (doRollback s) p rfl

/-! ## Full histories: own statements and foreign commits interleaved arbitrarily -/

/-- **Full history form, table held for update.**  From a state in which table p is cached under the
    lock with contents `c`, after ANY sequence of statements of this transaction (reads, FOR UPDATE reads,
    changes to this and other tables, CREATE, temporary tables) interleaved in ANY way with commits by
    other processes to any file — up to the next COMMIT / ROLLBACK — the cached table is exactly `c` with
    the transaction's own successful changes to p applied in order, and it is still held for update. -/
theorem locked_view_is_own_changes (p : Path) (ops : List (Op C)) (hne : ∀ op ∈ ops, ¬ IsEnd op) :
    ∀ (s : State C) (c : C), s.cache p = some ⟨c, true⟩ →
      (runOps s ops).cache p = some ⟨ownEffect p ops c, true⟩ :=
  locked_view_hist p ops hne

/-- … so every later read of p in that history shows exactly that -/
theorem read_shows_loaded_plus_own_changes (p : Path) (ops : List (Op C)) (hne : ∀ op ∈ ops, ¬ IsEnd op)
    (s : State C) (c : C) (h : s.cache p = some ⟨c, true⟩) :
    (step (runOps s ops) (.select p)).2 = .rows (ownEffect p ops c) :=
  C01.select_shows_view _ p ⟨ownEffect p ops c, true⟩ (locked_view_is_own_changes p ops hne s c h)

/-- **Full history form, table loaded by a plain SELECT.**  Whatever this transaction does to other tables
    and however often it re-reads p, and whatever other processes commit to p or any other file in
    between, every plain read of p keeps showing the contents first loaded — until the transaction itself
    asks for p under the lock (the documented reload) or ends. -/
theorem unlocked_view_stable (p : Path) (ops : List (Op C)) (hk : ∀ op ∈ ops, KeepsUnlocked p op) :
    ∀ (s : State C) (c : C), s.cache p = some ⟨c, false⟩ →
      (step (runOps s ops) (.select p)).2 = .rows c := by
  induction ops with
  | nil => intro s c h; exact C01.select_shows_view _ p ⟨c, false⟩ h
  | cons op ops ih =>
    intro s c h
    have h1 := step_unlocked s p c op (hk op List.mem_cons_self) h
    have := ih (fun o ho => hk o (List.mem_cons_of_mem _ ho)) (step s op).1 c h1
    simpa only [runOps, List.foldl_cons] using this

/-! ## Tie to the source: the cache decision of `cacheViewFromFile`, regenerated on every run -/

/-- `load` written with the condition and the flag assignment REGENERATED from load_view.go
    (`Gen.reloadCond`, `Gen.forUpdateAfterLoad`) -/
def loadGen (s : State C) (p : Path) (forUpdate : Bool) : Option (State C × C) :=
  let isCached := (s.cache p).isSome
  let cachedForUpdate := match s.cache p with | some c => c.forUpdate | none => false
  if Csvq.Gen.reloadCond isCached forUpdate cachedForUpdate then
    match s.disk p with
    | some d =>
      let flag := Csvq.Gen.forUpdateAfterLoad isCached forUpdate cachedForUpdate
      some ({ s with cache := setFn s.cache p (some ⟨d, flag⟩) }, d)
    | none => none
  else
    match s.cache p with
    | some c => some (s, c.content)
    | none => none

/-- the model's `load` — on which every theorem of C01 and C20 rests — takes the file from disk exactly
    when the code's condition says so and records exactly the flag the code records.  An edit of the
    condition or of the `view.FileInfo.ForUpdate = …` assignment in cacheViewFromFile breaks this. -/
theorem load_eq_gen (s : State C) (p : Path) (forUpdate : Bool) : load s p forUpdate = loadGen s p forUpdate := by
  unfold load loadGen
  cases hc : s.cache p with
  | none => cases hd : s.disk p <;> simp [Csvq.Gen.reloadCond, Csvq.Gen.forUpdateAfterLoad]
  | some c =>
    cases hd : s.disk p <;> cases forUpdate <;> cases hfu : c.forUpdate <;>
      simp [Csvq.Gen.reloadCond, Csvq.Gen.forUpdateAfterLoad, hfu]

/-- the load branch is the reviewed one -/
theorem gen_cache_load_eq_ref : Csvq.Gen.fxCacheLoad = Csvq.Ref.fxCacheLoad := by decide

/-- a plain read keeps no handler (no lock) beyond the call: the read handler's close is deferred directly
    after it was obtained -/
theorem gen_plain_read_releases :
    ["handler_read", "if(err){", "return", "}", "defer:close_handler(h)"] <:+: Csvq.Gen.fxCacheLoad := by decide

/-- the ForUpdate flag is assigned on every load, between the load and the caching of the view, and
    nowhere else -/
theorem gen_flag_set_on_every_load :
    ["load", "if(err){", "if{", "}", "if(forUpdate){", "close_handler(fileInfo.Handler)", "}", "return", "}",
     "set_forupdate(forUpdate)", "cache_set"] <:+ Csvq.Gen.fxCacheLoad ∧
    Csvq.Gen.fxCacheTail = ["if{", "}", "return"] := by decide

/-- a cached view that is loaded again is disposed first (its read-only copy cannot survive next to the
    locked one) -/
theorem gen_dispose_before_reload :
    Csvq.Gen.fxCacheLoad.take 2 = ["if(isCached){", "dispose"] := by decide

/-- the documented reload re-reads the FILE, not the table's attributes: they are defaulted from the
    statement's options only where the FileInfo is made anew, never on the reload of a cached table -/
theorem gen_reload_keeps_attributes :
    Csvq.Gen.fxCacheLoad.take 15
      = ["if(isCached){", "dispose", "if(err){", "return", "}", "defer:if(err){", "defer:cache_set", "defer:}", "}",
         "else{", "new_fileinfo", "if(err){", "return", "}", "set_default_attributes"] ∧
    (Csvq.Gen.fxCacheLoad.filter (· = "set_default_attributes")).length = 1 := by decide

/-- a reload that FAILS (lock wait time-out, cancellation, unreadable file) puts the disposed read-only view back:
    registered by `defer` directly after the dispose, so every later error return passes through it (F98: the view —
    and with it the attributes of the table's first access — used to be lost; the model's `load` returns `none`
    with the state unchanged, which is what `step` relies on for a failing statement) -/
theorem gen_failed_reload_restores_cache :
    ["dispose", "if(err){", "return", "}", "defer:if(err){", "defer:cache_set", "defer:}", "}", "else{"]
      <:+: Csvq.Gen.fxCacheLoad := by decide

/-- … and what it puts back is the view the LOOKUP found, saved before the load overwrites the function's own `view`
    (with `view` itself a reload that fails while the new contents are read would put back nothing: the table the
    transaction had loaded would be gone and the next read would show the file of the moment) -/
theorem gen_failed_reload_restores_saved_view : Csvq.Gen.restoredView = "saved_copy(view)" := by decide

/-- a load that fails under the lock gives the lock back -/
theorem gen_failed_locked_load_releases :
    ["load", "if(err){", "if{", "}", "if(forUpdate){", "close_handler(fileInfo.Handler)", "}", "return", "}"]
      <:+: Csvq.Gen.fxCacheLoad := by decide

/-- COMMIT and ROLLBACK both end by releasing the resources, which starts by clearing the cache: the next
    read of any table goes to the file (`fresh_after_commit`, `fresh_after_rollback`) -/
theorem gen_cache_cleared_at_end :
    Csvq.Gen.fxCommitCache.getLast? = some "release_resources" ∧
    Csvq.Gen.fxRollbackCache.getLast? = some "release_resources" ∧
    Csvq.Gen.fxReleaseResources.head? = some "cache_clean" ∧
    Csvq.Gen.fxReleaseResourcesWithErrors.head? = some "cache_clean" := by decide

/-! non-vacuity -/
example : (step (runOps (fresh (fun _ => some [1]))
    [.selectForUpdate 0, .other 1 [9], .dml 0 (fun l => some (2 :: l)), .other 0 [7], .select 1,
     .dml 0 (fun _ => none), .dml 0 (fun l => some (3 :: l))]) (.select 0)).2 = (.rows [3, 2, 1] : Out (List Nat)) := by
  have h0 : (runOps (fresh (fun _ => some [1])) [Op.selectForUpdate 0]).cache 0 = some ⟨[1], true⟩ := by
    simp [runOps, step, load, fresh, setFn]
  have := read_shows_loaded_plus_own_changes 0
    [.other 1 [9], .dml 0 (fun l => some (2 :: l)), .other 0 [7], .select 1,
     .dml 0 (fun _ => none), .dml 0 (fun l => some (3 :: l))]
    (by intro op h; simp at h; rcases h with rfl | rfl | rfl | rfl | rfl | rfl <;> exact id)
    (runOps (fresh (fun _ => some [1])) [Op.selectForUpdate 0]) [1] h0
  simpa [runOps, ownEffect] using this


example : (step (runOps (fresh (fun _ => some [1]))
    [.select 0, .other 0 [7, 7], .other 0 [8]]) (.select 0)).2 = (.rows [1] : Out (List Nat)) := by
  have hc : (runOps (fresh (fun _ => some [1])) [Op.select 0]).cache 0 = some ⟨[1], false⟩ := by
    simp [runOps, step, load, fresh, setFn]
  have := read_stable (runOps (fresh (fun _ => some [1])) [Op.select 0]) 0 ⟨[1], false⟩ hc
    [.other 0 [7, 7], .other 0 [8]] (by intro op h; simp at h; rcases h with rfl | rfl <;> trivial)
  simpa [runOps] using this

/-- The model lets another process commit to a file only while this transaction holds no lock on it, and a
    locked (re)load reads the disk as it is at that moment.  That is the code's behaviour only if the file is
    opened AFTER the lock has been obtained: a descriptor opened while still waiting would be the file another
    process replaces by its rename-commit.  In the regenerated NewHandlerForUpdate nothing is opened before
    the lock file exists, and the first thing after it is the open of the table. -/
theorem gen_locked_load_opens_after_lock :
    (Csvq.Gen.fxNewHandlerForUpdate.takeWhile (· != "control_file(Lock)")).all
        (fun s => s ∈ ["exists(h.path)", "if[!Exists(h.path)]{", "return", "}"]) = true
    ∧ ((Csvq.Gen.fxNewHandlerForUpdate.dropWhile (· != "control_file(Lock)")).filter
        (fun s => s ∉ ["if{", "}", "return", "release_isolated"])).take 2
        = ["control_file(Lock)", "open_exclusive(path)"] := by decide

/-- the same for a plain read: the read lock is registered before the file is opened -/
theorem gen_plain_load_opens_after_rlock :
    (Csvq.Gen.fxNewHandlerForRead.filter (fun s => s ∈ ["control_file(RLock)", "open_shared(h.path)"]))
      = ["control_file(RLock)", "open_shared(h.path)"] := by decide

end Csvq.C20
