/-
  C20 — within a transaction a loaded table is stable and shows its own changes.
  Same machine as C01 (Model/Session.lean); `Op.other p c` = another process commits `c` to file p,
  possible only while this transaction holds no lock on p.
-/
import Csvq.Props.C01
namespace Csvq.C20
open Csvq.Session

variable {C : Type}

def IsOther : Op C → Prop
  | .other _ _ => True
  | _ => False

theorem other_keeps_cache (s : State C) (op : Op C) (h : IsOther op) :
    (step s op).1.cache = s.cache ∧ (step s op).1.created = s.created ∧ (step s op).1.updated = s.updated := by
  cases op <;> try exact absurd h id
  rename_i p c
  simp only [step]; split <;> simp

theorem others_keep_cache (ops : List (Op C)) (h : ∀ op ∈ ops, IsOther op) :
    ∀ (s : State C), (runOps s ops).cache = s.cache := by
  induction ops with
  | nil => intro s; rfl
  | cons op ops ih =>
    intro s
    simp only [runOps, List.foldl_cons]
    have := ih (fun o ho => h o (List.mem_cons_of_mem _ ho)) (step s op).1
    simp only [runOps] at this
    rw [this, (other_keeps_cache s op (h op (List.mem_cons_self ..))).1]

/-- **Stable reads.** Once the transaction has loaded table p, a later plain read shows exactly the
    loaded data (plus its own changes, which live in the same cached view), whatever other
    processes commit to any file in between. -/
theorem read_stable (s : State C) (p : Path) (c : Cached C) (h : s.cache p = some c)
    (others : List (Op C)) (ho : ∀ op ∈ others, IsOther op) :
    (step (runOps s others) (.select p)).2 = .rows c.content := by
  have hc : (runOps s others).cache p = some c := by rw [others_keep_cache others ho s]; exact h
  simp [step, load, hc]

/-- a table held for update cannot be changed by another process at all -/
theorem locked_file_protected (s : State C) (p : Path) (c : C) (h : locked s p = true) :
    (step s (.other p c)).1.disk p = s.disk p ∧ (step s (.other p c)).2 = .failed := by
  simp [step, h]

/-- own changes are visible to later reads of the same transaction -/
theorem own_changes_visible (s : State C) (p : Path) (f : C → Option C) (s1 : State C) (c c' : C)
    (hl : load s p true = some (s1, c)) (hf : f c = some c') :
    (step (step s (.dml p f)).1 (.select p)).2 = .rows c' := by
  have h1 : ((step s (.dml p f)).1).cache p = some ⟨c', true⟩ := by
    simp only [step, hl, hf]; simp [setFn]
  exact C01.select_shows_view _ p ⟨c', true⟩ h1

/-- the only documented exception: the first data-changing (or FOR UPDATE) access to a table that
    was loaded by a plain SELECT reloads the current file, under the lock -/
theorem reload_exception (s : State C) (p : Path) (c : Cached C) (d : C)
    (h : s.cache p = some c) (hnu : c.forUpdate = false) (hd : s.disk p = some d) :
    (step s (.selectForUpdate p)).2 = .rows d ∧ locked (step s (.selectForUpdate p)).1 p = true := by
  simp [step, load, h, hnu, hd, locked, setFn]

/-- … and never again afterwards: a view loaded for update is not reloaded -/
theorem no_second_reload (s : State C) (p : Path) (c : Cached C)
    (h : s.cache p = some c) (hu : c.forUpdate = true) (forUpdate : Bool) :
    load s p forUpdate = some (s, c.content) := by
  simp [load, h, hu]

theorem select_uncached (s : State C) (p : Path) (h : s.cache p = none) :
    (step s (.select p)).2 = (match s.disk p with | some d => .rows d | none => .failed) := by
  cases hd : s.disk p <;> simp [step, load, h, hd]

/-- after COMMIT or ROLLBACK the next read sees the current file -/
theorem fresh_after_commit (s : State C) (p : Path) :
    (step (doCommit s) (.select p)).2 = (match (doCommit s).disk p with | some d => .rows d | none => .failed) :=
  select_uncached (doCommit s) p rfl

theorem fresh_after_rollback (s : State C) (p : Path) :
    (step (doRollback s) (.select p)).2 = (match (doRollback s).disk p with | some d => .rows d | none => .failed) :=
  select_uncached (doRollback s) p rfl

/-! non-vacuity -/
example : (step (runOps (fresh (fun _ => some [1]))
    [.select 0, .other 0 [7, 7], .other 0 [8]]) (.select 0)).2 = (.rows [1] : Out (List Nat)) := by
  have hc : (runOps (fresh (fun _ => some [1])) [Op.select 0]).cache 0 = some ⟨[1], false⟩ := by
    simp [runOps, step, load, fresh, setFn]
  have := read_stable (runOps (fresh (fun _ => some [1])) [Op.select 0]) 0 ⟨[1], false⟩ hc
    [.other 0 [7, 7], .other 0 [8]] (by intro op h; simp at h; rcases h with rfl | rfl <;> trivial)
  simpa [runOps] using this

end Csvq.C20
